(* C04, periodic half (and the core of C08 lower_periodic): knot insertion into a PERIODIC basis.

   Model: Model/KnotInsert.v basis_insert_knot (transcription of BSplineBasis.insert_knot): wrap the knot into
   the domain, mu by bisect_right, the (n+1) x n matrix with row index i mod (n+1) and column index i mod n,
   insert the knot, then repair the ghost knots (repair_right when mu <= p + r, repair_left when
   mu >= m - p - r - 1 = n + 1, r = per1 - 1 the periodic continuity).

   Contents
     Part 1  boehm_sum_gen / boehm_sum
                                 Boehm's identity summed against arbitrary coefficients, with the two boundary terms
     Part 2  insert_matrix_entries_per
                                 the cells of the matrix the model writes, WITH the modular indices
     Part 3  canonical periodic knot lists (per_canon) and the three cases of the model
               interior   (p + per1 <= mu <= n)      no repair, one Boehm step, every t
               right      (p <= mu <= p + per1 - 1)  repair_right, two Boehm steps (x and x + T), t before the end
               left       (n + 1 <= mu <= n + per1)  repair_left, two Boehm steps (x - T and x), first knot dropped,
                                                     t after the start
     Part 4  basis_insert_knot_periodic, basis_insert_knot_periodic_interior,
             insert_knot_periodic_interior_preserves_map, insert_knot_periodic_preserves_map (tsum_apply_dir);
             non-vacuity: ex_canon (cubic, 8 functions, continuity 2), ex_interior / ex_right / ex_left
     Part 5  spec level, knot functions: periodic_boehm_exact / periodic_boehm (all images x + a T, a >= 0)
     Part 6  one step of lower_periodic: roll_drop, roll_row_rel, lower_periodic_step_preserves_map,
             obj_lower_periodic_step, lower_step_canon
   Regularity: n >= p + per1 - 1 = order + continuity functions (below this the repair loops overlap and the
   implementation changes the map: Properties/C04.v C04_insert_knot_periodic_small_refuted; confirmed on the Python
   code: no failure in 40 random insertions per (p, cont, n) for n >= p + cont, failures for smaller n). *)
From Coq Require Import List Arith Reals Lra Lia Bool ZArith.
From SplipyModel Require Import Spec.BSpline Spec.Boehm Spec.Deriv Model.Num Model.BasisDef Model.BasisEval Model.Tensor Model.Obj
  Model.KnotInsert Model.Split Model.Periodic Proofs.KnotList Proofs.Bridge Proofs.SpanCorrect Proofs.TensorLemmas Proofs.EvaluateSpec Proofs.EvalConsequences
  Proofs.InsertMatrix Proofs.TensorApply Proofs.InsertObj Proofs.InsertEndToEnd Proofs.AppendProofs Proofs.SeamContinuity.
Import ListNotations.
Open Scope R_scope.

(* ------------------------------------------------------------------------------------------------ *)
(* Part 0: small tools                                                                              *)
(* ------------------------------------------------------------------------------------------------ *)
Lemma sumf_indicator (h : nat -> R) a m : (a < m)%nat ->
  sumf (fun r => if (a =? r)%nat then h r else 0) 0 m = h a.
Proof.
  induction m as [|m IH]; intros Ha; [lia|]. rewrite sumf_snoc. cbn [Nat.add].
  destruct (Nat.eq_dec a m) as [->|Ne].
  - rewrite Nat.eqb_refl. rewrite sumf_zero; [ring|].
    intros i Hi. destruct (Nat.eqb_spec m i); [lia|reflexivity].
  - rewrite IH by lia. destruct (Nat.eqb_spec a m); [lia|ring].
Qed.

(* summing the wrapped images first and applying g to the class afterwards = applying g to the class of every index *)
Lemma sumf_wrap_swap (f g : nat -> R) m N : (1 <= m)%nat ->
  sumf (fun r => sumf (fun i => if (i mod m =? r)%nat then f i else 0) 0 N * g r) 0 m
  = sumf (fun i => f i * g (i mod m)%nat) 0 N.
Proof.
  intros Hm. induction N as [|N IH].
  - cbn [sumf]. apply sumf_zero. intros; ring.
  - rewrite sumf_snoc. cbn [Nat.add]. rewrite <- IH.
    rewrite <- (sumf_indicator (fun r => f N * g r) (N mod m) m) by (apply Nat.mod_upper_bound; lia).
    rewrite <- sumf_plus. apply sumf_ext. intros r _.
    rewrite sumf_snoc. cbn [Nat.add]. destruct (N mod m =? r)%nat; ring.
Qed.

Lemma mod_lt2 i n : (n <= i < 2 * n)%nat -> (i mod n = i - n)%nat.
Proof.
  intros H. replace i with ((i - n) + 1 * n)%nat at 1 by lia.
  rewrite Nat.mod_add by lia. apply Nat.mod_small. lia.
Qed.

(* kn of a list with one value inserted is Boehm's k' (no side condition on mu other than mu <= length) *)
Lemma kn_insert_at_gen (k : list R) mu x j : (mu <= length k)%nat -> (j <= length k)%nat ->
  @kn R NumR (insert_at k mu x) j = k' (@kn R NumR k) mu x j.
Proof.
  intros Hm Hj. unfold k', insert_at.
  assert (Hl : length (firstn mu k) = mu) by (apply firstn_length_le; exact Hm).
  unfold kn at 1.
  destruct (Nat.ltb_spec j mu) as [A|A].
  - rewrite app_nth1 by (rewrite Hl; exact A). rewrite InsertMatrix.nth_firstn_lt by exact A.
    unfold kn. apply nth_indep. lia.
  - rewrite app_nth2 by (rewrite Hl; exact A). rewrite Hl.
    destruct (Nat.eqb_spec j mu) as [->|N].
    + rewrite Nat.sub_diag. reflexivity.
    + replace (j - mu)%nat with (S (j - mu - 1)) by lia. cbn [nth].
      rewrite InsertMatrix.nth_skipn_add. replace (mu + (j - mu - 1))%nat with (j - 1)%nat by lia.
      unfold kn. apply nth_indep. lia.
Qed.

(* the model's reference row on R: column c is the sum of the B-splines i = c (mod n) *)
Lemma ref_row_R side (k : list R) p per1 t :
  @ref_row R NumR side k p per1 0 t
  = map (fun c => sumf (fun i => if (i mod (length k - p - per1) =? c)%nat then B side (@kn R NumR k) (p - 1) i t else 0)
                       0 (length k - p))
        (seq 0 (length k - p - per1)).
Proof.
  unfold ref_row. cbv zeta. apply map_ext. intros c. cbn [nadd n0 NumR].
  rewrite (fold_cond_sum (fun i => (i mod (length k - p - per1) =? c)%nat)
             (fun i => @dBq R NumR side (kn k) 0 (p - 1) i t)).
  rewrite Rplus_0_l. apply sumf_ext. intros i _. destruct (_ =? _)%nat; [|reflexivity].
  rewrite dBq_R. reflexivity.
Qed.

Lemma ref_row_length side (k : list R) p per1 t :
  length (@ref_row R NumR side k p per1 0 t) = (length k - p - per1)%nat.
Proof. rewrite ref_row_R, map_length, seq_length. reflexivity. Qed.

Lemma ref_row_nth side (k : list R) p per1 t c : (c < length k - p - per1)%nat ->
  nth c (@ref_row R NumR side k p per1 0 t) 0
  = sumf (fun i => if (i mod (length k - p - per1) =? c)%nat then B side (@kn R NumR k) (p - 1) i t else 0) 0 (length k - p).
Proof.
  intros Hc. rewrite ref_row_R.
  rewrite (nth_map_gen _ _ c 0 0%nat) by (rewrite seq_length; exact Hc). rewrite seq_nth by exact Hc. reflexivity.
Qed.

(* ------------------------------------------------------------------------------------------------ *)
(* Part 1: Boehm's identity summed against coefficients                                             *)
(* ------------------------------------------------------------------------------------------------ *)
Section BoehmSum.
Variable side : bool.
Variable K : nat -> R.
Hypothesis HK : sorted K.
Variable mu : nat.
Variable x : R.
Hypothesis Hmu : (1 <= mu)%nat.
Hypothesis Hx1 : K (mu - 1)%nat <= x.
Hypothesis Hx2 : x < K mu.
Variable q : nat.
Variable c : nat -> R.

(* the new coefficients: Boehm's convex combination with the clipped ratios *)
Definition bcoef (i : nat) : R := alpha K mu x q i * c i + (1 - alpha K mu x q i) * c (i - 1)%nat.

Lemma boehm_sum_gen t N :
  sumf (fun i => c i * B side K q i t) 0 N
  + (1 - alpha K mu x q 0) * c 0%nat * B side (k' K mu x) q 0 t
  + alpha K mu x q N * c N * B side (k' K mu x) q N t
  = sumf (fun i => bcoef i * B side (k' K mu x) q i t) 0 (S N).
Proof.
  induction N as [|N IH].
  - cbn [sumf]. unfold bcoef. cbn [Nat.sub]. ring.
  - rewrite (sumf_snoc _ 0 (S N)). rewrite <- IH. rewrite (sumf_snoc _ 0 N). cbn [Nat.add].
    rewrite (boehm side K HK mu x Hmu Hx1 Hx2 q N t).
    unfold bcoef. replace (S N - 1)%nat with N by lia. replace (N + 1)%nat with (S N) by lia. ring.
Qed.

(* no boundary terms when the first function is not touched (q < mu) or vanishes at t, and the last one is beyond mu
   or vanishes at t *)
Lemma boehm_sum t N :
  (q < mu)%nat \/ B side (k' K mu x) q 0 t = 0 ->
  (mu <= N)%nat \/ B side (k' K mu x) q N t = 0 ->
  sumf (fun i => c i * B side K q i t) 0 N = sumf (fun i => bcoef i * B side (k' K mu x) q i t) 0 (S N).
Proof.
  intros H0 HN. rewrite <- boehm_sum_gen.
  assert (E0 : (1 - alpha K mu x q 0) * c 0%nat * B side (k' K mu x) q 0 t = 0).
  { destruct H0 as [H0|H0]; [rewrite (alpha_one K mu x Hmu q 0) by lia; ring|rewrite H0; ring]. }
  assert (EN : alpha K mu x q N * c N * B side (k' K mu x) q N t = 0).
  { destruct HN as [HN|HN]; [rewrite (alpha_zero K mu x Hmu q N) by lia; ring|rewrite HN; ring]. }
  rewrite E0, EN. ring.
Qed.
End BoehmSum.

(* ------------------------------------------------------------------------------------------------ *)
(* Part 2: the cells of the matrix, with the modular indices                                        *)
(* ------------------------------------------------------------------------------------------------ *)
Lemma lookup_from_pairs_none z (l : list nat) (ga gb : nat -> nat * nat * R) r c :
  (forall i, In i l -> snd (fst (ga i)) <> c /\ snd (fst (gb i)) <> c) ->
  lookup_from z (flat_map (fun i => [ga i; gb i]) l) r c = z.
Proof.
  intros H. apply lookup_from_nomatch. intros a Ha. apply in_flat_map in Ha. destruct Ha as (i & Hi & Ha).
  destruct (H i Hi) as [H1 H2]. cbn [In] in Ha. destruct Ha as [<-|[<-|[]]]; tauto.
Qed.

Lemma lookup_from_pairs z (l : list nat) (ga gb : nat -> nat * nat * R) r c i0 :
  NoDup l -> In i0 l ->
  snd (fst (ga i0)) = c -> snd (fst (gb i0)) = c -> fst (fst (ga i0)) <> fst (fst (gb i0)) ->
  (forall i, In i l -> i <> i0 -> snd (fst (ga i)) <> c /\ snd (fst (gb i)) <> c) ->
  lookup_from z (flat_map (fun i => [ga i; gb i]) l) r c
  = if (r =? fst (fst (ga i0)))%nat then snd (ga i0) else if (r =? fst (fst (gb i0)))%nat then snd (gb i0) else z.
Proof.
  revert z. induction l as [|a l IH]; intros z ND Hin Ca Cb Hrow Hoth; [contradiction|].
  apply NoDup_cons_iff in ND. destruct ND as [Hna ND'].
  cbn [flat_map]. rewrite lookup_from_app.
  destruct (Nat.eq_dec a i0) as [->|Ne].
  - rewrite (lookup_from_pairs_none _ l ga gb r c).
    2:{ intros i Hi. apply Hoth; [right; exact Hi|]. intros ->. contradiction. }
    cbn [lookup_from fold_left]. rewrite Ca, Cb, !Nat.eqb_refl, !andb_true_r.
    destruct (Nat.eqb_spec (fst (fst (ga i0))) r) as [E1|E1]; destruct (Nat.eqb_spec (fst (fst (gb i0))) r) as [E2|E2].
    + congruence.
    + destruct (Nat.eqb_spec r (fst (fst (ga i0)))); [reflexivity|congruence].
    + destruct (Nat.eqb_spec r (fst (fst (ga i0)))); [congruence|]. destruct (Nat.eqb_spec r (fst (fst (gb i0)))); [reflexivity|congruence].
    + destruct (Nat.eqb_spec r (fst (fst (ga i0)))); [congruence|]. destruct (Nat.eqb_spec r (fst (fst (gb i0)))); [congruence|reflexivity].
  - destruct Hin as [Hin|Hin]; [contradiction|].
    destruct (Hoth a (or_introl eq_refl) Ne) as [H1 H2].
    assert (E : lookup_from z [ga a; gb a] r c = z).
    { apply lookup_from_nomatch. intros w Hw. cbn [In] in Hw. destruct Hw as [<-|[<-|[]]]; tauto. }
    rewrite E. apply IH; auto. intros i Hi Hne. apply Hoth; [right; exact Hi|exact Hne].
Qed.

Section Entries.
Variable k : list R.
Variables (p n mu : nat) (x : R).
Local Notation K := (@kn R NumR k).
Hypothesis Hp : (1 <= p)%nat.
Hypothesis Hpn : (p <= n)%nat.
Hypothesis Hmu : (p <= mu)%nat.
Hypothesis Hmu2 : (mu < n + p)%nat.

Definition z1 (r c : nat) : R := if (c <? mu - p)%nat && (r =? c)%nat then 1 else 0.

Theorem insert_matrix_entries_per r c : (r <= n)%nat -> (c < n)%nat ->
  @lookup_last R NumR (@insert_writes R NumR k p n mu x) r c =
    if (mu <=? r)%nat && (r =? c + 1)%nat then 1
    else if (mu - p <=? c)%nat && (c <? mu)%nat then
      (if (r =? c)%nat then a_entry k p x c else if (r =? c + 1)%nat then b_entry k p x c else z1 r c)
    else if (mu - p <=? c + n)%nat && (c + n <? mu)%nat then
      (if (r =? (c + n) mod (n + 1))%nat then a_entry k p x (c + n) else if (r =? c)%nat then b_entry k p x (c + n) else z1 r c)
    else z1 r c.
Proof.
  intros Hr Hc. rewrite lookup_last_from. unfold insert_writes. cbv zeta.
  rewrite !lookup_from_app.
  set (W1 := map _ (seq 0 (mu - p))).
  set (W3 := map _ (seq mu (n + 1 - mu))).
  pose (ga := fun i : nat => ((i mod (n + 1))%nat, (i mod n)%nat, a_entry k p x i)).
  pose (gb := fun i : nat => (((i + 1) mod (n + 1))%nat, (i mod n)%nat, b_entry k p x i)).
  change (flat_map _ (seq (mu - p) p)) with (flat_map (fun i => [ga i; gb i]) (seq (mu - p) p)).
  (* loop 1 *)
  assert (L1 : lookup_from 0 W1 r c = z1 r c).
  { unfold z1. destruct (Nat.ltb_spec c (mu - p)) as [A|A]; cbn [andb].
    - destruct (Nat.eqb_spec r c) as [->|N].
      + unfold W1. rewrite (lookup_from_single 0 (seq 0 (mu - p)) _ c c c); [reflexivity|apply seq_NoDup|apply in_seq; lia| | |].
        * cbn [fst]. apply Nat.mod_small. lia.
        * cbn [fst snd]. apply Nat.mod_small. lia.
        * intros i Hi Hne [E1 _]. apply in_seq in Hi. cbn [fst] in E1. rewrite Nat.mod_small in E1 by lia. lia.
      + apply lookup_from_nomatch. intros a Ha. apply in_map_iff in Ha. destruct Ha as (i & <- & Hi). apply in_seq in Hi.
        cbn [fst snd]. rewrite !Nat.mod_small by lia. lia.
    - apply lookup_from_nomatch. intros a Ha. apply in_map_iff in Ha. destruct Ha as (i & <- & Hi). apply in_seq in Hi.
      cbn [fst snd]. rewrite !Nat.mod_small by lia. lia. }
  rewrite L1. clear L1.
  (* loop 2 *)
  assert (Hcol : forall i, (mu - p <= i < mu)%nat -> (i mod n)%nat = c -> i = c \/ i = (c + n)%nat).
  { intros i Hi E. destruct (Nat.lt_ge_cases i n) as [L|L].
    - rewrite Nat.mod_small in E by exact L. left; exact E.
    - rewrite mod_lt2 in E by lia. right; lia. }
  assert (L2 : lookup_from (z1 r c) (flat_map (fun i => [ga i; gb i]) (seq (mu - p) p)) r c =
    if (mu - p <=? c)%nat && (c <? mu)%nat then
      (if (r =? c)%nat then a_entry k p x c else if (r =? c + 1)%nat then b_entry k p x c else z1 r c)
    else if (mu - p <=? c + n)%nat && (c + n <? mu)%nat then
      (if (r =? (c + n) mod (n + 1))%nat then a_entry k p x (c + n) else if (r =? c)%nat then b_entry k p x (c + n) else z1 r c)
    else z1 r c).
  { destruct (Nat.leb_spec (mu - p) c) as [A1|A1]; [destruct (Nat.ltb_spec c mu) as [A2|A2]|]; cbn [andb].
    - (* i0 = c *)
      rewrite (lookup_from_pairs _ (seq (mu - p) p) ga gb r c c); [|apply seq_NoDup|apply in_seq; lia| | | |].
      + unfold ga, gb. cbn [fst snd]. rewrite (Nat.mod_small c (n + 1)) by lia. rewrite (Nat.mod_small (c + 1) (n + 1)) by lia. reflexivity.
      + unfold ga. cbn [fst snd]. apply Nat.mod_small. exact Hc.
      + unfold gb. cbn [fst snd]. apply Nat.mod_small. exact Hc.
      + unfold ga, gb. cbn [fst snd]. rewrite (Nat.mod_small c (n + 1)) by lia. rewrite (Nat.mod_small (c + 1) (n + 1)) by lia. lia.
      + intros i Hi Hne. apply in_seq in Hi. unfold ga, gb. cbn [fst snd].
        assert (i mod n <> c)%nat; [|tauto]. intros E. destruct (Hcol i ltac:(lia) E); lia.
    - (* mu <= c: then c + n >= mu as well *)
      destruct (Nat.leb_spec (mu - p) (c + n)); destruct (Nat.ltb_spec (c + n) mu); cbn [andb]; try lia;
      (apply lookup_from_pairs_none; intros i Hi; apply in_seq in Hi; unfold ga, gb; cbn [fst snd];
       assert (i mod n <> c)%nat; [|tauto]; intros E; destruct (Hcol i ltac:(lia) E); lia).
    - destruct (Nat.leb_spec (mu - p) (c + n)) as [B1|B1]; [destruct (Nat.ltb_spec (c + n) mu) as [B2|B2]|]; cbn [andb].
      + (* i0 = c + n *)
        assert (Em : ((c + n) mod n = c)%nat) by (rewrite mod_lt2 by lia; lia).
        assert (Er : ((c + n + 1) mod (n + 1) = c)%nat).
        { replace (c + n + 1)%nat with (c + 1 * (n + 1))%nat by lia. rewrite Nat.mod_add by lia. apply Nat.mod_small. lia. }
        rewrite (lookup_from_pairs _ (seq (mu - p) p) ga gb r c (c + n)); [|apply seq_NoDup|apply in_seq; lia| | | |].
        * unfold ga, gb. cbn [fst snd]. rewrite Er. reflexivity.
        * unfold ga. cbn [fst snd]. exact Em.
        * unfold gb. cbn [fst snd]. exact Em.
        * unfold ga, gb. cbn [fst snd]. rewrite Er.
          destruct (Nat.eq_dec c 0) as [->|Nz].
          -- cbn [Nat.add]. rewrite Nat.mod_small by lia. lia.
          -- replace (c + n)%nat with ((c - 1) + 1 * (n + 1))%nat by lia. rewrite Nat.mod_add by lia.
             rewrite Nat.mod_small by lia. lia.
        * intros i Hi Hne. apply in_seq in Hi. unfold ga, gb. cbn [fst snd].
          assert (i mod n <> c)%nat; [|tauto]. intros E. destruct (Hcol i ltac:(lia) E); lia.
      + apply lookup_from_pairs_none. intros i Hi. apply in_seq in Hi. unfold ga, gb. cbn [fst snd].
        assert (i mod n <> c)%nat; [|tauto]. intros E. destruct (Hcol i ltac:(lia) E); lia.
      + apply lookup_from_pairs_none. intros i Hi. apply in_seq in Hi. unfold ga, gb. cbn [fst snd].
        assert (i mod n <> c)%nat; [|tauto]. intros E. destruct (Hcol i ltac:(lia) E); lia. }
  rewrite L2. clear L2.
  (* loop 3 *)
  set (z2 := if (mu - p <=? c)%nat && (c <? mu)%nat then _ else _).
  destruct (Nat.leb_spec mu r) as [A|A]; cbn [andb].
  - destruct (Nat.eqb_spec r (c + 1)) as [E|E].
    + unfold W3. rewrite (lookup_from_single z2 (seq mu (n + 1 - mu)) _ r c r); [reflexivity|apply seq_NoDup|apply in_seq; lia| | |].
      * cbn [fst]. apply Nat.mod_small. lia.
      * cbn [fst snd]. rewrite Nat.mod_small by lia. lia.
      * intros i Hi Hne [E1 _]. apply in_seq in Hi. cbn [fst] in E1. rewrite Nat.mod_small in E1 by lia. lia.
    + apply lookup_from_nomatch. intros a Ha. apply in_map_iff in Ha. destruct Ha as (i & <- & Hi). apply in_seq in Hi.
      cbn [fst snd]. rewrite (Nat.mod_small i) by lia. rewrite (Nat.mod_small (i - 1)) by lia. lia.
  - apply lookup_from_nomatch. intros a Ha. apply in_map_iff in Ha. destruct Ha as (i & <- & Hi). apply in_seq in Hi.
    cbn [fst snd]. rewrite (Nat.mod_small i) by lia. lia.
Qed.
End Entries.

(* ------------------------------------------------------------------------------------------------ *)
(* Part 3: canonical periodic knot lists and the model's insert_knot                                *)
(* ------------------------------------------------------------------------------------------------ *)
(* p = order, per1 = continuity + 1 >= 1, n = number of (periodic) functions, T = period.
   The list has n + per1 + p knots, every knot i + n is the exact image of knot i, the start knot
   kn k (p-1) has multiplicity p - per1 (kn k per1 = kn k (p-1)), and the basis is REGULAR: n >= p + per1 - 1. *)
Definition per_canon (k : list R) (p per1 n : nat) (T : R) : Prop :=
  sorted (@kn R NumR k) /\ (1 <= per1)%nat /\ (per1 + 1 <= p)%nat /\ length k = (n + per1 + p)%nat /\
  (p + per1 - 1 <= n)%nat /\ 0 < T /\ @kn R NumR k per1 = @kn R NumR k (p - 1) /\
  (forall i, (i + n < length k)%nat -> @kn R NumR k (i + n) = @kn R NumR k i + T).

Definition ind (a b : nat) : R := if (a =? b)%nat then 1 else 0.
Lemma ind_eq a : ind a a = 1. Proof. unfold ind. rewrite Nat.eqb_refl. reflexivity. Qed.
Lemma ind_ne a b : a <> b -> ind a b = 0. Proof. intros H. unfold ind. destruct (Nat.eqb_spec a b); [contradiction|reflexivity]. Qed.
(* the coefficient vector "1 on the class of j": e n j i = [i = j mod n] *)
Definition ej (n j i : nat) : R := ind (i mod n) j.

Lemma kn_nth (k : list R) i : (i < length k)%nat -> @kn R NumR k i = nth i k 0.
Proof. intros H. unfold kn. apply nth_indep. exact H. Qed.

(* the general shape of a row relation from the column identities on unwrapped indices *)
Lemma row_rel_from_cols (k knew : list R) p per1 n W side t :
  length k = (n + per1 + p)%nat -> length knew = S (length k) ->
  (forall j, (j < n)%nat ->
     sumf (fun i => ej n j i * B side (@kn R NumR k) (p - 1) i t) 0 (n + per1)
     = sumf (fun i => @lookup_last R NumR W (i mod (n + 1)) j * B side (@kn R NumR knew) (p - 1) i t) 0 (n + per1 + 1)) ->
  row_rel (@ref_row R NumR side k p per1 0 t) (@ref_row R NumR side knew p per1 0 t) (@mat_of_writes R NumR (n + 1) n W).
Proof.
  intros Hl Hl' Hcol. unfold row_rel. rewrite !ref_row_length.
  replace (length k - p - per1)%nat with n by lia. replace (length knew - p - per1)%nat with (n + 1)%nat by lia.
  split; [unfold mat_of_writes; rewrite map_length, seq_length; reflexivity|]. split.
  - apply Forall_forall. intros row Hin. unfold mat_of_writes in Hin. apply in_map_iff in Hin.
    destruct Hin as (r & <- & _). rewrite map_length, seq_length. reflexivity.
  - intros j Hj. rewrite ref_row_nth by lia.
    replace (length k - p - per1)%nat with n by lia. replace (length k - p)%nat with (n + per1)%nat by lia.
    transitivity (sumf (fun i => ej n j i * B side (@kn R NumR k) (p - 1) i t) 0 (n + per1)).
    { apply sumf_ext. intros i _. unfold ej, ind. destruct (_ =? _)%nat; ring. }
    rewrite (Hcol j Hj).
    transitivity (sumf (fun r => sumf (fun i => if (i mod (n + 1) =? r)%nat then B side (@kn R NumR knew) (p - 1) i t else 0) 0 (n + per1 + 1)
                                 * @lookup_last R NumR W r j) 0 (n + 1)).
    { rewrite sumf_wrap_swap by lia. apply sumf_ext. intros i _. ring. }
    apply sumf_ext. intros r Hr. rewrite ref_row_nth by lia.
    replace (length knew - p - per1)%nat with (n + 1)%nat by lia. replace (length knew - p)%nat with (n + per1 + 1)%nat by lia.
    rewrite nth_mat_of_writes by lia. reflexivity.
Qed.

(* in-place loops  kk[wb + i] = g (kk[rb + i]),  i = a .. a+len-1, whose reads are never overwritten *)
Lemma fold_upd_spec (g : R -> R) wb rb : forall len a (kk : list R),
  (wb + a + len <= length kk)%nat -> (rb + a + len <= length kk)%nat ->
  (forall i j, (a <= i < a + len)%nat -> (a <= j < a + len)%nat -> (wb + i <> rb + j)%nat) ->
  let res := fold_left (fun kk i => upd kk (wb + i) (g (@kn R NumR kk (rb + i)))) (seq a len) kk in
  length res = length kk /\
  forall idx, (idx < length kk)%nat ->
    nth idx res 0 = if (wb + a <=? idx)%nat && (idx <? wb + a + len)%nat then g (nth (rb + (idx - wb)) kk 0) else nth idx kk 0.
Proof.
  induction len as [|len IH]; intros a kk Hw Hr Hdis; cbv zeta.
  - cbn [seq fold_left]. split; [reflexivity|]. intros idx Hi.
    destruct (Nat.leb_spec (wb + a) idx); destruct (Nat.ltb_spec idx (wb + a + 0)); cbn [andb]; try reflexivity; lia.
  - cbn [seq fold_left].
    set (kk1 := upd kk (wb + a) (g (@kn R NumR kk (rb + a)))).
    assert (L1 : length kk1 = length kk) by apply InsertEndToEnd.upd_length.
    destruct (IH (S a) kk1) as [IL IN]; [lia|lia|intros i j Hi Hj; apply Hdis; lia|]. cbv zeta in IL, IN.
    split; [rewrite IL; exact L1|].
    intros idx Hi. rewrite IN by lia.
    destruct (Nat.leb_spec (wb + S a) idx) as [A|A]; [destruct (Nat.ltb_spec idx (wb + S a + len)) as [A2|A2]|]; cbn [andb].
    + destruct (Nat.leb_spec (wb + a) idx); [|lia]. destruct (Nat.ltb_spec idx (wb + a + S len)); [|lia]. cbn [andb].
      f_equal. unfold kk1. apply InsertEndToEnd.upd_nth_other.
      intros E. apply (Hdis a (a + (idx - wb - a))%nat); lia.
    + destruct (Nat.ltb_spec idx (wb + a + S len)); [lia|]. rewrite andb_false_r.
      unfold kk1. apply InsertEndToEnd.upd_nth_other. lia.
    + destruct (Nat.eq_dec idx (wb + a)) as [->|Ne].
      * destruct (Nat.leb_spec (wb + a) (wb + a)); [|lia]. destruct (Nat.ltb_spec (wb + a) (wb + a + S len)); [|lia]. cbn [andb].
        unfold kk1. rewrite InsertEndToEnd.upd_nth_same by lia.
        f_equal. replace (wb + a - wb)%nat with a by lia. apply kn_nth. lia.
      * destruct (Nat.leb_spec (wb + a) idx); [lia|]. cbn [andb].
        unfold kk1. apply InsertEndToEnd.upd_nth_other. exact Ne.
Qed.

Section Canon.
Variable k : list R.
Variables (p per1 n : nat) (T : R).
Hypothesis Hcan : per_canon k p per1 n T.
Local Notation K := (@kn R NumR k).
Local Notation q := (p - 1)%nat.
Local Notation r := (per1 - 1)%nat.
Let HK : sorted K := proj1 Hcan.
Let Hper1 : (1 <= per1)%nat := proj1 (proj2 Hcan).
Let Hpp : (per1 + 1 <= p)%nat := proj1 (proj2 (proj2 Hcan)).
Let Hlen : length k = (n + per1 + p)%nat := proj1 (proj2 (proj2 (proj2 Hcan))).
Let Hreg : (p + per1 - 1 <= n)%nat := proj1 (proj2 (proj2 (proj2 (proj2 Hcan)))).
Let HT : 0 < T := proj1 (proj2 (proj2 (proj2 (proj2 (proj2 Hcan))))).
Let Hseam : K per1 = K (p - 1)%nat := proj1 (proj2 (proj2 (proj2 (proj2 (proj2 (proj2 Hcan)))))).
Let Himg : forall i, (i + n < length k)%nat -> K (i + n)%nat = K i + T := proj2 (proj2 (proj2 (proj2 (proj2 (proj2 (proj2 Hcan)))))).

Lemma canon_start : @b_start R NumR (mkBasis p k per1) = K (p - 1)%nat.
Proof. reflexivity. Qed.
Lemma canon_end : @b_end R NumR (mkBasis p k per1) = K (n + per1)%nat.
Proof. unfold b_end. cbn [b_knots b_order]. f_equal. lia. Qed.
Lemma canon_period : K (n + per1)%nat = K (p - 1)%nat + T.
Proof. replace (n + per1)%nat with (per1 + n)%nat by lia. rewrite Himg by lia. rewrite Hseam. reflexivity. Qed.

Variable x : R.
Hypothesis Hx : K (p - 1)%nat <= x < K (n + per1)%nat.       (* start <= x < end *)
Local Notation mu := (@py_bisect_right R NumR k x).
Local Notation knew0 := (insert_at k mu x).
Local Notation Wr := (@insert_writes R NumR k p n mu x).
Local Notation Cmat := (@mat_of_writes R NumR (n + 1) n Wr).
Local Notation al := (alpha K mu x q).

Lemma mu_bracket_per : (p <= mu <= n + per1)%nat /\ K (mu - 1)%nat <= x < K mu.
Proof.
  unfold py_bisect_right.
  destruct (bisect_right_spec K HK x (length k)) as (A & Bm & Cm). cbv zeta in *.
  set (m0 := @bisect_right R NumR K x (length k)) in *.
  assert (R1 : (m0 <= n + per1)%nat).
  { destruct (Nat.le_gt_cases m0 (n + per1)); [assumption|]. pose proof (Bm (n + per1)%nat ltac:(lia)). lra. }
  assert (R2 : (p <= m0)%nat).
  { destruct (Nat.le_gt_cases p m0); [assumption|]. pose proof (Cm (p - 1)%nat ltac:(lia)). lra. }
  split; [lia|]. split; [apply Bm; lia|apply Cm; lia].
Qed.

(* what the model returns: the matrix and the (possibly repaired) knot list *)
Lemma insert_knot_unfold :
  @basis_insert_knot R NumR (mkBasis p k per1) x
  = Ok (mkBasis p (if (mu <=? p + r)%nat then @repair_right R NumR knew0 (length knew0) p r
                   else if (length knew0 - p - r - 1 <=? mu)%nat then @repair_left R NumR knew0 (length knew0) p r
                   else knew0) per1, Cmat).
Proof.
  destruct mu_bracket_per as [Hmu Hbr].
  unfold basis_insert_knot, wrap_knot. rewrite canon_start, canon_end. unfold b_nfun. cbn [b_per1 b_order b_knots].
  destruct (Nat.eqb_spec per1 0) as [E|_]; [lia|]. cbn [negb].
  cbn [nltb nleb NumR]. destruct (Rltb_spec x (K (p - 1)%nat)) as [A1|A1]; [lra|]. destruct (Rleb_spec (K (n + per1)%nat) x) as [A2|A2]; [lra|]. cbn [orb].
  replace (length k - p - per1)%nat with n by lia.
  match goal with |- (if negb (forallb ?f ?l) then _ else _) = _ => assert (E : forallb f l = true) end.
  { apply forallb_forall. intros i Hi. apply in_seq in Hi.
    repeat (apply andb_true_iff; split).
    - apply Nat.ltb_lt. lia.
    - destruct (Rleb_spec (K (i + p - 1)%nat) x) as [L|L]; [apply Nat.ltb_lt|reflexivity].
      assert (i + p - 1 < mu)%nat; [|lia].
      destruct (Nat.lt_ge_cases (i + p - 1) mu); [assumption|]. pose proof (HK mu (i + p - 1)%nat ltac:(lia)). lra.
    - destruct (Rleb_spec (K i) x); [apply Nat.ltb_lt; lia|reflexivity].
    - destruct (_ && _); [reflexivity|apply Nat.ltb_lt; lia]. }
  rewrite E. cbn [negb]. reflexivity.
Qed.

Lemma knew0_length : length knew0 = (n + per1 + p + 1)%nat.
Proof. rewrite insert_at_length. lia. Qed.

(* the entries of the matrix in Boehm's form as long as mu <= n (all modular indices are identities) *)
Lemma entries_diag r0 c : (mu <= n)%nat -> (r0 <= n)%nat -> (c < n)%nat ->
  @lookup_last R NumR Wr r0 c = ind r0 c * al c + ind r0 (c + 1) * (1 - al (c + 1)).
Proof.
  intros Hmn Hr Hc. destruct mu_bracket_per as [Hmu Hbr].
  assert (Hmu1 : (1 <= mu)%nat) by lia.
  rewrite (insert_matrix_entries_per k p n mu x ltac:(lia) ltac:(lia) ltac:(lia) ltac:(lia) r0 c Hr Hc).
  destruct (Nat.leb_spec mu r0) as [A|A]; [destruct (Nat.eqb_spec r0 (c + 1)) as [E|E]|]; cbn [andb].
  - subst r0. rewrite ind_ne by lia. rewrite ind_eq. rewrite (alpha_zero K mu x Hmu1 q (c + 1)) by lia. ring.
  - destruct (Nat.leb_spec (mu - p) c) as [B1|B1]; [destruct (Nat.ltb_spec c mu) as [B2|B2]|]; cbn [andb].
    + destruct (Nat.eqb_spec r0 c); [lia|]. destruct (Nat.eqb_spec r0 (c + 1)); [lia|].
      unfold z1. destruct (Nat.ltb_spec c (mu - p)); [lia|]. cbn [andb]. rewrite !ind_ne by lia. ring.
    + destruct (Nat.leb_spec (mu - p) (c + n)); destruct (Nat.ltb_spec (c + n) mu); cbn [andb]; try lia.
      unfold z1. destruct (Nat.ltb_spec c (mu - p)); [lia|]. cbn [andb].
      rewrite (ind_ne r0 (c + 1)) by lia. rewrite (alpha_zero K mu x Hmu1 q c) by lia. ring.
    + destruct (Nat.leb_spec (mu - p) (c + n)); destruct (Nat.ltb_spec (c + n) mu); cbn [andb]; try lia.
      unfold z1. destruct (Nat.eqb_spec r0 c); [lia|]. rewrite andb_false_r. rewrite !ind_ne by lia. ring.
  - destruct (Nat.leb_spec (mu - p) c) as [B1|B1]; [destruct (Nat.ltb_spec c mu) as [B2|B2]|]; cbn [andb].
    + rewrite (a_entry_alpha k p mu x HK ltac:(lia) ltac:(lia) Hbr c) by lia.
      rewrite (b_entry_alpha k p mu x HK ltac:(lia) ltac:(lia) Hbr c) by lia.
      destruct (Nat.eqb_spec r0 c) as [->|N1].
      * rewrite ind_eq, ind_ne by lia. ring.
      * destruct (Nat.eqb_spec r0 (c + 1)) as [->|N2].
        -- rewrite ind_ne by lia. rewrite ind_eq. ring.
        -- rewrite !ind_ne by lia. unfold z1. destruct (Nat.ltb_spec c (mu - p)); [lia|]. cbn [andb]. ring.
    + destruct (Nat.leb_spec (mu - p) (c + n)); destruct (Nat.ltb_spec (c + n) mu); cbn [andb]; try lia.
      unfold z1. destruct (Nat.ltb_spec c (mu - p)); [lia|]. cbn [andb]. rewrite !ind_ne by lia. ring.
    + destruct (Nat.leb_spec (mu - p) (c + n)); destruct (Nat.ltb_spec (c + n) mu); cbn [andb]; try lia.
      unfold z1. destruct (Nat.ltb_spec c (mu - p)); [|lia]. cbn [andb].
      rewrite (alpha_one K mu x Hmu1 q c) by lia. rewrite (alpha_one K mu x Hmu1 q (c + 1)) by lia.
      unfold ind. destruct (r0 =? c)%nat; ring.
Qed.

(* coefficients for the unwrapped new indices 0 .. n: one Boehm step applied to the class indicator *)
Lemma coef_low j i : (mu <= n)%nat -> (j < n)%nat -> (i <= n)%nat ->
  @lookup_last R NumR Wr (i mod (n + 1)) j = bcoef K mu x q (ej n j) i.
Proof.
  intros Hmn Hj Hi. destruct mu_bracket_per as [Hmu Hbr]. assert (Hmu1 : (1 <= mu)%nat) by lia.
  rewrite Nat.mod_small by lia. rewrite entries_diag by lia. unfold bcoef, ej.
  destruct (Nat.eq_dec i n) as [->|Nn].
  - rewrite (alpha_zero K mu x Hmu1 q n) by lia. rewrite (ind_ne n j) by lia.
    rewrite (Nat.mod_small (n - 1)) by lia.
    destruct (Nat.eq_dec n (j + 1)) as [E|E].
    + rewrite <- E. rewrite ind_eq. replace (n - 1)%nat with j by lia. rewrite ind_eq.
      rewrite (alpha_zero K mu x Hmu1 q n) by lia. ring.
    + rewrite (ind_ne n (j + 1)), (ind_ne (n - 1) j) by lia. ring.
  - rewrite (Nat.mod_small i) by lia.
    destruct (Nat.eq_dec i 0) as [->|Nz].
    + cbn [Nat.sub]. rewrite Nat.mod_small by lia. rewrite (alpha_one K mu x Hmu1 q 0) by lia.
      rewrite (ind_ne 0 (j + 1)) by lia.
      destruct (Nat.eq_dec 0 j) as [<-|E]; [rewrite ind_eq, (alpha_one K mu x Hmu1 q 0) by lia; ring|rewrite !ind_ne by lia; ring].
    + rewrite (Nat.mod_small (i - 1)) by lia.
      destruct (Nat.eq_dec i j) as [->|E1].
      * rewrite ind_eq. rewrite !ind_ne by lia. ring.
      * rewrite (ind_ne i j) by lia.
        destruct (Nat.eq_dec i (j + 1)) as [->|E2].
        -- rewrite ind_eq. replace (j + 1 - 1)%nat with j by lia. rewrite ind_eq. ring.
        -- rewrite !ind_ne by lia. ring.
Qed.

Lemma mod_high s : (s <= n)%nat -> ((n + 1 + s) mod (n + 1) = s)%nat.
Proof. intros Hs. replace (n + 1 + s)%nat with (s + 1 * (n + 1))%nat by lia. rewrite Nat.mod_add by lia. apply Nat.mod_small. lia. Qed.

Lemma ej_high j s : (s < n)%nat -> ej n j (n + s) = ind s j.
Proof. intros Hs. unfold ej. rewrite mod_lt2 by lia. f_equal. lia. Qed.

Lemma knew0_K1 idx : (idx <= length k)%nat -> @kn R NumR knew0 idx = k' K mu x idx.
Proof. intros H. destruct mu_bracket_per as [Hmu _]. apply kn_insert_at_gen; lia. Qed.

Lemma knew0_sorted : sorted (@kn R NumR knew0).
Proof.
  apply (insert_knots_sorted k p x HK ltac:(lia) ltac:(lia)).
  replace (length k - p)%nat with (n + per1)%nat by lia. exact Hx.
Qed.

(* ---------------- interior: no repair ---------------- *)
Section Interior.
Hypothesis Hint : (p + per1 <= mu <= n)%nat.      (* K (p + per1 - 1) <= x < K n, see interior_of_values *)

Lemma interior_knots :
  (if (mu <=? p + r)%nat then @repair_right R NumR knew0 (length knew0) p r
   else if (length knew0 - p - r - 1 <=? mu)%nat then @repair_left R NumR knew0 (length knew0) p r
   else knew0) = knew0.
Proof.
  rewrite knew0_length.
  destruct (Nat.leb_spec mu (p + r)); [lia|]. destruct (Nat.leb_spec (n + per1 + p + 1 - p - r - 1) mu); [lia|]. reflexivity.
Qed.

Lemma coef_high_interior j s : (j < n)%nat -> (s <= r)%nat ->
  @lookup_last R NumR Wr ((n + 1 + s) mod (n + 1)) j = bcoef K mu x q (ej n j) (n + 1 + s).
Proof.
  intros Hj Hs. destruct mu_bracket_per as [Hmu Hbr]. assert (Hmu1 : (1 <= mu)%nat) by lia.
  rewrite mod_high by lia. rewrite entries_diag by lia. unfold bcoef.
  rewrite (alpha_zero K mu x Hmu1 q (n + 1 + s)) by lia.
  replace (n + 1 + s - 1)%nat with (n + s)%nat by lia. rewrite ej_high by lia.
  destruct (Nat.eq_dec s j) as [->|E1].
  - rewrite ind_eq, (ind_ne j (j + 1)) by lia. rewrite (alpha_one K mu x Hmu1 q j) by lia. ring.
  - rewrite (ind_ne s j) by lia. destruct (Nat.eq_dec s (j + 1)) as [E2|E2].
    + rewrite <- E2. rewrite ind_eq. rewrite (alpha_one K mu x Hmu1 q s) by lia. ring.
    + rewrite ind_ne by lia. ring.
Qed.

Lemma interior_col side t j : (j < n)%nat ->
  sumf (fun i => ej n j i * B side K q i t) 0 (n + per1)
  = sumf (fun i => @lookup_last R NumR Wr (i mod (n + 1)) j * B side (@kn R NumR knew0) q i t) 0 (n + per1 + 1).
Proof.
  intros Hj. destruct mu_bracket_per as [Hmu [Hb1 Hb2]]. assert (Hmu1 : (1 <= mu)%nat) by lia.
  rewrite (boehm_sum side K HK mu x Hmu1 Hb1 Hb2 q (ej n j) t (n + per1)) by (left; lia).
  replace (S (n + per1)) with (n + per1 + 1)%nat by lia.
  apply sumf_ext. intros i Hi. f_equal.
  - destruct (Nat.le_gt_cases i n) as [L|L].
    + symmetry. apply coef_low; lia.
    + replace i with (n + 1 + (i - n - 1))%nat by lia. symmetry. apply coef_high_interior; lia.
  - apply SeamContinuity.B_ext. intros m Hm. symmetry. apply knew0_K1. lia.
Qed.

Theorem interior_row_rel side t :
  row_rel (@ref_row R NumR side k p per1 0 t) (@ref_row R NumR side knew0 p per1 0 t) Cmat.
Proof.
  apply (row_rel_from_cols k knew0 p per1 n Wr side t Hlen); [apply insert_at_length|].
  intros j Hj. apply interior_col. exact Hj.
Qed.

Theorem interior_canon : per_canon knew0 p per1 (n + 1) T.
Proof.
  destruct mu_bracket_per as [Hmu Hbr]. assert (Hmu1 : (1 <= mu)%nat) by lia.
  split; [exact knew0_sorted|]. split; [exact Hper1|]. split; [exact Hpp|]. split; [rewrite knew0_length; lia|].
  split; [lia|]. split; [exact HT|]. split.
  - rewrite !knew0_K1 by lia. rewrite !(k'_lt K mu x Hmu1) by lia. exact Hseam.
  - intros i Hi. rewrite knew0_length in Hi. rewrite !knew0_K1 by lia.
    rewrite (k'_gt K mu x Hmu1) by lia. rewrite (k'_lt K mu x Hmu1) by lia.
    replace (i + (n + 1) - 1)%nat with (i + n)%nat by lia. apply Himg. lia.
Qed.
End Interior.

(* ---------------- right: mu <= p + r, the images of x on the right are repaired ---------------- *)
Section Right.
Hypothesis Hright : (mu <= p + r)%nat.
Local Notation knewR := (@repair_right R NumR knew0 (length knew0) p r).
Local Notation K1 := (k' K mu x).
Local Notation mu2 := (mu + n + 1)%nat.
Local Notation K2 := (k' K1 mu2 (x + T)).
Local Notation al2 := (alpha K1 mu2 (x + T) q).

Lemma right_knots :
  (if (mu <=? p + r)%nat then @repair_right R NumR knew0 (length knew0) p r
   else if (length knew0 - p - r - 1 <=? mu)%nat then @repair_left R NumR knew0 (length knew0) p r
   else knew0) = knewR.
Proof. destruct (Nat.leb_spec mu (p + r)); [reflexivity|lia]. Qed.

Lemma knewR_spec : length knewR = length knew0 /\
  forall idx, (idx < length knew0)%nat ->
    nth idx knewR 0 = if (n + 1 <=? idx)%nat then nth (idx - (n + 1)) knew0 0 + T else nth idx knew0 0.
Proof.
  destruct mu_bracket_per as [Hmu Hbr]. assert (Hmu1 : (1 <= mu)%nat) by lia.
  pose proof knew0_length as L0.
  set (k0 := @kn R NumR knew0 0). set (k1 := @kn R NumR knew0 (length knew0 - p - r - 1)).
  destruct (fold_upd_spec (fun v => k1 + (v - k0)) (length knew0 - p - r - 1) 0 (p + r + 1) 0 knew0) as [FL FN];
    [lia|lia|intros; lia|]. cbv zeta in FL, FN.
  change (fold_left _ (seq 0 (p + r + 1)) knew0) with knewR in FL, FN.
  split; [exact FL|]. intros idx Hi. rewrite (FN idx Hi).
  assert (E0 : k0 = K 0%nat) by (unfold k0; rewrite knew0_K1 by lia; apply k'_lt; lia).
  assert (E1 : k1 = K 0%nat + T).
  { unfold k1. rewrite L0. replace (n + per1 + p + 1 - p - r - 1)%nat with (n + 1)%nat by lia.
    rewrite knew0_K1 by lia. rewrite (k'_gt K mu x Hmu1) by lia. replace (n + 1 - 1)%nat with (0 + n)%nat by lia.
    apply Himg. lia. }
  rewrite L0. replace (n + per1 + p + 1 - p - r - 1)%nat with (n + 1)%nat by lia.
  destruct (Nat.leb_spec (n + 1) idx) as [A|A].
  - destruct (Nat.leb_spec (n + 1 + 0) idx); [|lia]. destruct (Nat.ltb_spec idx (n + 1 + 0 + (p + r + 1))); [|lia]. cbn [andb Nat.add].
    rewrite E0, E1. ring.
  - destruct (Nat.leb_spec (n + 1 + 0) idx); [lia|]. reflexivity.
Qed.

Lemma second_bracket : K1 (mu2 - 1)%nat <= x + T < K1 mu2.
Proof.
  destruct mu_bracket_per as [Hmu Hbr]. assert (Hmu1 : (1 <= mu)%nat) by lia.
  rewrite !(k'_gt K mu x Hmu1) by lia.
  replace (mu + n + 1 - 1 - 1)%nat with ((mu - 1) + n)%nat by lia. replace (mu + n + 1 - 1)%nat with (mu + n)%nat by lia.
  rewrite !Himg by lia. lra.
Qed.

Lemma K1_sorted : sorted K1.
Proof. destruct mu_bracket_per as [Hmu [Hb1 Hb2]]. apply (k'_sorted K HK mu x ltac:(lia) Hb1 Hb2). Qed.
Lemma K2_sorted : sorted K2.
Proof. destruct second_bracket as [Hb1 Hb2]. apply (k'_sorted K1 K1_sorted mu2 (x + T) ltac:(lia) Hb1 Hb2). Qed.

Lemma knewR_K2 idx : (idx <= length k)%nat -> @kn R NumR knewR idx = K2 idx.
Proof.
  intros Hi. destruct mu_bracket_per as [Hmu Hbr]. assert (Hmu1 : (1 <= mu)%nat) by lia.
  assert (Hmu21 : (1 <= mu2)%nat) by lia.
  destruct knewR_spec as [RL RN]. pose proof knew0_length as L0.
  rewrite kn_nth by lia. rewrite RN by lia.
  destruct (Nat.leb_spec (n + 1) idx) as [A|A].
  - rewrite <- kn_nth by lia. rewrite knew0_K1 by lia.
    destruct (lt_eq_lt_dec idx mu2) as [[L|L]|L].
    + rewrite (k'_lt K1 mu2 (x + T) Hmu21) by lia. rewrite (k'_gt K mu x Hmu1 idx) by lia.
      rewrite (k'_lt K mu x Hmu1) by lia. replace (idx - 1)%nat with ((idx - (n + 1)) + n)%nat by lia.
      symmetry. apply Himg. lia.
    + subst idx. rewrite k'_eq. replace (mu + n + 1 - (n + 1))%nat with mu by lia. rewrite k'_eq. reflexivity.
    + rewrite (k'_gt K1 mu2 (x + T) Hmu21) by lia. rewrite !(k'_gt K mu x Hmu1) by lia.
      replace (idx - 1 - 1)%nat with ((idx - (n + 1) - 1) + n)%nat by lia.
      symmetry. apply Himg. lia.
  - rewrite <- kn_nth by lia. rewrite knew0_K1 by lia.
    rewrite (k'_lt K1 mu2 (x + T) Hmu21) by lia. reflexivity.
Qed.

Lemma al2_one i : (i <= n)%nat -> al2 i = 1.
Proof. intros Hi. destruct mu_bracket_per as [Hmu _]. apply alpha_one; lia. Qed.

Lemma al2_high s : (s <= r)%nat -> al2 (n + 1 + s) = al s.
Proof.
  intros Hs. destruct mu_bracket_per as [Hmu Hbr]. assert (Hmu1 : (1 <= mu)%nat) by lia.
  unfold alpha.
  destruct (Nat.ltb_spec (n + 1 + s + q) mu2) as [A|A]; destruct (Nat.ltb_spec (s + q) mu) as [A'|A']; try lia; try reflexivity.
  destruct (Nat.leb_spec mu2 (n + 1 + s)) as [C|C]; destruct (Nat.leb_spec mu s) as [C'|C']; try lia; try reflexivity.
  rewrite !(k'_gt K mu x Hmu1) by lia.
  replace (n + 1 + s + q - 1)%nat with ((s + q) + n)%nat by lia. replace (n + 1 + s - 1)%nat with (s + n)%nat by lia.
  rewrite !Himg by lia.
  replace (x + T - (K s + T)) with (x - K s) by ring.
  replace (K (s + q)%nat + T - (K s + T)) with (K (s + q)%nat - K s) by ring. reflexivity.
Qed.

Lemma coef_high_right j s : (j < n)%nat -> (s <= r)%nat ->
  @lookup_last R NumR Wr ((n + 1 + s) mod (n + 1)) j
  = bcoef K1 mu2 (x + T) q (bcoef K mu x q (ej n j)) (n + 1 + s).
Proof.
  intros Hj Hs. destruct mu_bracket_per as [Hmu Hbr]. assert (Hmu1 : (1 <= mu)%nat) by lia.
  rewrite mod_high by lia. rewrite entries_diag by lia.
  unfold bcoef at 1. rewrite al2_high by exact Hs.
  unfold bcoef. rewrite (alpha_zero K mu x Hmu1 q (n + 1 + s)) by lia.
  rewrite (alpha_zero K mu x Hmu1 q (n + 1 + s - 1)) by lia.
  replace (n + 1 + s - 1)%nat with (n + s)%nat by lia. rewrite ej_high by lia.
  destruct (Nat.eq_dec s 0) as [->|Nz].
  - rewrite (alpha_one K mu x Hmu1 q 0) by lia. rewrite (ind_ne 0 (j + 1)) by lia.
    destruct (Nat.eq_dec 0 j) as [<-|E]; [rewrite ind_eq, (alpha_one K mu x Hmu1 q 0) by lia; ring|rewrite (ind_ne 0 j) by lia; ring].
  - replace (n + s - 1)%nat with (n + (s - 1))%nat by lia. rewrite ej_high by lia.
    destruct (Nat.eq_dec s j) as [->|E1].
    + rewrite ind_eq, (ind_ne j (j + 1)), (ind_ne (j - 1) j) by lia. ring.
    + rewrite (ind_ne s j) by lia. destruct (Nat.eq_dec s (j + 1)) as [E2|E2].
      * rewrite <- E2. rewrite ind_eq. replace (s - 1)%nat with j by lia. rewrite ind_eq. ring.
      * rewrite (ind_ne s (j + 1)), (ind_ne (s - 1) j) by lia. ring.
Qed.

Lemma right_col side t j : (j < n)%nat -> before_end side t (K (n + per1)%nat) ->
  sumf (fun i => ej n j i * B side K q i t) 0 (n + per1)
  = sumf (fun i => @lookup_last R NumR Wr (i mod (n + 1)) j * B side (@kn R NumR knewR) q i t) 0 (n + per1 + 1).
Proof.
  intros Hj Ht. destruct mu_bracket_per as [Hmu [Hb1 Hb2]]. assert (Hmu1 : (1 <= mu)%nat) by lia.
  destruct second_bracket as [Hc1 Hc2]. assert (Hmu21 : (1 <= mu2)%nat) by lia.
  rewrite (boehm_sum side K HK mu x Hmu1 Hb1 Hb2 q (ej n j) t (n + per1)) by (left; lia).
  assert (Z : B side K2 q (S (n + per1)) t = 0).
  { apply (B_support side K2 K2_sorted). 
    rewrite (k'_lt K1 mu2 (x + T) Hmu21 (S (n + per1))) by lia. rewrite (k'_gt K mu x Hmu1) by lia.
    replace (S (n + per1) - 1)%nat with (n + per1)%nat by lia.
    unfold outside, before_end in *. destruct side; left; exact Ht. }
  rewrite (boehm_sum side K1 K1_sorted mu2 (x + T) Hmu21 Hc1 Hc2 q _ t (S (n + per1)) ltac:(left; lia) (or_intror Z)).
  rewrite sumf_snoc. cbn [Nat.add]. rewrite Z, Rmult_0_r, Rplus_0_r.
  replace (S (n + per1)) with (n + per1 + 1)%nat by lia.
  apply sumf_ext. intros i Hi. f_equal.
  - destruct (Nat.le_gt_cases i n) as [L|L].
    + unfold bcoef at 1. rewrite al2_one by exact L. rewrite Rmult_1_l. replace (1 - 1) with 0 by ring. rewrite Rmult_0_l, Rplus_0_r.
      symmetry. apply coef_low; lia.
    + replace i with (n + 1 + (i - n - 1))%nat by lia. symmetry. apply coef_high_right; lia.
  - apply SeamContinuity.B_ext. intros m Hm. symmetry. apply knewR_K2. lia.
Qed.

Theorem right_row_rel side t : before_end side t (K (n + per1)%nat) ->
  row_rel (@ref_row R NumR side k p per1 0 t) (@ref_row R NumR side knewR p per1 0 t) Cmat.
Proof.
  intros Ht. destruct knewR_spec as [RL _].
  apply (row_rel_from_cols k knewR p per1 n Wr side t Hlen); [rewrite RL; apply insert_at_length|].
  intros j Hj. apply right_col; assumption.
Qed.

Theorem right_canon : per_canon knewR p per1 (n + 1) T.
Proof.
  destruct mu_bracket_per as [Hmu Hbr]. assert (Hmu1 : (1 <= mu)%nat) by lia.
  assert (Hmu21 : (1 <= mu2)%nat) by lia.
  destruct knewR_spec as [RL RN]. pose proof knew0_length as L0.
  split.
  { apply sorted_kn_of_nth. intros i j Hij. rewrite <- !kn_nth by lia. rewrite !knewR_K2 by lia. apply K2_sorted. lia. }
  split; [exact Hper1|]. split; [exact Hpp|]. split; [lia|]. split; [lia|]. split; [exact HT|]. split.
  - rewrite !knewR_K2 by lia. rewrite !(k'_lt K1 mu2 (x + T) Hmu21) by lia. rewrite !(k'_lt K mu x Hmu1) by lia. exact Hseam.
  - intros i Hi. rewrite !kn_nth by lia. rewrite (RN (i + (n + 1))%nat) by lia. rewrite (RN i) by lia.
    destruct (Nat.leb_spec (n + 1) (i + (n + 1))); [|lia]. destruct (Nat.leb_spec (n + 1) i); [lia|].
    replace (i + (n + 1) - (n + 1))%nat with i by lia. reflexivity.
Qed.
End Right.

(* ---------------- left: mu >= n + 1, the images of x on the left are repaired ---------------- *)
Lemma B_shift1 side (kf : nat -> R) q0 : forall i t, B side (fun j => kf (S j)) q0 i t = B side kf q0 (S i) t.
Proof. induction q0 as [|q0 IH]; intros i t; cbn [B]; [reflexivity|]. rewrite !IH. reflexivity. Qed.

Lemma modcn c : (c < n)%nat -> ((c + n) mod (n + 1) = if (c =? 0)%nat then n else c - 1)%nat.
Proof.
  intros Hc. destruct (Nat.eqb_spec c 0) as [->|Nz].
  - cbn [Nat.add]. apply Nat.mod_small. lia.
  - replace (c + n)%nat with ((c - 1) + 1 * (n + 1))%nat by lia. rewrite Nat.mod_add by lia. apply Nat.mod_small. lia.
Qed.

Section Left.
Hypothesis Hleft : (n + 1 <= mu)%nat.
Local Notation knewL := (@repair_left R NumR knew0 (length knew0) p r).
Local Notation nu := (mu - n)%nat.
Local Notation xL := (x - T).
Local Notation K1 := (k' K nu xL).
Local Notation mu2 := (mu + 1)%nat.
Local Notation K2 := (k' K1 mu2 x).
Local Notation alL := (alpha K nu xL q).
Local Notation alR := (alpha K1 mu2 x q).

Lemma left_knots :
  (if (mu <=? p + r)%nat then @repair_right R NumR knew0 (length knew0) p r
   else if (length knew0 - p - r - 1 <=? mu)%nat then @repair_left R NumR knew0 (length knew0) p r
   else knew0) = knewL.
Proof.
  rewrite knew0_length. destruct (Nat.leb_spec mu (p + r)); [lia|].
  destruct (Nat.leb_spec (n + per1 + p + 1 - p - r - 1) mu); [reflexivity|lia].
Qed.

Lemma entries_left r0 c : (r0 <= n)%nat -> (c < n)%nat ->
  @lookup_last R NumR Wr r0 c =
    if (mu - p <=? c)%nat then ind r0 c * al c + ind r0 (c + 1) * (1 - al (c + 1))
    else if (c <? nu)%nat then ind r0 ((c + n) mod (n + 1)) * al (c + n) + ind r0 c * (1 - al (c + n + 1))
    else ind r0 c.
Proof.
  intros Hr Hc. destruct mu_bracket_per as [Hmu Hbr]. assert (Hmu1 : (1 <= mu)%nat) by lia.
  rewrite (insert_matrix_entries_per k p n mu x ltac:(lia) ltac:(lia) ltac:(lia) ltac:(lia) r0 c Hr Hc).
  destruct (Nat.leb_spec mu r0); [lia|]. cbn [andb].
  destruct (Nat.ltb_spec c mu); [|lia]. rewrite andb_true_r.
  destruct (Nat.leb_spec (mu - p) c) as [B1|B1].
  - rewrite (a_entry_alpha k p mu x HK ltac:(lia) ltac:(lia) Hbr c) by lia.
    rewrite (b_entry_alpha k p mu x HK ltac:(lia) ltac:(lia) Hbr c) by lia.
    destruct (Nat.eqb_spec r0 c) as [->|N1].
    + rewrite ind_eq, ind_ne by lia. ring.
    + destruct (Nat.eqb_spec r0 (c + 1)) as [->|N2].
      * rewrite ind_ne by lia. rewrite ind_eq. ring.
      * rewrite !ind_ne by lia. unfold z1. destruct (Nat.ltb_spec c (mu - p)); [lia|]. cbn [andb]. ring.
  - destruct (Nat.leb_spec (mu - p) (c + n)); [|lia]. cbn [andb].
    destruct (Nat.ltb_spec (c + n) mu) as [B2|B2]; destruct (Nat.ltb_spec c nu) as [B3|B3]; try lia.
    + rewrite (a_entry_alpha k p mu x HK ltac:(lia) ltac:(lia) Hbr (c + n)) by lia.
      rewrite (b_entry_alpha k p mu x HK ltac:(lia) ltac:(lia) Hbr (c + n)) by lia.
      assert (Hne : ((c + n) mod (n + 1) <> c)%nat) by (rewrite modcn by lia; destruct (Nat.eqb_spec c 0); lia).
      destruct (Nat.eqb_spec r0 ((c + n) mod (n + 1))) as [E1|E1].
      * rewrite <- E1. rewrite ind_eq, ind_ne by lia. ring.
      * rewrite (ind_ne r0 ((c + n) mod (n + 1))) by exact E1.
        destruct (Nat.eqb_spec r0 c) as [->|E2]; [rewrite ind_eq; ring|].
        rewrite ind_ne by lia. unfold z1. destruct (Nat.eqb_spec r0 c); [lia|]. rewrite andb_false_r. ring.
    + unfold z1, ind. destruct (Nat.ltb_spec c (mu - p)); [|lia]. reflexivity.
Qed.

(* the three regimes of the rows of the matrix *)
Lemma lookup_La rho j : (rho + 1 < nu)%nat -> (j < n)%nat ->
  @lookup_last R NumR Wr rho j = al (rho + 1 + n) * ind (rho + 1) j + (1 - al (rho + 1 + n)) * ind rho j.
Proof.
  intros Hr Hj. destruct mu_bracket_per as [Hmu Hbr].
  rewrite entries_left by lia.
  destruct (Nat.eq_dec j rho) as [->|N1]; [|destruct (Nat.eq_dec j (rho + 1)) as [->|N2]].
  - destruct (Nat.leb_spec (mu - p) rho); [lia|]. destruct (Nat.ltb_spec rho nu); [|lia].
    rewrite (ind_ne rho ((rho + n) mod (n + 1))) by (rewrite modcn by lia; destruct (Nat.eqb_spec rho 0); lia).
    rewrite ind_eq, (ind_ne (rho + 1) rho) by lia. replace (rho + n + 1)%nat with (rho + 1 + n)%nat by lia. ring.
  - destruct (Nat.leb_spec (mu - p) (rho + 1)); [lia|]. destruct (Nat.ltb_spec (rho + 1) nu); [|lia].
    rewrite modcn by lia. destruct (Nat.eqb_spec (rho + 1) 0); [lia|]. replace (rho + 1 - 1)%nat with rho by lia.
    rewrite !ind_eq, (ind_ne rho (rho + 1)) by lia. ring.
  - rewrite (ind_ne (rho + 1) j), (ind_ne rho j) by lia.
    destruct (Nat.leb_spec (mu - p) j).
    + rewrite (ind_ne rho (j + 1)) by lia. ring.
    + destruct (Nat.ltb_spec j nu); [|ring].
      rewrite (ind_ne rho ((j + n) mod (n + 1))) by (rewrite modcn by lia; destruct (Nat.eqb_spec j 0); lia). ring.
Qed.

Lemma lookup_Lb rho j : (nu <= rho + 1)%nat -> (rho <= mu - p)%nat -> (j < n)%nat ->
  @lookup_last R NumR Wr rho j = ind rho j.
Proof.
  intros Hr1 Hr2 Hj. destruct mu_bracket_per as [Hmu Hbr]. assert (Hmu1 : (1 <= mu)%nat) by lia.
  rewrite entries_left by lia.
  destruct (Nat.leb_spec (mu - p) j) as [A|A].
  - destruct (Nat.eq_dec rho j) as [->|N1].
    + rewrite ind_eq, ind_ne by lia. rewrite (alpha_one K mu x Hmu1 q j) by lia. ring.
    + rewrite (ind_ne rho j), (ind_ne rho (j + 1)) by lia. ring.
  - destruct (Nat.ltb_spec j nu) as [B|B]; [|reflexivity].
    rewrite (ind_ne rho ((j + n) mod (n + 1))) by (rewrite modcn by lia; destruct (Nat.eqb_spec j 0); lia).
    destruct (Nat.eq_dec rho j) as [->|N1].
    + rewrite ind_eq. rewrite (alpha_zero K mu x Hmu1 q (j + n + 1)) by lia. ring.
    + rewrite (ind_ne rho j) by lia. ring.
Qed.

Lemma lookup_Lc rho j : (mu - p + 1 <= rho <= n)%nat -> (j < n)%nat ->
  @lookup_last R NumR Wr rho j = al rho * ej n j rho + (1 - al rho) * ind (rho - 1) j.
Proof.
  intros Hr Hj. destruct mu_bracket_per as [Hmu Hbr]. assert (Hmu1 : (1 <= mu)%nat) by lia.
  rewrite entries_left by lia. unfold ej.
  destruct (Nat.eq_dec rho n) as [->|Nn].
  - rewrite Nat.mod_same by lia.
    destruct (Nat.leb_spec (mu - p) j) as [A|A].
    + rewrite (ind_ne n j), (ind_ne 0 j) by lia.
      destruct (Nat.eq_dec n (j + 1)) as [E|E].
      * rewrite <- E. rewrite ind_eq. replace (n - 1)%nat with j by lia. rewrite ind_eq. ring.
      * rewrite (ind_ne n (j + 1)), (ind_ne (n - 1) j) by lia. ring.
    + rewrite (ind_ne (n - 1) j) by lia. rewrite (ind_ne n j) by lia.
      destruct (Nat.ltb_spec j nu) as [B|B].
      * rewrite modcn by lia. destruct (Nat.eqb_spec j 0) as [->|Nz].
        -- rewrite !ind_eq. cbn [Nat.add]. ring.
        -- rewrite (ind_ne n (j - 1)), (ind_ne 0 j) by lia. ring.
      * rewrite (ind_ne 0 j) by lia. ring.
  - rewrite (Nat.mod_small rho n) by lia.
    destruct (Nat.leb_spec (mu - p) j) as [A|A].
    + destruct (Nat.eq_dec rho j) as [->|N1].
      * rewrite ind_eq, (ind_ne j (j + 1)), (ind_ne (j - 1) j) by lia. ring.
      * rewrite (ind_ne rho j) by lia. destruct (Nat.eq_dec rho (j + 1)) as [->|N2].
        -- rewrite ind_eq. replace (j + 1 - 1)%nat with j by lia. rewrite ind_eq. ring.
        -- rewrite (ind_ne rho (j + 1)), (ind_ne (rho - 1) j) by lia. ring.
    + rewrite (ind_ne rho j), (ind_ne (rho - 1) j) by lia.
      destruct (Nat.ltb_spec j nu) as [B|B]; [|ring].
      rewrite (ind_ne rho ((j + n) mod (n + 1))) by (rewrite modcn by lia; destruct (Nat.eqb_spec j 0); lia). ring.
Qed.

(* the two insertions: x - T at nu into K, then x at mu + 1 *)
Lemma left_bracket1 : K (nu - 1)%nat <= xL < K nu.
Proof.
  destruct mu_bracket_per as [Hmu Hbr].
  pose proof (Himg (nu - 1)%nat ltac:(lia)) as E1. replace (nu - 1 + n)%nat with (mu - 1)%nat in E1 by lia.
  pose proof (Himg nu ltac:(lia)) as E2. replace (nu + n)%nat with mu in E2 by lia. lra.
Qed.
Lemma left_bracket2 : K1 (mu2 - 1)%nat <= x < K1 mu2.
Proof.
  destruct mu_bracket_per as [Hmu Hbr]. assert (Hnu1 : (1 <= nu)%nat) by lia.
  rewrite !(k'_gt K nu xL Hnu1) by lia.
  replace (mu + 1 - 1 - 1)%nat with (mu - 1)%nat by lia. replace (mu + 1 - 1)%nat with mu by lia. exact Hbr.
Qed.
Lemma K1L_sorted : sorted K1.
Proof. destruct left_bracket1 as [Hb1 Hb2]. apply (k'_sorted K HK nu xL ltac:(lia) Hb1 Hb2). Qed.
Lemma K2L_sorted : sorted K2.
Proof. destruct left_bracket2 as [Hb1 Hb2]. apply (k'_sorted K1 K1L_sorted mu2 x ltac:(lia) Hb1 Hb2). Qed.

Lemma knewL_spec : length knewL = length knew0 /\
  forall idx, (idx < length knew0)%nat ->
    nth idx knewL 0 = if (idx <? p + r + 1)%nat then nth (n + 1 + idx) knew0 0 - T else nth idx knew0 0.
Proof.
  destruct mu_bracket_per as [Hmu Hbr]. assert (Hmu1 : (1 <= mu)%nat) by lia.
  pose proof knew0_length as L0.
  set (k0 := @kn R NumR knew0 (p + r)). set (k1 := @kn R NumR knew0 (length knew0 - 1)).
  destruct (fold_upd_spec (fun v => k0 - (k1 - v)) 0 (length knew0 - p - r - 1) (p + r + 1) 0 knew0) as [FL FN];
    [lia|lia|intros; lia|]. cbv zeta in FL, FN.
  change (fold_left _ (seq 0 (p + r + 1)) knew0) with knewL in FL, FN.
  split; [exact FL|]. intros idx Hi. rewrite (FN idx Hi).
  assert (E0 : k0 = K (p + r)%nat) by (unfold k0; rewrite knew0_K1 by lia; apply k'_lt; lia).
  assert (E1 : k1 = K (p + r)%nat + T).
  { unfold k1. rewrite L0. rewrite knew0_K1 by lia. rewrite (k'_gt K mu x Hmu1) by lia.
    replace (n + per1 + p + 1 - 1 - 1)%nat with ((p + r) + n)%nat by lia. apply Himg. lia. }
  rewrite L0. replace (n + per1 + p + 1 - p - r - 1)%nat with (n + 1)%nat by lia.
  cbn [Nat.add]. destruct (Nat.ltb_spec idx (p + r + 1)) as [A|A]; cbn [andb].
  - destruct (Nat.leb_spec 0 idx); [|lia]. cbn [andb]. replace (idx - 0)%nat with idx by lia. rewrite E0, E1. ring.
  - rewrite andb_false_r. reflexivity.
Qed.

Lemma knewL_K2 idx : (idx <= length k)%nat -> @kn R NumR knewL idx = K2 (S idx).
Proof.
  intros Hi. destruct mu_bracket_per as [Hmu Hbr]. assert (Hmu1 : (1 <= mu)%nat) by lia.
  assert (Hnu1 : (1 <= nu)%nat) by lia. assert (Hmu21 : (1 <= mu2)%nat) by lia.
  destruct knewL_spec as [RL RN]. pose proof knew0_length as L0.
  rewrite kn_nth by lia. rewrite RN by lia.
  destruct (Nat.ltb_spec idx (p + r + 1)) as [A|A].
  - rewrite <- kn_nth by lia. rewrite knew0_K1 by lia.
    rewrite (k'_lt K1 mu2 x Hmu21) by lia.
    destruct (lt_eq_lt_dec (n + 1 + idx) mu) as [[L|L]|L].
    + rewrite (k'_lt K mu x Hmu1) by lia. rewrite (k'_lt K nu xL Hnu1) by lia.
      replace (n + 1 + idx)%nat with (S idx + n)%nat by lia. rewrite Himg by lia. ring.
    + rewrite L. rewrite k'_eq. replace (S idx) with nu by lia. rewrite k'_eq. reflexivity.
    + rewrite (k'_gt K mu x Hmu1) by lia. rewrite (k'_gt K nu xL Hnu1) by lia.
      replace (n + 1 + idx - 1)%nat with (idx + n)%nat by lia. replace (S idx - 1)%nat with idx by lia.
      rewrite Himg by lia. ring.
  - rewrite <- kn_nth by lia. rewrite knew0_K1 by lia.
    destruct (lt_eq_lt_dec idx mu) as [[L|L]|L].
    + rewrite (k'_lt K mu x Hmu1) by lia. rewrite (k'_lt K1 mu2 x Hmu21) by lia. rewrite (k'_gt K nu xL Hnu1) by lia.
      f_equal. lia.
    + subst idx. rewrite k'_eq. replace (S mu) with mu2 by lia. rewrite k'_eq. reflexivity.
    + rewrite (k'_gt K mu x Hmu1) by lia. rewrite (k'_gt K1 mu2 x Hmu21) by lia. rewrite (k'_gt K nu xL Hnu1) by lia.
      f_equal. lia.
Qed.

(* the ratios of the two steps in terms of the ratios al of the single insertion of x at mu *)
Lemma alL_low m : (m < nu)%nat -> alL m = al (m + n).
Proof.
  intros Hm. destruct mu_bracket_per as [Hmu Hbr]. assert (Hmu1 : (1 <= mu)%nat) by lia. assert (Hnu1 : (1 <= nu)%nat) by lia.
  rewrite (alpha_mid K nu xL Hnu1 q m) by lia. rewrite (alpha_mid K mu x Hmu1 q (m + n)) by lia.
  replace (m + n + q)%nat with ((m + q) + n)%nat by lia. rewrite !Himg by lia.
  replace (x - (K m + T)) with (xL - K m) by ring.
  replace (K (m + q)%nat + T - (K m + T)) with (K (m + q)%nat - K m) by ring. reflexivity.
Qed.
Lemma alL_high m : (nu <= m)%nat -> alL m = 0.
Proof. intros Hm. destruct mu_bracket_per as [Hmu _]. apply alpha_zero; lia. Qed.
Lemma alR_shift m : (nu + 1 <= m)%nat -> alR m = al (m - 1).
Proof.
  intros Hm. destruct mu_bracket_per as [Hmu Hbr]. assert (Hnu1 : (1 <= nu)%nat) by lia.
  unfold alpha.
  destruct (Nat.ltb_spec (m + q) mu2) as [A|A]; destruct (Nat.ltb_spec (m - 1 + q) mu) as [A'|A']; try lia; try reflexivity.
  destruct (Nat.leb_spec mu2 m) as [C|C]; destruct (Nat.leb_spec mu (m - 1)) as [C'|C']; try lia; try reflexivity.
  rewrite !(k'_gt K nu xL Hnu1) by lia. replace (m + q - 1)%nat with (m - 1 + q)%nat by lia. reflexivity.
Qed.

Lemma c1_high j m : (nu <= m)%nat -> bcoef K nu xL q (ej n j) m = ej n j (m - 1).
Proof. intros Hm. unfold bcoef. rewrite alL_high by exact Hm. ring. Qed.

Lemma c2_a j i : (i + 1 < nu)%nat -> (j < n)%nat ->
  bcoef K1 mu2 x q (bcoef K nu xL q (ej n j)) (S i) = al (i + 1 + n) * ind (i + 1) j + (1 - al (i + 1 + n)) * ind i j.
Proof.
  intros Hi Hj. destruct mu_bracket_per as [Hmu Hbr].
  unfold bcoef at 1. rewrite (alpha_one K1 mu2 x ltac:(lia) q (S i)) by lia.
  unfold bcoef. rewrite alL_low by lia. replace (S i + n)%nat with (i + 1 + n)%nat by lia.
  unfold ej. replace (S i - 1)%nat with i by lia. rewrite !Nat.mod_small by lia. replace (S i) with (i + 1)%nat by lia. ring.
Qed.
Lemma c2_b j i : (nu <= i + 1)%nat -> (i <= mu - p)%nat ->
  bcoef K1 mu2 x q (bcoef K nu xL q (ej n j)) (S i) = ej n j i.
Proof.
  intros Hi1 Hi2. destruct mu_bracket_per as [Hmu Hbr].
  unfold bcoef at 1. rewrite (alpha_one K1 mu2 x ltac:(lia) q (S i)) by lia.
  rewrite c1_high by lia. replace (S i - 1)%nat with i by lia. ring.
Qed.
Lemma c2_c j i : (mu - p + 1 <= i)%nat ->
  bcoef K1 mu2 x q (bcoef K nu xL q (ej n j)) (S i) = al i * ej n j i + (1 - al i) * ej n j (i - 1).
Proof.
  intros Hi. destruct mu_bracket_per as [Hmu Hbr].
  unfold bcoef at 1. rewrite alR_shift by lia. rewrite !c1_high by lia.
  replace (S i - 1)%nat with i by lia. reflexivity.
Qed.

Lemma coef_left j i : (j < n)%nat -> (i <= n + per1)%nat ->
  @lookup_last R NumR Wr (i mod (n + 1)) j = bcoef K1 mu2 x q (bcoef K nu xL q (ej n j)) (S i).
Proof.
  intros Hj Hi. destruct mu_bracket_per as [Hmu Hbr]. assert (Hmu1 : (1 <= mu)%nat) by lia.
  destruct (Nat.le_gt_cases i n) as [L|L].
  - rewrite Nat.mod_small by lia.
    destruct (Nat.lt_ge_cases (i + 1) nu) as [A|A].
    + rewrite c2_a by lia. apply lookup_La; lia.
    + destruct (Nat.le_gt_cases i (mu - p)) as [B|B].
      * rewrite c2_b by lia. rewrite lookup_Lb by lia. unfold ej. rewrite Nat.mod_small by lia. reflexivity.
      * rewrite c2_c by lia. rewrite lookup_Lc by lia. f_equal. f_equal. unfold ej. rewrite Nat.mod_small by lia. reflexivity.
  - set (s := (i - n - 1)%nat). replace i with (n + 1 + s)%nat by lia. assert (Hs : (s <= r)%nat) by lia.
    rewrite mod_high by lia. rewrite c2_c by lia.
    replace (n + 1 + s - 1)%nat with (n + s)%nat by lia. rewrite ej_high by lia.
    replace (n + 1 + s)%nat with (n + (s + 1))%nat at 2 by lia. rewrite ej_high by lia.
    destruct (Nat.lt_ge_cases (s + 1) nu) as [A|A].
    + rewrite lookup_La by lia. replace (s + 1 + n)%nat with (n + 1 + s)%nat by lia. reflexivity.
    + rewrite lookup_Lb by lia. rewrite (alpha_zero K mu x Hmu1 q (n + 1 + s)) by lia. ring.
Qed.

Lemma left_col side t j : (j < n)%nat -> after_start side (K q) t ->
  sumf (fun i => ej n j i * B side K q i t) 0 (n + per1)
  = sumf (fun i => @lookup_last R NumR Wr (i mod (n + 1)) j * B side (@kn R NumR knewL) q i t) 0 (n + per1 + 1).
Proof.
  intros Hj Ht. destruct mu_bracket_per as [Hmu Hbr]. assert (Hmu1 : (1 <= mu)%nat) by lia.
  destruct left_bracket1 as [Hb1 Hb2]. destruct left_bracket2 as [Hc1 Hc2].
  assert (Hnu1 : (1 <= nu)%nat) by lia. assert (Hmu21 : (1 <= mu2)%nat) by lia.
  assert (Z1 : B side K1 q 0 t = 0).
  { apply (B_support side K1 K1L_sorted). cbn [Nat.add]. rewrite (k'_gt K nu xL Hnu1 (q + 1)) by lia.
    replace (q + 1 - 1)%nat with q by lia.
    unfold outside, after_start in *. destruct side; right; exact Ht. }
  assert (Z2 : B side K2 q 0 t = 0).
  { apply (B_support side K2 K2L_sorted). cbn [Nat.add]. rewrite (k'_lt K1 mu2 x Hmu21 (q + 1)) by lia.
    rewrite (k'_gt K nu xL Hnu1 (q + 1)) by lia. replace (q + 1 - 1)%nat with q by lia.
    unfold outside, after_start in *. destruct side; right; exact Ht. }
  rewrite (boehm_sum side K HK nu xL Hnu1 Hb1 Hb2 q (ej n j) t (n + per1) (or_intror Z1) ltac:(left; lia)).
  rewrite (boehm_sum side K1 K1L_sorted mu2 x Hmu21 Hc1 Hc2 q _ t (S (n + per1)) ltac:(left; lia) ltac:(left; lia)).
  rewrite sumf_S. rewrite Z2, Rmult_0_r, Rplus_0_l. rewrite <- sumf_shift.
  replace (S (n + per1)) with (n + per1 + 1)%nat by lia.
  apply sumf_ext. intros i Hi. f_equal.
  - symmetry. apply coef_left; lia.
  - rewrite <- B_shift1. apply SeamContinuity.B_ext. intros m Hm. symmetry. apply knewL_K2. lia.
Qed.

Theorem left_row_rel side t : after_start side (K q) t ->
  row_rel (@ref_row R NumR side k p per1 0 t) (@ref_row R NumR side knewL p per1 0 t) Cmat.
Proof.
  intros Ht. destruct knewL_spec as [RL _].
  apply (row_rel_from_cols k knewL p per1 n Wr side t Hlen); [rewrite RL; apply insert_at_length|].
  intros j Hj. apply left_col; assumption.
Qed.

Theorem left_canon : per_canon knewL p per1 (n + 1) T.
Proof.
  destruct mu_bracket_per as [Hmu Hbr]. assert (Hmu1 : (1 <= mu)%nat) by lia.
  assert (Hnu1 : (1 <= nu)%nat) by lia. assert (Hmu21 : (1 <= mu2)%nat) by lia.
  destruct knewL_spec as [RL RN]. pose proof knew0_length as L0.
  split.
  { apply sorted_kn_of_nth. intros i j Hij. rewrite <- !kn_nth by lia. rewrite !knewL_K2 by lia. apply K2L_sorted. lia. }
  split; [exact Hper1|]. split; [exact Hpp|]. split; [lia|]. split; [lia|]. split; [exact HT|]. split.
  - rewrite !knewL_K2 by lia. rewrite !(k'_lt K1 mu2 x Hmu21) by lia. rewrite !(k'_gt K nu xL Hnu1) by lia.
    replace (S per1 - 1)%nat with per1 by lia. replace (S (p - 1) - 1)%nat with (p - 1)%nat by lia. exact Hseam.
  - intros i Hi. rewrite !kn_nth by lia. rewrite (RN (i + (n + 1))%nat) by lia. rewrite (RN i) by lia.
    destruct (Nat.ltb_spec (i + (n + 1)) (p + r + 1)); [lia|]. destruct (Nat.ltb_spec i (p + r + 1)); [|lia].
    replace (n + 1 + i)%nat with (i + (n + 1))%nat by lia. ring.
Qed.
End Left.

(* ---------------- the three cases together ---------------- *)
Definition knew_model : list R :=
  if (mu <=? p + r)%nat then @repair_right R NumR knew0 (length knew0) p r
  else if (length knew0 - p - r - 1 <=? mu)%nat then @repair_left R NumR knew0 (length knew0) p r
  else knew0.

Lemma window_knots i : (per1 <= i <= per1 + n)%nat -> @kn R NumR knew_model i = k' K mu x i.
Proof.
  intros Hi. destruct mu_bracket_per as [Hmu Hbr]. assert (Hmu1 : (1 <= mu)%nat) by lia.
  unfold knew_model.
  destruct (le_lt_dec mu (p + r)) as [HR|HR]; [|destruct (le_lt_dec (n + 1) mu) as [HL|HL]].
  - rewrite (right_knots HR). rewrite (knewR_K2 HR) by lia. apply k'_lt; lia.
  - rewrite (left_knots HL). rewrite (knewL_K2 HL) by lia.
    assert (Hnu1 : (1 <= mu - n)%nat) by lia.
    destruct (lt_eq_lt_dec i mu) as [[L|L]|L].
    + rewrite (k'_lt _ (mu + 1) x ltac:(lia)) by lia. rewrite (k'_gt K (mu - n) (x - T) Hnu1) by lia.
      rewrite (k'_lt K mu x Hmu1) by lia. f_equal. lia.
    + subst i. replace (S mu) with (mu + 1)%nat by lia. rewrite !k'_eq. reflexivity.
    + rewrite (k'_gt _ (mu + 1) x ltac:(lia)) by lia. rewrite (k'_gt K (mu - n) (x - T) Hnu1) by lia.
      rewrite (k'_gt K mu x Hmu1) by lia. f_equal. lia.
  - rewrite (interior_knots ltac:(lia)). apply knew0_K1. lia.
Qed.

Theorem canon_insert_canon : per_canon knew_model p per1 (n + 1) T.
Proof.
  unfold knew_model.
  destruct (le_lt_dec mu (p + r)) as [HR|HR]; [|destruct (le_lt_dec (n + 1) mu) as [HL|HL]].
  - rewrite (right_knots HR). apply right_canon; exact HR.
  - rewrite (left_knots HL). apply left_canon; exact HL.
  - rewrite (interior_knots ltac:(lia)). apply interior_canon. lia.
Qed.

Theorem canon_insert_row_rel side t : after_start side (K q) t -> before_end side t (K (n + per1)%nat) ->
  row_rel (@ref_row R NumR side k p per1 0 t) (@ref_row R NumR side knew_model p per1 0 t) Cmat.
Proof.
  intros Hs He. unfold knew_model.
  destruct (le_lt_dec mu (p + r)) as [HR|HR]; [|destruct (le_lt_dec (n + 1) mu) as [HL|HL]].
  - rewrite (right_knots HR). apply right_row_rel; assumption.
  - rewrite (left_knots HL). apply left_row_rel; assumption.
  - rewrite (interior_knots ltac:(lia)). apply interior_row_rel. lia.
Qed.

(* one period of the new knot list = one period of the old one plus exactly x *)
Theorem canon_insert_period_knots :
  firstn (n + 1) (skipn per1 knew_model) = insert_at (firstn n (skipn per1 k)) (mu - per1) x.
Proof.
  destruct mu_bracket_per as [Hmu Hbr]. assert (Hmu1 : (1 <= mu)%nat) by lia.
  destruct canon_insert_canon as (_ & _ & _ & Ln & _).
  assert (Lo : length (firstn n (skipn per1 k)) = n) by (rewrite firstn_length, skipn_length; lia).
  apply (nth_ext _ _ 0 0).
  - rewrite insert_at_length, Lo, firstn_length, skipn_length. lia.
  - intros i Hi. rewrite firstn_length, skipn_length in Hi.
    rewrite InsertMatrix.nth_firstn_lt by lia. rewrite InsertMatrix.nth_skipn_add.
    rewrite <- kn_nth by lia. rewrite window_knots by lia.
    rewrite <- (kn_nth (insert_at _ _ _)) by (rewrite insert_at_length; lia).
    rewrite kn_insert_at_gen by lia. unfold k'.
    destruct (Nat.ltb_spec (per1 + i) mu); destruct (Nat.ltb_spec i (mu - per1)); try lia.
    + rewrite (kn_nth (firstn _ _)) by lia. rewrite InsertMatrix.nth_firstn_lt by lia. rewrite InsertMatrix.nth_skipn_add.
      apply kn_nth. lia.
    + destruct (Nat.eqb_spec (per1 + i) mu); destruct (Nat.eqb_spec i (mu - per1)); try lia; [reflexivity|].
      rewrite (kn_nth (firstn _ _)) by lia. rewrite InsertMatrix.nth_firstn_lt by lia. rewrite InsertMatrix.nth_skipn_add.
      rewrite kn_nth by lia. f_equal. lia.
Qed.

Lemma canon_insert_start : @b_start R NumR (mkBasis p knew_model per1) = K (p - 1)%nat.
Proof.
  destruct mu_bracket_per as [Hmu _]. unfold b_start. cbn [b_knots b_order].
  rewrite window_knots by lia. apply k'_lt; lia.
Qed.
Lemma canon_insert_end : @b_end R NumR (mkBasis p knew_model per1) = K (n + per1)%nat.
Proof.
  destruct mu_bracket_per as [Hmu _].
  destruct canon_insert_canon as (_ & _ & _ & Ln & _ & _ & _ & Im).
  unfold b_end. cbn [b_knots b_order]. rewrite Ln.
  replace (n + 1 + per1 + p - p)%nat with (per1 + (n + 1))%nat by lia. rewrite Im by lia.
  rewrite window_knots by lia. rewrite k'_lt by lia. replace (n + per1)%nat with (per1 + n)%nat by lia.
  symmetry. apply Himg. lia.
Qed.
End Canon.

(* ------------------------------------------------------------------------------------------------ *)
(* Part 4: the statements on the model's functions                                                  *)
(* ------------------------------------------------------------------------------------------------ *)
(* C04 (periodic half): on a regular canonical periodic basis, for every x of the domain, insert_knot succeeds, returns
   a canonical periodic basis with one more function, the same period and domain, whose knots over one period are the
   old ones plus exactly x (the ghost knots being the exact images again), and the matrix C relates the dense periodic
   rows before and after at every parameter of the domain, both one-sided variants:  N_old(t) = N_new(t) x C. *)
Theorem basis_insert_knot_periodic (k : list R) (p per1 n : nat) (T x : R) :
  per_canon k p per1 n T ->
  @b_start R NumR (mkBasis p k per1) <= x < @b_end R NumR (mkBasis p k per1) ->
  let mu := @py_bisect_right R NumR k x in
  let C := @mat_of_writes R NumR (n + 1) n (@insert_writes R NumR k p n mu x) in
  exists knew,
    @basis_insert_knot R NumR (mkBasis p k per1) x = Ok (mkBasis p knew per1, C) /\
    per_canon knew p per1 (n + 1) T /\
    @b_start R NumR (mkBasis p knew per1) = @b_start R NumR (mkBasis p k per1) /\
    @b_end R NumR (mkBasis p knew per1) = @b_end R NumR (mkBasis p k per1) /\
    firstn (n + 1) (skipn per1 knew) = insert_at (firstn n (skipn per1 k)) (mu - per1) x /\
    forall side t, after_start side (@b_start R NumR (mkBasis p k per1)) t ->
                   before_end side t (@b_end R NumR (mkBasis p k per1)) ->
      row_rel (@ref_row R NumR side k p per1 0 t) (@ref_row R NumR side knew p per1 0 t) C.
Proof.
  intros Hcan Hx. cbv zeta.
  rewrite (canon_end k p per1 n T Hcan) in *. rewrite (canon_start k p per1) in *.
  exists (knew_model k p per1 x). split; [apply (insert_knot_unfold k p per1 n T Hcan x Hx)|].
  split; [apply (canon_insert_canon k p per1 n T Hcan x Hx)|].
  split; [apply (canon_insert_start k p per1 n T Hcan x Hx)|].
  split; [apply (canon_insert_end k p per1 n T Hcan x Hx)|].
  split; [apply (canon_insert_period_knots k p per1 n T Hcan x Hx)|].
  intros side t Hs He. apply (canon_insert_row_rel k p per1 n T Hcan x Hx side t Hs He).
Qed.

(* the interior case in closed form: x at least per1 = continuity + 1 knots away from both ends of the domain; the new
   knot list is the old one with x inserted, and the row relation holds at EVERY t (no domain restriction) *)
Theorem basis_insert_knot_periodic_interior (k : list R) (p per1 n : nat) (T x : R) :
  per_canon k p per1 n T ->
  @kn R NumR k (p + per1 - 1) <= x < @kn R NumR k n ->
  let mu := @py_bisect_right R NumR k x in
  let C := @mat_of_writes R NumR (n + 1) n (@insert_writes R NumR k p n mu x) in
  @basis_insert_knot R NumR (mkBasis p k per1) x = Ok (mkBasis p (insert_at k mu x) per1, C) /\
  per_canon (insert_at k mu x) p per1 (n + 1) T /\
  forall side t, row_rel (@ref_row R NumR side k p per1 0 t) (@ref_row R NumR side (insert_at k mu x) p per1 0 t) C.
Proof.
  intros Hcan Hx. cbv zeta.
  pose proof Hcan as (HK & Hper1 & Hpp & Hlen & Hreg & HT & Hseam & Himg).
  assert (Hx' : @kn R NumR k (p - 1) <= x < @kn R NumR k (n + per1)).
  { pose proof (HK (p - 1)%nat (p + per1 - 1)%nat ltac:(lia)). pose proof (HK n (n + per1)%nat ltac:(lia)). lra. }
  destruct (mu_bracket_per k p per1 n T Hcan x Hx') as [Hmu Hbr].
  assert (Hint : (p + per1 <= @py_bisect_right R NumR k x <= n)%nat).
  { split.
    - destruct (Nat.le_gt_cases (p + per1) (@py_bisect_right R NumR k x)) as [L|L]; [exact L|exfalso].
      pose proof (HK (@py_bisect_right R NumR k x) (p + per1 - 1)%nat ltac:(lia)). lra.
    - destruct (Nat.le_gt_cases (@py_bisect_right R NumR k x) n) as [L|L]; [exact L|exfalso].
      pose proof (HK n (@py_bisect_right R NumR k x - 1)%nat ltac:(lia)). lra. }
  split.
  - rewrite (insert_knot_unfold k p per1 n T Hcan x Hx'). rewrite (interior_knots k p per1 n T Hcan x Hint). reflexivity.
  - split; [apply (interior_canon k p per1 n T Hcan x Hx' Hint)|].
    intros side t. apply (interior_row_rel k p per1 n T Hcan x Hx' Hint).
Qed.

(* the lifting to objects: any pardim, any direction d, the other directions arbitrary rows *)
Lemma preserves_map_of_row_rel dim c (rows : list (list R)) d cps (N' : list R) (C : list (list R)) :
  (d < length rows)%nat -> (c < dim)%nat -> net_ok dim rows cps -> (0 < prodl (map (@length R) rows))%nat ->
  row_rel (nth d rows []) N' C ->
  coord c (@teval R NumR dim (@upd (list R) rows d N') (@apply_dir R NumR dim (map (@length R) rows) d C cps))
  = coord c (@teval R NumR dim rows cps).
Proof.
  intros Hd Hc Hnet Hpos RR.
  rewrite (teval_tsum dim c rows Hc cps Hnet).
  rewrite <- (tsum_apply_dir dim c C rows d N' cps Hd Hc Hnet Hpos RR).
  apply teval_tsum; [exact Hc|].
  destruct Hnet as [Hv Hl]. split; [apply Forall_apply_dir; exact Hv|].
  rewrite length_apply_dir; [| rewrite map_length; exact Hd | exact Hl | exact Hpos ].
  f_equal. destruct RR as (HC1 & _). rewrite HC1.
  clear. revert d. induction rows as [|a rows IHr]; intros d; [reflexivity|]. destruct d; cbn [upd map]; [reflexivity|]. f_equal. apply IHr.
Qed.

Theorem insert_knot_periodic_interior_preserves_map (k : list R) (p per1 n : nat) (T x : R) :
  per_canon k p per1 n T ->
  @kn R NumR k (p + per1 - 1) <= x < @kn R NumR k n ->
  let mu := @py_bisect_right R NumR k x in
  forall dim c side t (rows : list (list R)) d cps,
  (d < length rows)%nat -> (c < dim)%nat -> nth d rows [] = @ref_row R NumR side k p per1 0 t ->
  net_ok dim rows cps -> (0 < prodl (map (@length R) rows))%nat ->
  coord c (@teval R NumR dim (@upd (list R) rows d (@ref_row R NumR side (insert_at k mu x) p per1 0 t))
             (@apply_dir R NumR dim (map (@length R) rows) d
                (@mat_of_writes R NumR (n + 1) n (@insert_writes R NumR k p n mu x)) cps))
  = coord c (@teval R NumR dim rows cps).
Proof.
  intros Hcan Hx mu dim c side t rows d cps Hd Hc Hrow Hnet Hpos.
  destruct (basis_insert_knot_periodic_interior k p per1 n T x Hcan Hx) as (_ & _ & RR).
  apply preserves_map_of_row_rel; try assumption. rewrite Hrow. apply RR.
Qed.

(* every x of the domain (interior or within the first / last per1 spans: the two ghost-repair branches), stated on the
   output of the model's basis_insert_knot; t in the domain with the one-sided conventions of evaluate *)
Theorem insert_knot_periodic_preserves_map (k : list R) (p per1 n : nat) (T x : R) b' C :
  per_canon k p per1 n T ->
  @b_start R NumR (mkBasis p k per1) <= x < @b_end R NumR (mkBasis p k per1) ->
  @basis_insert_knot R NumR (mkBasis p k per1) x = Ok (b', C) ->
  forall dim c side t (rows : list (list R)) d cps,
  after_start side (@b_start R NumR (mkBasis p k per1)) t -> before_end side t (@b_end R NumR (mkBasis p k per1)) ->
  (d < length rows)%nat -> (c < dim)%nat -> nth d rows [] = @ref_row R NumR side k p per1 0 t ->
  net_ok dim rows cps -> (0 < prodl (map (@length R) rows))%nat ->
  coord c (@teval R NumR dim (@upd (list R) rows d (@ref_row R NumR side (b_knots b') (b_order b') (b_per1 b') 0 t))
             (@apply_dir R NumR dim (map (@length R) rows) d C cps))
  = coord c (@teval R NumR dim rows cps).
Proof.
  intros Hcan Hx Hins dim c side t rows d cps Hs He Hd Hc Hrow Hnet Hpos.
  destruct (basis_insert_knot_periodic k p per1 n T x Hcan Hx) as (knew & E & _ & _ & _ & _ & RR). cbv zeta in E, RR.
  rewrite E in Hins. injection Hins as <- <-. cbn [b_knots b_order b_per1].
  apply preserves_map_of_row_rel; try assumption. rewrite Hrow. apply RR; assumption.
Qed.

(* the (parameter, side) pairs produced by the model's evaluate (normalise) satisfy the one-sided domain conditions *)
Lemma normalised_in_domain (k : list R) p per1 tol from_right t0 t side : 0 < tol ->
  @normalise R NumR k p per1 tol from_right t0 = Some (t, side) ->
  after_start side (@b_start R NumR (mkBasis p k per1)) t /\ before_end side t (@b_end R NumR (mkBasis p k per1)).
Proof.
  intros Htol EN. destruct (normalise_range k p per1 tol Htol from_right t0 t side EN) as [Hr Hs].
  unfold after_start, before_end, b_start, b_end. cbn [b_knots b_order]. destruct side; lra.
Qed.

(* ---------------- non-vacuity: a cubic periodic basis, 8 functions, continuity 2, uniform knots ---------------- *)
Definition ex_knots : list R := [-3; -2; -1; 0; 1; 2; 3; 4; 5; 6; 7; 8; 9; 10; 11].

Example ex_canon : per_canon ex_knots 4 3 8 8.
Proof.
  unfold per_canon. split.
  { apply Proofs.RaiseNested.sorted_kn_lsorted. unfold ex_knots. repeat (constructor; try lra). }
  split; [lia|]. split; [lia|]. split; [reflexivity|]. split; [lia|]. split; [lra|]. split; [reflexivity|].
  intros i Hi. cbn [length ex_knots] in Hi.
  do 7 (destruct i as [|i]; [unfold kn, ex_knots; cbn; lra|]). lia.
Qed.

(* the three cases occur: x = 9/2 is interior, x = 1/2 lies in the first and x = 15/2 in the last per1 spans *)
Example ex_domain x : 0 <= x < 8 ->
  @b_start R NumR (mkBasis 4 ex_knots 3) <= x < @b_end R NumR (mkBasis 4 ex_knots 3).
Proof. unfold b_start, b_end, kn, ex_knots. cbn. lra. Qed.
Example ex_interior : @kn R NumR ex_knots (4 + 3 - 1) <= 9/2 < @kn R NumR ex_knots 8.
Proof. unfold kn, ex_knots. cbn. lra. Qed.

Example ex_right : @py_bisect_right R NumR ex_knots (1/2) = 4%nat.     (* mu = 4 <= p + r = 6: repair_right *)
Proof.
  destruct (mu_bracket_per ex_knots 4 3 8 8 ex_canon (1/2)) as [Hmu [H1 H2]]; [unfold kn, ex_knots; cbn; lra|].
  remember (@py_bisect_right R NumR ex_knots (1/2)) as m.
  assert (Hc : (m = 4 \/ m = 5 \/ m = 6 \/ m = 7 \/ m = 8 \/ m = 9 \/ m = 10 \/ m = 11)%nat) by lia.
  destruct Hc as [->|[->|[->|[->|[->|[->|[->| ->]]]]]]]; try reflexivity; exfalso; unfold kn, ex_knots in H1, H2; cbn in H1, H2; lra.
Qed.
Example ex_left : @py_bisect_right R NumR ex_knots (15/2) = 11%nat.    (* mu = 11 >= n + 1 = 9: repair_left *)
Proof.
  destruct (mu_bracket_per ex_knots 4 3 8 8 ex_canon (15/2)) as [Hmu [H1 H2]]; [unfold kn, ex_knots; cbn; lra|].
  remember (@py_bisect_right R NumR ex_knots (15/2)) as m.
  assert (Hc : (m = 4 \/ m = 5 \/ m = 6 \/ m = 7 \/ m = 8 \/ m = 9 \/ m = 10 \/ m = 11)%nat) by lia.
  destruct Hc as [->|[->|[->|[->|[->|[->|[->| ->]]]]]]]; try reflexivity; exfalso; unfold kn, ex_knots in H1, H2; cbn in H1, H2; lra.
Qed.

(* ------------------------------------------------------------------------------------------------ *)
(* Part 5: spec level, knot functions: the periodic refinement                                      *)
(* ------------------------------------------------------------------------------------------------ *)
Section PeriodicBoehm.
Variable K : nat -> R.
Hypothesis HK : sorted K.
Variables (q n : nat) (T : R).
Hypothesis Hper : forall i, K (i + n)%nat = K i + T.          (* exact periodic images, ALL i *)
Variable c : nat -> R.
Hypothesis Hc : forall i, c (i + n)%nat = c i.                (* n-periodic coefficients *)
Variables (mu : nat) (x : R).
Hypothesis Hmu : (q < mu <= n)%nat.                            (* x in [K q, K n): in the domain and in the first period *)
Hypothesis Hx : K (mu - 1)%nat <= x < K mu.

Let Hmu1 : (1 <= mu)%nat. Proof. lia. Qed.

(* the periodic refinement: x + a T inserted for every a >= 0; index mu + a (n+1) carries x + a T *)
Definition Kp (i : nat) : R :=
  if (i <? mu)%nat then K i
  else if ((i - mu) mod (n + 1) =? 0)%nat then x + INR ((i - mu) / (n + 1)) * T
  else K (i - 1 - (i - mu) / (n + 1))%nat.
(* the (n+1)-periodic coefficients: Boehm's convex combination on the indices 0 .. n *)
Definition cp (i : nat) : R := bcoef K mu x q c (i mod (n + 1)).

Lemma K_mul a : forall i, K (i + a * n)%nat = K i + INR a * T.
Proof.
  induction a as [|a IH]; intros i.
  - cbn [Nat.mul INR]. rewrite Nat.add_0_r. ring.
  - replace (i + S a * n)%nat with ((i + a * n) + n)%nat by lia. rewrite Hper, IH, S_INR. ring.
Qed.
Lemma c_mul a : forall i, c (i + a * n)%nat = c i.
Proof.
  induction a as [|a IH]; intros i.
  - cbn [Nat.mul]. rewrite Nat.add_0_r. reflexivity.
  - replace (i + S a * n)%nat with ((i + a * n) + n)%nat by lia. rewrite Hc. apply IH.
Qed.

Lemma Kp_periodic i : Kp (i + (n + 1)) = Kp i + T.
Proof.
  unfold Kp. destruct (Nat.ltb_spec i mu) as [A|A].
  - destruct (Nat.ltb_spec (i + (n + 1)) mu); [lia|].
    rewrite (Nat.mod_small (i + (n + 1) - mu)) by lia. rewrite (Nat.div_small (i + (n + 1) - mu)) by lia.
    destruct (Nat.eqb_spec (i + (n + 1) - mu) 0); [lia|].
    replace (i + (n + 1) - 1 - 0)%nat with (i + n)%nat by lia. apply Hper.
  - destruct (Nat.ltb_spec (i + (n + 1)) mu); [lia|].
    replace (i + (n + 1) - mu)%nat with ((i - mu) + 1 * (n + 1))%nat by lia.
    rewrite Nat.mod_add, Nat.div_add by lia.
    pose proof (Nat.div_mod (i - mu) (n + 1) ltac:(lia)) as E.
    pose proof (Nat.mod_upper_bound (i - mu) (n + 1) ltac:(lia)) as Bd.
    set (a := ((i - mu) / (n + 1))%nat) in *. set (r0 := ((i - mu) mod (n + 1))%nat) in *.
    destruct (Nat.eqb_spec r0 0) as [Z|Z].
    + rewrite plus_INR. cbn [INR]. ring.
    + replace (i + (n + 1) - 1 - (a + 1))%nat with ((i - 1 - a) + n)%nat by nia. apply Hper.
Qed.

Lemma cp_periodic i : cp (i + (n + 1)) = cp i.
Proof. unfold cp. replace (i + (n + 1))%nat with (i + 1 * (n + 1))%nat by lia. rewrite Nat.mod_add by lia. reflexivity. Qed.

(* the images inserted one at a time *)
Definition mua (a : nat) : nat := (mu + a * (n + 1))%nat.
Fixpoint Kins (a : nat) : nat -> R :=
  match a with O => K | S a' => k' (Kins a') (mua a') (x + INR a' * T) end.
Fixpoint cins (a : nat) : nat -> R :=
  match a with O => c | S a' => bcoef (Kins a') (mua a') (x + INR a' * T) q (cins a') end.

Lemma Kins_inv a :
  sorted (Kins a) /\
  (forall i, (i < mua a)%nat -> Kins a i = Kp i) /\
  (forall i, (mua a <= i + n)%nat -> Kins a i = K (i - a)%nat).
Proof.
  induction a as [|a (IS & I1 & I2)].
  - split; [exact HK|]. split.
    + intros i Hi. unfold mua in Hi. cbn [Kins]. unfold Kp. destruct (Nat.ltb_spec i mu); [reflexivity|lia].
    + intros i _. cbn [Kins]. f_equal. lia.
  - assert (Hm1 : (1 <= mua a)%nat) by (unfold mua; lia).
    assert (Hb : Kins a (mua a - 1)%nat <= x + INR a * T < Kins a (mua a)).
    { rewrite !I2 by (unfold mua; lia). unfold mua.
      replace (mu + a * (n + 1) - 1 - a)%nat with ((mu - 1) + a * n)%nat by nia.
      replace (mu + a * (n + 1) - a)%nat with (mu + a * n)%nat by nia. rewrite !K_mul. lra. }
    split; [|split].
    + cbn [Kins]. apply (k'_sorted (Kins a) IS (mua a) _ Hm1 (proj1 Hb) (proj2 Hb)).
    + intros i Hi. cbn [Kins]. unfold mua in Hi.
      destruct (lt_eq_lt_dec i (mua a)) as [[L|L]|L].
      * rewrite (k'_lt (Kins a) (mua a) _ Hm1) by exact L. apply I1. exact L.
      * subst i. rewrite k'_eq. unfold Kp, mua. destruct (Nat.ltb_spec (mu + a * (n + 1)) mu); [lia|].
        replace (mu + a * (n + 1) - mu)%nat with (a * (n + 1))%nat by lia.
        rewrite Nat.mod_mul, Nat.div_mul by lia. reflexivity.
      * rewrite (k'_gt (Kins a) (mua a) _ Hm1) by exact L. unfold mua in L. rewrite I2 by (unfold mua; lia).
        unfold Kp. destruct (Nat.ltb_spec i mu); [lia|].
        assert (E : (i - mu = (i - mua a) + a * (n + 1))%nat) by (unfold mua; lia).
        rewrite E. rewrite Nat.mod_add, Nat.div_add by lia.
        rewrite (Nat.mod_small (i - mua a)) by (unfold mua; lia). rewrite (Nat.div_small (i - mua a)) by (unfold mua; lia).
        destruct (Nat.eqb_spec (i - mua a) 0); [unfold mua in *; lia|]. f_equal; lia.
    + intros i Hi. cbn [Kins]. unfold mua in Hi.
      rewrite (k'_gt (Kins a) (mua a) _ Hm1) by (unfold mua; lia). rewrite I2 by (unfold mua; lia). f_equal. lia.
Qed.

Lemma Kins_bracket a : Kins a (mua a - 1)%nat <= x + INR a * T < Kins a (mua a).
Proof.
  destruct (Kins_inv a) as (_ & _ & I2). rewrite !I2 by (unfold mua; lia). unfold mua.
  replace (mu + a * (n + 1) - 1 - a)%nat with ((mu - 1) + a * n)%nat by nia.
  replace (mu + a * (n + 1) - a)%nat with (mu + a * n)%nat by nia. rewrite !K_mul. lra.
Qed.

Theorem Kp_sorted : sorted Kp.
Proof.
  intros i j Hij. destruct (Kins_inv (S j)) as (IS & I1 & _).
  rewrite <- !I1 by (unfold mua; nia). apply IS. exact Hij.
Qed.

(* the ratios of step a are the ratios of the first step, shifted by a periods *)
Lemma alpha_ins a r0 : (mu - q <= r0 < mu)%nat ->
  alpha (Kins a) (mua a) (x + INR a * T) q (a * (n + 1) + r0) = alpha K mu x q r0.
Proof.
  intros Hr. destruct (Kins_inv a) as (_ & _ & I2).
  rewrite (alpha_mid (Kins a) (mua a) _ ltac:(unfold mua; lia) q) by (unfold mua; lia).
  rewrite (alpha_mid K mu x Hmu1 q r0) by lia.
  rewrite !I2 by (unfold mua; lia).
  replace (a * (n + 1) + r0 + q - a)%nat with ((r0 + q) + a * n)%nat by nia.
  replace (a * (n + 1) + r0 - a)%nat with (r0 + a * n)%nat by nia. rewrite !K_mul.
  replace (x + INR a * T - (K r0 + INR a * T)) with (x - K r0) by ring.
  replace (K (r0 + q)%nat + INR a * T - (K r0 + INR a * T)) with (K (r0 + q)%nat - K r0) by ring. reflexivity.
Qed.

Lemma cp_low i : (i + q < mu)%nat -> cp i = c i.
Proof.
  intros Hi. unfold cp. rewrite Nat.mod_small by lia. unfold bcoef. rewrite (alpha_one K mu x Hmu1 q i) by lia. ring.
Qed.

(* the coefficients after a steps: settled (= cp) below mua a - q, still the old ones (shifted by a) from mua a - q - 1 on *)
Lemma cins_inv a :
  (forall i, (i + q < mua a)%nat -> cins a i = cp i) /\
  (forall i, (mua a <= i + q + 1)%nat -> cins a i = c (i - a)%nat).
Proof.
  induction a as [|a (J1 & J2)].
  - split.
    + intros i Hi. unfold mua in Hi. cbn [cins]. symmetry. apply cp_low. lia.
    + intros i _. cbn [cins]. f_equal. lia.
  - assert (Hm1 : (1 <= mua a)%nat) by (unfold mua; lia).
    split.
    + intros i Hi. unfold mua in Hi. cbn [cins]. unfold bcoef at 1.
      destruct (Nat.lt_ge_cases (i + q) (mua a)) as [A|A].
      * rewrite (alpha_one (Kins a) (mua a) _ Hm1 q i) by exact A. rewrite J1 by exact A. ring.
      * unfold mua in A.
        destruct (Nat.lt_ge_cases i (mua a)) as [B|B].
        -- (* the mixed range: i = a (n+1) + r0, mu - q <= r0 < mu *)
           unfold mua in B. set (r0 := (i - a * (n + 1))%nat).
           assert (Ei : i = (a * (n + 1) + r0)%nat) by (unfold r0; lia).
           pose proof (alpha_ins a r0 ltac:(unfold r0; lia)) as EA. rewrite <- Ei in EA. rewrite EA. clear EA.
           rewrite (J2 i) by (unfold mua; lia). rewrite (J2 (i - 1)%nat) by (unfold mua; lia).
           unfold cp. replace (i mod (n + 1))%nat with r0.
           2:{ rewrite Ei. rewrite Nat.add_comm, Nat.mod_add by lia. symmetry. apply Nat.mod_small. unfold r0. lia. }
           unfold bcoef.
           replace (i - a)%nat with (r0 + a * n)%nat by (unfold r0; nia).
           replace (i - 1 - a)%nat with ((r0 - 1) + a * n)%nat by (unfold r0; nia). rewrite !c_mul. reflexivity.
        -- (* beyond the new image: the old coefficient shifted by one more *)
           rewrite (alpha_zero (Kins a) (mua a) _ Hm1 q i) by exact B. unfold mua in B.
           rewrite (J2 (i - 1)%nat) by (unfold mua; lia).
           replace (0 * cins a i + (1 - 0) * c (i - 1 - a)%nat) with (c (i - 1 - a)%nat) by ring.
           set (r0 := (i - a * (n + 1))%nat).
           assert (Ei : i = (a * (n + 1) + r0)%nat) by (unfold r0; lia).
           assert (Hr0 : (mu <= r0 < mu + (n + 1) - q)%nat) by (unfold r0; lia).
           unfold cp. destruct (Nat.le_gt_cases r0 n) as [L|L].
           ++ replace (i mod (n + 1))%nat with r0.
              2:{ rewrite Ei. rewrite Nat.add_comm, Nat.mod_add by lia. symmetry. apply Nat.mod_small. lia. }
              unfold bcoef. rewrite (alpha_zero K mu x Hmu1 q r0) by lia.
              replace (i - 1 - a)%nat with ((r0 - 1) + a * n)%nat by (unfold r0; nia). rewrite c_mul. ring.
           ++ replace (i mod (n + 1))%nat with (r0 - (n + 1))%nat.
              2:{ rewrite Ei. replace (a * (n + 1) + r0)%nat with ((r0 - (n + 1)) + (a + 1) * (n + 1))%nat by nia.
                  rewrite Nat.mod_add by lia. symmetry. apply Nat.mod_small. lia. }
              unfold bcoef. rewrite (alpha_one K mu x Hmu1 q (r0 - (n + 1))) by lia.
              replace (i - 1 - a)%nat with ((r0 - (n + 1)) + (a + 1) * n)%nat by (unfold r0; nia). rewrite c_mul. ring.
    + intros i Hi. unfold mua in Hi. cbn [cins]. unfold bcoef.
      rewrite (alpha_zero (Kins a) (mua a) _ Hm1 q i) by (unfold mua; lia).
      rewrite (J2 (i - 1)%nat) by (unfold mua; lia).
      replace (i - 1 - a)%nat with (i - S a)%nat by lia. ring.
Qed.

(* a + 1 Boehm steps, exact for every t *)
Lemma chain side t a N : (mu + a * n <= N)%nat ->
  sumf (fun i => c i * B side K q i t) 0 N
  = sumf (fun i => cins (S a) i * B side (Kins (S a)) q i t) 0 (N + S a).
Proof.
  revert N. induction a as [|a IH]; intros N HN.
  - cbn [cins Kins]. replace (N + 1)%nat with (S N) by lia.
    replace (x + INR 0 * T) with x by (cbn [INR]; ring). unfold mua. replace (mu + 0 * (n + 1))%nat with mu by lia.
    apply (boehm_sum side K HK mu x Hmu1 (proj1 Hx) (proj2 Hx) q c t N); left; lia.
  - rewrite (IH N) by lia.
    destruct (Kins_inv (S a)) as (IS & _ & _). destruct (Kins_bracket (S a)) as [Hb1 Hb2].
    replace (N + S (S a))%nat with (S (N + S a)) by lia.
    change (cins (S (S a))) with (bcoef (Kins (S a)) (mua (S a)) (x + INR (S a) * T) q (cins (S a))).
    change (Kins (S (S a))) with (k' (Kins (S a)) (mua (S a)) (x + INR (S a) * T)).
    apply (boehm_sum side (Kins (S a)) IS (mua (S a)) _ ltac:(unfold mua; lia) Hb1 Hb2 q (cins (S a)) t (N + S a)); left; unfold mua; nia.
Qed.

(* A. the periodic Boehm identity, exact for every t and both sides: the first mu + a n old functions against the
      first mu + a (n+1) + 1 new ones (a + 1 images of x inserted, a = 0, 1, 2, ...) *)
Theorem periodic_boehm_exact side t a :
  sumf (fun i => c i * B side K q i t) 0 (mu + a * n)
  = sumf (fun i => cp i * B side Kp q i t) 0 (mu + a * (n + 1) + 1).
Proof.
  rewrite (chain side t a (mu + a * n) (le_n _)).
  replace (mu + a * n + S a)%nat with (mu + a * (n + 1) + 1)%nat by nia.
  destruct (Kins_inv (S a)) as (_ & I1 & _). destruct (cins_inv (S a)) as (J1 & _).
  apply sumf_ext. intros i Hi. rewrite J1 by (unfold mua; nia). f_equal.
  apply SeamContinuity.B_ext. intros j Hj. apply I1. unfold mua. nia.
Qed.

(* the same for windows of any width, at every t below the last knot K (mu + a n) = K mu + a T of the window *)
Theorem periodic_boehm side t a N N' : (mu + a * n <= N)%nat -> (mu + a * (n + 1) + 1 <= N')%nat ->
  before_end side t (K (mu + a * n)%nat) ->
  sumf (fun i => c i * B side K q i t) 0 N = sumf (fun i => cp i * B side Kp q i t) 0 N'.
Proof.
  intros HN HN' Ht.
  rewrite (sumf_window (fun i => c i * B side K q i t) 0 (mu + a * n) 0 N); [|lia|lia|intros; lia|].
  2:{ intros i Hi. rewrite (B_support side K HK q i t); [ring|].
      pose proof (HK (mu + a * n)%nat i ltac:(lia)). unfold outside, before_end in *. destruct side; left; lra. }
  rewrite (sumf_window (fun i => cp i * B side Kp q i t) 0 (mu + a * (n + 1) + 1) 0 N'); [|lia|lia|intros; lia|].
  2:{ intros i Hi. rewrite (B_support side Kp Kp_sorted q i t); [ring|].
      pose proof (Kp_sorted (mu + a * (n + 1) + 1)%nat i ltac:(lia)) as H1.
      assert (E : Kp (mu + a * (n + 1) + 1) = K (mu + a * n)%nat).
      { unfold Kp. destruct (Nat.ltb_spec (mu + a * (n + 1) + 1) mu); [lia|].
        replace (mu + a * (n + 1) + 1 - mu)%nat with (1 + a * (n + 1))%nat by lia.
        rewrite Nat.mod_add, Nat.div_add by lia. rewrite (Nat.mod_small 1), (Nat.div_small 1) by lia.
        cbn [Nat.eqb]. f_equal. lia. }
      rewrite E in H1. unfold outside, before_end in *. destruct side; left; lra. }
  apply periodic_boehm_exact.
Qed.
End PeriodicBoehm.

(* non-vacuity of Part 5: uniform knots K i = i, any degree q, any n > q, x anywhere in [q, n) *)
Example periodic_boehm_uniform (q n mu : nat) (x : R) (c : nat -> R) side t a :
  (q < mu <= n)%nat -> (forall i, c (i + n)%nat = c i) -> INR (mu - 1) <= x < INR mu ->
  sumf (fun i => c i * B side INR q i t) 0 (mu + a * n)
  = sumf (fun i => cp INR q n c mu x i * B side (Kp INR n (INR n) mu x) q i t) 0 (mu + a * (n + 1) + 1).
Proof.
  intros Hmu Hc Hx.
  apply (periodic_boehm_exact INR ltac:(intros i j H; apply le_INR; exact H) q n (INR n)
           ltac:(intros i; apply plus_INR) c Hc mu x Hmu Hx).
Qed.

(* ------------------------------------------------------------------------------------------------ *)
(* Part 6: one step of lower_periodic (C08): insert the start knot, roll by one, drop the last knot  *)
(* ------------------------------------------------------------------------------------------------ *)
Lemma kn_tl (l : list R) i : (S i < length l)%nat -> @kn R NumR (tl l) i = @kn R NumR l (S i).
Proof.
  intros H. destruct l as [|a l]; [cbn in H; lia|]. cbn [tl length] in *.
  rewrite !kn_nth by (cbn [length]; lia). reflexivity.
Qed.

Lemma net_ok_apply_dir dim (rows : list (list R)) d cps (N' : list R) (C : list (list R)) :
  (d < length rows)%nat -> net_ok dim rows cps -> (0 < prodl (map (@length R) rows))%nat ->
  row_rel (nth d rows []) N' C ->
  net_ok dim (@upd (list R) rows d N') (@apply_dir R NumR dim (map (@length R) rows) d C cps).
Proof.
  intros Hd [Hv Hl] Hpos RR. split; [apply Forall_apply_dir; exact Hv|].
  rewrite length_apply_dir; [| rewrite map_length; exact Hd | exact Hl | exact Hpos ].
  f_equal. destruct RR as (HC1 & _). rewrite HC1.
  clear. revert d. induction rows as [|a rows IHr]; intros d; [reflexivity|]. destruct d; cbn [upd map]; [reflexivity|]. f_equal. apply IHr.
Qed.

Lemma prodl_upd_pos (rows : list (list R)) d (N' : list R) :
  (0 < prodl (map (@length R) rows))%nat -> (0 < length N')%nat ->
  (0 < prodl (map (@length R) (@upd (list R) rows d N')))%nat.
Proof.
  revert d. induction rows as [|a rows IH]; intros d Hp HN; [destruct d; exact Hp|].
  unfold prodl in *. cbn [map fold_right] in Hp. destruct d; cbn [upd map fold_right].
  - nia.
  - specialize (IH d). assert (0 < fold_right Nat.mul 1 (map (@length R) rows))%nat by nia.
    specialize (IH H HN). nia.
Qed.

Lemma length_tl {A} (l : list A) : length (tl l) = (length l - 1)%nat.
Proof. destruct l; cbn [tl length]; lia. Qed.
Lemma nth_tl {A} (l : list A) i d : nth i (tl l) d = nth (S i) l d.
Proof. destruct l; [destruct i; reflexivity|reflexivity]. Qed.

Section LowerStep.
Variable k : list R.
Variables (p per1 n : nat) (T : R).
Hypothesis Hcan : per_canon k p per1 n T.
Local Notation K := (@kn R NumR k).
Local Notation q := (p - 1)%nat.
Local Notation x := (K (p - 1)%nat).                   (* the start knot *)
Local Notation mu := (@py_bisect_right R NumR k x).
Local Notation knew := (knew_model k p per1 x).
Local Notation Cmat := (@mat_of_writes R NumR (n + 1) n (@insert_writes R NumR k p n mu x)).

Lemma start_in_domain : K (p - 1)%nat <= x < K (n + per1)%nat.
Proof.
  pose proof Hcan as (_ & _ & _ & _ & _ & HT & _). rewrite (canon_period k p per1 n T Hcan). lra.
Qed.

Let Hcan' : per_canon knew p per1 (n + 1) T := canon_insert_canon k p per1 n T Hcan x start_in_domain.

(* after the insertion the start knot has one more copy: knot p of the new list is the start knot *)
Lemma knew_p : @kn R NumR knew p = x.
Proof.
  pose proof Hcan as (HK & Hper1 & Hpp & Hlen & Hreg & _).
  destruct (mu_bracket_per k p per1 n T Hcan x start_in_domain) as [Hmu [Hb1 Hb2]].
  rewrite (window_knots k p per1 n T Hcan x start_in_domain) by lia.
  destruct (Nat.eq_dec p mu) as [E|E].
  - transitivity (k' K mu x mu); [f_equal; exact E|apply k'_eq].
  - rewrite k'_lt by lia. pose proof (HK (p - 1)%nat p ltac:(lia)). pose proof (HK p (mu - 1)%nat ltac:(lia)). lra.
Qed.

(* roll(1) followed by dropping the last knot = dropping the first knot *)
Lemma roll_drop :
  let kk := b_knots (@basis_roll R NumR (mkBasis p knew per1) 1) in
  firstn (length kk - 1) kk = tl knew.
Proof.
  pose proof Hcan' as (HK' & Hper1 & Hpp & Hlen' & Hreg' & HT & _ & Himg').
  cbv zeta. unfold basis_roll. cbn [b_knots b_order b_per1]. unfold slice_list.
  set (t1 := @nsub R NumR (@kn R NumR knew 0) (@kn R NumR knew (length knew - p - per1))).
  assert (Et1 : t1 = - T).
  { unfold t1. cbn [nsub NumR]. replace (length knew - p - per1)%nat with (0 + (n + 1))%nat by lia. rewrite Himg' by lia. ring. }
  assert (Ltl : length (tl knew) = (n + per1 + p)%nat) by (rewrite length_tl; lia).
  assert (Ll : length (firstn (length knew - p - per1 - 1) (skipn 1 knew)) = n).
  { rewrite firstn_length, skipn_length. lia. }
  rewrite Ll. replace (length knew - p - per1 - 1)%nat with n by lia.
  replace (length knew - n - 0)%nat with (per1 + p + 1)%nat by lia.
  change (skipn 0 knew) with knew. change (skipn 1 knew) with (tl knew).
  apply (nth_ext _ _ 0 0).
  - rewrite firstn_length, !app_length, map_length, !firstn_length, Ltl. lia.
  - intros i Hi. rewrite firstn_length, !app_length, map_length, !firstn_length, Ltl in Hi.
    rewrite InsertMatrix.nth_firstn_lt by (rewrite !app_length, map_length, !firstn_length, Ltl; lia).
    destruct (Nat.lt_ge_cases i n) as [A|A].
    + rewrite app_nth1 by (rewrite firstn_length, Ltl; lia). apply InsertMatrix.nth_firstn_lt. exact A.
    + rewrite app_nth2 by (rewrite firstn_length, Ltl; lia). rewrite firstn_length, Ltl. replace (Nat.min n (n + per1 + p)) with n by lia.
      rewrite (nth_map_gen (fun v => @nsub R NumR v t1) _ (i - n) 0 0) by (rewrite firstn_length; lia).
      rewrite InsertMatrix.nth_firstn_lt by lia. cbn [nsub NumR]. rewrite Et1.
      rewrite nth_tl. rewrite <- !kn_nth by lia. replace (S i) with ((i - n) + (n + 1))%nat by lia. rewrite Himg' by lia. ring.
Qed.

(* the rolled rows: N_old = N_new x roll_matrix on the domain *)
Theorem roll_row_rel side t : after_start side x t ->
  row_rel (@ref_row R NumR side knew p per1 0 t) (@ref_row R NumR side (tl knew) p (per1 - 1) 0 t)
          (@roll_matrix R NumR (n + 1) 1).
Proof.
  intros Ht. pose proof Hcan' as (HK' & Hper1 & Hpp & Hlen' & Hreg' & HT & _ & Himg').
  assert (Ltl : length (tl knew) = (n + per1 + p)%nat) by (rewrite length_tl; lia).
  unfold row_rel. rewrite !ref_row_length. rewrite Ltl, Hlen'.
  replace (n + 1 + per1 + p - p - per1)%nat with (n + 1)%nat by lia.
  replace (n + per1 + p - p - (per1 - 1))%nat with (n + 1)%nat by lia.
  split; [unfold roll_matrix; rewrite map_length, seq_length; reflexivity|]. split.
  - apply Forall_forall. intros row Hin. unfold roll_matrix in Hin. apply in_map_iff in Hin.
    destruct Hin as (r0 & <- & _). rewrite map_length, seq_length. reflexivity.
  - intros j Hj. rewrite ref_row_nth by lia. rewrite Hlen'.
    replace (n + 1 + per1 + p - p - per1)%nat with (n + 1)%nat by lia. replace (n + 1 + per1 + p - p)%nat with (S (n + per1)) by lia.
    transitivity (sumf (fun r0 => sumf (fun i => if (i mod (n + 1) =? r0)%nat then B side (@kn R NumR (tl knew)) q i t else 0) 0 (n + per1)
                                  * ind ((r0 + 1) mod (n + 1)) j) 0 (n + 1)).
    2:{ apply sumf_ext. intros r0 Hr. rewrite ref_row_nth by lia. rewrite Ltl.
        replace (n + per1 + p - p - (per1 - 1))%nat with (n + 1)%nat by lia. replace (n + per1 + p - p)%nat with (n + per1)%nat by lia.
        f_equal. unfold roll_matrix.
        rewrite (nth_map_gen _ _ r0 [] 0%nat) by (rewrite seq_length; lia). rewrite seq_nth by lia.
        rewrite (nth_map_gen _ _ j 0 0%nat) by (rewrite seq_length; lia). rewrite seq_nth by lia. cbn [Nat.add n1 n0 NumR].
        unfold ind. rewrite (Nat.eqb_sym j). reflexivity. }
    rewrite sumf_wrap_swap by lia.
    rewrite sumf_S.
    assert (Z : B side (@kn R NumR knew) q 0 t = 0).
    { apply (B_support side _ HK'). cbn [Nat.add]. replace (q + 1)%nat with p by lia. rewrite knew_p.
      unfold outside, after_start in *. destruct side; right; exact Ht. }
    rewrite Z. replace (if (0 mod (n + 1) =? j)%nat then 0 else 0) with 0 by (destruct (_ =? _)%nat; reflexivity).
    rewrite Rplus_0_l. rewrite <- sumf_shift. apply sumf_ext. intros i Hi.
    rewrite Nat.add_mod_idemp_l by lia. replace (i + 1)%nat with (S i) by lia.
    assert (EB : B side (@kn R NumR (tl knew)) q i t = B side (@kn R NumR knew) q (S i) t).
    { rewrite <- B_shift1. apply SeamContinuity.B_ext. intros m Hm. apply kn_tl. lia. }
    rewrite EB. unfold ind. destruct (_ =? _)%nat; ring.
Qed.

(* the basis of the step and the model's recursion *)
Definition lower_step_basis : basis R := mkBasis p (tl knew) (per1 - 1).

Lemma lower_step_basis_model :
  let b1 := mkBasis p knew per1 in
  let br := @basis_roll R NumR b1 1 in
  let kk := b_knots br in
  mkBasis (b_order b1) (firstn (length kk - 1) kk) (b_per1 b1 - 1) = lower_step_basis
  /\ @b_nfun R b1 = (n + 1)%nat /\ @b_nfun R lower_step_basis = (n + 1)%nat.
Proof.
  pose proof Hcan' as (_ & Hper1 & Hpp & Hlen' & _).
  cbv zeta. split; [|split].
  - cbn [b_order b_per1]. pose proof roll_drop as E. cbv zeta in E. rewrite E. reflexivity.
  - unfold b_nfun. cbn [b_knots b_order b_per1]. lia.
  - unfold b_nfun, lower_step_basis. cbn [b_knots b_order b_per1].
    assert (Ltl : length (tl knew) = (n + per1 + p)%nat) by (rewrite length_tl; lia). lia.
Qed.

(* the basis after the step is again a regular canonical periodic one (continuity lowered by one), so the step iterates *)
Theorem lower_step_canon : (2 <= per1)%nat -> per_canon (tl knew) p (per1 - 1) (n + 1) T.
Proof.
  intros H2. pose proof Hcan' as (HK' & Hper1 & Hpp & Hlen' & Hreg' & HT & Hseam' & Himg').
  pose proof Hcan as (HK & _ & _ & Hlen & _ & _ & Hseam & _).
  destruct (mu_bracket_per k p per1 n T Hcan x start_in_domain) as [Hmu _].
  assert (Ltl : length (tl knew) = (n + per1 + p)%nat) by (rewrite length_tl; lia).
  split.
  { apply sorted_kn_of_nth. intros i j Hij. rewrite !nth_tl. rewrite <- !kn_nth by lia. apply HK'. lia. }
  split; [lia|]. split; [lia|]. split; [lia|]. split; [lia|]. split; [exact HT|]. split.
  - rewrite !kn_tl by lia. replace (S (per1 - 1)) with per1 by lia. replace (S (p - 1)) with p by lia.
    rewrite knew_p. rewrite (window_knots k p per1 n T Hcan x start_in_domain) by lia. rewrite k'_lt by lia. exact Hseam.
  - intros i Hi. rewrite Ltl in Hi. rewrite !kn_tl by lia.
    replace (S (i + (n + 1))) with (S i + (n + 1))%nat by lia. apply Himg'. lia.
Qed.

(* D. one step of lower_periodic preserves the map: rows before (periodic, per1), after the insertion of the start knot,
      and after the roll (per1 - 1); both matrices applied along direction d *)
Theorem lower_periodic_step_preserves_map dim c side t (rows : list (list R)) d cps :
  after_start side x t -> before_end side t (K (n + per1)%nat) ->
  (d < length rows)%nat -> (c < dim)%nat -> nth d rows [] = @ref_row R NumR side k p per1 0 t ->
  net_ok dim rows cps -> (0 < prodl (map (@length R) rows))%nat ->
  let rows1 := @upd (list R) rows d (@ref_row R NumR side knew p per1 0 t) in
  let cps1 := @apply_dir R NumR dim (map (@length R) rows) d Cmat cps in
  let rows2 := @upd (list R) rows1 d (@ref_row R NumR side (tl knew) p (per1 - 1) 0 t) in
  let cps2 := @apply_dir R NumR dim (map (@length R) rows1) d (@roll_matrix R NumR (n + 1) 1) cps1 in
  coord c (@teval R NumR dim rows2 cps2) = coord c (@teval R NumR dim rows cps).
Proof.
  intros Hs He Hd Hc Hrow Hnet Hpos. cbv zeta.
  pose proof Hcan' as (_ & Hper1 & Hpp & Hlen' & _).
  assert (RR1 : row_rel (nth d rows []) (@ref_row R NumR side knew p per1 0 t) Cmat).
  { rewrite Hrow. apply (canon_insert_row_rel k p per1 n T Hcan x start_in_domain side t Hs He). }
  set (rows1 := @upd (list R) rows d (@ref_row R NumR side knew p per1 0 t)).
  assert (Hd1 : (d < length rows1)%nat) by (unfold rows1; rewrite InsertEndToEnd.upd_length; exact Hd).
  assert (Hnet1 : net_ok dim rows1 (@apply_dir R NumR dim (map (@length R) rows) d Cmat cps)).
  { apply net_ok_apply_dir; assumption. }
  assert (Hpos1 : (0 < prodl (map (@length R) rows1))%nat).
  { apply prodl_upd_pos; [exact Hpos|]. rewrite ref_row_length. lia. }
  assert (RR2 : row_rel (nth d rows1 []) (@ref_row R NumR side (tl knew) p (per1 - 1) 0 t) (@roll_matrix R NumR (n + 1) 1)).
  { unfold rows1. rewrite InsertEndToEnd.upd_nth_same by exact Hd. apply roll_row_rel. exact Hs. }
  rewrite (preserves_map_of_row_rel dim c rows1 d _ _ _ Hd1 Hc Hnet1 Hpos1 RR2).
  apply (preserves_map_of_row_rel dim c rows d cps _ _ Hd Hc Hnet Hpos RR1).
Qed.

(* the model's recursion performs exactly this step *)
Theorem obj_lower_periodic_step (o : obj R) d fuel target :
  nth d (o_bases o) (mkBasis 0 [] 0) = mkBasis p k per1 -> (target < per1)%nat ->
  let o1 := mkObj (upd (o_bases o) d (mkBasis p knew per1))
                  (@apply_dir R NumR (@o_ncomp R o) (@o_shape R o) d Cmat (o_cps o)) (o_dim o) (o_rat o) in
  @obj_lower_periodic R NumR (S fuel) o target d
  = @obj_lower_periodic R NumR fuel (@obj_along R NumR o1 d lower_step_basis (@roll_matrix R NumR (n + 1) 1)) target d.
Proof.
  intros Hb Ht o1.
  assert (Hd : (d < length (o_bases o))%nat).
  { destruct (Nat.lt_ge_cases d (length (o_bases o))) as [L|L]; [exact L|exfalso].
    rewrite nth_overflow in Hb by exact L. pose proof Hcan as (_ & _ & Hpp & _). injection Hb as E1 _ _. lia. }
  assert (Hb1 : nth d (o_bases o1) (mkBasis 0 [] 0) = mkBasis p knew per1).
  { unfold o1. cbn [o_bases]. apply InsertEndToEnd.upd_nth_same. exact Hd. }
  cbn [obj_lower_periodic]. rewrite Hb. cbn [b_per1].
  destruct (Nat.ltb_spec target per1); [|lia].
  cbn [obj_insert_knots]. rewrite Hb.
  change (@b_start R NumR (mkBasis p k per1)) with x.
  rewrite (insert_knot_unfold k p per1 n T Hcan x start_in_domain).
  fold knew. fold o1. rewrite Hb1.
  destruct lower_step_basis_model as (E1 & E2 & _). cbv zeta in E1. rewrite E1, E2. reflexivity.
Qed.
End LowerStep.

