(* C04, periodic half (and the core of C08 lower_periodic): knot insertion into a PERIODIC basis.

   Model: Model/KnotInsert.v basis_insert_knot (transcription of BSplineBasis.insert_knot): wrap the knot into
   the domain, mu by bisect_right, the (n+1) x n matrix with row index i mod (n+1) and column index i mod n,
   insert the knot, then repair the ghost knots (repair_right when mu <= p + r, repair_left when
   mu >= m - p - r - 1 = n + 1, r = per1 - 1 the periodic continuity).

   Contents
     Part 1  boehm_sum_gen      Boehm's identity summed against arbitrary coefficients, with the two boundary terms
     Part 2  insert_matrix_entries_per
                                 the cells of the matrix the model writes, WITH the modular indices
     Part 3  canonical periodic knot lists (per_canon) and the three cases of the model
               interior   (p + per1 <= mu <= n)      no repair, one Boehm step
               right      (p <= mu <= p + per1 - 1)  repair_right, two Boehm steps (x and x + T)
               left       (n + 1 <= mu <= n + per1)  repair_left, two Boehm steps (x - T and x) and the first knot dropped
     Part 4  object level (tsum_apply_dir)
     Part 5  spec level, knot functions: periodic_boehm
   Regularity: n >= p + per1 - 1 = order + continuity functions (below this the repair loops overlap and the
   implementation changes the map: Properties/C04.v C04_insert_knot_periodic_small_refuted). *)
From Coq Require Import List Arith Reals Lra Lia Bool ZArith.
From SplipyModel Require Import Spec.BSpline Spec.Boehm Spec.Deriv Model.Num Model.BasisDef Model.BasisEval Model.Tensor Model.Obj
  Model.KnotInsert Proofs.KnotList Proofs.Bridge Proofs.SpanCorrect Proofs.TensorLemmas Proofs.EvaluateSpec Proofs.EvalConsequences
  Proofs.InsertMatrix Proofs.TensorApply Proofs.InsertObj Proofs.AppendProofs Proofs.SeamContinuity.
Import ListNotations.
Open Scope R_scope.

(* ------------------------------------------------------------------------------------------------ *)
(* Part 0: small tools                                                                              *)
(* ------------------------------------------------------------------------------------------------ *)
Lemma sumf_indicator (h : nat -> R) a m : (a < m)%nat ->
  sumf (fun r => if (a =? r)%nat then h r else 0) 0 m = h a.
Proof.
  induction m as [|m IH]; intros Ha; [lia|]. rewrite sumf_snoc. cbn [Nat.add].
  destruct (Nat.eq_dec a m) as [->|Ne].
  - rewrite Nat.eqb_refl. rewrite sumf_zero; [ring|].
    intros i Hi. destruct (Nat.eqb_spec m i); [lia|reflexivity].
  - rewrite IH by lia. destruct (Nat.eqb_spec a m); [lia|ring].
Qed.

(* summing the wrapped images first and applying g to the class afterwards = applying g to the class of every index *)
Lemma sumf_wrap_swap (f g : nat -> R) m N : (1 <= m)%nat ->
  sumf (fun r => sumf (fun i => if (i mod m =? r)%nat then f i else 0) 0 N * g r) 0 m
  = sumf (fun i => f i * g (i mod m)%nat) 0 N.
Proof.
  intros Hm. induction N as [|N IH].
  - cbn [sumf]. apply sumf_zero. intros; ring.
  - rewrite sumf_snoc. cbn [Nat.add]. rewrite <- IH.
    rewrite <- (sumf_indicator (fun r => f N * g r) (N mod m) m) by (apply Nat.mod_upper_bound; lia).
    rewrite <- sumf_plus. apply sumf_ext. intros r _.
    rewrite sumf_snoc. cbn [Nat.add]. destruct (N mod m =? r)%nat; ring.
Qed.

Lemma mod_lt2 i n : (n <= i < 2 * n)%nat -> (i mod n = i - n)%nat.
Proof.
  intros H. replace i with ((i - n) + 1 * n)%nat at 1 by lia.
  rewrite Nat.mod_add by lia. apply Nat.mod_small. lia.
Qed.

(* kn of a list with one value inserted is Boehm's k' (no side condition on mu other than mu <= length) *)
Lemma kn_insert_at_gen (k : list R) mu x j : (mu <= length k)%nat -> (j <= length k)%nat ->
  @kn R NumR (insert_at k mu x) j = k' (@kn R NumR k) mu x j.
Proof.
  intros Hm Hj. unfold k', insert_at.
  assert (Hl : length (firstn mu k) = mu) by (apply firstn_length_le; exact Hm).
  unfold kn at 1.
  destruct (Nat.ltb_spec j mu) as [A|A].
  - rewrite app_nth1 by (rewrite Hl; exact A). rewrite InsertMatrix.nth_firstn_lt by exact A.
    unfold kn. apply nth_indep. lia.
  - rewrite app_nth2 by (rewrite Hl; exact A). rewrite Hl.
    destruct (Nat.eqb_spec j mu) as [->|N].
    + rewrite Nat.sub_diag. reflexivity.
    + replace (j - mu)%nat with (S (j - mu - 1)) by lia. cbn [nth].
      rewrite InsertMatrix.nth_skipn_add. replace (mu + (j - mu - 1))%nat with (j - 1)%nat by lia.
      unfold kn. apply nth_indep. lia.
Qed.

(* the model's reference row on R: column c is the sum of the B-splines i = c (mod n) *)
Lemma ref_row_R side (k : list R) p per1 t :
  @ref_row R NumR side k p per1 0 t
  = map (fun c => sumf (fun i => if (i mod (length k - p - per1) =? c)%nat then B side (@kn R NumR k) (p - 1) i t else 0)
                       0 (length k - p))
        (seq 0 (length k - p - per1)).
Proof.
  unfold ref_row. cbv zeta. apply map_ext. intros c. cbn [nadd n0 NumR].
  rewrite (fold_cond_sum (fun i => (i mod (length k - p - per1) =? c)%nat)
             (fun i => @dBq R NumR side (kn k) 0 (p - 1) i t)).
  rewrite Rplus_0_l. apply sumf_ext. intros i _. destruct (_ =? _)%nat; [|reflexivity].
  rewrite dBq_R. reflexivity.
Qed.

Lemma ref_row_length side (k : list R) p per1 t :
  length (@ref_row R NumR side k p per1 0 t) = (length k - p - per1)%nat.
Proof. rewrite ref_row_R, map_length, seq_length. reflexivity. Qed.

Lemma ref_row_nth side (k : list R) p per1 t c : (c < length k - p - per1)%nat ->
  nth c (@ref_row R NumR side k p per1 0 t) 0
  = sumf (fun i => if (i mod (length k - p - per1) =? c)%nat then B side (@kn R NumR k) (p - 1) i t else 0) 0 (length k - p).
Proof.
  intros Hc. rewrite ref_row_R.
  rewrite (nth_map_gen _ _ c 0 0%nat) by (rewrite seq_length; exact Hc). rewrite seq_nth by exact Hc. reflexivity.
Qed.

(* ------------------------------------------------------------------------------------------------ *)
(* Part 1: Boehm's identity summed against coefficients                                             *)
(* ------------------------------------------------------------------------------------------------ *)
Section BoehmSum.
Variable side : bool.
Variable K : nat -> R.
Hypothesis HK : sorted K.
Variable mu : nat.
Variable x : R.
Hypothesis Hmu : (1 <= mu)%nat.
Hypothesis Hx1 : K (mu - 1)%nat <= x.
Hypothesis Hx2 : x < K mu.
Variable q : nat.
Variable c : nat -> R.

(* the new coefficients: Boehm's convex combination with the clipped ratios *)
Definition bcoef (i : nat) : R := alpha K mu x q i * c i + (1 - alpha K mu x q i) * c (i - 1)%nat.

Lemma boehm_sum_gen t N :
  sumf (fun i => c i * B side K q i t) 0 N
  + (1 - alpha K mu x q 0) * c 0%nat * B side (k' K mu x) q 0 t
  + alpha K mu x q N * c N * B side (k' K mu x) q N t
  = sumf (fun i => bcoef i * B side (k' K mu x) q i t) 0 (S N).
Proof.
  induction N as [|N IH].
  - cbn [sumf]. unfold bcoef. cbn [Nat.sub]. ring.
  - rewrite (sumf_snoc _ 0 (S N)). rewrite <- IH. rewrite (sumf_snoc _ 0 N). cbn [Nat.add].
    rewrite (boehm side K HK mu x Hmu Hx1 Hx2 q N t).
    unfold bcoef. replace (S N - 1)%nat with N by lia. replace (N + 1)%nat with (S N) by lia. ring.
Qed.

(* no boundary terms when the first function is not touched (q < mu) or vanishes at t, and the last one is beyond mu
   or vanishes at t *)
Lemma boehm_sum t N :
  (q < mu)%nat \/ B side (k' K mu x) q 0 t = 0 ->
  (mu <= N)%nat \/ B side (k' K mu x) q N t = 0 ->
  sumf (fun i => c i * B side K q i t) 0 N = sumf (fun i => bcoef i * B side (k' K mu x) q i t) 0 (S N).
Proof.
  intros H0 HN. rewrite <- boehm_sum_gen.
  assert (E0 : (1 - alpha K mu x q 0) * c 0%nat * B side (k' K mu x) q 0 t = 0).
  { destruct H0 as [H0|H0]; [rewrite (alpha_one K mu x Hmu q 0) by lia; ring|rewrite H0; ring]. }
  assert (EN : alpha K mu x q N * c N * B side (k' K mu x) q N t = 0).
  { destruct HN as [HN|HN]; [rewrite (alpha_zero K mu x Hmu q N) by lia; ring|rewrite HN; ring]. }
  rewrite E0, EN. ring.
Qed.
End BoehmSum.

(* ------------------------------------------------------------------------------------------------ *)
(* Part 2: the cells of the matrix, with the modular indices                                        *)
(* ------------------------------------------------------------------------------------------------ *)
Lemma lookup_from_pairs_none z (l : list nat) (ga gb : nat -> nat * nat * R) r c :
  (forall i, In i l -> snd (fst (ga i)) <> c /\ snd (fst (gb i)) <> c) ->
  lookup_from z (flat_map (fun i => [ga i; gb i]) l) r c = z.
Proof.
  intros H. apply lookup_from_nomatch. intros a Ha. apply in_flat_map in Ha. destruct Ha as (i & Hi & Ha).
  destruct (H i Hi) as [H1 H2]. cbn [In] in Ha. destruct Ha as [<-|[<-|[]]]; tauto.
Qed.

Lemma lookup_from_pairs z (l : list nat) (ga gb : nat -> nat * nat * R) r c i0 :
  NoDup l -> In i0 l ->
  snd (fst (ga i0)) = c -> snd (fst (gb i0)) = c -> fst (fst (ga i0)) <> fst (fst (gb i0)) ->
  (forall i, In i l -> i <> i0 -> snd (fst (ga i)) <> c /\ snd (fst (gb i)) <> c) ->
  lookup_from z (flat_map (fun i => [ga i; gb i]) l) r c
  = if (r =? fst (fst (ga i0)))%nat then snd (ga i0) else if (r =? fst (fst (gb i0)))%nat then snd (gb i0) else z.
Proof.
  revert z. induction l as [|a l IH]; intros z ND Hin Ca Cb Hrow Hoth; [contradiction|].
  apply NoDup_cons_iff in ND. destruct ND as [Hna ND'].
  cbn [flat_map]. rewrite lookup_from_app.
  destruct (Nat.eq_dec a i0) as [->|Ne].
  - rewrite (lookup_from_pairs_none _ l ga gb r c).
    2:{ intros i Hi. apply Hoth; [right; exact Hi|]. intros ->. contradiction. }
    cbn [lookup_from fold_left]. rewrite Ca, Cb, !Nat.eqb_refl, !andb_true_r.
    destruct (Nat.eqb_spec (fst (fst (ga i0))) r) as [E1|E1]; destruct (Nat.eqb_spec (fst (fst (gb i0))) r) as [E2|E2].
    + congruence.
    + destruct (Nat.eqb_spec r (fst (fst (ga i0)))); [reflexivity|congruence].
    + destruct (Nat.eqb_spec r (fst (fst (ga i0)))); [congruence|]. destruct (Nat.eqb_spec r (fst (fst (gb i0)))); [reflexivity|congruence].
    + destruct (Nat.eqb_spec r (fst (fst (ga i0)))); [congruence|]. destruct (Nat.eqb_spec r (fst (fst (gb i0)))); [congruence|reflexivity].
  - destruct Hin as [Hin|Hin]; [contradiction|].
    destruct (Hoth a (or_introl eq_refl) Ne) as [H1 H2].
    assert (E : lookup_from z [ga a; gb a] r c = z).
    { apply lookup_from_nomatch. intros w Hw. cbn [In] in Hw. destruct Hw as [<-|[<-|[]]]; tauto. }
    rewrite E. apply IH; auto. intros i Hi Hne. apply Hoth; [right; exact Hi|exact Hne].
Qed.

Section Entries.
Variable k : list R.
Variables (p n mu : nat) (x : R).
Local Notation K := (@kn R NumR k).
Hypothesis Hp : (1 <= p)%nat.
Hypothesis Hpn : (p <= n)%nat.
Hypothesis Hmu : (p <= mu)%nat.
Hypothesis Hmu2 : (mu < n + p)%nat.

Definition z1 (r c : nat) : R := if (c <? mu - p)%nat && (r =? c)%nat then 1 else 0.

Theorem insert_matrix_entries_per r c : (r <= n)%nat -> (c < n)%nat ->
  @lookup_last R NumR (@insert_writes R NumR k p n mu x) r c =
    if (mu <=? r)%nat && (r =? c + 1)%nat then 1
    else if (mu - p <=? c)%nat && (c <? mu)%nat then
      (if (r =? c)%nat then a_entry k p x c else if (r =? c + 1)%nat then b_entry k p x c else z1 r c)
    else if (mu - p <=? c + n)%nat && (c + n <? mu)%nat then
      (if (r =? (c + n) mod (n + 1))%nat then a_entry k p x (c + n) else if (r =? c)%nat then b_entry k p x (c + n) else z1 r c)
    else z1 r c.
Proof.
  intros Hr Hc. rewrite lookup_last_from. unfold insert_writes. cbv zeta.
  rewrite !lookup_from_app.
  set (W1 := map _ (seq 0 (mu - p))).
  set (W3 := map _ (seq mu (n + 1 - mu))).
  pose (ga := fun i : nat => ((i mod (n + 1))%nat, (i mod n)%nat, a_entry k p x i)).
  pose (gb := fun i : nat => (((i + 1) mod (n + 1))%nat, (i mod n)%nat, b_entry k p x i)).
  change (flat_map _ (seq (mu - p) p)) with (flat_map (fun i => [ga i; gb i]) (seq (mu - p) p)).
  (* loop 1 *)
  assert (L1 : lookup_from 0 W1 r c = z1 r c).
  { unfold z1. destruct (Nat.ltb_spec c (mu - p)) as [A|A]; cbn [andb].
    - destruct (Nat.eqb_spec r c) as [->|N].
      + unfold W1. rewrite (lookup_from_single 0 (seq 0 (mu - p)) _ c c c); [reflexivity|apply seq_NoDup|apply in_seq; lia| | |].
        * cbn [fst]. apply Nat.mod_small. lia.
        * cbn [fst snd]. apply Nat.mod_small. lia.
        * intros i Hi Hne [E1 _]. apply in_seq in Hi. cbn [fst] in E1. rewrite Nat.mod_small in E1 by lia. lia.
      + apply lookup_from_nomatch. intros a Ha. apply in_map_iff in Ha. destruct Ha as (i & <- & Hi). apply in_seq in Hi.
        cbn [fst snd]. rewrite !Nat.mod_small by lia. lia.
    - apply lookup_from_nomatch. intros a Ha. apply in_map_iff in Ha. destruct Ha as (i & <- & Hi). apply in_seq in Hi.
      cbn [fst snd]. rewrite !Nat.mod_small by lia. lia. }
  rewrite L1. clear L1.
  (* loop 2 *)
  assert (Hcol : forall i, (mu - p <= i < mu)%nat -> (i mod n)%nat = c -> i = c \/ i = (c + n)%nat).
  { intros i Hi E. destruct (Nat.lt_ge_cases i n) as [L|L].
    - rewrite Nat.mod_small in E by exact L. left; exact E.
    - rewrite mod_lt2 in E by lia. right; lia. }
  assert (L2 : lookup_from (z1 r c) (flat_map (fun i => [ga i; gb i]) (seq (mu - p) p)) r c =
    if (mu - p <=? c)%nat && (c <? mu)%nat then
      (if (r =? c)%nat then a_entry k p x c else if (r =? c + 1)%nat then b_entry k p x c else z1 r c)
    else if (mu - p <=? c + n)%nat && (c + n <? mu)%nat then
      (if (r =? (c + n) mod (n + 1))%nat then a_entry k p x (c + n) else if (r =? c)%nat then b_entry k p x (c + n) else z1 r c)
    else z1 r c).
  { destruct (Nat.leb_spec (mu - p) c) as [A1|A1]; [destruct (Nat.ltb_spec c mu) as [A2|A2]|]; cbn [andb].
    - (* i0 = c *)
      rewrite (lookup_from_pairs _ (seq (mu - p) p) ga gb r c c); [|apply seq_NoDup|apply in_seq; lia| | | |].
      + unfold ga, gb. cbn [fst snd]. rewrite (Nat.mod_small c (n + 1)) by lia. rewrite (Nat.mod_small (c + 1) (n + 1)) by lia. reflexivity.
      + unfold ga. cbn [fst snd]. apply Nat.mod_small. exact Hc.
      + unfold gb. cbn [fst snd]. apply Nat.mod_small. exact Hc.
      + unfold ga, gb. cbn [fst snd]. rewrite (Nat.mod_small c (n + 1)) by lia. rewrite (Nat.mod_small (c + 1) (n + 1)) by lia. lia.
      + intros i Hi Hne. apply in_seq in Hi. unfold ga, gb. cbn [fst snd].
        assert (i mod n <> c)%nat; [|tauto]. intros E. destruct (Hcol i ltac:(lia) E); lia.
    - (* mu <= c: then c + n >= mu as well *)
      destruct (Nat.leb_spec (mu - p) (c + n)); destruct (Nat.ltb_spec (c + n) mu); cbn [andb]; try lia;
      (apply lookup_from_pairs_none; intros i Hi; apply in_seq in Hi; unfold ga, gb; cbn [fst snd];
       assert (i mod n <> c)%nat; [|tauto]; intros E; destruct (Hcol i ltac:(lia) E); lia).
    - destruct (Nat.leb_spec (mu - p) (c + n)) as [B1|B1]; [destruct (Nat.ltb_spec (c + n) mu) as [B2|B2]|]; cbn [andb].
      + (* i0 = c + n *)
        assert (Em : ((c + n) mod n = c)%nat) by (rewrite mod_lt2 by lia; lia).
        assert (Er : ((c + n + 1) mod (n + 1) = c)%nat).
        { replace (c + n + 1)%nat with (c + 1 * (n + 1))%nat by lia. rewrite Nat.mod_add by lia. apply Nat.mod_small. lia. }
        rewrite (lookup_from_pairs _ (seq (mu - p) p) ga gb r c (c + n)); [|apply seq_NoDup|apply in_seq; lia| | | |].
        * unfold ga, gb. cbn [fst snd]. rewrite Er. reflexivity.
        * unfold ga. cbn [fst snd]. exact Em.
        * unfold gb. cbn [fst snd]. exact Em.
        * unfold ga, gb. cbn [fst snd]. rewrite Er.
          destruct (Nat.eq_dec c 0) as [->|Nz].
          -- cbn [Nat.add]. rewrite Nat.mod_small by lia. lia.
          -- replace (c + n)%nat with ((c - 1) + 1 * (n + 1))%nat by lia. rewrite Nat.mod_add by lia.
             rewrite Nat.mod_small by lia. lia.
        * intros i Hi Hne. apply in_seq in Hi. unfold ga, gb. cbn [fst snd].
          assert (i mod n <> c)%nat; [|tauto]. intros E. destruct (Hcol i ltac:(lia) E); lia.
      + apply lookup_from_pairs_none. intros i Hi. apply in_seq in Hi. unfold ga, gb. cbn [fst snd].
        assert (i mod n <> c)%nat; [|tauto]. intros E. destruct (Hcol i ltac:(lia) E); lia.
      + apply lookup_from_pairs_none. intros i Hi. apply in_seq in Hi. unfold ga, gb. cbn [fst snd].
        assert (i mod n <> c)%nat; [|tauto]. intros E. destruct (Hcol i ltac:(lia) E); lia. }
  rewrite L2. clear L2.
  (* loop 3 *)
  set (z2 := if (mu - p <=? c)%nat && (c <? mu)%nat then _ else _).
  destruct (Nat.leb_spec mu r) as [A|A]; cbn [andb].
  - destruct (Nat.eqb_spec r (c + 1)) as [E|E].
    + unfold W3. rewrite (lookup_from_single z2 (seq mu (n + 1 - mu)) _ r c r); [reflexivity|apply seq_NoDup|apply in_seq; lia| | |].
      * cbn [fst]. apply Nat.mod_small. lia.
      * cbn [fst snd]. rewrite Nat.mod_small by lia. lia.
      * intros i Hi Hne [E1 _]. apply in_seq in Hi. cbn [fst] in E1. rewrite Nat.mod_small in E1 by lia. lia.
    + apply lookup_from_nomatch. intros a Ha. apply in_map_iff in Ha. destruct Ha as (i & <- & Hi). apply in_seq in Hi.
      cbn [fst snd]. rewrite (Nat.mod_small i) by lia. rewrite (Nat.mod_small (i - 1)) by lia. lia.
  - apply lookup_from_nomatch. intros a Ha. apply in_map_iff in Ha. destruct Ha as (i & <- & Hi). apply in_seq in Hi.
    cbn [fst snd]. rewrite (Nat.mod_small i) by lia. lia.
Qed.
End Entries.
