(* Property C15, edge_curves with four curves: what the search for a loop ordering (Model/EdgeLoop.v) guarantees.

   A. generic facts on the search (any closeness test)
   B. the closeness test np.allclose on R
   C. soundness on R: what an accepted input looks like  (three junctions, NOT four)
   D. completeness under separated corners: all 4! * 2^4 = 384 arrangements of a closed loop are accepted
   E. when RuntimeError is raised
   F. executed examples on Q, including the two refutations
        - an OPEN chain of four curves is accepted (the last junction is never tested)
        - a closed loop with two coinciding corners is accepted or rejected depending on the input order
   G. the REPAIRED search loop_order2 (commit 6667c22): soundness with four junctions, completeness without any
      separation hypothesis, Err RuntimeError iff no arrangement closes, first closing candidate, agreement with the
      old search on separated closed loops, and the examples again *)
From Coq Require Import List Arith Reals Lra Lia Bool ZArith QArith Permutation.
From SplipyModel Require Import Spec.BSpline Model.Num Model.EdgeLoop Proofs.EvaluateSpec.
Import ListNotations.
Open Scope R_scope.

(* ------------------------------------------------------------------------------------------------------- *)
(* A. generic                                                                                              *)
(* ------------------------------------------------------------------------------------------------------- *)
Section Generic.
  Context {P A : Type}.
  Variable close : P -> P -> bool.
  Variable rd : A -> A.
  Notation curve := (ecurve P A).

  Definition mrev (b : bool) (c : curve) : curve := if b then ec_rev rd c else c.
  Definition mrevs (bs : list bool) (cs : list curve) : list curve :=
    map (fun bc => mrev (fst bc) (snd bc)) (combine bs cs).

  (* consecutive junctions of  cur :: t  pass the test  close (end of previous) (start of next) *)
  Fixpoint linked (cur : curve) (t : list curve) : Prop :=
    match t with
    | [] => True
    | x :: t' => close (e_last cur) (e_first x) = true /\ linked x t'
    end.

  Lemma find_next_spec p l x r :
    find_next close rd p l = Some (x, r) ->
    exists c b, x = mrev b c /\ Permutation l (c :: r) /\ close p (e_first x) = true.
  Proof.
    revert x r. induction l as [|c l IH]; intros x r; cbn [find_next]; [discriminate|].
    destruct (close p (e_first c)) eqn:E1.
    { intros E; inversion E; subst. exists x, false. repeat split; auto. }
    destruct (close p (e_last c)) eqn:E2.
    { intros E; inversion E; subst. exists c, true. repeat split; auto. }
    destruct (find_next close rd p l) as [[x' r']|] eqn:E3; [|discriminate].
    intros E; inversion E; subst.
    destruct (IH _ _ eq_refl) as (c' & b & -> & Hp & Hc).
    exists c', b. repeat split; auto.
    eapply perm_trans; [apply perm_skip; exact Hp|apply perm_swap].
  Qed.

  Lemma find_next_none p l :
    find_next close rd p l = None <->
    (forall c, In c l -> close p (e_first c) = false /\ close p (e_last c) = false).
  Proof.
    induction l as [|c l IH]; cbn [find_next].
    - split; [intros _ c []|reflexivity].
    - destruct (close p (e_first c)) eqn:E1.
      { split; [discriminate|]. intros Hn. destruct (Hn c (or_introl eq_refl)); congruence. }
      destruct (close p (e_last c)) eqn:E2.
      { split; [discriminate|]. intros Hn. destruct (Hn c (or_introl eq_refl)); congruence. }
      destruct (find_next close rd p l) as [[x' r']|] eqn:E3.
      + split; [discriminate|]. intros Hn.
        assert (Hf : Some (x', r') = None); [|discriminate].
        apply (proj2 IH). intros c' Hc'. apply Hn. right; exact Hc'.
      + split; [|reflexivity]. intros _ c' [<-|Hc']; [split; assumption|].
        apply (proj1 IH eq_refl); exact Hc'.
  Qed.

  Lemma chain_spec n : forall cur rest t,
    chain close rd n cur rest = Ok t ->
    exists used bs left,
      Permutation rest (used ++ left) /\ length used = n /\ length bs = n /\
      t = mrevs bs used /\ linked cur t.
  Proof.
    induction n as [|n IH]; intros cur rest t; cbn [chain].
    - intros E; inversion E; subst. exists [], [], rest. repeat split; auto.
    - destruct (find_next close rd (e_last cur) rest) as [[x r]|] eqn:E1; [|discriminate].
      destruct (chain close rd n x r) as [t'|e] eqn:E2; [|discriminate].
      intros E; inversion E; subst.
      destruct (find_next_spec _ _ _ _ E1) as (c & b & -> & Hp & Hc).
      destruct (IH _ _ _ E2) as (used & bs & left & Hp2 & Hl1 & Hl2 & -> & Hlk).
      exists (c :: used), (b :: bs), left. repeat split; cbn [length]; auto.
      eapply perm_trans; [exact Hp|]. cbn [app]. apply perm_skip; exact Hp2.
  Qed.

  Lemma chain_err n : forall cur rest e, chain close rd n cur rest = Err e -> e = RuntimeError.
  Proof.
    induction n as [|n IH]; intros cur rest e; cbn [chain]; [discriminate|].
    destruct (find_next close rd (e_last cur) rest) as [[x r]|] eqn:E1; [|intros E; inversion E; reflexivity].
    destruct (chain close rd n x r) as [t'|e'] eqn:E2; [discriminate|].
    intros E; inversion E; subst. eapply IH; exact E2.
  Qed.

  (* SOUNDNESS (generic).  An accepted input consists of four curves; the output starts with the first input
     curve, unreversed; the other three output curves are the other three input curves in some order, each
     one possibly reversed; the junctions 0->1, 1->2, 2->3 pass the test.  (3->0 is not claimed: see F.) *)
  Theorem loop_order_gen_sound cs out :
    loop_order_gen close rd cs = Ok out ->
    exists c0 c1 c2 c3 used bs,
      cs = [c0; c1; c2; c3] /\
      Permutation [c1; c2; c3] used /\ length bs = 3%nat /\
      out = c0 :: mrevs bs used /\
      linked c0 (mrevs bs used).
  Proof.
    unfold loop_order_gen.
    destruct cs as [|c0 [|c1 [|c2 [|c3 [|c4 l]]]]]; try discriminate.
    destruct (closes4 close c0 c1 c2 c3) eqn:E4.
    - intros E; inversion E; subst. exists c0, c1, c2, c3, [c1; c2; c3], [false; false; false].
      unfold closes4 in E4. apply andb_prop in E4; destruct E4 as [E4 Ed].
      apply andb_prop in E4; destruct E4 as [E4 Ec]. apply andb_prop in E4; destruct E4 as [Ea Eb].
      repeat split; auto.
    - destruct (chain close rd 3 c0 [c1; c2; c3]) as [t|e] eqn:E; [|discriminate].
      intros E'; inversion E'; subst.
      destruct (chain_spec _ _ _ _ E) as (used & bs & left & Hp & Hl1 & Hl2 & -> & Hlk).
      assert (left = []) as ->.
      { apply Permutation_length in Hp. rewrite app_length, Hl1 in Hp. cbn in Hp.
        destruct left; [reflexivity|cbn in Hp; lia]. }
      rewrite app_nil_r in Hp.
      exists c0, c1, c2, c3, used, bs. repeat split; auto.
  Qed.

  (* the only exception the four-curve branch of the search can raise *)
  Theorem loop_order_gen_err c0 c1 c2 c3 e :
    loop_order_gen close rd [c0; c1; c2; c3] = Err e -> e = RuntimeError.
  Proof.
    unfold loop_order_gen. destruct (closes4 close c0 c1 c2 c3); [discriminate|].
    destruct (chain close rd 3 c0 [c1; c2; c3]) as [t|e'] eqn:E; [discriminate|].
    intros E'; inversion E'; subst. eapply chain_err; exact E.
  Qed.

  (* ERROR, general form: if no ordering of the last three curves and no choice of reversals makes the three
     junctions pass, RuntimeError is raised. *)
  Theorem loop_order_gen_no_chain c0 c1 c2 c3 :
    (forall used bs, Permutation [c1; c2; c3] used -> length bs = 3%nat -> ~ linked c0 (mrevs bs used)) ->
    loop_order_gen close rd [c0; c1; c2; c3] = Err RuntimeError.
  Proof.
    intros Hno. destruct (loop_order_gen close rd [c0; c1; c2; c3]) as [out|e] eqn:E.
    - exfalso. destruct (loop_order_gen_sound _ _ E) as (d0 & d1 & d2 & d3 & used & bs & Hcs & Hp & Hl & _ & Hlk).
      inversion Hcs; subst. exact (Hno used bs Hp Hl Hlk).
    - f_equal. eapply loop_order_gen_err; exact E.
  Qed.

  (* ERROR (a): the end of the first curve matches no end point of the other three *)
  Theorem loop_order_gen_first_end_isolated c0 c1 c2 c3 :
    (forall c, In c [c1; c2; c3] ->
       close (e_last c0) (e_first c) = false /\ close (e_last c0) (e_last c) = false) ->
    loop_order_gen close rd [c0; c1; c2; c3] = Err RuntimeError.
  Proof.
    intros Hn. unfold loop_order_gen, closes4.
    destruct (Hn c1 (or_introl eq_refl)) as [-> _]. cbn [andb chain].
    apply find_next_none in Hn. rewrite Hn. reflexivity.
  Qed.

  (* ERROR (b): one of the last three curves cannot be entered: no end point of the other three curves
     passes the test against either of its end points *)
  Definition unreachable_from (c ck : curve) : Prop :=
    close (e_first c) (e_first ck) = false /\ close (e_first c) (e_last ck) = false /\
    close (e_last c) (e_first ck) = false /\ close (e_last c) (e_last ck) = false.

  Lemma unreachable_mrev b c ck : unreachable_from c ck -> unreachable_from (mrev b c) ck.
  Proof. destruct b; cbn; unfold unreachable_from; cbn; tauto. Qed.

  Lemma chain_enters_all n : forall cur rest t ck others,
    chain close rd n cur rest = Ok t -> length rest = n ->
    Permutation rest (ck :: others) ->
    unreachable_from cur ck -> (forall c, In c others -> unreachable_from c ck) -> False.
  Proof.
    induction n as [|n IH]; intros cur rest t ck others; cbn [chain].
    - intros _ Hl Hp. destruct rest; [|discriminate]. apply Permutation_nil in Hp. discriminate.
    - destruct (find_next close rd (e_last cur) rest) as [[x r]|] eqn:E1; [|discriminate].
      destruct (chain close rd n x r) as [t'|e] eqn:E2; [|discriminate].
      intros _ Hl Hp Hcur Hoth.
      destruct (find_next_spec _ _ _ _ E1) as (c & b & -> & Hp1 & Hc).
      assert (Hin : In c (ck :: others)).
      { eapply Permutation_in; [exact Hp|]. eapply Permutation_in; [apply Permutation_sym; exact Hp1|]. left; reflexivity. }
      destruct Hin as [<-|Hin].
      + destruct Hcur as (_ & _ & H3 & H4). destruct b; cbn in Hc; congruence.
      + destruct (in_split _ _ Hin) as (o1 & o2 & ->).
        assert (Hp2 : Permutation r (ck :: o1 ++ o2)).
        { apply Permutation_cons_inv with (a := c).
          eapply perm_trans; [apply Permutation_sym; exact Hp1|].
          eapply perm_trans; [exact Hp|].
          eapply perm_trans; [|apply perm_swap]. apply perm_skip.
          apply Permutation_sym, Permutation_middle. }
        eapply (IH _ _ _ _ _ E2); [|exact Hp2| |].
        * apply Permutation_length in Hp1. cbn in Hp1. lia.
        * apply unreachable_mrev. apply Hoth. apply in_or_app; right; left; reflexivity.
        * intros c' Hc'. apply Hoth. apply in_app_or in Hc'. apply in_or_app.
          destruct Hc'; [left|right; right]; assumption.
  Qed.

  Theorem loop_order_gen_unreachable c0 c1 c2 c3 ck others :
    Permutation [c1; c2; c3] (ck :: others) ->
    unreachable_from c0 ck -> (forall c, In c others -> unreachable_from c ck) ->
    loop_order_gen close rd [c0; c1; c2; c3] = Err RuntimeError.
  Proof.
    intros Hp H0 Ho.
    destruct (loop_order_gen close rd [c0; c1; c2; c3]) as [out|e] eqn:E;
      [|f_equal; eapply loop_order_gen_err; exact E].
    exfalso. unfold loop_order_gen in E.
    destruct (closes4 close c0 c1 c2 c3) eqn:E4.
    - unfold closes4 in E4. apply andb_prop in E4; destruct E4 as [E4 Ed].
      apply andb_prop in E4; destruct E4 as [E4 Ec]. apply andb_prop in E4; destruct E4 as [Ea Eb].
      apply (chain_enters_all 3 c0 [c1; c2; c3] [c1; c2; c3] ck others); auto.
      cbn [chain find_next]. rewrite Ea. cbn [chain find_next]. rewrite Eb.
      cbn [chain find_next]. rewrite Ec. reflexivity.
    - destruct (chain close rd 3 c0 [c1; c2; c3]) as [t|e] eqn:E'; [|discriminate].
      apply (chain_enters_all 3 c0 [c1; c2; c3] t ck others); auto.
  Qed.
End Generic.

(* renaming the end points: if the closeness test on the renamed points agrees with the test on the names
   (on a set D of names containing all end points), the search commutes with the renaming *)
Section Rename.
  Context {P Q A : Type}.
  Variable closeP : P -> P -> bool.
  Variable closeQ : Q -> Q -> bool.
  Variable rd : A -> A.
  Variable h : P -> Q.
  Variable D : P -> Prop.
  Hypothesis Hh : forall p q, D p -> D q -> closeQ (h p) (h q) = closeP p q.

  Definition inD (c : ecurve P A) : Prop := D (e_first c) /\ D (e_last c).
  Definition res_map {X Y} (f : X -> Y) (r : res X) : res Y :=
    match r with Ok x => Ok (f x) | Err e => Err e end.

  Lemma find_next_inD p l x r :
    find_next closeP rd p l = Some (x, r) -> Forall inD l -> inD x /\ Forall inD r.
  Proof.
    revert x r. induction l as [|c l IH]; intros x r; cbn [find_next]; [discriminate|].
    intros E Hl. inversion Hl as [|? ? Hc Hl']; subst.
    destruct (closeP p (e_first c)).
    { inversion E; subst. split; assumption. }
    destruct (closeP p (e_last c)).
    { inversion E; subst. split; [|assumption]. destruct Hc; split; assumption. }
    destruct (find_next closeP rd p l) as [[x' r']|]; [|discriminate].
    inversion E; subst. destruct (IH _ _ eq_refl Hl') as [Hx Hr]. split; [assumption|constructor; assumption].
  Qed.

  Lemma find_next_rename p l : D p -> Forall inD l ->
    find_next closeQ rd (h p) (map (ec_map h) l) =
    match find_next closeP rd p l with
    | Some (x, r) => Some (ec_map h x, map (ec_map h) r)
    | None => None
    end.
  Proof.
    intros Hp. induction l as [|c l IH]; intros Hl; cbn [find_next map]; [reflexivity|].
    inversion Hl as [|? ? [Hc1 Hc2] Hl']; subst.
    cbn [ec_map e_first e_last]. rewrite !Hh by assumption.
    destruct (closeP p (e_first c)); [reflexivity|].
    destruct (closeP p (e_last c)); [reflexivity|].
    rewrite (IH Hl'). destruct (find_next closeP rd p l) as [[x r]|]; reflexivity.
  Qed.

  Lemma chain_rename n : forall cur rest, inD cur -> Forall inD rest ->
    chain closeQ rd n (ec_map h cur) (map (ec_map h) rest) =
    res_map (map (ec_map h)) (chain closeP rd n cur rest).
  Proof.
    induction n as [|n IH]; intros cur rest Hc Hr; cbn [chain]; [reflexivity|].
    change (e_last (ec_map h cur)) with (h (e_last cur)).
    rewrite find_next_rename by (try apply Hc; assumption).
    destruct (find_next closeP rd (e_last cur) rest) as [[x r]|] eqn:E; [|reflexivity].
    destruct (find_next_inD _ _ _ _ E Hr) as [Hx Hr'].
    rewrite (IH _ _ Hx Hr'). destruct (chain closeP rd n x r); reflexivity.
  Qed.

  Lemma loop_order_gen_rename cs : Forall inD cs ->
    loop_order_gen closeQ rd (map (ec_map h) cs) = res_map (map (ec_map h)) (loop_order_gen closeP rd cs).
  Proof.
    intros Hcs. destruct cs as [|c0 [|c1 [|c2 [|c3 [|c4 l]]]]]; try reflexivity.
    inversion Hcs as [|? ? H0 Hcs1]; subst. inversion Hcs1 as [|? ? H1 Hcs2]; subst.
    inversion Hcs2 as [|? ? H2 Hcs3]; subst. inversion Hcs3 as [|? ? H3 _]; subst.
    cbn [map]. unfold loop_order_gen.
    replace (closes4 closeQ (ec_map h c0) (ec_map h c1) (ec_map h c2) (ec_map h c3))
      with (closes4 closeP c0 c1 c2 c3).
    2:{ unfold closes4. cbn [ec_map e_first e_last].
        destruct H0, H1, H2, H3. rewrite !Hh by assumption. reflexivity. }
    destruct (closes4 closeP c0 c1 c2 c3); [reflexivity|].
    change [ec_map h c1; ec_map h c2; ec_map h c3] with (map (ec_map h) [c1; c2; c3]).
    rewrite chain_rename by assumption.
    destruct (chain closeP rd 3 c0 [c1; c2; c3]); reflexivity.
  Qed.
End Rename.

(* ------------------------------------------------------------------------------------------------------- *)
(* B. np.allclose on R                                                                                     *)
(* ------------------------------------------------------------------------------------------------------- *)
(* all(|a - b| <= atol + rtol*|b|) on two points with the same number of components *)
Definition closeR (rtol atol : R) (a b : list R) : Prop :=
  length a = length b /\
  forall i, (i < length a)%nat -> Rabs (nth i a 0 - nth i b 0) <= atol + rtol * Rabs (nth i b 0).

Lemma close1_R rtol atol a b :
  @close1 R NumR rtol atol a b = true <-> Rabs (a - b) <= atol + rtol * Rabs b.
Proof.
  unfold close1. rewrite !nabs_R. cbn [nleb nsub nadd nmul NumR].
  destruct (Rleb_spec (Rabs (a - b)) (atol + rtol * Rabs b)); split; auto; discriminate.
Qed.

Lemma allclose_R rtol atol a : forall b,
  @allclose R NumR rtol atol a b = true <-> closeR rtol atol a b.
Proof.
  unfold closeR. induction a as [|x a IH]; intros [|y b]; cbn [allclose length].
  - split; [intros _; split; [reflexivity|intros i Hi; lia]|reflexivity].
  - split; [discriminate|intros [E _]; discriminate].
  - split; [discriminate|intros [E _]; discriminate].
  - rewrite andb_true_iff, close1_R, IH. split.
    + intros [H1 [H2 H3]]. split; [congruence|]. intros [|i] Hi; cbn [nth]; [exact H1|apply H3; lia].
    + intros [H1 H2]. split; [exact (H2 0%nat ltac:(lia))|]. split; [congruence|].
      intros i Hi. apply (H2 (S i)). lia.
Qed.

Lemma allclose_R_false rtol atol a b i :
  (i < length a)%nat -> atol + rtol * Rabs (nth i b 0) < Rabs (nth i a 0 - nth i b 0) ->
  @allclose R NumR rtol atol a b = false.
Proof.
  intros Hi Hlt. destruct (allclose rtol atol a b) eqn:E; [|reflexivity].
  apply allclose_R in E. destruct E as [_ E]. specialize (E i Hi). lra.
Qed.

Lemma allclose_R_refl rtol atol a : 0 <= atol -> 0 <= rtol -> @allclose R NumR rtol atol a a = true.
Proof.
  intros Ha Hr. apply allclose_R. split; [reflexivity|]. intros i _.
  replace (nth i a 0 - nth i a 0) with 0 by ring. rewrite Rabs_R0.
  pose proof (Rabs_pos (nth i a 0)). nra.
Qed.

(* ------------------------------------------------------------------------------------------------------- *)
(* C. soundness on R                                                                                       *)
(* ------------------------------------------------------------------------------------------------------- *)
Section SoundR.
  Context {A : Type}.
  Variable rd : A -> A.
  Notation curve := (ecurve (list R) A).

  (* junction: the end of a is within tolerance of the start of b *)
  Definition junction (rtol atol : R) (a b : curve) : Prop := closeR rtol atol (e_last a) (e_first b).

  (* C15 / SOUNDNESS.  If the search accepts, the input had four curves c0..c3 and the output is
     [c0; x1; x2; x3] where c0 is the first input curve UNREVERSED, [x1;x2;x3] are the three other input curves
     in some order (used = a permutation of [c1;c2;c3]) each possibly reversed (flags bs), and the junctions
     c0->x1, x1->x2, x2->x3 are within tolerance.  The junction x3->c0 is NOT guaranteed
     (open_chain_accepted below). *)
  Theorem loop_order_sound rtol atol cs out :
    @loop_order R NumR A rtol atol rd cs = Ok out ->
    exists c0 c1 c2 c3 used b1 b2 b3 x1 x2 x3,
      cs = [c0; c1; c2; c3] /\
      Permutation [c1; c2; c3] used /\
      [x1; x2; x3] = mrevs rd [b1; b2; b3] used /\
      out = [c0; x1; x2; x3] /\
      junction rtol atol c0 x1 /\ junction rtol atol x1 x2 /\ junction rtol atol x2 x3.
  Proof.
    unfold loop_order. intros E.
    destruct (loop_order_gen_sound _ _ _ _ E) as (c0 & c1 & c2 & c3 & used & bs & -> & Hp & Hl & -> & Hlk).
    destruct bs as [|b1 [|b2 [|b3 [|b4 bs]]]]; try discriminate.
    pose proof (Permutation_length Hp) as Hlen.
    destruct used as [|u1 [|u2 [|u3 [|u4 used]]]]; try discriminate.
    exists c0, c1, c2, c3, [u1; u2; u3], b1, b2, b3, (mrev rd b1 u1), (mrev rd b2 u2), (mrev rd b3 u3).
    cbn in Hlk. destruct Hlk as (H1 & H2 & H3 & _).
    unfold junction. rewrite <- !allclose_R. repeat split; auto.
  Qed.

  (* if moreover the fourth junction passes, the output is a closed directed loop *)
  Definition closed_loop (rtol atol : R) (l : list curve) : Prop :=
    match l with
    | [c0; c1; c2; c3] =>
      junction rtol atol c0 c1 /\ junction rtol atol c1 c2 /\ junction rtol atol c2 c3 /\ junction rtol atol c3 c0
    | _ => False
    end.

  Corollary loop_order_sound_closed rtol atol cs c0 x1 x2 x3 :
    @loop_order R NumR A rtol atol rd cs = Ok [c0; x1; x2; x3] ->
    junction rtol atol x3 c0 -> closed_loop rtol atol [c0; x1; x2; x3].
  Proof.
    intros E H4. destruct (loop_order_sound _ _ _ _ E)
      as (d0 & c1 & c2 & c3 & used & b1 & b2 & b3 & y1 & y2 & y3 & _ & _ & _ & Ho & J1 & J2 & J3).
    inversion Ho; subst. cbn. tauto.
  Qed.
End SoundR.

(* the fourth junction plays no role once the first three pass in the given order: an OPEN chain is accepted *)
Theorem loop_order_gen_open_chain {P A : Type} (close : P -> P -> bool) (rd : A -> A) (c0 c1 c2 c3 : ecurve P A) :
  close (e_last c0) (e_first c1) = true -> close (e_last c1) (e_first c2) = true ->
  close (e_last c2) (e_first c3) = true ->
  loop_order_gen close rd [c0; c1; c2; c3] = Ok [c0; c1; c2; c3].
Proof.
  intros Ea Eb Ec. unfold loop_order_gen.
  destruct (closes4 close c0 c1 c2 c3); [reflexivity|].
  cbn [chain find_next]. rewrite Ea. cbn [chain find_next]. rewrite Eb.
  cbn [chain find_next]. rewrite Ec. reflexivity.
Qed.

(* ------------------------------------------------------------------------------------------------------- *)
(* D. completeness under separated corners                                                                 *)
(* ------------------------------------------------------------------------------------------------------- *)
(* The ideal loop has corners 0,1,2,3; side k runs from corner k to corner k+1 (mod 4).  An input curve is
   "side k, flag b": b = false as in the loop, b = true given in the opposite direction. *)
Definition side_src (k : nat) (b : bool) : nat := if b then (S k mod 4)%nat else k.
Definition side_dst (k : nat) (b : bool) : nat := if b then k else (S k mod 4)%nat.

(* the 4! orders in which the four sides can be listed *)
Definition perms4 : list (list nat) :=
  [[0;1;2;3];[0;1;3;2];[0;2;1;3];[0;2;3;1];[0;3;1;2];[0;3;2;1];
   [1;0;2;3];[1;0;3;2];[1;2;0;3];[1;2;3;0];[1;3;0;2];[1;3;2;0];
   [2;0;1;3];[2;0;3;1];[2;1;0;3];[2;1;3;0];[2;3;0;1];[2;3;1;0];
   [3;0;1;2];[3;0;2;1];[3;1;0;2];[3;1;2;0];[3;2;0;1];[3;2;1;0]]%nat.

Lemma perms4_complete s : Permutation [0;1;2;3]%nat s -> In s perms4.
Proof.
  intros Hp. pose proof (Permutation_length Hp) as Hl.
  destruct s as [|a [|b [|c [|d [|e s]]]]]; try discriminate.
  assert (Hnd : NoDup [a;b;c;d]).
  { eapply Permutation_NoDup; [exact Hp|]. repeat constructor; cbn; intuition lia. }
  inversion Hnd as [|? ? N1 Hnd1]; subst. inversion Hnd1 as [|? ? N2 Hnd2]; subst.
  inversion Hnd2 as [|? ? N3 _]; subst. clear Hnd Hnd1 Hnd2.
  cbn [In] in N1, N2, N3.
  assert (a <> b /\ a <> c /\ a <> d /\ b <> c /\ b <> d /\ c <> d) as (Q1 & Q2 & Q3 & Q4 & Q5 & Q6).
  { repeat split; intros ->; tauto. }
  clear N1 N2 N3.
  assert (Hin : forall x, In x [a;b;c;d] -> In x [0;1;2;3]%nat).
  { intros x Hx. eapply Permutation_in; [apply Permutation_sym; exact Hp|exact Hx]. }
  pose proof (Hin a ltac:(cbn; tauto)) as Ha. pose proof (Hin b ltac:(cbn; tauto)) as Hb.
  pose proof (Hin c ltac:(cbn; tauto)) as Hc. pose proof (Hin d ltac:(cbn; tauto)) as Hd.
  clear Hin Hp Hl. cbn [In] in Ha, Hb, Hc, Hd.
  destruct Ha as [<-|[<-|[<-|[<-|[]]]]]; destruct Hb as [<-|[<-|[<-|[<-|[]]]]]; try congruence;
  destruct Hc as [<-|[<-|[<-|[<-|[]]]]]; try congruence;
  destruct Hd as [<-|[<-|[<-|[<-|[]]]]]; try congruence;
  unfold perms4; repeat (first [left; reflexivity | right]).
Qed.

Lemma perms4_lt s : In s perms4 -> Forall (fun k => (k < 4)%nat) s.
Proof.
  unfold perms4; cbn [In]. intros Hs.
  repeat (destruct Hs as [<-|Hs]; [repeat constructor; lia|]). contradiction.
Qed.

Lemma Forall2_len {X Y} (R : X -> Y -> Prop) l l' : Forall2 R l l' -> length l = length l'.
Proof. induction 1; cbn; congruence. Qed.

Definition closed_exact {P A : Type} (l : list (ecurve P A)) : Prop :=
  match l with
  | [c0; c1; c2; c3] =>
    e_last c0 = e_first c1 /\ e_last c1 = e_first c2 /\ e_last c2 = e_first c3 /\ e_last c3 = e_first c0
  | _ => False
  end.

Section Complete.
  Context {A : Type}.
  Variable rd : A -> A.

  Definition sym_curve (kb : nat * bool) (d : A) : ecurve nat A :=
    mkEC (side_src (fst kb) (snd kb)) (side_dst (fst kb) (snd kb)) d.
  Definition sym_cs (sr : list (nat * bool)) (ds : list A) : list (ecurve nat A) :=
    map (fun x => sym_curve (fst x) (snd x)) (combine sr ds).

  (* the search on corner NAMES (closeness = equality of names): every one of the 24 * 16 arrangements of the
     four sides is accepted and comes out as a closed loop starting with the first input curve *)
  Lemma sym_complete s r ds :
    In s perms4 -> length r = 4%nat -> length ds = 4%nat ->
    exists c0 x1 x2 x3,
      hd_error (sym_cs (combine s r) ds) = Some c0 /\
      loop_order_gen Nat.eqb rd (sym_cs (combine s r) ds) = Ok [c0; x1; x2; x3] /\
      closed_exact [c0; x1; x2; x3].
  Proof.
    intros Hs Hr Hd.
    destruct r as [|b0 [|b1 [|b2 [|b3 [|b4 r]]]]]; try discriminate.
    destruct ds as [|d0 [|d1 [|d2 [|d3 [|d4 ds]]]]]; try discriminate.
    unfold perms4 in Hs; cbn [In] in Hs.
    repeat (destruct Hs as [<-|Hs];
      [destruct b0, b1, b2, b3; cbn; do 4 eexists; (split; [reflexivity|split; [reflexivity|cbn; repeat split]])|]).
    contradiction.
  Qed.

  Variable Pc : nat -> list R.          (* the four corner points  Pc 0 .. Pc 3 *)
  Notation curve := (ecurve (list R) A).

  Definition is_side (c : curve) (kb : nat * bool) : Prop :=
    e_first c = Pc (side_src (fst kb) (snd kb)) /\ e_last c = Pc (side_dst (fst kb) (snd kb)).

  Lemma is_side_sym cs : forall sr, Forall2 is_side cs sr ->
    cs = map (ec_map Pc) (sym_cs sr (map e_data cs)).
  Proof.
    intros sr HF. induction HF as [|c kb cs sr Hc HF IH]; [reflexivity|].
    cbn [map combine sym_cs]. fold (sym_cs sr (map e_data cs)). rewrite <- IH. f_equal.
    destruct c as [f l d]. destruct Hc as [Hf Hl]. cbn in Hf, Hl. subst f l. reflexivity.
  Qed.

  Lemma sym_inD sr : Forall (fun kb => (fst kb < 4)%nat) sr -> forall ds,
    Forall (inD (A:=A) (fun i => (i < 4)%nat)) (sym_cs sr ds).
  Proof.
    intros HF. induction HF as [|[k b] sr Hk HF IH]; intros [|d ds]; cbn [sym_cs combine map]; try constructor;
      [|apply IH].
    cbn [fst snd] in Hk |- *. unfold inD, sym_curve, side_src, side_dst; cbn [e_first e_last fst snd].
    pose proof (Nat.mod_upper_bound (S k) 4 ltac:(lia)). destruct b; lia.
  Qed.

  (* C15 / COMPLETENESS.  Let Pc 0..3 be corner points that are pairwise NOT allclose (in either order), with
     non-negative tolerances.  Let the four input curves be the four sides of the loop 0->1->2->3->0, listed in
     any order s (one of the 24 permutations) and each with any direction r_i (16 choices), end points EXACTLY the
     corner points.  Then the search accepts, returns the first input curve first, and the result is an exactly
     closed directed loop. *)
  Theorem loop_order_complete rtol atol cs s r :
    0 <= atol -> 0 <= rtol ->
    (forall i j, (i < 4)%nat -> (j < 4)%nat -> i <> j -> @allclose R NumR rtol atol (Pc i) (Pc j) = false) ->
    In s perms4 -> length r = 4%nat ->
    Forall2 is_side cs (combine s r) ->
    exists c0 x1 x2 x3,
      hd_error cs = Some c0 /\
      @loop_order R NumR A rtol atol rd cs = Ok [c0; x1; x2; x3] /\
      closed_exact [c0; x1; x2; x3].
  Proof.
    intros Ha Hr Hsep Hs Hlr HF.
    assert (Hh : forall p q, (p < 4)%nat -> (q < 4)%nat ->
                 @allclose R NumR rtol atol (Pc p) (Pc q) = Nat.eqb p q).
    { intros p q Hp Hq. destruct (Nat.eqb_spec p q) as [->|Hne]; [apply allclose_R_refl; assumption|].
      apply Hsep; assumption. }
    pose proof (Forall2_len _ _ _ HF) as Hlen. rewrite combine_length in Hlen.
    assert (Hs4 : length s = 4%nat).
    { unfold perms4 in Hs; cbn [In] in Hs. repeat (destruct Hs as [<-|Hs]; [reflexivity|]). contradiction. }
    rewrite Hs4, Hlr in Hlen. cbn in Hlen.
    destruct (sym_complete s r (map e_data cs) Hs Hlr ltac:(rewrite map_length; exact Hlen))
      as (c0 & x1 & x2 & x3 & Hhd & Hlo & Hcl).
    rewrite (is_side_sym cs _ HF). unfold loop_order.
    rewrite (loop_order_gen_rename Nat.eqb (allclose rtol atol) rd Pc (fun i => (i < 4)%nat) Hh).
    2:{ apply sym_inD. apply perms4_lt in Hs. clear - Hs. revert r.
        induction Hs as [|k s Hk Hs IH]; intros [|b r]; cbn; constructor; [exact Hk|apply IH]. }
    rewrite Hlo. cbn [res_map map].
    exists (ec_map Pc c0), (ec_map Pc x1), (ec_map Pc x2), (ec_map Pc x3).
    split; [|split; [reflexivity|]].
    - destruct (sym_cs (combine s r) (map e_data cs)); [discriminate|]. cbn in Hhd |- *. congruence.
    - cbn in Hcl |- *. destruct Hcl as (E1 & E2 & E3 & E4). rewrite E1, E2, E3, E4. tauto.
  Qed.

  Corollary loop_order_complete_perm rtol atol cs s r :
    0 <= atol -> 0 <= rtol ->
    (forall i j, (i < 4)%nat -> (j < 4)%nat -> i <> j -> @allclose R NumR rtol atol (Pc i) (Pc j) = false) ->
    Permutation [0;1;2;3]%nat s -> length r = 4%nat ->
    Forall2 is_side cs (combine s r) ->
    exists c0 x1 x2 x3,
      hd_error cs = Some c0 /\
      @loop_order R NumR A rtol atol rd cs = Ok [c0; x1; x2; x3] /\
      closed_exact [c0; x1; x2; x3].
  Proof. intros Ha Hr Hsep Hp. apply loop_order_complete; auto. apply perms4_complete; exact Hp. Qed.
End Complete.

(* the hypotheses are satisfiable: the unit square with the default tolerances of splipy.state
   (controlpoint_absolute_tolerance = 1e-8, controlpoint_relative_tolerance = 0) *)
Definition unit_square (i : nat) : list R := nth i [[0; 0]; [1; 0]; [1; 1]; [0; 1]] [].

Lemma unit_square_separated i j :
  (i < 4)%nat -> (j < 4)%nat -> i <> j ->
  @allclose R NumR 0 (1 / 100000000) (unit_square i) (unit_square j) = false.
Proof.
  intros Hi Hj Hne.
  destruct i as [|[|[|[|i]]]]; try lia; destruct j as [|[|[|[|j]]]]; try lia; unfold unit_square; cbn [nth];
  first [ solve [apply (allclose_R_false _ _ _ _ 0%nat); [cbn; lia|cbn [nth]; unfold Rabs; repeat destruct Rcase_abs; lra]]
        | solve [apply (allclose_R_false _ _ _ _ 1%nat); [cbn; lia|cbn [nth]; unfold Rabs; repeat destruct Rcase_abs; lra]] ].
Qed.

Corollary unit_square_any_arrangement {A : Type} (rd : A -> A) cs s r :
  Permutation [0;1;2;3]%nat s -> length r = 4%nat ->
  Forall2 (is_side unit_square) cs (combine s r) ->
  exists c0 x1 x2 x3,
    hd_error cs = Some c0 /\
    @loop_order R NumR A 0 (1 / 100000000) rd cs = Ok [c0; x1; x2; x3] /\
    closed_exact [c0; x1; x2; x3].
Proof.
  intros Hp Hr HF. eapply loop_order_complete_perm; eauto; try lra. apply unit_square_separated.
Qed.

(* ------------------------------------------------------------------------------------------------------- *)
(* E. when RuntimeError is raised (R)                                                                      *)
(* ------------------------------------------------------------------------------------------------------- *)
Lemma allclose_R_false_iff rtol atol a b :
  @allclose R NumR rtol atol a b = false <-> ~ closeR rtol atol a b.
Proof.
  rewrite <- allclose_R. destruct (allclose rtol atol a b); split; try congruence; intros Hn; exfalso; apply Hn; reflexivity.
Qed.

Section ErrorR.
  Context {A : Type}.
  Variable rd : A -> A.
  Notation curve := (ecurve (list R) A).

  (* the only exception of the four-curve search *)
  Theorem loop_order_err rtol atol (c0 c1 c2 c3 : curve) e :
    @loop_order R NumR A rtol atol rd [c0; c1; c2; c3] = Err e -> e = RuntimeError.
  Proof. apply loop_order_gen_err. Qed.

  (* C15 / ERROR, general form: if for no order of the last three curves and no choice of reversals the three
     junctions c0 -> x1 -> x2 -> x3 are within tolerance, RuntimeError
     ('Curves do not form a closed loop (end-points do not match)') is raised. *)
  Theorem loop_order_no_chain rtol atol (c0 c1 c2 c3 : curve) :
    (forall u1 u2 u3 b1 b2 b3, Permutation [c1; c2; c3] [u1; u2; u3] ->
       ~ (junction rtol atol c0 (mrev rd b1 u1) /\ junction rtol atol (mrev rd b1 u1) (mrev rd b2 u2) /\
          junction rtol atol (mrev rd b2 u2) (mrev rd b3 u3))) ->
    @loop_order R NumR A rtol atol rd [c0; c1; c2; c3] = Err RuntimeError.
  Proof.
    intros Hno. apply loop_order_gen_no_chain. intros used bs Hp Hl Hlk.
    destruct bs as [|b1 [|b2 [|b3 [|b4 bs]]]]; try discriminate.
    pose proof (Permutation_length Hp) as Hlen.
    destruct used as [|u1 [|u2 [|u3 [|u4 used]]]]; try discriminate.
    apply (Hno u1 u2 u3 b1 b2 b3 Hp). cbn in Hlk. destruct Hlk as (H1 & H2 & H3 & _).
    unfold junction. rewrite <- !allclose_R. auto.
  Qed.

  (* ERROR (a): the end of the first curve is not within tolerance of any end point of the other three *)
  Theorem loop_order_first_end_isolated rtol atol (c0 c1 c2 c3 : curve) :
    (forall c, In c [c1; c2; c3] ->
       ~ closeR rtol atol (e_last c0) (e_first c) /\ ~ closeR rtol atol (e_last c0) (e_last c)) ->
    @loop_order R NumR A rtol atol rd [c0; c1; c2; c3] = Err RuntimeError.
  Proof.
    intros Hn. apply loop_order_gen_first_end_isolated. intros c Hc.
    rewrite !allclose_R_false_iff. apply Hn; exact Hc.
  Qed.

  (* ERROR (b): one of the last three curves (ck) has both end points out of tolerance of every end point of the
     other three curves (c0 and "others") *)
  Definition far_from (rtol atol : R) (c ck : curve) : Prop :=
    ~ closeR rtol atol (e_first c) (e_first ck) /\ ~ closeR rtol atol (e_first c) (e_last ck) /\
    ~ closeR rtol atol (e_last c) (e_first ck) /\ ~ closeR rtol atol (e_last c) (e_last ck).

  Theorem loop_order_unreachable rtol atol (c0 c1 c2 c3 ck : curve) others :
    Permutation [c1; c2; c3] (ck :: others) ->
    far_from rtol atol c0 ck -> (forall c, In c others -> far_from rtol atol c ck) ->
    @loop_order R NumR A rtol atol rd [c0; c1; c2; c3] = Err RuntimeError.
  Proof.
    intros Hp H0 Ho. apply (loop_order_gen_unreachable _ _ c0 c1 c2 c3 ck others Hp).
    - unfold unreachable_from. rewrite !allclose_R_false_iff. exact H0.
    - intros c Hc. unfold unreachable_from. rewrite !allclose_R_false_iff. exact (Ho c Hc).
  Qed.

  (* FINDING (general form): an OPEN chain is accepted.  If the first three junctions are within tolerance in the
     given order, the input is returned as the loop, whether or not the end of the fourth curve comes back to the
     start of the first one. *)
  Theorem loop_order_open_chain_accepted rtol atol (c0 c1 c2 c3 : curve) :
    junction rtol atol c0 c1 -> junction rtol atol c1 c2 -> junction rtol atol c2 c3 ->
    @loop_order R NumR A rtol atol rd [c0; c1; c2; c3] = Ok [c0; c1; c2; c3].
  Proof.
    unfold junction. rewrite <- !allclose_R. intros. apply loop_order_gen_open_chain; assumption.
  Qed.
End ErrorR.

(* ------------------------------------------------------------------------------------------------------- *)
(* F. executed examples (Q, default tolerances rtol = 0, atol = 1e-8)                                      *)
(* ------------------------------------------------------------------------------------------------------- *)
Section ExamplesQ.
  Local Open Scope Q_scope.
  (* payload: the number of the input curve and whether it has been reversed *)
  Let rdq (x : nat * bool) : nat * bool := (fst x, negb (snd x)).
  Let crv (id : nat) (a b : list Q) : ecurve (list Q) (nat * bool) := mkEC a b (id, false).
  Let run := @loop_order Q NumQ (nat * bool) 0 (1 # 100000000) rdq.
  Let pA : list Q := [0; 0].  Let pB : list Q := [1; 0].
  Let pC : list Q := [1; 1].  Let pD : list Q := [0; 1].
  Let pE : list Q := [-1; 2]. Let pF : list Q := [5; 5].
  Let pG : list Q := [2; 1].

  (* the four sides of the unit square, scrambled (bottom, left, right, top) and partly reversed
     (left given A->D, right given C->B): bottom, right (reversed), top, left (reversed) *)
  Example unit_square_scrambled :
    run [crv 0 pA pB; crv 1 pA pD; crv 2 pC pB; crv 3 pC pD]
    = Ok [mkEC pA pB (0%nat, false); mkEC pB pC (2%nat, true); mkEC pC pD (3%nat, false); mkEC pD pA (1%nat, true)].
  Proof. vm_compute. reflexivity. Qed.

  (* already a directed loop: returned unchanged *)
  Example unit_square_in_order :
    run [crv 0 pA pB; crv 1 pB pC; crv 2 pC pD; crv 3 pD pA]
    = Ok [crv 0 pA pB; crv 1 pB pC; crv 2 pC pD; crv 3 pD pA].
  Proof. vm_compute. reflexivity. Qed.

  (* the first curve ends at (5,5), which is no end point of the others: RuntimeError *)
  Example no_loop_fails :
    run [crv 0 pA pF; crv 1 pA pD; crv 2 pC pB; crv 3 pC pD] = Err RuntimeError.
  Proof. vm_compute. reflexivity. Qed.

  (* REFUTED: "the output is a closed loop".  A -> B -> C -> D -> E with E = (-1,2) far from A is accepted; the end
     of the last output curve is not within tolerance of the start of the first one (in either argument order). *)
  Example closed_loop_output_refuted :
    run [crv 0 pA pB; crv 1 pB pC; crv 2 pC pD; crv 3 pD pE]
    = Ok [crv 0 pA pB; crv 1 pB pC; crv 2 pC pD; crv 3 pD pE] /\
    @allclose Q NumQ 0 (1 # 100000000) pE pA = false /\ @allclose Q NumQ 0 (1 # 100000000) pA pE = false.
  Proof. vm_compute. repeat split; reflexivity. Qed.

  (* REFUTED: "an end point that matches no other end point makes the call fail".  Same open chain, scrambled and
     partly reversed: (-1,2) and (0,0) each match no other end point, yet the call succeeds. *)
  Example isolated_endpoint_raises_refuted :
    run [crv 0 pA pB; crv 1 pE pD; crv 2 pC pB; crv 3 pC pD]
    = Ok [mkEC pA pB (0%nat, false); mkEC pB pC (2%nat, true); mkEC pC pD (3%nat, false); mkEC pD pE (1%nat, true)].
  Proof. vm_compute. reflexivity. Qed.

  (* the separation hypothesis of loop_order_complete cannot be dropped: the closed loop A -> B -> G -> B -> A
     (corners 1 and 3 coincide) is accepted when given in order, and rejected when the curve B -> A is listed second
     (the search follows it back to A, where nothing continues; it never backtracks) *)
  Example pinched_loop_in_order_accepted :
    run [crv 0 pA pB; crv 1 pB pG; crv 2 pG pB; crv 3 pB pA]
    = Ok [crv 0 pA pB; crv 1 pB pG; crv 2 pG pB; crv 3 pB pA].
  Proof. vm_compute. reflexivity. Qed.
  Example complete_without_separation_refuted :
    run [crv 0 pA pB; crv 3 pB pA; crv 1 pB pG; crv 2 pG pB] = Err RuntimeError.
  Proof. vm_compute. reflexivity. Qed.
End ExamplesQ.

(* ------------------------------------------------------------------------------------------------------- *)
(* G. the repaired search (loop_order2)                                                                     *)
(* ------------------------------------------------------------------------------------------------------- *)
Section Generic2.
  Context {P A : Type}.
  Variable close : P -> P -> bool.
  Variable rd : A -> A.
  Notation curve := (ecurve P A).

  Lemma ec_arrange_mrevs bs (cs : list curve) : ec_arrange rd bs cs = mrevs rd bs cs.
  Proof. reflexivity. Qed.

  Lemma perms3_perm (c1 c2 c3 : curve) p : In p (perms3 c1 c2 c3) -> Permutation [c1; c2; c3] p.
  Proof.
    cbn. intros [<-|[<-|[<-|[<-|[<-|[<-|[]]]]]]].
    - apply Permutation_refl.
    - apply perm_skip, perm_swap.
    - apply perm_swap.
    - apply (Permutation_cons_app [c2; c3] [] c1). apply Permutation_refl.
    - apply perm_trans with [c1; c3; c2]; [apply perm_skip, perm_swap|apply perm_swap].
    - apply (Permutation_cons_app [c3; c2] [] c1). apply perm_swap.
  Qed.

  Lemma perms3_complete (c1 c2 c3 : curve) used : Permutation [c1; c2; c3] used -> In used (perms3 c1 c2 c3).
  Proof.
    intros Hp. pose proof (Permutation_length Hp) as Hl.
    destruct used as [|u1 [|u2 [|u3 [|u4 used]]]]; try discriminate.
    assert (Hin : In u1 [c1; c2; c3]).
    { eapply Permutation_in; [apply Permutation_sym; exact Hp|left; reflexivity]. }
    cbn [In] in Hin. destruct Hin as [<-|[<-|[<-|[]]]].
    - apply Permutation_cons_inv in Hp. apply Permutation_length_2_inv in Hp.
      destruct Hp as [E|E]; inversion E; subst; cbn; tauto.
    - assert (Hp' : Permutation (c2 :: [c1; c3]) (c2 :: [u2; u3])).
      { eapply perm_trans; [apply perm_swap|exact Hp]. }
      apply Permutation_cons_inv in Hp'. apply Permutation_length_2_inv in Hp'.
      destruct Hp' as [E|E]; inversion E; subst; cbn; tauto.
    - assert (Hp' : Permutation (c3 :: [c1; c2]) (c3 :: [u2; u3])).
      { eapply perm_trans; [apply (Permutation_cons_append [c1; c2] c3)|exact Hp]. }
      apply Permutation_cons_inv in Hp'. apply Permutation_length_2_inv in Hp'.
      destruct Hp' as [E|E]; inversion E; subst; cbn; tauto.
  Qed.

  Lemma flags3_complete bs : length bs = 3%nat -> In bs flags3.
  Proof.
    destruct bs as [|b1 [|b2 [|b3 [|b4 bs]]]]; try discriminate. intros _.
    destruct b1, b2, b3; cbn; tauto.
  Qed.
  Lemma flags3_len bs : In bs flags3 -> length bs = 3%nat.
  Proof. cbn. intros H. repeat (destruct H as [<-|H]; [reflexivity|]). contradiction. Qed.

  (* the 48 candidates are exactly the re-orderings of the last three curves with reversal flags *)
  Lemma candidates2_in c1 c2 c3 (t : list curve) :
    In t (candidates2 rd c1 c2 c3) <->
    exists used bs, Permutation [c1; c2; c3] used /\ length bs = 3%nat /\ t = mrevs rd bs used.
  Proof.
    unfold candidates2. rewrite in_flat_map. split.
    - intros (p & Hp & Ht). apply in_map_iff in Ht. destruct Ht as (f & <- & Hf).
      exists p, f. split; [apply perms3_perm; exact Hp|]. split; [apply flags3_len; exact Hf|reflexivity].
    - intros (used & bs & Hp & Hl & ->). exists used. split; [apply perms3_complete; exact Hp|].
      apply in_map_iff. exists bs. split; [reflexivity|apply flags3_complete; exact Hl].
  Qed.

  (* SOUNDNESS (generic): all four junctions pass *)
  Theorem loop_order2_gen_sound cs out :
    loop_order2_gen close rd cs = Ok out ->
    exists c0 c1 c2 c3 used bs,
      cs = [c0; c1; c2; c3] /\ Permutation [c1; c2; c3] used /\ length bs = 3%nat /\
      out = c0 :: mrevs rd bs used /\ closes_list close out = true.
  Proof.
    unfold loop_order2_gen.
    destruct cs as [|c0 [|c1 [|c2 [|c3 [|c4 l]]]]]; try discriminate.
    destruct (closes4 close c0 c1 c2 c3) eqn:E4.
    - intros E; inversion E; subst. exists c0, c1, c2, c3, [c1; c2; c3], [false; false; false].
      repeat split; auto.
    - destruct (find _ _) as [t|] eqn:Ef; [|discriminate].
      intros E; inversion E; subst. apply find_some in Ef. destruct Ef as [Hin Hc].
      apply candidates2_in in Hin. destruct Hin as (used & bs & Hp & Hl & ->).
      exists c0, c1, c2, c3, used, bs. repeat split; auto.
  Qed.

  (* COMPLETENESS (generic): no hypothesis on the corners *)
  Theorem loop_order2_gen_complete c0 c1 c2 c3 used bs :
    Permutation [c1; c2; c3] used -> length bs = 3%nat ->
    closes_list close (c0 :: mrevs rd bs used) = true ->
    exists t, loop_order2_gen close rd [c0; c1; c2; c3] = Ok (c0 :: t) /\ closes_list close (c0 :: t) = true.
  Proof.
    intros Hp Hl Hc. unfold loop_order2_gen.
    destruct (closes4 close c0 c1 c2 c3) eqn:E4; [exists [c1; c2; c3]; split; [reflexivity|exact E4]|].
    destruct (find _ _) as [t|] eqn:Ef.
    - apply find_some in Ef. exists t. split; [reflexivity|apply Ef].
    - exfalso. pose proof (find_none _ _ Ef (mrevs rd bs used)) as Hn. cbv beta in Hn.
      rewrite Hc in Hn. enough (false = true) by discriminate. symmetry. apply Hn.
      apply candidates2_in. exists used, bs. auto.
  Qed.

  Theorem loop_order2_gen_err c0 c1 c2 c3 e :
    loop_order2_gen close rd [c0; c1; c2; c3] = Err e -> e = RuntimeError.
  Proof.
    unfold loop_order2_gen. destruct (closes4 close c0 c1 c2 c3); [discriminate|].
    destruct (find _ _); [discriminate|]. intros E; inversion E; reflexivity.
  Qed.

  (* ERROR (generic): RuntimeError exactly when no arrangement of the last three curves closes *)
  Theorem loop_order2_gen_err_iff c0 c1 c2 c3 :
    loop_order2_gen close rd [c0; c1; c2; c3] = Err RuntimeError <->
    (forall used bs, Permutation [c1; c2; c3] used -> length bs = 3%nat ->
       closes_list close (c0 :: mrevs rd bs used) = false).
  Proof.
    split.
    - intros E used bs Hp Hl. destruct (closes_list close (c0 :: mrevs rd bs used)) eqn:Hc; [|reflexivity].
      destruct (loop_order2_gen_complete c0 c1 c2 c3 used bs Hp Hl Hc) as (t & Ht & _). congruence.
    - intros Hno. destruct (loop_order2_gen close rd [c0; c1; c2; c3]) as [out|e] eqn:E.
      + exfalso. destruct (loop_order2_gen_sound _ _ E) as (d0 & d1 & d2 & d3 & used & bs & Hcs & Hp & Hl & -> & Hc).
        inversion Hcs; subst. rewrite (Hno used bs Hp Hl) in Hc. discriminate.
      + f_equal. eapply loop_order2_gen_err; exact E.
  Qed.

  Lemma find_first {X} (f : X -> bool) l x :
    find f l = Some x ->
    exists l1 l2, l = l1 ++ x :: l2 /\ f x = true /\ forall y, In y l1 -> f y = false.
  Proof.
    induction l as [|a l IH]; cbn [find]; [discriminate|].
    destruct (f a) eqn:Ea.
    - intros E; inversion E; subst. exists [], l. repeat split; auto. intros y [].
    - intros E. destruct (IH E) as (l1 & l2 & -> & Hx & Hl1). exists (a :: l1), l2.
      repeat split; auto. intros y [<-|Hy]; auto.
  Qed.

  (* CHOICE (generic): the input itself if it closes, otherwise the first closing candidate in the order of the
     two nested loops (candidates2 = 6 orders x 8 flag triples, explicit in Model/EdgeLoop.v) *)
  Theorem loop_order2_gen_first c0 c1 c2 c3 out :
    loop_order2_gen close rd [c0; c1; c2; c3] = Ok out ->
    (closes4 close c0 c1 c2 c3 = true /\ out = [c0; c1; c2; c3]) \/
    (closes4 close c0 c1 c2 c3 = false /\
     exists l1 t l2, candidates2 rd c1 c2 c3 = l1 ++ t :: l2 /\ out = c0 :: t /\
       closes_list close (c0 :: t) = true /\ forall t', In t' l1 -> closes_list close (c0 :: t') = false).
  Proof.
    unfold loop_order2_gen. destruct (closes4 close c0 c1 c2 c3).
    - intros E; inversion E; subst. left; auto.
    - destruct (find _ _) as [t|] eqn:Ef; [|discriminate]. intros E; inversion E; subst.
      right. split; [reflexivity|]. destruct (find_first _ _ _ Ef) as (l1 & l2 & Hl & Hc & Hf).
      exists l1, t, l2. auto.
  Qed.
End Generic2.

Section Rename2.
  Context {P Q A : Type}.
  Variable closeP : P -> P -> bool.
  Variable closeQ : Q -> Q -> bool.
  Variable rd : A -> A.
  Variable h : P -> Q.
  Variable D : P -> Prop.
  Hypothesis Hh : forall p q, D p -> D q -> closeQ (h p) (h q) = closeP p q.

  Lemma closes_list_rename (l : list (ecurve P A)) : Forall (inD D) l ->
    closes_list closeQ (map (ec_map h) l) = closes_list closeP l.
  Proof.
    intros Hl. destruct l as [|c0 [|c1 [|c2 [|c3 [|c4 l]]]]]; try reflexivity.
    inversion Hl as [|? ? [? ?] Hl1]; subst. inversion Hl1 as [|? ? [? ?] Hl2]; subst.
    inversion Hl2 as [|? ? [? ?] Hl3]; subst. inversion Hl3 as [|? ? [? ?] _]; subst.
    cbn [map closes_list]. unfold closes4. cbn [ec_map e_first e_last].
    rewrite !Hh by assumption. reflexivity.
  Qed.

  Lemma find_rename (c0 : ecurve P A) (cands : list (list (ecurve P A))) : inD D c0 -> Forall (Forall (inD D)) cands ->
    find (fun t => closes_list closeQ (ec_map h c0 :: t)) (map (map (ec_map h)) cands) =
    option_map (map (ec_map h)) (find (fun t => closes_list closeP (c0 :: t)) cands).
  Proof.
    intros H0 Hc. induction Hc as [|t cands Ht Hc IH]; [reflexivity|].
    cbn [map find]. change (ec_map h c0 :: map (ec_map h) t) with (map (ec_map h) (c0 :: t)).
    rewrite closes_list_rename by (constructor; assumption).
    destruct (closes_list closeP (c0 :: t)); [reflexivity|exact IH].
  Qed.

  Lemma mrevs_inD bs (used : list (ecurve P A)) : Forall (inD D) used -> Forall (inD D) (mrevs rd bs used).
  Proof.
    intros Hu. revert bs. induction Hu as [|u used Hu1 Hu IH]; intros [|b bs]; cbn; try constructor; [|apply IH].
    destruct Hu1. destruct b; split; assumption.
  Qed.

  Lemma loop_order2_gen_rename (cs : list (ecurve P A)) : Forall (inD D) cs ->
    loop_order2_gen closeQ rd (map (ec_map h) cs) = res_map (map (ec_map h)) (loop_order2_gen closeP rd cs).
  Proof.
    intros Hcs. destruct cs as [|c0 [|c1 [|c2 [|c3 [|c4 l]]]]]; try reflexivity.
    pose proof (closes_list_rename _ Hcs) as H4. cbn [map closes_list] in H4.
    inversion Hcs as [|? ? H0 Hcs1]; subst.
    cbn [map]. unfold loop_order2_gen. rewrite H4.
    destruct (closes4 closeP c0 c1 c2 c3); [reflexivity|].
    change (candidates2 rd (ec_map h c1) (ec_map h c2) (ec_map h c3))
      with (map (map (ec_map h)) (candidates2 rd c1 c2 c3)).
    rewrite find_rename; [|exact H0|].
    - destruct (find _ (candidates2 rd c1 c2 c3)); reflexivity.
    - apply Forall_forall. intros t Ht. apply candidates2_in in Ht.
      destruct Ht as (used & bs & Hp & _ & ->). apply mrevs_inD.
      apply Forall_forall. intros x Hx. apply Permutation_sym in Hp.
      pose proof (Permutation_in _ Hp Hx) as Hx'. rewrite Forall_forall in Hcs1. apply Hcs1; exact Hx'.
  Qed.
End Rename2.

Section NewR.
  Context {A : Type}.
  Variable rd : A -> A.
  Notation curve := (ecurve (list R) A).

  Lemma closes_list_R rtol atol (l : list curve) :
    closes_list (@allclose R NumR rtol atol) l = true <-> closed_loop rtol atol l.
  Proof.
    destruct l as [|c0 [|c1 [|c2 [|c3 [|c4 l]]]]]; cbn [closes_list closed_loop];
      try (split; [discriminate|contradiction]).
    unfold closes4, junction. rewrite !andb_true_iff, !allclose_R. tauto.
  Qed.

  (* C15 / SOUNDNESS of the repaired search: the first input curve first and unreversed, the other three in some
     order and each possibly reversed, and ALL FOUR junctions (cyclically) within tolerance *)
  Theorem loop_order2_sound rtol atol cs out :
    @loop_order2 R NumR A rtol atol rd cs = Ok out ->
    exists c0 c1 c2 c3 used b1 b2 b3 x1 x2 x3,
      cs = [c0; c1; c2; c3] /\
      Permutation [c1; c2; c3] used /\
      [x1; x2; x3] = mrevs rd [b1; b2; b3] used /\
      out = [c0; x1; x2; x3] /\
      closed_loop rtol atol [c0; x1; x2; x3].
  Proof.
    unfold loop_order2. intros E.
    destruct (loop_order2_gen_sound _ _ _ _ E) as (c0 & c1 & c2 & c3 & used & bs & -> & Hp & Hl & -> & Hc).
    destruct bs as [|b1 [|b2 [|b3 [|b4 bs]]]]; try discriminate.
    pose proof (Permutation_length Hp) as Hlen.
    destruct used as [|u1 [|u2 [|u3 [|u4 used]]]]; try discriminate.
    exists c0, c1, c2, c3, [u1; u2; u3], b1, b2, b3, (mrev rd b1 u1), (mrev rd b2 u2), (mrev rd b3 u3).
    apply closes_list_R in Hc.
    split; [reflexivity|split; [exact Hp|split; [reflexivity|split; [reflexivity|exact Hc]]]].
  Qed.

  (* C15 / COMPLETENESS of the repaired search, NO separation hypothesis: if some order [u1;u2;u3] of the last three
     curves and some directions b1 b2 b3 give a loop whose four junctions are within tolerance, the search succeeds
     (and returns a closed loop, by soundness) *)
  Theorem loop_order2_complete rtol atol (c0 c1 c2 c3 u1 u2 u3 : curve) b1 b2 b3 :
    Permutation [c1; c2; c3] [u1; u2; u3] ->
    closed_loop rtol atol [c0; mrev rd b1 u1; mrev rd b2 u2; mrev rd b3 u3] ->
    exists x1 x2 x3,
      @loop_order2 R NumR A rtol atol rd [c0; c1; c2; c3] = Ok [c0; x1; x2; x3] /\
      closed_loop rtol atol [c0; x1; x2; x3].
  Proof.
    intros Hp Hc. apply closes_list_R in Hc.
    destruct (loop_order2_gen_complete (allclose rtol atol) rd c0 c1 c2 c3 [u1; u2; u3] [b1; b2; b3] Hp eq_refl Hc)
      as (t & Ht & Hct).
    destruct t as [|x1 [|x2 [|x3 [|x4 t]]]]; try discriminate.
    exists x1, x2, x3. split; [exact Ht|]. apply closes_list_R; exact Hct.
  Qed.

  Theorem loop_order2_err rtol atol (c0 c1 c2 c3 : curve) e :
    @loop_order2 R NumR A rtol atol rd [c0; c1; c2; c3] = Err e -> e = RuntimeError.
  Proof. apply loop_order2_gen_err. Qed.

  (* C15 / ERROR of the repaired search: RuntimeError exactly when no order and no directions of the last three
     curves give a closed loop *)
  Theorem loop_order2_err_iff rtol atol (c0 c1 c2 c3 : curve) :
    @loop_order2 R NumR A rtol atol rd [c0; c1; c2; c3] = Err RuntimeError <->
    (forall u1 u2 u3 b1 b2 b3, Permutation [c1; c2; c3] [u1; u2; u3] ->
       ~ closed_loop rtol atol [c0; mrev rd b1 u1; mrev rd b2 u2; mrev rd b3 u3]).
  Proof.
    unfold loop_order2. rewrite loop_order2_gen_err_iff. split.
    - intros Hno u1 u2 u3 b1 b2 b3 Hp Hc. apply closes_list_R in Hc.
      specialize (Hno [u1; u2; u3] [b1; b2; b3] Hp eq_refl). cbn in Hno, Hc. congruence.
    - intros Hno used bs Hp Hl.
      destruct bs as [|b1 [|b2 [|b3 [|b4 bs]]]]; try discriminate.
      pose proof (Permutation_length Hp) as Hlen.
      destruct used as [|u1 [|u2 [|u3 [|u4 used]]]]; try discriminate.
      destruct (closes_list _ _) eqn:Hc; [|reflexivity].
      exfalso. apply (Hno u1 u2 u3 b1 b2 b3 Hp). apply closes_list_R. exact Hc.
  Qed.

  (* in particular an OPEN chain is now rejected: if the fourth junction can be closed by no arrangement ... *)
  Corollary loop_order2_open_chain_rejected rtol atol (c0 c1 c2 c3 : curve) :
    (forall c, In c [c1; c2; c3] ->
       ~ closeR rtol atol (e_first c) (e_first c0) /\ ~ closeR rtol atol (e_last c) (e_first c0)) ->
    @loop_order2 R NumR A rtol atol rd [c0; c1; c2; c3] = Err RuntimeError.
  Proof.
    intros Hn. apply loop_order2_err_iff. intros u1 u2 u3 b1 b2 b3 Hp (_ & _ & _ & J4).
    assert (Hin : In u3 [c1; c2; c3]).
    { eapply Permutation_in; [apply Permutation_sym; exact Hp|]. right; right; left; reflexivity. }
    destruct (Hn u3 Hin) as [N1 N2]. unfold junction in J4. destruct b3; cbn in J4; tauto.
  Qed.

  (* C15 / CHOICE of the repaired search: the input if it is a closed loop; otherwise the FIRST candidate, in the
     order (1,2,3) (1,3,2) (2,1,3) (2,3,1) (3,1,2) (3,2,1) x FFF FFT FTF FTT TFF TFT TTF TTT, that is a closed loop *)
  Theorem loop_order2_first rtol atol (c0 c1 c2 c3 : curve) out :
    @loop_order2 R NumR A rtol atol rd [c0; c1; c2; c3] = Ok out ->
    (closed_loop rtol atol [c0; c1; c2; c3] /\ out = [c0; c1; c2; c3]) \/
    (~ closed_loop rtol atol [c0; c1; c2; c3] /\
     exists l1 t l2, candidates2 rd c1 c2 c3 = l1 ++ t :: l2 /\ out = c0 :: t /\
       closed_loop rtol atol (c0 :: t) /\ forall t', In t' l1 -> ~ closed_loop rtol atol (c0 :: t')).
  Proof.
    intros E. destruct (loop_order2_gen_first _ _ _ _ _ _ _ E) as [[H4 ->]|[H4 (l1 & t & l2 & Hl & -> & Hc & Hf)]].
    - left. split; [|reflexivity]. apply closes_list_R. exact H4.
    - right. split.
      + intros Hc'. apply closes_list_R in Hc'. cbn [closes_list] in Hc'. congruence.
      + exists l1, t, l2. repeat split; auto; [apply closes_list_R; exact Hc|].
        intros t' Ht' Hc'. apply closes_list_R in Hc'. rewrite (Hf t' Ht') in Hc'. discriminate.
  Qed.
End NewR.

(* the order of the candidates, displayed on names *)
Example candidates2_order :
  map (map e_data) (candidates2 (fun x : nat * bool => (fst x, negb (snd x)))
                                (mkEC tt tt (1%nat, false)) (mkEC tt tt (2%nat, false)) (mkEC tt tt (3%nat, false)))
  = flat_map (fun p => map (fun f => combine p f)
                [[false;false;false];[false;false;true];[false;true;false];[false;true;true];
                 [true;false;false];[true;false;true];[true;true;false];[true;true;true]])
       [[1;2;3];[1;3;2];[2;1;3];[2;3;1];[3;1;2];[3;2;1]]%nat.
Proof. vm_compute. reflexivity. Qed.

(* relation to the old search: on the four sides of a loop with separated corners (the hypotheses of
   loop_order_complete), in any of the 384 arrangements, both searches return the same result *)
Section Agree.
  Context {A : Type}.
  Variable rd : A -> A.
  Variable Pc : nat -> list R.

  Lemma sym_agree s r (ds : list A) :
    In s perms4 -> length r = 4%nat -> length ds = 4%nat ->
    loop_order2_gen Nat.eqb rd (sym_cs (combine s r) ds) = loop_order_gen Nat.eqb rd (sym_cs (combine s r) ds).
  Proof.
    intros Hs Hr Hd.
    destruct r as [|b0 [|b1 [|b2 [|b3 [|b4 r]]]]]; try discriminate.
    destruct ds as [|d0 [|d1 [|d2 [|d3 [|d4 ds]]]]]; try discriminate.
    unfold perms4 in Hs; cbn [In] in Hs.
    repeat (destruct Hs as [<-|Hs]; [destruct b0, b1, b2, b3; vm_compute; reflexivity|]).
    contradiction.
  Qed.

  Theorem loop_order2_agrees_separated rtol atol (cs : list (ecurve (list R) A)) s r :
    0 <= atol -> 0 <= rtol ->
    (forall i j, (i < 4)%nat -> (j < 4)%nat -> i <> j -> @allclose R NumR rtol atol (Pc i) (Pc j) = false) ->
    In s perms4 -> length r = 4%nat ->
    Forall2 (is_side Pc) cs (combine s r) ->
    @loop_order2 R NumR A rtol atol rd cs = @loop_order R NumR A rtol atol rd cs.
  Proof.
    intros Ha Hr Hsep Hs Hlr HF.
    assert (Hh : forall p q, (p < 4)%nat -> (q < 4)%nat ->
                 @allclose R NumR rtol atol (Pc p) (Pc q) = Nat.eqb p q).
    { intros p q Hp Hq. destruct (Nat.eqb_spec p q) as [->|Hne]; [apply allclose_R_refl; assumption|].
      apply Hsep; assumption. }
    pose proof (Forall2_len _ _ _ HF) as Hlen. rewrite combine_length in Hlen.
    assert (Hs4 : length s = 4%nat).
    { unfold perms4 in Hs; cbn [In] in Hs. repeat (destruct Hs as [<-|Hs]; [reflexivity|]). contradiction. }
    rewrite Hs4, Hlr in Hlen. cbn in Hlen.
    assert (HD : Forall (inD (A:=A) (fun i => (i < 4)%nat)) (sym_cs (combine s r) (map e_data cs))).
    { apply sym_inD. apply perms4_lt in Hs. clear - Hs. revert r.
      induction Hs as [|k s Hk Hs IH]; intros [|b r]; cbn; constructor; [exact Hk|apply IH]. }
    rewrite (is_side_sym Pc cs _ HF). unfold loop_order2, loop_order.
    rewrite (loop_order2_gen_rename Nat.eqb (allclose rtol atol) rd Pc (fun i => (i < 4)%nat) Hh _ HD).
    rewrite (loop_order_gen_rename Nat.eqb (allclose rtol atol) rd Pc (fun i => (i < 4)%nat) Hh _ HD).
    rewrite sym_agree; auto. rewrite map_length; exact Hlen.
  Qed.
End Agree.

Section ExamplesQ2.
  Local Open Scope Q_scope.
  Let rdq (x : nat * bool) : nat * bool := (fst x, negb (snd x)).
  Let crv (id : nat) (a b : list Q) : ecurve (list Q) (nat * bool) := mkEC a b (id, false).
  Let run := @loop_order Q NumQ (nat * bool) 0 (1 # 100000000) rdq.
  Let run2 := @loop_order2 Q NumQ (nat * bool) 0 (1 # 100000000) rdq.
  Let pA : list Q := [0; 0].  Let pB : list Q := [1; 0].
  Let pC : list Q := [1; 1].  Let pD : list Q := [0; 1].
  Let pE : list Q := [-1; 2]. Let pF : list Q := [5; 5].
  Let pG : list Q := [2; 1].

  Example unit_square_scrambled2 :
    run2 [crv 0 pA pB; crv 1 pA pD; crv 2 pC pB; crv 3 pC pD]
    = Ok [mkEC pA pB (0%nat, false); mkEC pB pC (2%nat, true); mkEC pC pD (3%nat, false); mkEC pD pA (1%nat, true)].
  Proof. vm_compute. reflexivity. Qed.

  Example unit_square_in_order2 :
    run2 [crv 0 pA pB; crv 1 pB pC; crv 2 pC pD; crv 3 pD pA]
    = Ok [crv 0 pA pB; crv 1 pB pC; crv 2 pC pD; crv 3 pD pA].
  Proof. vm_compute. reflexivity. Qed.

  Example no_loop_fails2 :
    run2 [crv 0 pA pF; crv 1 pA pD; crv 2 pC pB; crv 3 pC pD] = Err RuntimeError.
  Proof. vm_compute. reflexivity. Qed.

  (* the open chain A -> B -> C -> D -> E, in order and scrambled: accepted by the old search, rejected now *)
  Example open_chain_rejected2 :
    run2 [crv 0 pA pB; crv 1 pB pC; crv 2 pC pD; crv 3 pD pE] = Err RuntimeError /\
    run2 [crv 0 pA pB; crv 1 pE pD; crv 2 pC pB; crv 3 pC pD] = Err RuntimeError.
  Proof. vm_compute. split; reflexivity. Qed.

  (* the pinched loop A -> B -> G -> B -> A in both orders: both accepted now, with the same loop *)
  Example pinched_loop_both_orders2 :
    run2 [crv 0 pA pB; crv 1 pB pG; crv 2 pG pB; crv 3 pB pA]
    = Ok [crv 0 pA pB; crv 1 pB pG; crv 2 pG pB; crv 3 pB pA] /\
    run2 [crv 0 pA pB; crv 3 pB pA; crv 1 pB pG; crv 2 pG pB]
    = Ok [crv 0 pA pB; crv 1 pB pG; crv 2 pG pB; crv 3 pB pA].
  Proof. vm_compute. split; reflexivity. Qed.

  (* the triangle with a degenerate fourth edge: AB, CA, BC, CC.  Old search: RuntimeError (it takes BC, then CA, and
     is stuck at A with CC left).  Repaired search: AB, BC, CC, CA. *)
  Example degenerate_edge_triangle2 :
    run [crv 0 pA pB; crv 1 pC pA; crv 2 pB pC; crv 3 pC pC] = Err RuntimeError /\
    run2 [crv 0 pA pB; crv 1 pC pA; crv 2 pB pC; crv 3 pC pC]
    = Ok [crv 0 pA pB; crv 2 pB pC; crv 3 pC pC; crv 1 pC pA].
  Proof. vm_compute. split; reflexivity. Qed.
End ExamplesQ2.

Print Assumptions loop_order_sound.
Print Assumptions loop_order_complete.
Print Assumptions loop_order_complete_perm.
Print Assumptions unit_square_any_arrangement.
Print Assumptions loop_order_no_chain.
Print Assumptions loop_order_first_end_isolated.
Print Assumptions loop_order_unreachable.
Print Assumptions loop_order_open_chain_accepted.
Print Assumptions closed_loop_output_refuted.
Print Assumptions complete_without_separation_refuted.
Print Assumptions loop_order2_sound.
Print Assumptions loop_order2_complete.
Print Assumptions loop_order2_err_iff.
Print Assumptions loop_order2_open_chain_rejected.
Print Assumptions loop_order2_first.
Print Assumptions loop_order2_agrees_separated.
Print Assumptions open_chain_rejected2.
Print Assumptions degenerate_edge_triangle2.
