(* C04 / C10: knot insertion into a PERIODIC direction with a knot value OUTSIDE the base period.

   BSplineBasis.insert_knot (basis.py) starts with
       if self.periodic >= 0:
           if new_knot < self.start() or new_knot >= self.end():
               new_knot = (new_knot - self.start()) % (self.end() - self.start()) + self.start()
       elif new_knot < self.start() or self.end() < new_knot:
           raise ValueError
   which the model transcribes as [wrap_knot] (Model/KnotInsert.v, Python's float % = [nfmod]) at the head of
   [basis_insert_knot].  Proofs/PeriodicInsert.v and Proofs/PeriodicEndToEnd.v treat x INSIDE the base period
   (start <= x < end).  This file removes that hypothesis.

   Part 1  [wrapv] (the value wrap_knot returns on a periodic basis), range / congruence / uniqueness / idempotence /
           invariance under whole periods; [wrap_knot_spec] (periodic), [wrap_knot_open_spec] (non-periodic)
   Part 2  [basis_insert_knot_wrap]:  basis_insert_knot b x = basis_insert_knot b x'  (x' the wrapped knot);
           [basis_insert_knot_periodic_any]: all conclusions of basis_insert_knot_periodic for ANY real x, stated at x';
           [insert_knot_periodic_preserves_map_any]
   Part 3  [obj_insert_knot_wrap], [insert_knot_periodic_eval_any] (all conclusions of insert_knot_periodic_eval for ANY
           real x, plus the C10 well-formedness clauses spelled out), [obj_insert_knots_wrap_list],
           [insert_knots_periodic_eval_any] (lists of arbitrary reals)
   Part 4  examples: ex_knots / ex_curve of PeriodicInsert.v / PeriodicEndToEnd.v (period [0, 8)), x = -23/2 (one and a
           half periods below the start, wrapped to 9/2), a list with knots below and above the period; on Q (NumQ,
           vm_compute) inserting x and inserting x' return the same object.

   The separation hypotheses of the in-period theorems (param_ok_snap: the evaluation parameter is an old knot, or at least
   tol away from the new knot, or equal to it when it is a fixed point of snap) are carried over ON THE WRAPPED KNOT x':
   only x' enters the new knot vector, x itself never does. *)
From Coq Require Import List Arith Reals Lra Lia Bool ZArith.
From SplipyModel Require Import Spec.BSpline Spec.Boehm Model.Num Model.BasisDef Model.BasisEval Model.Tensor Model.Obj
  Model.KnotInsert Model.Split Model.Periodic Model.Interp
  Proofs.KnotList Proofs.Bridge Proofs.SpanCorrect Proofs.EvaluateSpec Proofs.EvalConsequences Proofs.SnapSpec Proofs.SnapChar
  Proofs.TensorLemmas Proofs.ObjEval Proofs.InsertMatrix Proofs.TensorApply Proofs.InsertObj Proofs.OrderRaise
  Proofs.InsertEndToEnd Proofs.ChangeDirEval Proofs.AppendProofs Proofs.SeamContinuity Proofs.PeriodicInsert
  Proofs.PeriodicEndToEnd.
Import ListNotations.
Open Scope R_scope.

(* ------------------------------------------------------------------------------------------------ *)
(* Part 1: the wrapped knot                                                                         *)
(* ------------------------------------------------------------------------------------------------ *)
(* what insert_knot does to new_knot on a periodic basis with start s and end e *)
Definition wrapv (s e x : R) : R :=
  if Rltb x s || Rleb e x then @nfmod R NumR (x - s) (e - s) + s else x.

Lemma wrapv_inside s e x : s <= x < e -> wrapv s e x = x.
Proof.
  intros Hx. unfold wrapv. destruct (Rltb_spec x s); [lra|]. destruct (Rleb_spec e x); [lra|]. reflexivity.
Qed.

Lemma wrapv_range s e x : s < e -> s <= wrapv s e x < e.
Proof.
  intros Hse. unfold wrapv.
  pose proof (nfmod_range (x - s) (e - s) ltac:(lra)) as NR.
  destruct (Rltb_spec x s); cbn [orb]; [lra|]. destruct (Rleb_spec e x); [lra|lra].
Qed.

(* x' = x - m (e - s) for the integer m = floor ((x - s) / (e - s)) *)
Lemma wrapv_congr s e x : s < e -> exists m : Z, wrapv s e x = x - IZR m * (e - s).
Proof.
  intros Hse. unfold wrapv.
  assert (Em : @nfmod R NumR (x - s) (e - s) + s = x - IZR (Rfloor ((x - s) / (e - s))) * (e - s)).
  { unfold nfmod. cbn [nsub nmul ndiv nofZ nfloor NumR]. ring. }
  destruct (Rltb_spec x s); cbn [orb]; [eexists; exact Em|].
  destruct (Rleb_spec e x); [eexists; exact Em|]. exists 0%Z. simpl. ring.
Qed.

(* a value of the base period moved by whole periods is wrapped back to itself *)
Lemma wrapv_shift s e y z : s < e -> s <= y < e -> wrapv s e (y + IZR z * (e - s)) = y.
Proof.
  intros Hse Hy. unfold wrapv.
  replace (y + IZR z * (e - s) - s) with ((y - s) + IZR z * (e - s)) by ring.
  rewrite nfmod_shift by lra.
  destruct (Rltb_spec (y + IZR z * (e - s)) s); cbn [orb]; [ring|].
  destruct (Rleb_spec e (y + IZR z * (e - s))); [ring|].
  destruct (Z.eq_dec z 0) as [->|Nz]; [simpl; ring|].
  exfalso. destruct (Z_lt_le_dec z 0) as [Zn|Zp].
  - assert (IZR z <= -1) by (apply IZR_le; lia). nra.
  - assert (1 <= IZR z) by (apply IZR_le; lia). nra.
Qed.

(* the wrapped knot is THE representative of x modulo the period inside [s, e) *)
Lemma wrapv_unique s e x y m : s < e -> s <= y < e -> y = x - IZR m * (e - s) -> wrapv s e x = y.
Proof.
  intros Hse Hy E. replace x with (y + IZR m * (e - s)) by lra. apply wrapv_shift; assumption.
Qed.

Lemma wrapv_idem s e x : s < e -> wrapv s e (wrapv s e x) = wrapv s e x.
Proof. intros Hse. apply wrapv_inside. apply wrapv_range. exact Hse. Qed.

(* knots that differ by whole periods are wrapped to the same value *)
Lemma wrapv_periodic s e x z : s < e -> wrapv s e (x + IZR z * (e - s)) = wrapv s e x.
Proof.
  intros Hse. destruct (wrapv_congr s e x Hse) as (m & Em).
  apply (wrapv_unique s e _ _ (m + z)%Z Hse (wrapv_range s e x Hse)). rewrite plus_IZR. lra.
Qed.

Lemma wrap_knot_periodic_eq (b : basis R) x : (1 <= b_per1 b)%nat ->
  @wrap_knot R NumR b x = Ok (wrapv (@b_start R NumR b) (@b_end R NumR b) x).
Proof.
  intros Hper. unfold wrap_knot, wrapv. cbv zeta.
  destruct (Nat.eqb_spec (b_per1 b) 0) as [E|_]; [lia|]. cbn [negb]. reflexivity.
Qed.

(* 1. wrap_knot on a periodic basis, ANY real x: the result x' lies in [start, end), differs from x by an integer number
      of periods, is the only such value, is x itself when x is already in [start, end), and is a fixed point *)
Theorem wrap_knot_spec (b : basis R) (x : R) :
  (1 <= b_per1 b)%nat -> @b_start R NumR b < @b_end R NumR b ->
  exists (x' : R) (m : Z),
    @wrap_knot R NumR b x = Ok x' /\
    @b_start R NumR b <= x' < @b_end R NumR b /\
    x' = x - IZR m * (@b_end R NumR b - @b_start R NumR b) /\
    (@b_start R NumR b <= x < @b_end R NumR b -> x' = x) /\
    (forall y m', @b_start R NumR b <= y < @b_end R NumR b ->
                  y = x - IZR m' * (@b_end R NumR b - @b_start R NumR b) -> y = x') /\
    @wrap_knot R NumR b x' = Ok x'.
Proof.
  intros Hper Hse. destruct (wrapv_congr _ _ x Hse) as (m & Em).
  exists (wrapv (@b_start R NumR b) (@b_end R NumR b) x), m.
  split; [apply wrap_knot_periodic_eq; exact Hper|].
  split; [apply wrapv_range; exact Hse|]. split; [exact Em|].
  split; [intros Hx; apply wrapv_inside; exact Hx|].
  split; [intros y m' Hy E; symmetry; apply (wrapv_unique _ _ x y m' Hse Hy E)|].
  rewrite wrap_knot_periodic_eq by exact Hper. rewrite wrapv_idem by exact Hse. reflexivity.
Qed.

(* ... and on a non-periodic basis: the identity on the closed domain, ValueError outside (no wrapping) *)
Theorem wrap_knot_open_spec (b : basis R) (x : R) :
  b_per1 b = 0%nat ->
  (@b_start R NumR b <= x <= @b_end R NumR b -> @wrap_knot R NumR b x = Ok x) /\
  (x < @b_start R NumR b \/ @b_end R NumR b < x -> @wrap_knot R NumR b x = Err ValueError).
Proof.
  intros Hper. unfold wrap_knot. cbv zeta. rewrite Hper. cbn [Nat.eqb negb]. cbn [nltb NumR].
  split.
  - intros Hx. destruct (Rltb_spec x (@b_start R NumR b)); [lra|]. destruct (Rltb_spec (@b_end R NumR b) x); [lra|]. reflexivity.
  - intros Hx. destruct (Rltb_spec x (@b_start R NumR b)); cbn [orb]; [reflexivity|].
    destruct (Rltb_spec (@b_end R NumR b) x); [reflexivity|lra].
Qed.

(* ------------------------------------------------------------------------------------------------ *)
(* Part 2: basis_insert_knot at any real x                                                          *)
(* ------------------------------------------------------------------------------------------------ *)
(* the model's insert_knot only sees the wrapped knot *)
Theorem basis_insert_knot_wrap (b : basis R) (x : R) :
  (1 <= b_per1 b)%nat -> @b_start R NumR b < @b_end R NumR b ->
  @basis_insert_knot R NumR b x = @basis_insert_knot R NumR b (wrapv (@b_start R NumR b) (@b_end R NumR b) x).
Proof.
  intros Hper Hse. unfold basis_insert_knot.
  rewrite !wrap_knot_periodic_eq by exact Hper. rewrite wrapv_idem by exact Hse. reflexivity.
Qed.

(* the period of a canonical basis is end - start *)
Lemma canon_domain (k : list R) p per1 n T : per_canon k p per1 n T ->
  @b_end R NumR (mkBasis p k per1) - @b_start R NumR (mkBasis p k per1) = T /\
  @b_start R NumR (mkBasis p k per1) < @b_end R NumR (mkBasis p k per1) /\ (1 <= per1)%nat.
Proof.
  intros Hcan. rewrite (canon_end k p per1 n T Hcan), (canon_start k p per1), (canon_period k p per1 n T Hcan).
  pose proof Hcan as (_ & Hper1 & _ & _ & _ & HT & _). repeat split; [ring|lra|exact Hper1].
Qed.

(* 2. C04 (periodic half), ANY real knot x.  With x' the wrapped knot (start <= x' < end, x' = x - m T, x' = x when x is in
      the base period): insert_knot at x IS insert_knot at x'; it succeeds, returns a canonical periodic basis with one
      more function, the same period and domain, whose knots over one period are the old ones plus exactly x', and the
      matrix C relates the dense periodic rows before and after:  N_old(t) = N_new(t) x C. *)
Theorem basis_insert_knot_periodic_any (k : list R) (p per1 n : nat) (T x : R) :
  per_canon k p per1 n T ->
  let b := mkBasis p k per1 in
  let x' := wrapv (@b_start R NumR b) (@b_end R NumR b) x in
  let mu := @py_bisect_right R NumR k x' in
  let C := @mat_of_writes R NumR (n + 1) n (@insert_writes R NumR k p n mu x') in
  @b_start R NumR b <= x' < @b_end R NumR b /\
  (exists m : Z, x' = x - IZR m * T) /\
  (@b_start R NumR b <= x < @b_end R NumR b -> x' = x) /\
  @basis_insert_knot R NumR b x = @basis_insert_knot R NumR b x' /\
  exists knew,
    @basis_insert_knot R NumR b x = Ok (mkBasis p knew per1, C) /\
    per_canon knew p per1 (n + 1) T /\
    @b_start R NumR (mkBasis p knew per1) = @b_start R NumR b /\
    @b_end R NumR (mkBasis p knew per1) = @b_end R NumR b /\
    firstn (n + 1) (skipn per1 knew) = insert_at (firstn n (skipn per1 k)) (mu - per1) x' /\
    forall side t, after_start side (@b_start R NumR b) t -> before_end side t (@b_end R NumR b) ->
      row_rel (@ref_row R NumR side k p per1 0 t) (@ref_row R NumR side knew p per1 0 t) C.
Proof.
  intros Hcan b x' mu C.
  destruct (canon_domain k p per1 n T Hcan) as (HT & Hse & Hper). fold b in HT, Hse.
  assert (Hx' : @b_start R NumR b <= x' < @b_end R NumR b) by (apply wrapv_range; exact Hse).
  assert (Hw : @basis_insert_knot R NumR b x = @basis_insert_knot R NumR b x')
    by (apply (basis_insert_knot_wrap b x Hper Hse)).
  split; [exact Hx'|].
  split; [destruct (wrapv_congr _ _ x Hse) as (m & Em); exists m; fold x' in Em; rewrite <- HT; exact Em|].
  split; [intros Hx; apply wrapv_inside; exact Hx|].
  split; [exact Hw|].
  destruct (basis_insert_knot_periodic k p per1 n T x' Hcan Hx') as (knew & E & Rest). cbv zeta in E, Rest.
  exists knew. split; [rewrite Hw; exact E|exact Rest].
Qed.

(* the lifting to tensor nets, stated on the output of the model's basis_insert_knot, ANY real x *)
Theorem insert_knot_periodic_preserves_map_any (k : list R) (p per1 n : nat) (T x : R) b' C :
  per_canon k p per1 n T ->
  @basis_insert_knot R NumR (mkBasis p k per1) x = Ok (b', C) ->
  forall dim c side t (rows : list (list R)) d cps,
  after_start side (@b_start R NumR (mkBasis p k per1)) t -> before_end side t (@b_end R NumR (mkBasis p k per1)) ->
  (d < length rows)%nat -> (c < dim)%nat -> nth d rows [] = @ref_row R NumR side k p per1 0 t ->
  net_ok dim rows cps -> (0 < prodl (map (@length R) rows))%nat ->
  coord c (@teval R NumR dim (@upd (list R) rows d (@ref_row R NumR side (b_knots b') (b_order b') (b_per1 b') 0 t))
             (@apply_dir R NumR dim (map (@length R) rows) d C cps))
  = coord c (@teval R NumR dim rows cps).
Proof.
  intros Hcan Hins.
  destruct (canon_domain k p per1 n T Hcan) as (HT & Hse & Hper).
  rewrite (basis_insert_knot_wrap (mkBasis p k per1) x Hper Hse) in Hins.
  apply (insert_knot_periodic_preserves_map k p per1 n T _ b' C Hcan (wrapv_range _ _ x Hse) Hins).
Qed.

(* ------------------------------------------------------------------------------------------------ *)
(* Part 3: objects, through obj_eval                                                                *)
(* ------------------------------------------------------------------------------------------------ *)
Lemma canon_dir_domain (o : obj R) d n T : canon_dir o d n T ->
  let bd := nth d (o_bases o) dflt_basis in
  @b_end R NumR bd - @b_start R NumR bd = T /\ @b_start R NumR bd < @b_end R NumR bd /\ (1 <= b_per1 bd)%nat.
Proof.
  intros Hcan bd. unfold canon_dir in Hcan. cbv zeta in Hcan. fold bd in Hcan.
  pose proof (canon_domain _ _ _ n T Hcan) as H.
  replace (mkBasis (b_order bd) (b_knots bd) (b_per1 bd)) with bd in H by (destruct bd; reflexivity). exact H.
Qed.

(* SplineObject.insert_knot with one knot only sees the wrapped knot *)
Theorem obj_insert_knot_wrap (o : obj R) d n T x : canon_dir o d n T ->
  let bd := nth d (o_bases o) dflt_basis in
  @obj_insert_knots R NumR o d [x] = @obj_insert_knots R NumR o d [wrapv (@b_start R NumR bd) (@b_end R NumR bd) x].
Proof.
  intros Hcan bd. destruct (canon_dir_domain o d n T Hcan) as (_ & Hse & Hper). fold bd in Hse, Hper.
  cbn [obj_insert_knots]. change (mkBasis 0 [] 0) with dflt_basis. fold bd.
  rewrite (basis_insert_knot_wrap bd x Hper Hse). reflexivity.
Qed.

(* 3. insert_knot in a regular canonical periodic direction, ANY real knot x.  x' is the wrapped knot.  The model's
      insertion at x is the insertion at x'; it succeeds; the result is well formed and canonical with one more function
      (C10: the new knot list in direction d is sorted, every knot i + (n+1) is the exact image of knot i by the period T,
      the start knot keeps its multiplicity, the domain is unchanged, the knot values in the closed base period are the old
      ones plus exactly x'); and obj_eval is preserved
        (a) at every parameter tuple whose d-th entry (ANY real) snaps the same way on the old and new knot lists,
        (b) when the d-th entry lies in the closed base period and param_ok_snap holds for the WRAPPED knot x',
        (c) when the d-th entry is not within tol of any old or new knot. *)
Theorem insert_knot_periodic_eval_any tol (o : obj R) d n T x :
  0 < tol -> wf_obj_R tol o -> (d < length (o_bases o))%nat -> canon_dir o d n T ->
  let bd := nth d (o_bases o) dflt_basis in
  let x' := wrapv (@b_start R NumR bd) (@b_end R NumR bd) x in
  @b_start R NumR bd <= x' < @b_end R NumR bd /\
  (exists m : Z, x' = x - IZR m * T) /\
  (@b_start R NumR bd <= x < @b_end R NumR bd -> x' = x) /\
  @obj_insert_knots R NumR o d [x] = @obj_insert_knots R NumR o d [x'] /\
  exists o', @obj_insert_knots R NumR o d [x] = Ok o' /\
    wf_obj_R tol o' /\ canon_dir o' d (n + 1) T /\
    length (o_bases o') = length (o_bases o) /\
    (forall i, i <> d -> nth i (o_bases o') dflt_basis = nth i (o_bases o) dflt_basis) /\
    let bd' := nth d (o_bases o') dflt_basis in
    b_order bd' = b_order bd /\ b_per1 bd' = b_per1 bd /\
    @b_start R NumR bd' = @b_start R NumR bd /\ @b_end R NumR bd' = @b_end R NumR bd /\
    (* C10 well-formedness, spelled out *)
    sorted (@kn R NumR (b_knots bd')) /\
    length (b_knots bd') = S (length (b_knots bd)) /\
    (forall i, (i + (n + 1) < length (b_knots bd'))%nat ->
       @kn R NumR (b_knots bd') (i + (n + 1)) = @kn R NumR (b_knots bd') i + T) /\
    In x' (b_knots bd') /\
    (forall v, @b_start R NumR bd <= v <= @b_end R NumR bd -> (In v (b_knots bd') <-> In v (b_knots bd) \/ v = x')) /\
    (* evaluation *)
    (forall ts, (forall i, (i < length (o_bases o))%nat -> in_dom tol (nth i (o_bases o) dflt_basis) (nth i ts 0)) ->
       @snap1 R NumR (b_knots bd') tol (nth d ts 0) = @snap1 R NumR (b_knots bd) tol (nth d ts 0) ->
       @obj_eval R NumR tol o' ts = @obj_eval R NumR tol o ts) /\
    (forall t, @b_start R NumR bd <= t <= @b_end R NumR bd -> param_ok_snap tol (b_knots bd) x' t ->
       @snap1 R NumR (b_knots bd') tol t = @snap1 R NumR (b_knots bd) tol t) /\
    (forall ts, (forall i, (i < length (o_bases o))%nat -> in_dom tol (nth i (o_bases o) dflt_basis) (nth i ts 0)) ->
       @b_start R NumR bd <= nth d ts 0 <= @b_end R NumR bd -> param_ok_snap tol (b_knots bd) x' (nth d ts 0) ->
       @obj_eval R NumR tol o' ts = @obj_eval R NumR tol o ts) /\
    (forall ts, (forall i, (i < length (o_bases o))%nat -> in_dom tol (nth i (o_bases o) dflt_basis) (nth i ts 0)) ->
       (forall v, In v (b_knots bd) \/ In v (b_knots bd') -> tol <= Rabs (v - nth d ts 0)) ->
       @obj_eval R NumR tol o' ts = @obj_eval R NumR tol o ts).
Proof.
  intros Htol Hwf Hd Hcan bd x'.
  destruct (canon_dir_domain o d n T Hcan) as (HT & Hse & Hper). fold bd in HT, Hse, Hper.
  assert (Hx' : @b_start R NumR bd <= x' < @b_end R NumR bd) by (apply wrapv_range; exact Hse).
  pose proof (obj_insert_knot_wrap o d n T x Hcan) as Hw. cbv zeta in Hw. fold bd in Hw. fold x' in Hw.
  split; [exact Hx'|].
  split; [destruct (wrapv_congr _ _ x Hse) as (m & Em); exists m; fold x' in Em; rewrite <- HT; exact Em|].
  split; [intros Hx; apply wrapv_inside; exact Hx|].
  split; [exact Hw|].
  destruct (insert_knot_periodic_eval tol o d n T x' Htol Hwf Hd Hcan Hx')
    as (o' & Hins & Hwf' & Hcan' & Hl' & Hoth' & Hrest). cbv zeta in Hrest. fold bd in Hrest.
  destruct Hrest as (Ho' & Hp' & Hs' & He' & Hval' & Hev1 & Hsn & Hev2 & Hev3).
  exists o'. split; [rewrite Hw; exact Hins|]. split; [exact Hwf'|]. split; [exact Hcan'|]. split; [exact Hl'|].
  split; [exact Hoth'|]. cbv zeta.
  split; [exact Ho'|]. split; [exact Hp'|]. split; [exact Hs'|]. split; [exact He'|].
  pose proof Hcan' as Hc'. unfold canon_dir in Hc'. cbv zeta in Hc'.
  destruct Hc' as (HK' & _ & _ & Hlen' & _ & _ & _ & Himg').
  pose proof Hcan as Hc. unfold canon_dir in Hc. cbv zeta in Hc. fold bd in Hc. destruct Hc as (_ & _ & _ & Hlen & _).
  split; [exact HK'|].
  split; [rewrite Hlen', Hlen, Ho', Hp'; lia|].
  split; [exact Himg'|].
  split; [apply Hval'; [lra|right; reflexivity]|].
  split; [exact Hval'|].
  split; [exact Hev1|]. split; [exact Hsn|]. split; [exact Hev2|exact Hev3].
Qed.

(* lists: SplineObject.insert_knot with a list of ARBITRARY reals is the insertion of the wrapped values
   (every insertion keeps the domain, so all values are wrapped with the original start and end) *)
Theorem obj_insert_knots_wrap_list tol d : 0 < tol ->
  forall (xs : list R) (o : obj R) n T,
  wf_obj_R tol o -> (d < length (o_bases o))%nat -> canon_dir o d n T ->
  let bd := nth d (o_bases o) dflt_basis in
  @obj_insert_knots R NumR o d xs
  = @obj_insert_knots R NumR o d (map (wrapv (@b_start R NumR bd) (@b_end R NumR bd)) xs).
Proof.
  intros Htol. induction xs as [|x xs IH]; intros o n T Hwf Hd Hcan bd; [reflexivity|].
  cbn [map]. rewrite (obj_insert_knots_cons1 o d x xs).
  rewrite (obj_insert_knots_cons1 o d (wrapv (@b_start R NumR bd) (@b_end R NumR bd) x)
             (map (wrapv (@b_start R NumR bd) (@b_end R NumR bd)) xs)).
  pose proof (obj_insert_knot_wrap o d n T x Hcan) as Hw. cbv zeta in Hw. fold bd in Hw. rewrite Hw.
  destruct (canon_dir_domain o d n T Hcan) as (_ & Hse & _). fold bd in Hse.
  destruct (insert_knot_periodic_eval tol o d n T _ Htol Hwf Hd Hcan (wrapv_range _ _ x Hse))
    as (o1 & Hins & Hwf1 & Hcan1 & Hl1 & _ & Hrest). cbv zeta in Hrest. fold bd in Hrest.
  destruct Hrest as (_ & _ & Hs1 & He1 & _).
  rewrite Hins.
  rewrite (IH o1 (n + 1)%nat T Hwf1 ltac:(rewrite Hl1; exact Hd) Hcan1). cbv zeta. rewrite Hs1, He1. reflexivity.
Qed.

(* a list of arbitrary reals: param_ok_snap for every WRAPPED knot with respect to the original knot list, the d-th
   parameter in the closed base period *)
Theorem insert_knots_periodic_eval_any tol d ts : 0 < tol ->
  forall (xs : list R) (o : obj R) n T,
  wf_obj_R tol o -> (d < length (o_bases o))%nat -> canon_dir o d n T ->
  let bd := nth d (o_bases o) dflt_basis in
  let w := wrapv (@b_start R NumR bd) (@b_end R NumR bd) in
  (forall x, In x xs -> param_ok_snap tol (b_knots bd) (w x) (nth d ts 0)) ->
  (forall i, (i < length (o_bases o))%nat -> in_dom tol (nth i (o_bases o) dflt_basis) (nth i ts 0)) ->
  @b_start R NumR bd <= nth d ts 0 <= @b_end R NumR bd ->
  (forall x, In x xs -> @b_start R NumR bd <= w x < @b_end R NumR bd /\ exists m : Z, w x = x - IZR m * T) /\
  @obj_insert_knots R NumR o d xs = @obj_insert_knots R NumR o d (map w xs) /\
  exists o', @obj_insert_knots R NumR o d xs = Ok o' /\
    wf_obj_R tol o' /\ canon_dir o' d (n + length xs) T /\
    @obj_eval R NumR tol o' ts = @obj_eval R NumR tol o ts /\
    length (o_bases o') = length (o_bases o) /\
    (forall i, i <> d -> nth i (o_bases o') dflt_basis = nth i (o_bases o) dflt_basis) /\
    let bd' := nth d (o_bases o') dflt_basis in
    b_order bd' = b_order bd /\ b_per1 bd' = b_per1 bd /\
    @b_start R NumR bd' = @b_start R NumR bd /\ @b_end R NumR bd' = @b_end R NumR bd.
Proof.
  intros Htol xs o n T Hwf Hd Hcan bd w Hok Hdom Ht.
  destruct (canon_dir_domain o d n T Hcan) as (HT & Hse & Hper). fold bd in HT, Hse, Hper.
  pose proof (obj_insert_knots_wrap_list tol d Htol xs o n T Hwf Hd Hcan) as Hw. cbv zeta in Hw. fold bd in Hw. fold w in Hw.
  split.
  { intros x _. split; [apply wrapv_range; exact Hse|].
    destruct (wrapv_congr _ _ x Hse) as (m & Em). exists m. unfold w. rewrite <- HT. exact Em. }
  split; [exact Hw|].
  destruct (insert_knots_periodic_eval tol d ts Htol (map w xs) o n T Hwf Hd Hcan) as (o' & Hins & Hrest).
  - fold bd. intros y Hy. apply in_map_iff in Hy. destruct Hy as (x & <- & Hx).
    split; [apply wrapv_range; exact Hse|apply Hok; exact Hx].
  - exact Hdom.
  - exact Ht.
  - rewrite map_length in Hrest. exists o'. split; [rewrite Hw; exact Hins|exact Hrest].
Qed.

(* ------------------------------------------------------------------------------------------------ *)
(* Part 4: examples (non-vacuity)                                                                   *)
(* ------------------------------------------------------------------------------------------------ *)
(* ex_knots: order 4, continuity 2, 8 functions, base period [0, 8).  x = -23/2 lies one and a half periods (less 1/2)
   below the start; the model wraps it to 9/2 = -23/2 + 2 * 8 *)
Example ex_wrap_below : @wrap_knot R NumR (mkBasis 4 ex_knots 3) (-23/2) = Ok (9/2).
Proof.
  rewrite wrap_knot_periodic_eq by (cbn [b_per1]; lia). rewrite ex_start, ex_end. f_equal.
  apply (wrapv_unique 0 8 (-23/2) (9/2) (-2)%Z); lra.
Qed.
(* ... and 33/2 (two periods above 1/2) to 1/2, -1/2 to 15/2, the end 8 itself to the start 0 *)
Example ex_wrap_above : @wrap_knot R NumR (mkBasis 4 ex_knots 3) (33/2) = Ok (1/2).
Proof.
  rewrite wrap_knot_periodic_eq by (cbn [b_per1]; lia). rewrite ex_start, ex_end. f_equal.
  apply (wrapv_unique 0 8 (33/2) (1/2) 2%Z); lra.
Qed.
Example ex_wrap_end : @wrap_knot R NumR (mkBasis 4 ex_knots 3) 8 = Ok 0.
Proof.
  rewrite wrap_knot_periodic_eq by (cbn [b_per1]; lia). rewrite ex_start, ex_end. f_equal.
  apply (wrapv_unique 0 8 8 0 1%Z); lra.
Qed.

Lemma ex_wrapv x y m : 0 <= y < 8 -> y = x - IZR m * 8 ->
  wrapv (@b_start R NumR (nth 0 (o_bases ex_curve) dflt_basis)) (@b_end R NumR (nth 0 (o_bases ex_curve) dflt_basis)) x = y.
Proof.
  intros Hy E. cbn [ex_curve o_bases nth]. rewrite ex_start, ex_end. apply (wrapv_unique 0 8 x y m); lra.
Qed.

(* the hypotheses of basis_insert_knot_periodic_any hold for ex_knots and x = -23/2; the new period is the old one
   plus exactly 9/2 *)
Example ex_basis_any :
  exists knew C, @basis_insert_knot R NumR (mkBasis 4 ex_knots 3) (-23/2) = Ok (mkBasis 4 knew 3, C) /\
    @basis_insert_knot R NumR (mkBasis 4 ex_knots 3) (-23/2) = @basis_insert_knot R NumR (mkBasis 4 ex_knots 3) (9/2) /\
    per_canon knew 4 3 9 8 /\
    firstn 9 (skipn 3 knew) = insert_at (firstn 8 (skipn 3 ex_knots)) (@py_bisect_right R NumR ex_knots (9/2) - 3) (9/2).
Proof.
  pose proof (basis_insert_knot_periodic_any ex_knots 4 3 8 8 (-23/2) ex_canon) as H. cbv zeta in H.
  assert (E : wrapv (@b_start R NumR (mkBasis 4 ex_knots 3)) (@b_end R NumR (mkBasis 4 ex_knots 3)) (-23/2) = 9/2).
  { rewrite ex_start, ex_end. apply (wrapv_unique 0 8 (-23/2) (9/2) (-2)%Z); lra. }
  rewrite E in H. destruct H as (_ & _ & _ & Hw & knew & Hins & Hc & _ & _ & Hper & _).
  exists knew. eexists. split; [exact Hins|]. split; [exact Hw|]. split; [exact Hc|exact Hper].
Qed.

(* through obj_eval: the closed curve ex_curve, knot -23/2, any parameter of the closed base period at least tol away
   from 9/2 *)
Example ex_insert_any t : 0 <= t <= 8 -> 1/1000 <= Rabs (9/2 - t) ->
  exists o', @obj_insert_knots R NumR ex_curve 0 [-23/2] = Ok o' /\
    @obj_insert_knots R NumR ex_curve 0 [9/2] = Ok o' /\
    wf_obj_R (1/1000) o' /\ canon_dir o' 0 9 8 /\ In (9/2) (b_knots (nth 0 (o_bases o') dflt_basis)) /\
    @obj_eval R NumR (1/1000) o' [t] = @obj_eval R NumR (1/1000) ex_curve [t].
Proof.
  intros Ht Far.
  pose proof (insert_knot_periodic_eval_any (1/1000) ex_curve 0 8 8 (-23/2) ltac:(lra) ex_wf ltac:(cbn; lia) ex_canon_dir) as H.
  cbv zeta in H. rewrite (ex_wrapv (-23/2) (9/2) (-2)%Z ltac:(lra) ltac:(lra)) in H.
  destruct H as (_ & _ & _ & Hw & o' & Hins & Hwf' & Hcan' & _ & _ & _ & _ & _ & _ & _ & _ & _ & Hin & _ & _ & _ & Hev & _).
  exists o'. split; [exact Hins|]. split; [rewrite <- Hw; exact Hins|]. split; [exact Hwf'|]. split; [exact Hcan'|].
  split; [exact Hin|]. apply Hev.
  - intros i Hi. cbn in Hi. assert (i = 0%nat) by lia. subst i. unfold in_dom. cbn [ex_curve o_bases nth b_per1]. intros E. discriminate.
  - cbn [ex_curve o_bases nth]. rewrite ex_start, ex_end. exact Ht.
  - right. left. exact Far.
Qed.

(* a list with knots below, above and inside the period: -23/2 -> 9/2 (interior), 33/2 -> 1/2 (repair_right),
   -1/2 -> 15/2 (repair_left), 5/2 (already inside) *)
Example ex_insert_list_any t : 0 <= t <= 8 ->
  1/1000 <= Rabs (9/2 - t) -> 1/1000 <= Rabs (1/2 - t) -> 1/1000 <= Rabs (15/2 - t) -> 1/1000 <= Rabs (5/2 - t) ->
  exists o', @obj_insert_knots R NumR ex_curve 0 [-23/2; 33/2; -1/2; 5/2] = Ok o' /\
    @obj_insert_knots R NumR ex_curve 0 [9/2; 1/2; 15/2; 5/2] = Ok o' /\
    wf_obj_R (1/1000) o' /\ canon_dir o' 0 12 8 /\
    @obj_eval R NumR (1/1000) o' [t] = @obj_eval R NumR (1/1000) ex_curve [t].
Proof.
  intros Ht F1 F2 F3 F4.
  pose proof (insert_knots_periodic_eval_any (1/1000) 0 [t] ltac:(lra) [-23/2; 33/2; -1/2; 5/2] ex_curve 8 8
                ex_wf ltac:(cbn; lia) ex_canon_dir) as H.
  cbv zeta in H. cbn [map] in H.
  rewrite (ex_wrapv (-23/2) (9/2) (-2)%Z ltac:(lra) ltac:(lra)) in H.
  rewrite (ex_wrapv (33/2) (1/2) 2%Z ltac:(lra) ltac:(lra)) in H.
  rewrite (ex_wrapv (-1/2) (15/2) (-1)%Z ltac:(lra) ltac:(lra)) in H.
  rewrite (ex_wrapv (5/2) (5/2) 0%Z ltac:(lra) ltac:(lra)) in H.
  destruct H as (_ & Hw & o' & Hins & Hwf' & Hcan' & Hev & _).
  - intros x [<-|[<-|[<-|[<-|[]]]]].
    + rewrite (ex_wrapv (-23/2) (9/2) (-2)%Z ltac:(lra) ltac:(lra)). right; left; exact F1.
    + rewrite (ex_wrapv (33/2) (1/2) 2%Z ltac:(lra) ltac:(lra)). right; left; exact F2.
    + rewrite (ex_wrapv (-1/2) (15/2) (-1)%Z ltac:(lra) ltac:(lra)). right; left; exact F3.
    + rewrite (ex_wrapv (5/2) (5/2) 0%Z ltac:(lra) ltac:(lra)). right; left; exact F4.
  - intros i Hi. cbn in Hi. assert (i = 0%nat) by lia. subst i. unfold in_dom. cbn [ex_curve o_bases nth b_per1]. intros E. discriminate.
  - cbn [ex_curve o_bases nth]. rewrite ex_start, ex_end. exact Ht.
  - exists o'. split; [exact Hins|]. split; [rewrite <- Hw; exact Hins|]. split; [exact Hwf'|]. split; [exact Hcan'|exact Hev].
Qed.

(* ---------------- the same on Q (instance NumQ), executed: inserting x and inserting x' return the same object -------- *)
From Coq Require Import QArith.
Definition exq_knots : list Q := [-3; -2; -1; 0; 1; 2; 3; 4; 5; 6; 7; 8; 9; 10; 11]%Q.
Definition exq_b : basis Q := @mkBasis Q 4 exq_knots 3.
Definition exq_curve : obj Q :=
  @mkObj Q [exq_b] [[1; 0]; [1; 1]; [0; 1]; [-1; 1]; [-1; 0]; [-1; -1]; [0; -1]; [1; -1]]%Q 2 false.

Example exq_wrap :
  @wrap_knot Q NumQ exq_b (-23#2)%Q = Ok (9#2)%Q /\ @wrap_knot Q NumQ exq_b (33#2)%Q = Ok (1#2)%Q /\
  @wrap_knot Q NumQ exq_b (-1#2)%Q = Ok (15#2)%Q /\ @wrap_knot Q NumQ exq_b 8%Q = Ok 0%Q.
Proof. vm_compute. repeat split; reflexivity. Qed.

(* basis level: the same new basis (knot 9/2 inserted between 4 and 5) and the same 9 x 8 matrix *)
Example exq_basis_same :
  @basis_insert_knot Q NumQ exq_b (-23#2)%Q = @basis_insert_knot Q NumQ exq_b (9#2)%Q /\
  match @basis_insert_knot Q NumQ exq_b (-23#2)%Q with
  | Ok (b', C) => b_knots b' = [-3; -2; -1; 0; 1; 2; 3; 4; 9#2; 5; 6; 7; 8; 9; 10; 11]%Q /\ length C = 9%nat
  | Err _ => False
  end.
Proof. vm_compute. repeat split; reflexivity. Qed.

(* object level, one knot and the list of ex_insert_list_any (all three branches of the ghost-knot repair occur) *)
Example exq_obj_same :
  @obj_insert_knots Q NumQ exq_curve 0 [(-23#2)%Q] = @obj_insert_knots Q NumQ exq_curve 0 [(9#2)%Q] /\
  @obj_insert_knots Q NumQ exq_curve 0 [-23#2; 33#2; -1#2; 5#2]%Q
  = @obj_insert_knots Q NumQ exq_curve 0 [9#2; 1#2; 15#2; 5#2]%Q /\
  match @obj_insert_knots Q NumQ exq_curve 0 [-23#2; 33#2; -1#2; 5#2]%Q with
  | Ok o' => b_knots (nth 0 (o_bases o') exq_b)
             = [-2; -1; -1#2; 0; 1#2; 1; 2; 5#2; 3; 4; 9#2; 5; 6; 7; 15#2; 8; 17#2; 9; 10]%Q
  | Err _ => False
  end.
Proof. vm_compute. repeat split; reflexivity. Qed.

Print Assumptions wrap_knot_spec.
Print Assumptions wrap_knot_open_spec.
Print Assumptions basis_insert_knot_wrap.
Print Assumptions basis_insert_knot_periodic_any.
Print Assumptions insert_knot_periodic_preserves_map_any.
Print Assumptions insert_knot_periodic_eval_any.
Print Assumptions obj_insert_knots_wrap_list.
Print Assumptions insert_knots_periodic_eval_any.
Print Assumptions ex_insert_list_any.
Print Assumptions exq_obj_same.
