(* Consequences of evaluate_spec: non-negativity, partition of unity, vanishing of
   high derivatives, and the list-level statement about BSplineBasis.evaluate. *)
From Coq Require Import List Arith Reals Lra Lia Bool ZArith.
From SplipyModel Require Import Spec.BSpline Spec.Deriv Model.Num Model.BasisDef Model.BasisEval
  Proofs.Bridge Proofs.EvalCorrect Proofs.SpanCorrect Proofs.EvaluateSpec.
Import ListNotations.
Open Scope R_scope.

Lemma sumf_exchange (h : nat -> nat -> R) a m b n :
  sumf (fun c => sumf (fun i => h c i) a m) b n = sumf (fun i => sumf (fun c => h c i) b n) a m.
Proof.
  revert b; induction n as [|n IH]; intros b; cbn [sumf].
  - symmetry. apply sumf_zero. reflexivity.
  - rewrite IH. rewrite <- sumf_plus. reflexivity.
Qed.

Lemma sumf_indicator (x : R) (j : nat) b n : (b <= j < b + n)%nat ->
  sumf (fun c => if (j =? c)%nat then x else 0) b n = x.
Proof.
  revert b; induction n as [|n IH]; intros b H; [lia|]. cbn [sumf].
  destruct (Nat.eqb_spec j b) as [->|N].
  - rewrite sumf_zero; [ring|]. intros i Hi. destruct (Nat.eqb_spec b i); [lia|reflexivity].
  - rewrite IH by lia. ring.
Qed.

Lemma nth_map_seq' (f : nat -> R) n j : (j < n)%nat -> nth j (map f (seq 0 n)) 0 = f j.
Proof. apply nth_map_seq. Qed.

Lemma nth_map_gen {A B} (f : A -> B) l i d d' : (i < length l)%nat -> nth i (map f l) d = f (nth i l d').
Proof.
  revert i; induction l as [|a l IH]; intros i H; cbn in *; [lia|].
  destruct i; [reflexivity|]. apply IH. lia.
Qed.

Section Cons.
Variable k : list R.
Variables (p per1 : nat).
Hypothesis HK : sorted (kn k).
Hypothesis Hp : (1 <= p)%nat.
Let K := @kn R NumR k.
Let n_all := (length k - p)%nat.
Let n := (n_all - per1)%nat.

Lemma ref_row_entry side d t c : (c < n)%nat ->
  nth c (@ref_row R NumR side k p per1 d t) 0
  = sumf (fun i => if (i mod n =? c)%nat then dB side K d (p - 1) i t else 0) 0 n_all.
Proof.
  intros Hc. unfold ref_row. cbv zeta. fold n_all. fold n.
  rewrite nth_map_seq by exact Hc. cbn [nadd n0 NumR].
  rewrite (fold_cond_sum (fun i => (i mod n =? c)%nat) (fun i => @dBq R NumR side (kn k) d (p - 1) i t)).
  rewrite Rplus_0_l. apply sumf_ext. intros i _. destruct (i mod n =? c)%nat; [apply dBq_R|reflexivity].
Qed.

Lemma ref_row_length side d t : length (@ref_row R NumR side k p per1 d t) = n.
Proof. unfold ref_row. cbv zeta. rewrite map_length, seq_length. reflexivity. Qed.

(* non-negativity of values *)
Theorem ref_row_nonneg side t c : (c < n)%nat -> 0 <= nth c (@ref_row R NumR side k p per1 0 t) 0.
Proof.
  intros Hc. rewrite ref_row_entry by exact Hc. apply sumf_nonneg. intros i _.
  destruct (i mod n =? c)%nat; [|lra]. cbn [dB]. apply B_nonneg. exact HK.
Qed.

(* partition of unity on the span mu *)
Theorem ref_row_partition side t mu : (0 < n)%nat -> (p <= mu <= n_all)%nat ->
  in_span side (K (mu - 1)%nat) (K mu) t ->
  sumf (fun c => nth c (@ref_row R NumR side k p per1 0 t) 0) 0 n = 1.
Proof.
  intros Hn Hmu Hspan.
  rewrite (sumf_ext _ (fun c => sumf (fun i => if (i mod n =? c)%nat then B side K (p - 1) i t else 0) 0 n_all)).
  2:{ intros c Hc. rewrite ref_row_entry by lia. reflexivity. }
  rewrite sumf_exchange.
  rewrite (sumf_ext _ (fun i => B side K (p - 1) i t)).
  2:{ intros i _. apply sumf_indicator. pose proof (Nat.mod_upper_bound i n ltac:(lia)). lia. }
  replace n_all with ((mu - p) + (p + (n_all - mu)))%nat by lia.
  rewrite !sumf_app.
  rewrite (sumf_zero _ 0 (mu - p)).
  2:{ intros i Hi. apply B_support; [exact HK|]. replace (i + (p-1) + 1)%nat with (i + p)%nat by lia.
      pose proof (HK (i + p)%nat (mu - 1)%nat ltac:(lia)).
      unfold in_span, outside, K in *. destruct side; right; lra. }
  rewrite (sumf_zero _ (0 + (mu - p) + p)).
  2:{ intros i Hi. apply B_support; [exact HK|].
      pose proof (HK mu i ltac:(lia)).
      unfold in_span, outside, K in *. destruct side; left; lra. }
  cbn [Nat.add]. rewrite Rplus_0_l, Rplus_0_r.
  pose proof (partition_unity side K HK (p - 1) (mu - 1) t ltac:(lia)) as PU.
  replace (S (mu - 1)) with mu in PU by lia.
  replace (mu - 1 - (p - 1))%nat with (mu - p)%nat in PU by lia.
  replace (S (p - 1)) with p in PU by lia.
  apply PU. exact Hspan.
Qed.

(* derivatives of order >= the spline order vanish *)
Theorem ref_row_high side d t c : (p <= d)%nat -> (c < n)%nat ->
  nth c (@ref_row R NumR side k p per1 d t) 0 = 0.
Proof.
  intros Hd Hc. rewrite ref_row_entry by exact Hc. apply sumf_zero. intros i _.
  destruct (i mod n =? c)%nat; [|reflexivity]. apply dB_high. lia.
Qed.

Hypothesis Hlen : (2 * p <= length k)%nat.
Variable tol : R.
Hypothesis Htol : 0 < tol.

(* BSplineBasis.evaluate on a list of parameters, row by row *)
Theorem basis_evaluate_spec d fr ts i : (i < length ts)%nat ->
  let t0 := @snap1 R NumR k tol (nth i ts 0) in
  nth i (@basis_evaluate R NumR k p per1 tol d fr ts) [] =
    if (p <=? d)%nat then repeat 0 n
    else match @normalise R NumR k p per1 tol fr t0 with
         | None => repeat 0 n
         | Some (t, side) => @ref_row R NumR side k p per1 d t
         end.
Proof.
  intros Hi. cbv zeta. unfold basis_evaluate. cbv zeta. fold n_all. fold n.
  destruct (Nat.leb_spec p d) as [Hd|Hd].
  - rewrite (nth_map_gen _ _ i [] 0) by (rewrite map_length; exact Hi). reflexivity.
  - rewrite (nth_map_gen _ _ i [] 0) by (rewrite map_length; exact Hi).
    rewrite (nth_map_gen _ _ i 0 0) by exact Hi.
    pose proof (evaluate_spec k p per1 tol HK Hp Hlen Htol d fr (@snap1 R NumR k tol (nth i ts 0)) Hd) as ES.
    destruct (@normalise R NumR k p per1 tol fr (@snap1 R NumR k tol (nth i ts 0))) as [[t side]|].
    + destruct ES as (mu & M & E1 & _ & _ & _ & _ & E2). rewrite E1. exact E2.
    + rewrite ES. reflexivity.
Qed.
End Cons.
