(* C05: nestedness of the spline spaces of raise_order, at list level.
   For a sorted knot list l and a list [spans] holding (at least) every knot value of l and only knot values
   of l, every degree-q B-spline over l is a combination of degree-(q+1) B-splines over
   sort_list (l ++ spans) -- the knot vector BSplineBasis.raise_order(1) builds -- with a coefficient matrix
   that does not depend on the parameter nor on the one-sided variant. *)
From Coq Require Import List Arith Reals Lra Lia Bool ZArith Permutation.
From SplipyModel Require Import Spec.BSpline Spec.Boehm Spec.DegreeElev Spec.Nested
  Model.Num Model.BasisDef Model.Order Proofs.KnotList Proofs.EvalConsequences Proofs.InsertMatrix Proofs.OrderProofs Proofs.LinAlg.
Import ListNotations.
Open Scope R_scope.

(* extension of a knot list by a strictly increasing tail above H (H above every knot): unlike [kn]
   it leaves room for inserting a copy of the last knot *)
Definition knx (H : R) (l : list R) (m : nat) : R :=
  if (m <? length l)%nat then nth m l 0 else H + INR (m - length l).

Fixpoint ins (x : R) (l : list R) : list R :=
  match l with [] => [x] | y :: r => if Rltb x y then x :: y :: r else y :: ins x r end.
Fixpoint pos (x : R) (l : list R) : nat :=
  match l with [] => 0%nat | y :: r => if Rltb x y then 0%nat else S (pos x r) end.

Lemma ins_length x l : length (ins x l) = S (length l).
Proof. induction l as [|y r IH]; cbn [ins]; [reflexivity|]. destruct (Rltb x y); cbn [length]; [reflexivity|rewrite IH; reflexivity]. Qed.
Lemma pos_le x l : (pos x l <= length l)%nat.
Proof. induction l as [|y r IH]; cbn [pos length]; [lia|]. destruct (Rltb x y); lia. Qed.
Lemma ins_perm x l : Permutation (ins x l) (x :: l).
Proof.
  induction l as [|y r IH]; cbn [ins]; [reflexivity|]. destruct (Rltb x y); [reflexivity|].
  rewrite IH. apply perm_swap.
Qed.
Lemma ins_sorted x l : lsorted l -> lsorted (ins x l).
Proof.
  induction 1 as [|y|y z l Hyz Hs IH]; cbn [ins].
  - constructor.
  - destruct (Rltb_spec x y); apply ls_cons; try lra; apply ls_one.
  - destruct (Rltb_spec x y) as [A|A]; [apply ls_cons; [lra|apply ls_cons; assumption]|].
    cbn [ins] in IH. destruct (Rltb_spec x z) as [Bz|Bz].
    + constructor; [lra|]. constructor; [lra|assumption].
    + constructor; [exact Hyz|exact IH].
Qed.
Lemma ins_nth x l d : forall m,
  nth m (ins x l) d = if (m <? pos x l)%nat then nth m l d else if (m =? pos x l)%nat then x else nth (m - 1) l d.
Proof.
  induction l as [|y r IH]; intros m; cbn [ins pos].
  - destruct m; cbn; [reflexivity|]. destruct m; reflexivity.
  - destruct (Rltb x y).
    + destruct m; cbn [nth Nat.ltb Nat.leb Nat.eqb]; [reflexivity|]. replace (S m - 1)%nat with m by lia. reflexivity.
    + destruct m; [reflexivity|]. cbn [nth]. rewrite IH.
      change (S m <? S (pos x r))%nat with (m <? pos x r)%nat. change (S m =? S (pos x r))%nat with (m =? pos x r)%nat.
      destruct (Nat.ltb_spec m (pos x r)); [reflexivity|]. destruct (Nat.eqb_spec m (pos x r)); [reflexivity|].
      replace (S m - 1)%nat with m by lia. destruct m; [lia|]. cbn [nth]. replace (S m - 1)%nat with m by lia. reflexivity.
Qed.

Lemma lsorted_tl y l : lsorted (y :: l) -> lsorted l.
Proof. inversion 1; [constructor|assumption]. Qed.
Lemma lsorted_hd_le y l : lsorted (y :: l) -> forall z, In z l -> y <= z.
Proof.
  revert y. induction l as [|a l IH]; intros y Hs z Hz; [destruct Hz|].
  inversion Hs; subst. destruct Hz as [->|Hz]; [assumption|]. pose proof (IH a ltac:(assumption) z Hz). lra.
Qed.
Lemma lsorted_nth l : lsorted l -> forall i j, (i <= j < length l)%nat -> nth i l 0 <= nth j l 0.
Proof.
  induction l as [|y l IH]; intros Hs i j Hij; [cbn in Hij; lia|].
  destruct i, j; try lia; cbn [nth].
  - lra.
  - apply (lsorted_hd_le y l Hs). apply nth_In. cbn in Hij. lia.
  - apply IH; [eapply lsorted_tl; eassumption|cbn in Hij; lia].
Qed.

(* position facts *)
Lemma pos_prev x l : (1 <= pos x l)%nat -> nth (pos x l - 1) l 0 <= x.
Proof.
  induction l as [|y r IH]; cbn [pos]; [lia|]. destruct (Rltb_spec x y) as [A|A]; [lia|]. intros _.
  replace (S (pos x r) - 1)%nat with (pos x r) by lia.
  destruct (pos x r) as [|pr] eqn:E; cbn [nth]; [lra|]. replace pr with (S pr - 1)%nat by lia. apply IH. lia.
Qed.
Lemma pos_next x l : (pos x l < length l)%nat -> x < nth (pos x l) l 0.
Proof.
  induction l as [|y r IH]; cbn [pos length]; [lia|]. destruct (Rltb_spec x y) as [A|A]; [intros _; exact A|].
  intros Hl. cbn [nth]. apply IH. lia.
Qed.
Lemma pos_gt x l : lsorted l -> forall j, (j < length l)%nat -> nth j l 0 <= x -> (j < pos x l)%nat.
Proof.
  induction l as [|y r IH]; intros Hs j Hj Hx; [cbn in Hj; lia|]. cbn [pos].
  destruct (Rltb_spec x y) as [A|A].
  - exfalso. pose proof (lsorted_nth (y :: r) Hs 0 j ltac:(lia)) as L. change (nth 0 (y :: r) 0) with y in L. lra.
  - destruct j; [lia|]. cbn [nth] in Hx. cbn [length] in Hj. pose proof (IH (lsorted_tl y r Hs) j ltac:(lia) Hx). lia.
Qed.
Lemma pos_below x l : lsorted l -> forall i, (i < pos x l)%nat -> nth i l 0 <= x.
Proof.
  intros Hs i Hi. pose proof (pos_le x l). pose proof (pos_prev x l ltac:(lia)).
  pose proof (lsorted_nth l Hs i (pos x l - 1)%nat ltac:(lia)). lra.
Qed.

Section Ext.
Variable H : R.

Lemma knx_in l m : (m < length l)%nat -> knx H l m = nth m l 0.
Proof. intros Hm. unfold knx. destruct (Nat.ltb_spec m (length l)); [reflexivity|lia]. Qed.
Lemma knx_out l m : (length l <= m)%nat -> knx H l m = H + INR (m - length l).
Proof. intros Hm. unfold knx. destruct (Nat.ltb_spec m (length l)); [lia|reflexivity]. Qed.

Definition below (l : list R) : Prop := forall y, In y l -> y < H.

Lemma knx_sorted l : lsorted l -> below l -> sorted (knx H l).
Proof.
  intros Hs Hb i j Hij. destruct (Nat.lt_ge_cases j (length l)) as [J|J].
  - rewrite !knx_in by lia. apply lsorted_nth; [exact Hs|lia].
  - rewrite (knx_out l j J). destruct (Nat.lt_ge_cases i (length l)) as [I|I].
    + rewrite knx_in by exact I. pose proof (Hb _ (nth_In l 0 I)). pose proof (pos_INR (j - length l)). lra.
    + rewrite knx_out by exact I. pose proof (le_INR (i - length l) (j - length l) ltac:(lia)). lra.
Qed.

Lemma knx_ins x l : forall m, knx H (ins x l) m = k' (knx H l) (pos x l) x m.
Proof.
  intros m. pose proof (pos_le x l) as Hp. unfold k'.
  destruct (Nat.lt_ge_cases m (S (length l))) as [M|M].
  - rewrite knx_in by (rewrite ins_length; exact M). rewrite ins_nth.
    destruct (Nat.ltb_spec m (pos x l)); [rewrite knx_in by lia; reflexivity|].
    destruct (Nat.eqb_spec m (pos x l)); [reflexivity|]. rewrite knx_in by lia. reflexivity.
  - rewrite knx_out by (rewrite ins_length; exact M). rewrite ins_length.
    destruct (Nat.ltb_spec m (pos x l)); [lia|]. destruct (Nat.eqb_spec m (pos x l)); [lia|].
    rewrite knx_out by lia. f_equal. f_equal. lia.
Qed.

Lemma below_ins x l : below l -> x < H -> below (ins x l).
Proof.
  intros Hb Hx y Hy. apply (Permutation_in _ (ins_perm x l)) in Hy. destruct Hy as [<-|Hy]; [exact Hx|apply Hb, Hy].
Qed.
Lemma in_ins x l y : In y l -> In y (ins x l).
Proof. intros Hy. apply (Permutation_in _ (Permutation_sym (ins_perm x l))). right. exact Hy. Qed.

Lemma fold_ins_inv ex : forall l, lsorted l -> below l -> (forall x, In x ex -> In x l) ->
  lsorted (fold_right ins l ex) /\ below (fold_right ins l ex) /\ (forall y, In y l -> In y (fold_right ins l ex)).
Proof.
  induction ex as [|x ex IH]; intros l Hs Hb Hin; cbn [fold_right]; [auto|].
  destruct (IH l Hs Hb ltac:(intros; apply Hin; right; assumption)) as (S1 & B1 & I1).
  split; [apply ins_sorted, S1|]. split.
  - apply below_ins; [exact B1|]. apply Hb, Hin. left. reflexivity.
  - intros y Hy. apply in_ins, I1, Hy.
Qed.

Lemma refines_fold ex : forall l, lsorted l -> below l -> (forall x, In x ex -> In x l) ->
  Refines (length ex) (knx H l) (knx H (fold_right ins l ex)).
Proof.
  induction ex as [|x ex IH]; intros l Hs Hb Hin; cbn [fold_right length].
  - apply Ref0. reflexivity.
  - destruct (fold_ins_inv ex l Hs Hb ltac:(intros; apply Hin; right; assumption)) as (S1 & B1 & I1).
    set (lm := fold_right ins l ex) in *.
    assert (Hx : In x lm) by (apply I1, Hin; left; reflexivity).
    destruct (In_nth lm x 0 Hx) as (jx & Hjx & Ejx).
    assert (Hpos : (jx < pos x lm)%nat) by (apply pos_gt; [exact S1|exact Hjx|rewrite Ejx; lra]).
    pose proof (pos_le x lm) as Hple.
    apply (RefS (length ex) (knx H l) (knx H lm) _ (pos x lm) x).
    + apply IH; [exact Hs|exact Hb|intros; apply Hin; right; assumption].
    + lia.
    + rewrite knx_in by lia. apply pos_prev. lia.
    + destruct (Nat.lt_ge_cases (pos x lm) (length lm)) as [A|A].
      * rewrite knx_in by exact A. apply pos_next, A.
      * rewrite knx_out by exact A. pose proof (B1 x Hx). pose proof (pos_INR (pos x lm - length lm)). lra.
    + apply knx_ins.
Qed.

(* duplicating the j-th knot is inserting a copy of its value *)
Lemma dup_knx l j : lsorted l -> (j < length l)%nat -> forall m, dup j (knx H l) m = knx H (ins (nth j l 0) l) m.
Proof.
  intros Hs Hj m. set (x := nth j l 0). rewrite knx_ins. unfold k'.
  assert (Hpos : (j < pos x l)%nat) by (apply pos_gt; [exact Hs|exact Hj|unfold x; lra]).
  pose proof (pos_le x l) as Hple.
  assert (Eq : forall i, (j <= i < pos x l)%nat -> nth i l 0 = x).
  { intros i Hi. pose proof (pos_below x l Hs i ltac:(lia)). pose proof (lsorted_nth l Hs j i ltac:(lia)). fold x in H1. lra. }
  destruct (Nat.le_gt_cases m j) as [A|A].
  - rewrite dup_le by exact A. destruct (Nat.ltb_spec m (pos x l)); [reflexivity|lia].
  - rewrite dup_gt by exact A.
    destruct (Nat.ltb_spec m (pos x l)) as [Bm|Bm].
    + rewrite !knx_in by lia. rewrite !Eq by lia. reflexivity.
    + destruct (Nat.eqb_spec m (pos x l)) as [Em|Em]; [|reflexivity].
      rewrite knx_in by lia. apply Eq. lia.
Qed.
End Ext.

Lemma Refines_ext_l s k ka k2 : (forall m, k m = ka m) -> Refines s ka k2 -> Refines s k k2.
Proof.
  intros E R. induction R as [ka k2 E2|s ka k1 k2 mu x R IH Hmu H1 H2 E2].
  - apply Ref0. intros m. rewrite E2. symmetry. apply E.
  - apply (RefS s k k1 k2 mu x); auto.
Qed.

(* sorted lists that are permutations of one another are equal *)
Lemma sorted_perm_unique l1 : forall l2, lsorted l1 -> lsorted l2 -> Permutation l1 l2 -> l1 = l2.
Proof.
  induction l1 as [|a l1 IH]; intros l2 S1 S2 P.
  - apply Permutation_nil in P. subst. reflexivity.
  - destruct l2 as [|b l2]; [apply Permutation_sym, Permutation_nil in P; discriminate|].
    assert (Eab : a = b).
    { assert (Ia : In a (b :: l2)) by (apply (Permutation_in _ P); left; reflexivity).
      assert (Ib : In b (a :: l1)) by (apply (Permutation_in _ (Permutation_sym P)); left; reflexivity).
      destruct Ia as [Ia|Ia]; [congruence|]. destruct Ib as [Ib|Ib]; [congruence|].
      pose proof (lsorted_hd_le b l2 S2 a Ia). pose proof (lsorted_hd_le a l1 S1 b Ib). lra. }
    subst b. f_equal. apply IH; [eapply lsorted_tl; eassumption|eapply lsorted_tl; eassumption|].
    eapply Permutation_cons_inv. exact P.
Qed.

Lemma sorted_kn_lsorted l : lsorted l -> sorted (@kn R NumR l).
Proof.
  intros Hs i j Hij. destruct l as [|a l0]; [unfold kn; cbn; destruct i, j; lra|]. set (l := a :: l0) in *.
  assert (Hne : l <> []) by discriminate.
  assert (C : forall m, @kn R NumR l m = nth (Nat.min m (length l - 1)) l 0).
  { intros m. destruct (Nat.lt_ge_cases m (length l)) as [M|M].
    - rewrite Nat.min_l by lia. apply kn_in. exact M.
    - rewrite Nat.min_r by lia. rewrite kn_out by exact M. symmetry. apply nth_last_len. exact Hne. }
  rewrite !C. apply lsorted_nth; [exact Hs|]. assert (0 < length l)%nat by (unfold l; cbn; lia). lia.
Qed.

(* ---------------------------------------------------------------------------------------------- *)
Section Raise.
Variable l : list R.
Variable spans : list R.
Variable q : nat.
Hypothesis Hs : lsorted l.
Hypothesis Hsp1 : forall x, In x l -> In x spans.
Hypothesis Hsp2 : forall x, In x spans -> In x l.
Hypothesis Hlen : (q + 1 < length l)%nat.
Local Notation L' := (@sort_list R NumR (l ++ spans)).
Local Notation n := (length l - (q + 1))%nat.
Local Notation s := (length spans - 1)%nat.

Lemma spans_nonempty : (1 <= length spans)%nat.
Proof.
  destruct l as [|a l0]; [cbn in Hlen; lia|]. pose proof (Hsp1 a ltac:(left; reflexivity)) as I.
  destruct spans; [destruct I|cbn; lia].
Qed.
Lemma L'_length : length L' = (length l + length spans)%nat.
Proof. rewrite (Permutation_length (sort_list_perm (l ++ spans))), app_length. reflexivity. Qed.

(* an upper bound above every knot *)
Definition Hbound : R := fold_right Rmax 0 l + 1.
Lemma Hbound_above : below Hbound l.
Proof.
  unfold below, Hbound. clear. induction l as [|a l0 IH]; intros y Hy; [destruct Hy|]. cbn [fold_right].
  destruct Hy as [<-|Hy]; [pose proof (Rmax_l a (fold_right Rmax 0 l0)); lra|].
  pose proof (IH y Hy). pose proof (Rmax_r a (fold_right Rmax 0 l0)). lra.
Qed.

Lemma raise_refines j : (j < length l)%nat -> Refines s (dup j (knx Hbound l)) (knx Hbound L').
Proof.
  intros Hj. set (x := nth j l 0).
  assert (Ix : In x spans) by (apply Hsp1, nth_In, Hj).
  destruct (in_split x spans Ix) as (s1 & s2 & Es).
  set (rest := s1 ++ s2).
  assert (Hrl : length rest = s) by (unfold rest; rewrite Es, !app_length; cbn [length]; lia).
  assert (Hrest : forall y, In y rest -> In y (ins x l)).
  { intros y Hy. apply in_ins, Hsp2. rewrite Es. unfold rest in Hy. apply in_app_or in Hy. apply in_or_app. destruct Hy; [left|right; right]; assumption. }
  assert (Sx : lsorted (ins x l)) by (apply ins_sorted, Hs).
  assert (Bx : below Hbound (ins x l)) by (apply below_ins; [apply Hbound_above|apply Hbound_above, nth_In, Hj]).
  pose proof (refines_fold Hbound rest (ins x l) Sx Bx Hrest) as RF.
  assert (EL : fold_right ins (ins x l) rest = L').
  { destruct (fold_ins_inv Hbound rest (ins x l) Sx Bx Hrest) as (S1 & _ & _).
    apply sorted_perm_unique; [exact S1|apply sort_list_sorted|].
    rewrite sort_list_perm.
    transitivity (rest ++ ins x l).
    - clear. induction rest as [|y r IH]; cbn [fold_right app]; [reflexivity|]. rewrite ins_perm. constructor. exact IH.
    - rewrite ins_perm. rewrite Es. unfold rest.
      transitivity (x :: (s1 ++ s2) ++ l); [symmetry; apply Permutation_middle|].
      transitivity (x :: l ++ s1 ++ s2); [constructor; apply Permutation_app_comm|].
      rewrite (app_assoc l s1 (x :: s2)). rewrite (app_assoc l s1 s2). apply Permutation_middle. }
  rewrite EL, Hrl in RF.
  apply (Refines_ext_l s _ (knx Hbound (ins x l))); [|exact RF].
  intros m. apply dup_knx; assumption.
Qed.

(* every old function is a combination of s+1 consecutive new ones *)
Lemma raise_span i : (i < n)%nat ->
  exists c : nat -> R, forall side t,
    B side (@kn R NumR l) q i t = sumf (fun r => c r * B side (@kn R NumR L') (S q) r t) i (S s).
Proof.
  intros Hi.
  destruct (elevate_span (knx Hbound l) (knx Hbound L') s q i (knx_sorted Hbound l Hs Hbound_above)) as [c Hc].
  { intros j Hj. apply raise_refines. lia. }
  exists c. intros side t.
  rewrite (B_ext side (@kn R NumR l) (knx Hbound l) q i t).
  2:{ intros j Hj. rewrite knx_in by lia. apply kn_in. lia. }
  rewrite (Hc side t). apply sumf_ext. intros r Hr. f_equal.
  pose proof spans_nonempty.
  apply B_ext. intros j Hj. rewrite knx_in by (rewrite L'_length; lia). symmetry. apply kn_in. rewrite L'_length. lia.
Qed.

(* the matrix form: C is n' x n with n' = n + s new functions *)
Theorem raise_nested_matrix :
  exists C : list (list R), mat (n + s) n C /\
    forall side t i, (i < n)%nat ->
      B side (@kn R NumR l) q i t = sumf (fun r => B side (@kn R NumR L') (S q) r t * ment C r i) 0 (n + s).
Proof.
  destruct (fin_choice (fun i (c : nat -> R) => forall side t,
               B side (@kn R NumR l) q i t = sumf (fun r => c r * B side (@kn R NumR L') (S q) r t) i (S s)) (fun _ => 0) 0 n) as [cc Hcc].
  { intros i Hi. apply raise_span. lia. }
  set (ent := fun r i => if ((i <=? r) && (r <=? i + s))%nat then cc i r else 0).
  exists (map (fun r => map (fun i => ent r i) (seq 0 n)) (seq 0 (n + s))).
  split.
  - split; [rewrite map_length, seq_length; reflexivity|]. apply Forall_forall. intros row Hr.
    apply in_map_iff in Hr. destruct Hr as (r & <- & _). rewrite map_length, seq_length. reflexivity.
  - intros side t i Hi. rewrite (Hcc i ltac:(lia) side t).
    assert (En : forall r, (r < n + s)%nat ->
       ment (map (fun r0 => map (fun i0 => ent r0 i0) (seq 0 n)) (seq 0 (n + s))) r i = ent r i).
    { intros r Hr. unfold ment. rewrite (nth_map_gen _ _ r [] 0%nat) by (rewrite seq_length; exact Hr). rewrite seq_nth by exact Hr.
      rewrite (nth_map_gen _ _ i 0 0%nat) by (rewrite seq_length; exact Hi). rewrite seq_nth by exact Hi. reflexivity. }
    rewrite (sumf_ext (fun r => B side (@kn R NumR L') (S q) r t * ment _ r i)
                      (fun r => B side (@kn R NumR L') (S q) r t * ent r i) 0 (n + s)).
    2:{ intros r Hr. rewrite En by lia. reflexivity. }
    replace (n + s)%nat with (i + (S s + (n - 1 - i)))%nat by lia.
    rewrite !sumf_app. cbn [Nat.add].
    rewrite (sumf_zero _ 0 i).
    2:{ intros r Hr. unfold ent. destruct (Nat.leb_spec i r); [lia|]. cbn [andb]. ring. }
    rewrite (sumf_zero _ (i + S s)).
    2:{ intros r Hr. unfold ent. destruct (Nat.leb_spec r (i + s)); [lia|]. rewrite andb_false_r. ring. }
    rewrite Rplus_0_l, Rplus_0_r. apply sumf_ext. intros r Hr. unfold ent.
    destruct (Nat.leb_spec i r); [|lia]. destruct (Nat.leb_spec r (i + s)); [|lia]. cbn [andb]. ring.
Qed.
End Raise.
