(* C02: an object built from non-periodic bases alone (SplineObject(bases), no control points) is the identity map of its
   parameter domain, any parametric dimension, on the model's own [obj_eval]; every evaluated point of a non-rational
   object lies inside the box [obj_bounding_box] reports.  Model: Model/DefaultObj.v. *)
From Coq Require Import List Arith Reals Lra Lia Bool ZArith QArith Qreals.
From SplipyModel Require Import Spec.BSpline Spec.Deriv Model.Num Model.BasisDef Model.BasisEval Model.Tensor Model.Obj Model.DefaultObj
  Proofs.Bridge Proofs.SpanCorrect Proofs.EvaluateSpec Proofs.EvalConsequences Proofs.SnapSpec Proofs.TensorLemmas Proofs.TensorApply
  Proofs.ObjEval Proofs.Greville Proofs.OrderRaise Proofs.InsertEndToEnd Proofs.EvalEndToEnd Model.Knots Proofs.KnotList Proofs.SnapChar Extract.Exec
  Transfer.ParamBase Transfer.ParamBasis Transfer.ParamObj Transfer.ParamInsert Transfer.ParamOps.
From Param Require Import Param.
Import ListNotations.
Open Scope R_scope.

(* ---------- tensor sums of separable nets ---------- *)
Lemma lcf_const N x : lcf N (fun _ => x) = x * rsum N.
Proof.
  unfold lcf. rewrite rsum_sumf. rewrite <- sumf_scal. apply sumf_ext. intros i _. ring.
Qed.

Lemma tsum_const rows x : Forall (fun N => rsum N = 1) rows -> tsum rows (fun _ => x) = x.
Proof.
  induction 1 as [|N rest HN HR IH]; cbn [tsum]; [reflexivity|]. cbv zeta.
  rewrite (lcf_ext _ _ (fun _ => x)) by (intros; apply IH). rewrite lcf_const, HN. ring.
Qed.

(* a net that depends on the index of direction c only: all other directions sum out (partition of unity), the c-th
   direction contracts with the one-dimensional net *)
Lemma tsum_separable rows : Forall (fun N => rsum N = 1) rows -> forall c (g : nat -> R), (c < length rows)%nat ->
  tsum rows (fun flat => g (nth c (unravel (map (@length R) rows) flat) 0%nat)) = lcf (nth c rows []) g.
Proof.
  induction 1 as [|N rest HN HR IH]; intros c g Hc; [cbn in Hc; lia|].
  cbn [tsum map unravel]. cbv zeta. change (fold_right Nat.mul 1%nat (map (@length R) rest)) with (prodl (map (@length R) rest)).
  set (m := prodl (map (@length R) rest)).
  destruct c as [|c].
  - cbn [nth]. apply lcf_ext. intros i Hi.
    rewrite (tsum_ext rest _ (fun _ => g i)); [apply tsum_const; exact HR|].
    intros s Hs. fold m in Hs. f_equal. rewrite Nat.div_add_l by lia. rewrite Nat.div_small by exact Hs. lia.
  - cbn [nth length] in *.
    rewrite (lcf_ext _ _ (fun _ => lcf (nth c rest []) g)).
    + rewrite lcf_const, HN. ring.
    + intros i Hi. rewrite <- (IH c g ltac:(lia)). apply tsum_ext. intros s Hs. fold m in Hs.
      f_equal. f_equal. rewrite Nat.add_comm, Nat.mod_add by lia. rewrite Nat.mod_small by exact Hs. reflexivity.
Qed.

(* ---------- one direction: the row at a validated parameter sums to one and reproduces the parameter from the
   Greville abscissae ---------- *)
Lemma Brow_is_ref side (k : list R) p t : sorted (@kn R NumR k) -> (1 <= p)%nat ->
  Brow side k p t = @ref_row R NumR side k p 0 0 t.
Proof.
  intros HK Hp. apply (nth_ext _ _ 0 0).
  - rewrite (ref_row_length k p 0). unfold Brow. rewrite map_length, seq_length. lia.
  - intros c Hc. unfold Brow in Hc. rewrite map_length, seq_length in Hc.
    rewrite ref_row_nonper by assumption.
    unfold Brow. rewrite (nth_map_gen _ _ c 0 0%nat) by (rewrite seq_length; lia). rewrite seq_nth by lia. reflexivity.
Qed.

Lemma normalise_nonper_fst (k : list R) p tol fr t0 t side :
  @normalise R NumR k p 0 tol fr t0 = Some (t, side) -> t = t0.
Proof.
  unfold normalise. cbv zeta. cbn [Nat.eqb negb]. unfold wrap_t.
  destruct (_ || _ || _); [discriminate|]. intros [= <- _]. reflexivity.
Qed.

Lemma dir_facts (k : list R) p tol t0 t side :
  sorted (@kn R NumR k) -> (1 <= p)%nat -> (2 * p <= length k)%nat -> 0 < tol -> (0 < length k - p)%nat ->
  @normalise R NumR k p 0 tol true t0 = Some (t, side) ->
  t = t0 /\ rsum (Brow side k p t) = 1 /\
  ((2 <= p)%nat -> lcf (Brow side k p t) (fun i => @greville R NumR k p i) = t).
Proof.
  intros HK Hp Hlen Htol Hn EN. split; [exact (normalise_nonper_fst _ _ _ _ _ _ _ EN)|].
  destruct (normalise_range k p 0 tol Htol _ _ _ _ EN) as [Hr Hs].
  destruct (span_search_correct k p HK Hp Hlen side t Hr Hs) as [Hmu Hspan]. cbv zeta in Hmu, Hspan.
  set (mu := @span_index R NumR k p side t) in *.
  assert (HL : length (Brow side k p t) = (length k - p)%nat) by (unfold Brow; rewrite map_length, seq_length; reflexivity).
  split.
  - rewrite rsum_sumf, HL, (Brow_is_ref side k p t HK Hp).
    pose proof (ref_row_partition k p 0 HK Hp side t mu) as PU. rewrite Nat.sub_0_r in PU. apply PU; [exact Hn|exact Hmu|exact Hspan].
  - intros Hp2. unfold lcf. rewrite HL, (Brow_is_ref side k p t HK Hp).
    etransitivity; [|exact (greville_row_identity k p HK Hp2 side t mu Hn Hmu Hspan)].
    apply sumf_ext. intros c _. ring.
Qed.

(* ---------- the reference rows of any well-formed non-periodic object at a parameter tuple of its domain ---------- *)
Section Rows.
Variable tol : R.
Hypothesis Htol : 0 < tol.
Variable o : obj R.
Hypothesis Hwf : wf_obj_R tol o.
Hypothesis Hnp : forall i, (i < length (o_bases o))%nat -> b_per1 (nth i (o_bases o) dflt_basis) = 0%nat.
Variable ts : list R.
Hypothesis Hdom : forall i, (i < length (o_bases o))%nat -> in_dom tol (nth i (o_bases o) dflt_basis) (nth i ts 0).

Local Notation bi := (fun i => nth i (o_bases o) dflt_basis).
Local Notation rows := (ref_rows tol o ts).

Lemma ref_rows_length : length rows = length (o_bases o).
Proof. unfold ref_rows. rewrite map_length, seq_length. reflexivity. Qed.

Lemma ref_rows_dir i : (i < length (o_bases o))%nat ->
  rsum (nth i rows []) = 1 /\
  ((2 <= b_order (bi i))%nat ->
   lcf (nth i rows []) (fun j => @b_greville R NumR (bi i) j) = @snap1 R NumR (b_knots (bi i)) tol (nth i ts 0)).
Proof.
  intros Hi. destruct (bd_wf tol o Hwf i Hi) as (HK & Hp & Hlen & Hn & Hw).
  pose proof (norm_dir_some tol Htol o Hwf Hnp ts Hdom i Hi) as EN.
  unfold ref_rows. rewrite (nth_map_gen _ _ i [] 0%nat) by (rewrite seq_length; exact Hi). rewrite seq_nth by exact Hi. cbn [Nat.add].
  destruct (norm_dir tol o ts i) as [t' side]. cbn [fst snd].
  assert (Hn' : (0 < length (b_knots (bi i)) - b_order (bi i))%nat) by (unfold b_nfun in Hn; lia).
  destruct (dir_facts _ _ tol _ t' side HK Hp Hlen Htol Hn' EN) as (E & S1 & G).
  rewrite (snap1_idem (b_knots (bi i)) HK tol Htol) in E.
  split; [exact S1|]. intros Hp2. rewrite <- E. unfold b_greville. apply G. exact Hp2.
Qed.

Lemma ref_rows_sum1 : Forall (fun N => rsum N = 1) rows.
Proof.
  apply Forall_forall. intros N HN. apply (In_nth _ _ []) in HN. destruct HN as (i & Hi & <-).
  rewrite ref_rows_length in Hi. apply (ref_rows_dir i Hi).
Qed.

(* a scalar net whose value depends on the index of direction i only, through the Greville abscissae of that direction *)
Lemma tsum_greville_net i (f : nat -> R) : (i < length (o_bases o))%nat -> (2 <= b_order (bi i))%nat ->
  (forall flat, (flat < prodl (@o_shape R o))%nat -> f flat = @b_greville R NumR (bi i) (nth i (unravel (@o_shape R o) flat) 0%nat)) ->
  tsum rows f = @snap1 R NumR (b_knots (bi i)) tol (nth i ts 0).
Proof.
  intros Hi Hp2 Hf. destruct (ref_rows_dir i Hi) as [_ G]. rewrite <- (G Hp2).
  rewrite <- (tsum_separable rows ref_rows_sum1 i (fun j => @b_greville R NumR (bi i) j)) by (rewrite ref_rows_length; exact Hi).
  apply tsum_ext. intros flat Hflat. rewrite (shape_ref tol o Hnp ts) in *. apply Hf. exact Hflat.
Qed.

Lemma tsum_const_net x (f : nat -> R) :
  (forall flat, (flat < prodl (@o_shape R o))%nat -> f flat = x) -> tsum rows f = x.
Proof.
  intros Hf. rewrite <- (tsum_const rows x ref_rows_sum1).
  apply tsum_ext. intros flat Hflat. rewrite (shape_ref tol o Hnp ts) in *. apply Hf. exact Hflat.
Qed.
End Rows.

(* ---------- the default object: shape, dimension, well-formedness ---------- *)
Lemma default_point_length (bases : list (basis R)) dim idx : length (@default_point R NumR bases dim idx) = dim.
Proof. unfold default_point. rewrite map_length, seq_length. reflexivity. Qed.

Lemma default_cps_length (bases : list (basis R)) dim :
  length (@default_cps R NumR bases dim) = prodl (map (@b_nfun R) bases).
Proof. unfold default_cps. cbv zeta. rewrite map_length, seq_length. reflexivity. Qed.

Lemma default_cps_nth (bases : list (basis R)) dim flat d : (flat < prodl (map (@b_nfun R) bases))%nat ->
  nth flat (@default_cps R NumR bases dim) d = @default_point R NumR bases dim (unravel (map (@b_nfun R) bases) flat).
Proof.
  intros Hf. unfold default_cps. cbv zeta.
  rewrite (nth_map_gen _ _ flat d 0%nat) by (rewrite seq_length; exact Hf). rewrite seq_nth by exact Hf. reflexivity.
Qed.

Lemma default_point_coord (bases : list (basis R)) dim idx c : (c < dim)%nat ->
  coord c (@default_point R NumR bases dim idx)
  = if (c <? length bases)%nat then @b_greville R NumR (nth c bases dflt_basis) (nth c idx 0%nat) else 0.
Proof.
  intros Hc. unfold coord, default_point.
  rewrite (nth_map_gen _ _ c 0 0%nat) by (rewrite seq_length; exact Hc). rewrite seq_nth by exact Hc. reflexivity.
Qed.

(* (3) shape = per-direction function counts; dimension as the constructor chooses; not rational *)
Theorem default_obj_shape (bases : list (basis R)) :
  o_bases (@default_obj R NumR bases) = bases /\
  @o_shape R (@default_obj R NumR bases) = map (@b_nfun R) bases /\
  length (o_cps (@default_obj R NumR bases)) = prodl (map (@b_nfun R) bases) /\
  o_dim (@default_obj R NumR bases) = (if (length bases =? 1)%nat then 2 else length bases)%nat /\
  o_rat (@default_obj R NumR bases) = false /\
  Forall (fun P => length P = o_dim (@default_obj R NumR bases)) (o_cps (@default_obj R NumR bases)).
Proof.
  unfold default_obj, o_shape. cbn [o_bases o_cps o_dim o_rat].
  repeat split; try reflexivity; [apply default_cps_length|].
  apply Forall_forall. intros P HP. unfold default_cps in HP. cbv zeta in HP. apply in_map_iff in HP.
  destruct HP as (flat & <- & _). apply default_point_length.
Qed.

Theorem default_obj_wf tol (bases : list (basis R)) :
  Forall (wf_basis_R tol) bases -> wf_obj_R tol (@default_obj R NumR bases).
Proof.
  intros HB. destruct (default_obj_shape bases) as (E1 & E2 & E3 & E4 & E5 & E6).
  split; [rewrite E1; exact HB|]. split.
  - unfold o_ncomp. rewrite E5, Nat.add_0_r. exact E6.
  - rewrite E3, E2. reflexivity.
Qed.

(* the net of the default object, coordinate c, as a function of the flat index *)
Lemma default_cnet (bases : list (basis R)) dim c flat : (c < dim)%nat -> (flat < prodl (map (@b_nfun R) bases))%nat ->
  cnet dim c (@default_cps R NumR bases dim) flat
  = if (c <? length bases)%nat
    then @b_greville R NumR (nth c bases dflt_basis) (nth c (unravel (map (@b_nfun R) bases) flat) 0%nat) else 0.
Proof.
  intros Hc Hf. unfold cnet. rewrite default_cps_nth by exact Hf. apply default_point_coord. exact Hc.
Qed.

(* ---------- (1) SplineObject(bases) is the identity map of its parameter domain ---------- *)
Section Identity.
Variable tol : R.
Hypothesis Htol : 0 < tol.
Variable bases : list (basis R).
Hypothesis HB : Forall (wf_basis_R tol) bases.
Hypothesis Hnp : forall i, (i < length bases)%nat -> b_per1 (nth i bases dflt_basis) = 0%nat.
Hypothesis Hp2 : forall i, (i < length bases)%nat -> (2 <= b_order (nth i bases dflt_basis))%nat.
Variable ts : list R.
Hypothesis Hdom : forall i, (i < length bases)%nat -> in_dom tol (nth i bases dflt_basis) (nth i ts 0).

(* the validated (snapped) parameter of direction c, zero for the padded coordinates *)
Definition snapped_point (dim : nat) : list R :=
  map (fun c => if (c <? length bases)%nat then @snap1 R NumR (b_knots (nth c bases dflt_basis)) tol (nth c ts 0) else 0)
      (seq 0 dim).

Theorem default_obj_identity :
  @obj_eval R NumR tol (@default_obj R NumR bases) ts = Ok (snapped_point (@default_dim R bases)).
Proof.
  pose proof (default_obj_wf tol bases HB) as Hwf.
  set (o := @default_obj R NumR bases) in *.
  assert (Eb : o_bases o = bases) by reflexivity.
  rewrite (obj_eval_is_tensor_sum tol Htol o Hwf Hnp ts Hdom).
  change (o_rat o) with false. cbv iota. f_equal.
  change (@o_ncomp R o) with (@default_dim R bases + 0)%nat. rewrite Nat.add_0_r.
  set (dim := @default_dim R bases).
  unfold snapped_point. apply map_ext_in. intros c Hc. apply in_seq in Hc.
  change (o_cps o) with (@default_cps R NumR bases dim).
  destruct (Nat.ltb_spec c (length bases)) as [L|L].
  - apply (tsum_greville_net tol Htol o Hwf Hnp ts Hdom c _ L (Hp2 c L)).
    intros flat Hflat. change (@o_shape R o) with (map (@b_nfun R) bases) in *.
    rewrite default_cnet by (lia || exact Hflat).
    destruct (Nat.ltb_spec c (length bases)); [reflexivity|lia].
  - apply (tsum_const_net tol Htol o Hwf Hnp ts Hdom 0).
    intros flat Hflat. change (@o_shape R o) with (map (@b_nfun R) bases) in *.
    rewrite default_cnet by (lia || exact Hflat).
    destruct (Nat.ltb_spec c (length bases)); [lia|reflexivity].
Qed.
End Identity.

(* coordinates in parameter directions: within the snapping tolerance of the given parameter, and exactly the parameter
   whenever snapping leaves it alone (it is a knot, or no knot is closer than the tolerance) *)
Corollary default_obj_identity_coord tol (bases : list (basis R)) ts :
  0 < tol -> Forall (wf_basis_R tol) bases ->
  (forall i, (i < length bases)%nat -> b_per1 (nth i bases dflt_basis) = 0%nat) ->
  (forall i, (i < length bases)%nat -> (2 <= b_order (nth i bases dflt_basis))%nat) ->
  (forall i, (i < length bases)%nat -> in_dom tol (nth i bases dflt_basis) (nth i ts 0)) ->
  exists v, @obj_eval R NumR tol (@default_obj R NumR bases) ts = Ok v /\ length v = @default_dim R bases /\
    (forall c, (c < length bases)%nat ->
       coord c v = @snap1 R NumR (b_knots (nth c bases dflt_basis)) tol (nth c ts 0) /\
       Rabs (coord c v - nth c ts 0) < tol /\
       ((forall j, (j < length (b_knots (nth c bases dflt_basis)))%nat ->
            ~ Rabs (@kn R NumR (b_knots (nth c bases dflt_basis)) j - nth c ts 0) < tol) -> coord c v = nth c ts 0)) /\
    (forall c, (length bases <= c)%nat -> coord c v = 0).
Proof.
  intros Htol HB Hnp Hp2 Hdom. exists (snapped_point tol bases ts (@default_dim R bases)).
  split; [apply default_obj_identity; assumption|].
  split; [unfold snapped_point; rewrite map_length, seq_length; reflexivity|].
  assert (Hdim : (length bases <= @default_dim R bases)%nat).
  { unfold default_dim. destruct (Nat.eqb_spec (length bases) 1); lia. }
  split.
  - intros c Hc.
    assert (E : coord c (snapped_point tol bases ts (@default_dim R bases))
                = @snap1 R NumR (b_knots (nth c bases dflt_basis)) tol (nth c ts 0)).
    { unfold coord, snapped_point. rewrite (nth_map_gen _ _ c 0 0%nat) by (rewrite seq_length; lia).
      rewrite seq_nth by lia. cbn [Nat.add]. destruct (Nat.ltb_spec c (length bases)); [reflexivity|lia]. }
    rewrite E. split; [reflexivity|].
    rewrite Forall_forall in HB. destruct (HB _ (nth_In _ dflt_basis Hc)) as (HK & _).
    destruct (snap1_spec (b_knots (nth c bases dflt_basis)) HK tol Htol (nth c ts 0)) as [(i & Hi & Es & Ha)|[Es Hn]]; cbv zeta in *.
    + split; [rewrite Es; exact Ha|]. intros Hno. exfalso. exact (Hno i Hi Ha).
    + split; [rewrite Es; replace (nth c ts 0 - nth c ts 0) with 0 by ring; rewrite Rabs_R0; exact Htol|]. intros _. exact Es.
  - intros c Hc. unfold coord, snapped_point.
    destruct (Nat.lt_ge_cases c (@default_dim R bases)) as [L|L].
    + rewrite (nth_map_gen _ _ c 0 0%nat) by (rewrite seq_length; lia).
      rewrite seq_nth by lia. cbn [Nat.add]. destruct (Nat.ltb_spec c (length bases)); [lia|reflexivity].
    + apply nth_overflow. rewrite map_length, seq_length. exact L.
Qed.

(* ---------- SplineObject(bases, rational=True): weight 1 everywhere, the same identity map ---------- *)
Theorem default_obj_rat_wf tol (bases : list (basis R)) :
  Forall (wf_basis_R tol) bases -> wf_obj_R tol (@default_obj_rat R NumR bases).
Proof.
  intros HB. split; [exact HB|]. split.
  - unfold default_obj_rat, o_ncomp, default_cps_rat. cbn [o_cps o_dim o_rat].
    apply Forall_forall. intros P HP. apply in_map_iff in HP. destruct HP as (Q & <- & HQ).
    unfold default_cps in HQ. cbv zeta in HQ. apply in_map_iff in HQ. destruct HQ as (flat & <- & _).
    rewrite app_length, default_point_length. reflexivity.
  - unfold default_obj_rat, o_shape, default_cps_rat. cbn [o_cps o_bases]. rewrite map_length. apply default_cps_length.
Qed.

Lemma default_rat_cnet (bases : list (basis R)) dim c flat : (c <= dim)%nat -> (flat < prodl (map (@b_nfun R) bases))%nat ->
  cnet (dim + 1) c (@default_cps_rat R NumR bases dim) flat
  = if (c <? dim)%nat then cnet dim c (@default_cps R NumR bases dim) flat else 1.
Proof.
  intros Hc Hf. unfold cnet, default_cps_rat.
  rewrite (nth_map_gen _ _ flat _ (@vzero R NumR dim)) by (rewrite default_cps_length; exact Hf).
  assert (HL : length (nth flat (@default_cps R NumR bases dim) (@vzero R NumR dim)) = dim).
  { rewrite default_cps_nth by exact Hf. apply default_point_length. }
  unfold coord. destruct (Nat.ltb_spec c dim) as [L|L].
  - apply app_nth1. lia.
  - rewrite app_nth2 by lia. replace (c - _)%nat with 0%nat by lia. reflexivity.
Qed.

Theorem default_obj_rat_identity tol (bases : list (basis R)) ts :
  0 < tol -> Forall (wf_basis_R tol) bases ->
  (forall i, (i < length bases)%nat -> b_per1 (nth i bases dflt_basis) = 0%nat) ->
  (forall i, (i < length bases)%nat -> (2 <= b_order (nth i bases dflt_basis))%nat) ->
  (forall i, (i < length bases)%nat -> in_dom tol (nth i bases dflt_basis) (nth i ts 0)) ->
  @obj_eval R NumR tol (@default_obj_rat R NumR bases) ts = Ok (snapped_point tol bases ts (@default_dim R bases)).
Proof.
  intros Htol HB Hnp Hp2 Hdom.
  pose proof (default_obj_rat_wf tol bases HB) as Hwf. pose proof (default_obj_wf tol bases HB) as Hwf0.
  set (o := @default_obj_rat R NumR bases) in *. set (o0 := @default_obj R NumR bases) in *.
  rewrite (obj_eval_is_tensor_sum tol Htol o Hwf Hnp ts Hdom).
  change (o_rat o) with true. cbv iota. f_equal.
  change (@o_ncomp R o) with (@default_dim R bases + 1)%nat. change (o_dim o) with (@default_dim R bases).
  set (dim := @default_dim R bases).
  change (o_cps o) with (@default_cps_rat R NumR bases dim).
  (* the same rows as the non-rational default object: the rows depend on bases and parameters only *)
  assert (ER : ref_rows tol o ts = ref_rows tol o0 ts) by reflexivity.
  assert (Hcomp : forall c, (c <= dim)%nat ->
     tsum (ref_rows tol o ts) (cnet (dim + 1) c (@default_cps_rat R NumR bases dim))
     = if (c <? dim)%nat then coord c (snapped_point tol bases ts dim) else 1).
  { intros c Hc. rewrite ER. destruct (Nat.ltb_spec c dim) as [L|L].
    - rewrite (tsum_ext _ _ (cnet dim c (@default_cps R NumR bases dim))).
      2:{ intros flat Hflat. rewrite (shape_ref tol o0 Hnp ts) in Hflat. change (@o_shape R o0) with (map (@b_nfun R) bases) in Hflat.
          rewrite default_rat_cnet by (lia || exact Hflat). destruct (Nat.ltb_spec c dim); [reflexivity|lia]. }
      pose proof (default_obj_identity tol Htol bases HB Hnp Hp2 ts Hdom) as ID. fold o0 in ID.
      rewrite (obj_eval_is_tensor_sum tol Htol o0 Hwf0 Hnp ts Hdom) in ID. change (o_rat o0) with false in ID. cbv iota in ID.
      injection ID as ID. change (@o_ncomp R o0) with (dim + 0)%nat in ID. rewrite Nat.add_0_r in ID.
      change (o_cps o0) with (@default_cps R NumR bases dim) in ID. fold dim in ID.
      rewrite <- ID. unfold coord. rewrite (nth_map_gen _ _ c 0 0%nat) by (rewrite seq_length; exact L).
      rewrite seq_nth by exact L. reflexivity.
    - apply (tsum_const_net tol Htol o0 Hwf0 Hnp ts Hdom 1).
      intros flat Hflat. change (@o_shape R o0) with (map (@b_nfun R) bases) in Hflat.
      rewrite default_rat_cnet by (lia || exact Hflat). destruct (Nat.ltb_spec c dim); [lia|reflexivity]. }
  unfold project_rat. cbv zeta.
  rewrite (nth_map_gen _ _ dim _ 0%nat) by (rewrite seq_length; lia). rewrite seq_nth by lia. cbn [Nat.add].
  rewrite (Hcomp dim ltac:(lia)). destruct (Nat.ltb_spec dim dim); [lia|].
  rewrite firstn_map. replace (dim + 1)%nat with (S dim) by lia. rewrite seq_S, firstn_app, seq_length, Nat.sub_diag.
  cbn [firstn]. rewrite app_nil_r. rewrite firstn_all2 by (rewrite seq_length; lia).
  rewrite map_map. unfold snapped_point at 1. apply map_ext_in. intros c Hc. apply in_seq in Hc.
  replace (S dim) with (dim + 1)%nat by lia. rewrite (Hcomp c ltac:(lia)).
  destruct (Nat.ltb_spec c dim); [|lia].
  cbn [ndiv NumR]. unfold coord, snapped_point.
  rewrite (nth_map_gen _ _ c 0 0%nat) by (rewrite seq_length; lia). rewrite seq_nth by lia. cbn [Nat.add]. field.
Qed.

(* ---------- (2) bounding box ---------- *)
Lemma fold_nmin_spec (r : list R) : forall x0,
  let m := fold_left (@nmin R NumR) r x0 in
  m <= x0 /\ (forall y, In y r -> m <= y) /\ (m = x0 \/ In m r).
Proof.
  induction r as [|a r IH]; intros x0; cbn [fold_left].
  - cbv zeta. split; [lra|]. split; [intros y []|left; reflexivity].
  - cbv zeta. destruct (IH (@nmin R NumR x0 a)) as (A & Bm & C). cbv zeta in *.
    set (m := fold_left (@nmin R NumR) r (@nmin R NumR x0 a)) in *.
    assert (Hm : @nmin R NumR x0 a <= x0 /\ @nmin R NumR x0 a <= a /\ (@nmin R NumR x0 a = x0 \/ @nmin R NumR x0 a = a)).
    { unfold nmin. cbn [nltb NumR]. destruct (Rltb_spec a x0); lra. }
    destruct Hm as (M1 & M2 & M3). split; [lra|]. split.
    + intros y [<-|Hy]; [lra|apply Bm; exact Hy].
    + destruct C as [C|C]; [|right; right; exact C]. destruct M3 as [M3|M3]; [left; lra|right; left; lra].
Qed.

Lemma fold_nmax_spec (r : list R) : forall x0,
  let m := fold_left (@nmax R NumR) r x0 in
  x0 <= m /\ (forall y, In y r -> y <= m) /\ (m = x0 \/ In m r).
Proof.
  induction r as [|a r IH]; intros x0; cbn [fold_left].
  - cbv zeta. split; [lra|]. split; [intros y []|left; reflexivity].
  - cbv zeta. destruct (IH (@nmax R NumR x0 a)) as (A & Bm & C). cbv zeta in *.
    set (m := fold_left (@nmax R NumR) r (@nmax R NumR x0 a)) in *.
    assert (Hm : x0 <= @nmax R NumR x0 a /\ a <= @nmax R NumR x0 a /\ (@nmax R NumR x0 a = x0 \/ @nmax R NumR x0 a = a)).
    { unfold nmax. cbn [nltb NumR]. destruct (Rltb_spec x0 a); lra. }
    destruct Hm as (M1 & M2 & M3). split; [lra|]. split.
    + intros y [<-|Hy]; [lra|apply Bm; exact Hy].
    + destruct C as [C|C]; [|right; right; exact C]. destruct M3 as [M3|M3]; [left; lra|right; left; lra].
Qed.

(* list_min / list_max are a lower / upper bound of the list and are attained *)
Lemma list_min_spec (l : list R) : l <> [] ->
  (forall y, In y l -> @list_min R NumR l <= y) /\ In (@list_min R NumR l) l.
Proof.
  destruct l as [|x r]; [congruence|]. intros _. unfold list_min.
  destruct (fold_nmin_spec r x) as (A & Bm & C). cbv zeta in *. split.
  - intros y [<-|Hy]; [exact A|apply Bm; exact Hy].
  - destruct C as [C|C]; [left; symmetry; exact C|right; exact C].
Qed.
Lemma list_max_spec (l : list R) : l <> [] ->
  (forall y, In y l -> y <= @list_max R NumR l) /\ In (@list_max R NumR l) l.
Proof.
  destruct l as [|x r]; [congruence|]. intros _. unfold list_max.
  destruct (fold_nmax_spec r x) as (A & Bm & C). cbv zeta in *. split.
  - intros y [<-|Hy]; [exact A|apply Bm; exact Hy].
  - destruct C as [C|C]; [left; symmetry; exact C|right; exact C].
Qed.

Lemma bbox_length (o : obj R) : length (@obj_bounding_box R NumR o) = o_dim o.
Proof. unfold obj_bounding_box. rewrite map_length, seq_length. reflexivity. Qed.

Lemma bbox_nth (o : obj R) c d : (c < o_dim o)%nat ->
  nth c (@obj_bounding_box R NumR o) d
  = (@list_min R NumR (map (coord c) (o_cps o)), @list_max R NumR (map (coord c) (o_cps o))).
Proof.
  intros Hc. unfold obj_bounding_box.
  rewrite (nth_map_gen _ _ c d 0%nat) by (rewrite seq_length; exact Hc). rewrite seq_nth by exact Hc. reflexivity.
Qed.

(* the reported box contains every control point, and each of its faces touches one (it is the smallest such box) *)
Theorem bbox_is_control_point_box (o : obj R) c : (c < o_dim o)%nat -> o_cps o <> [] ->
  let lohi := nth c (@obj_bounding_box R NumR o) (0, 0) in
  Forall (fun P => fst lohi <= coord c P <= snd lohi) (o_cps o) /\
  (exists P, In P (o_cps o) /\ coord c P = fst lohi) /\ (exists P, In P (o_cps o) /\ coord c P = snd lohi).
Proof.
  intros Hc Hne. cbv zeta. rewrite bbox_nth by exact Hc. cbn [fst snd].
  assert (Hne' : map (coord c) (o_cps o) <> []) by (destruct (o_cps o); [congruence|discriminate]).
  destruct (list_min_spec _ Hne') as [L1 L2]. destruct (list_max_spec _ Hne') as [U1 U2].
  split; [|split].
  - apply Forall_forall. intros P HP. split; [apply L1|apply U1]; apply in_map; exact HP.
  - apply in_map_iff in L2. destruct L2 as (P & E & HP). exists P. split; assumption.
  - apply in_map_iff in U2. destruct U2 as (P & E & HP). exists P. split; assumption.
Qed.

Lemma wf_cps_nonempty tol (o : obj R) : wf_obj_R tol o -> o_cps o <> [].
Proof.
  intros (HB & _ & HL) E. rewrite E in HL. cbn [length] in HL.
  assert (P : (0 < prodl (@o_shape R o))%nat).
  { unfold o_shape. induction HB as [|b bs Hb _ IH]; cbn [map prodl fold_right]; [lia|].
    destruct Hb as (_ & _ & _ & Hn & _). fold (prodl (map (@b_nfun R) bs)). nia. }
  lia.
Qed.

(* the evaluated point of a non-rational object has one coordinate per physical dimension *)
Lemma obj_eval_length tol (o : obj R) ts v :
  0 < tol -> wf_obj_R tol o -> o_rat o = false -> @obj_eval R NumR tol o ts = Ok v -> length v = o_dim o.
Proof.
  intros Htol (WB & WC & WL) Hrat. unfold obj_eval.
  destruct (@validate R NumR tol (o_bases o) ts) as [ts'|e] eqn:EV; [|discriminate].
  rewrite Hrat. intros [= <-]. unfold eval_h.
  assert (Hnc : @o_ncomp R o = o_dim o) by (unfold o_ncomp; rewrite Hrat; lia).
  assert (Hall : forall i, (i < length (o_bases o))%nat -> in_dom tol (nth i (o_bases o) dflt_basis) (nth i ts 0)).
  { intros i Hi. destruct (in_dom_dec tol (nth i (o_bases o) dflt_basis) (nth i ts 0)) as [D|D]; [exact D|].
    destruct (validate_spec tol (o_bases o) ts) as [_ V2]. rewrite V2 in EV by (exists i; auto). discriminate. }
  destruct (validate_spec tol (o_bases o) ts) as [V1 _]. rewrite (V1 Hall) in EV. injection EV as <-.
  rewrite <- Hnc. apply teval_length. split; [exact WC|]. rewrite WL. unfold o_shape. f_equal.
  apply (nth_ext _ _ 0%nat 0%nat); [rewrite !map_length, rows_at_length; reflexivity|].
  intros i Hi. rewrite map_length in Hi.
  rewrite (nth_map_gen _ _ i 0%nat dflt_basis) by exact Hi.
  rewrite (nth_map_gen _ _ i 0%nat []) by (rewrite rows_at_length; exact Hi).
  rewrite rows_at_nth by exact Hi.
  rewrite (nth_map_gen _ _ i 0 0%nat) by (rewrite seq_length; exact Hi). rewrite seq_nth by exact Hi. cbn [Nat.add].
  rewrite !nth_nil_any. unfold basis_row.
  rewrite Forall_forall in WB. destruct (WB (nth i (o_bases o) dflt_basis) (nth_In _ _ Hi)) as (B1 & B2 & B3 & B4 & B5).
  symmetry. apply (basis_row_convex _ _ _ tol B1 B2 B3 Htol B4 B5). apply Hall. exact Hi.
Qed.

(* every evaluated point of a non-rational object lies inside the bounding box the object reports, coordinate by coordinate
   (periodic directions included: obj_eval_bbox covers them) *)
Theorem eval_in_bounding_box tol (o : obj R) ts v :
  0 < tol -> wf_obj_R tol o -> o_rat o = false -> @obj_eval R NumR tol o ts = Ok v ->
  length (@obj_bounding_box R NumR o) = o_dim o /\ length v = o_dim o /\
  forall c, (c < o_dim o)%nat ->
    fst (nth c (@obj_bounding_box R NumR o) (0, 0)) <= coord c v <= snd (nth c (@obj_bounding_box R NumR o) (0, 0)).
Proof.
  intros Htol Hwf Hrat Hev. split; [apply bbox_length|]. split; [exact (obj_eval_length tol o ts v Htol Hwf Hrat Hev)|]. intros c Hc.
  destruct (bbox_is_control_point_box o c Hc (wf_cps_nonempty tol o Hwf)) as (HF & _). cbv zeta in HF.
  exact (obj_eval_bbox tol o ts v c _ _ Htol Hwf Hrat Hc HF Hev).
Qed.

(* ---------- the domain hypothesis in plain form: start <= t <= end suffices (snapping never leaves the domain) ---------- *)
Lemma kn_In (k : list R) i : (i < length k)%nat -> In (@kn R NumR k i) k.
Proof. intros Hi. unfold kn. apply nth_In. exact Hi. Qed.

(* snap keeps a parameter between two knot values *)
Lemma snap1_stays_between (k : list R) tol t a b : sorted (@kn R NumR k) -> 0 < tol -> In a k -> In b k -> a <= t <= b ->
  a <= @snap1 R NumR k tol t <= b.
Proof.
  intros S Htol Ia Ib Hab.
  destruct (snap1_case k tol t S) as [(y & (I & G & Mn) & N & E1) | [(NU & z & (I & G & Mx) & N & E1) | (NU & ND & E1)]]; rewrite E1.
  - pose proof (Mn b Ib ltac:(lra)). lra.
  - destruct (Rle_lt_or_eq_dec a t (proj1 Hab)) as [L|E].
    + pose proof (Mx a Ia L). lra.
    + exfalso. apply (NU a).
      * split; [exact Ia|]. split; [lra|]. intros v _ Hv. lra.
      * unfold near. replace (a - t) with 0 by lra. rewrite Rabs_R0. exact Htol.
  - exact Hab.
Qed.

Lemma in_dom_of_range tol (b : basis R) t : 0 < tol -> wf_basis_R tol b ->
  @b_start R NumR b <= t <= @b_end R NumR b -> in_dom tol b t.
Proof.
  intros Htol (HK & Hp & Hlen & Hn & _) Ht _. unfold b_start, b_end in *.
  apply (snap1_stays_between (b_knots b) tol t _ _ HK Htol); [apply kn_In; lia|apply kn_In; lia|exact Ht].
Qed.

Corollary default_obj_identity_on_domain tol (bases : list (basis R)) ts :
  0 < tol -> Forall (wf_basis_R tol) bases ->
  (forall i, (i < length bases)%nat -> b_per1 (nth i bases dflt_basis) = 0%nat) ->
  (forall i, (i < length bases)%nat -> (2 <= b_order (nth i bases dflt_basis))%nat) ->
  (forall i, (i < length bases)%nat ->
     @b_start R NumR (nth i bases dflt_basis) <= nth i ts 0 <= @b_end R NumR (nth i bases dflt_basis)) ->
  @obj_eval R NumR tol (@default_obj R NumR bases) ts = Ok (snapped_point tol bases ts (@default_dim R bases)).
Proof.
  intros Htol HB Hnp Hp2 Hr. apply default_obj_identity; try assumption.
  intros i Hi. apply in_dom_of_range; [exact Htol| |apply Hr; exact Hi].
  rewrite Forall_forall in HB. apply HB. apply nth_In. exact Hi.
Qed.

(* ---------- the executed (Q) instance is the proved (R) instance ---------- *)
Module DefaultTransfer.

Parametricity Recursive default_obj.
Parametricity Recursive default_obj_rat.
Parametricity Recursive obj_bounding_box.

Theorem default_obj_transfer (bs : list (basis Q)) :
  objQ2R (@default_obj Q NumQ bs) = @default_obj R NumR (map basisQ2R bs).
Proof.
  symmetry. apply obj_R_inv.
  exact (default_obj_R Q R QR NumQ NumR NumQR bs (map basisQ2R bs) (bases_R_map bs)).
Qed.

Theorem default_obj_rat_transfer (bs : list (basis Q)) :
  objQ2R (@default_obj_rat Q NumQ bs) = @default_obj_rat R NumR (map basisQ2R bs).
Proof.
  symmetry. apply obj_R_inv.
  exact (default_obj_rat_R Q R QR NumQ NumR NumQR bs (map basisQ2R bs) (bases_R_map bs)).
Qed.

Theorem obj_bounding_box_transfer (o : obj Q) :
  map (pairmap Q2R Q2R) (@obj_bounding_box Q NumQ o) = @obj_bounding_box R NumR (objQ2R o).
Proof.
  symmetry. apply (gen_list_R_inv (prod_R Q R QR Q R QR) (pairmap Q2R Q2R)).
  - intros a b. apply gen_prod_R_inv; exact QR_inv.
  - exact (obj_bounding_box_R Q R QR NumQ NumR NumQR o (objQ2R o) (obj_R_map o)).
Qed.

(* what is executed: SplineObject(bases) evaluated on Q is the R evaluation of the R default object *)
Theorem default_obj_eval_transfer (tol : Q) (bs : list (basis Q)) (ts : list Q) :
  resmap (map Q2R) (@obj_eval Q NumQ tol (@default_obj Q NumQ bs) ts)
  = @obj_eval R NumR (Q2R tol) (@default_obj R NumR (map basisQ2R bs)) (map Q2R ts).
Proof. rewrite obj_eval_transfer, default_obj_transfer. reflexivity. Qed.
End DefaultTransfer.

(* ---------- non-vacuity ---------- *)
(* on R: the biquadratic-by-linear surface of the report, Surface(BSplineBasis(3,[0,0,0,1,2,2,2]), BSplineBasis(2,[1,1,3,3])),
   satisfies every hypothesis of default_obj_identity_on_domain at (3/2, 5/2) *)
Definition ex_bu : basis R := mkBasis 3 [0; 0; 0; 1; 2; 2; 2] 0.
Definition ex_bv : basis R := mkBasis 2 [1; 1; 3; 3] 0.

Ltac rleb_true := repeat match goal with |- context [Rleb ?a ?b] => destruct (Rleb_spec a b); [|exfalso; lra] end.

Lemma ex_bu_wf : wf_basis_R (1/100) ex_bu.
Proof.
  unfold wf_basis_R, ex_bu. cbn [b_knots b_order b_per1]. split.
  - apply kn_sorted. cbn [Knots.sorted_list nleb NumR]. rleb_true. reflexivity.
  - unfold b_nfun, b_end, b_start, kn. cbn [b_knots b_order b_per1 length Nat.sub nth].
    split; [lia|split; [lia|split; [lia|lra]]].
Qed.
Lemma ex_bv_wf : wf_basis_R (1/100) ex_bv.
Proof.
  unfold wf_basis_R, ex_bv. cbn [b_knots b_order b_per1]. split.
  - apply kn_sorted. cbn [Knots.sorted_list nleb NumR]. rleb_true. reflexivity.
  - unfold b_nfun, b_end, b_start, kn. cbn [b_knots b_order b_per1 length Nat.sub nth].
    split; [lia|split; [lia|split; [lia|lra]]].
Qed.

Example default_obj_identity_nonvacuous :
  exists v, @obj_eval R NumR (1/100) (@default_obj R NumR [ex_bu; ex_bv]) [3/2; 5/2] = Ok v /\ length v = 2%nat /\
            Rabs (coord 0 v - 3/2) < 1/100 /\ Rabs (coord 1 v - 5/2) < 1/100.
Proof.
  assert (HB : Forall (wf_basis_R (1/100)) [ex_bu; ex_bv]) by (constructor; [exact ex_bu_wf|constructor; [exact ex_bv_wf|constructor]]).
  assert (Hnp : forall i, (i < length [ex_bu; ex_bv])%nat -> b_per1 (nth i [ex_bu; ex_bv] dflt_basis) = 0%nat).
  { intros i Hi. cbn [length] in Hi. destruct i as [|[|i]]; [reflexivity|reflexivity|lia]. }
  assert (Hp2 : forall i, (i < length [ex_bu; ex_bv])%nat -> (2 <= b_order (nth i [ex_bu; ex_bv] dflt_basis))%nat).
  { intros i Hi. cbn [length] in Hi. destruct i as [|[|i]]; cbn; lia. }
  assert (Hdom : forall i, (i < length [ex_bu; ex_bv])%nat -> in_dom (1/100) (nth i [ex_bu; ex_bv] dflt_basis) (nth i [3/2; 5/2] 0)).
  { intros i Hi. cbn [length] in Hi.
    destruct i as [|[|i]]; [| |lia]; cbn [nth]; (apply in_dom_of_range; [lra| |]).
    - exact ex_bu_wf.
    - unfold ex_bu, b_start, b_end, kn. cbn [b_knots b_order length Nat.sub nth]. lra.
    - exact ex_bv_wf.
    - unfold ex_bv, b_start, b_end, kn. cbn [b_knots b_order length Nat.sub nth]. lra. }
  destruct (default_obj_identity_coord (1/100) [ex_bu; ex_bv] [3/2; 5/2] ltac:(lra) HB Hnp Hp2 Hdom) as (v & Ev & Lv & Hc & _).
  exists v. split; [exact Ev|]. split; [exact Lv|].
  destruct (Hc 0%nat ltac:(cbn; lia)) as (_ & A0 & _). destruct (Hc 1%nat ltac:(cbn; lia)) as (_ & A1 & _).
  cbn [nth] in A0, A1. split; assumption.
Qed.

(* on Q (executed): the constructor's net in C order as numpy prints it, the identity at an interior point, at a knot, and
   at the domain corner; a curve gets the zero second coordinate; a volume; the rational variant; the bounding boxes *)
Example default_obj_on_Q :
  let tol := (1#10000000000)%Q in
  let bu := q_mkBasis 3 [0; 0; 0; 1; 2; 2; 2]%Q 0 in
  let bv := q_mkBasis 2 [1; 1; 3; 3]%Q 0 in
  let bw := q_mkBasis 2 [5; 5; 6; 7; 7]%Q 0 in
  let red r := match r with Ok v => Ok (map Qred v) | Err e => Err e end in
  map (map Qred) (o_cps (@default_obj Q NumQ [bu; bv]))
    = [[0; 1]; [0; 3]; [1#2; 1]; [1#2; 3]; [3#2; 1]; [3#2; 3]; [2; 1]; [2; 3]]%Q /\
  (o_dim (@default_obj Q NumQ [bu; bv]), o_dim (@default_obj Q NumQ [bu]), o_dim (@default_obj Q NumQ [bu; bv; bw])) = (2, 2, 3)%nat /\
  map (map Qred) (o_cps (@default_obj Q NumQ [bu])) = [[0; 0]; [1#2; 0]; [3#2; 0]; [2; 0]]%Q /\
  red (q_obj_eval tol (@default_obj Q NumQ [bu; bv]) [3#2; 5#2]%Q) = Ok [3#2; 5#2]%Q /\
  red (q_obj_eval tol (@default_obj Q NumQ [bu; bv]) [1; 1]%Q) = Ok [1; 1]%Q /\
  red (q_obj_eval tol (@default_obj Q NumQ [bu; bv]) [2; 3]%Q) = Ok [2; 3]%Q /\
  red (q_obj_eval tol (@default_obj Q NumQ [bu]) [3#10]%Q) = Ok [3#10; 0]%Q /\
  red (q_obj_eval tol (@default_obj Q NumQ [bu; bv; bw]) [3#10; 17#10; 31#5]%Q) = Ok [3#10; 17#10; 31#5]%Q /\
  red (q_obj_eval tol (@default_obj_rat Q NumQ [bu; bv]) [3#2; 5#2]%Q) = Ok [3#2; 5#2]%Q /\
  q_obj_eval tol (@default_obj Q NumQ [bu; bv]) [3#2; 7#2]%Q = Err ValueError /\
  map (fun lh => (Qred (fst lh), Qred (snd lh))) (@obj_bounding_box Q NumQ (@default_obj Q NumQ [bu; bv; bw]))
    = [(0, 2); (1, 3); (5, 7)]%Q /\
  map (fun lh => (Qred (fst lh), Qred (snd lh))) (@obj_bounding_box Q NumQ (@default_obj Q NumQ [bu])) = [(0, 2); (0, 0)]%Q /\
  map (fun lh => (Qred (fst lh), Qred (snd lh)))
      (@obj_bounding_box Q NumQ (q_mkObj [bv] [[3; -1; 2]; [1; 4; 1#2]]%Q 2 true)) = [(1, 3); (-1, 4)]%Q.
Proof. vm_compute. repeat split; reflexivity. Qed.

