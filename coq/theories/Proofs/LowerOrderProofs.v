(* C05, basis level: BSplineBasis.raise_order / lower_order (Model/Order.v: basis_raise_order, basis_lower_order; with the
   constructor call Model/LowerOrder.v) on the instance R.
   Knot vectors are arbitrary sorted lists [l]; "distinct knots differ by more than the tolerance" is [separated tol l]
   (Proofs/RaiseAmount.v), multiplicities are [mult l x] (Proofs/SplitCompose.v).

     raise_order_mults            order + a, per1 = 0, sorted, same distinct knots, every multiplicity + a          (any sorted l)
     raise_order_continuity       continuity() at every knot is p - m - 1 before AND after                        (open l)
     lower_order_knots            lower_order(a) = order - a, every distinct knot with multiplicity max(m - a, 1)   (clamped l)
     lower_order_mults            ... as multiplicities; the floor is 1: a knot never disappears
     lower_after_raise_basis      lower_order(a) (raise_order(a) b) = Ok b exactly                               (open l, p >= 2)
     lower_order_too_low          order - a < 2 -> ValueError;   lower_after_raise_order1_refuted (p = 1 does not round-trip)
     lower_order_unclamped        first knot < start (non-periodic, not clamped) -> ValueError from continuity()
     lower_order_periodic_error   every periodic basis: an error (NameError in the executed examples);
     lower_after_raise_periodic_refuted   no periodic basis round-trips
     Q examples against the Python implementation at the end. *)
From Coq Require Import List Arith Reals Lra Lia Bool ZArith Permutation Sorted.
From SplipyModel Require Import Spec.BSpline Model.Num Model.BasisDef Model.BasisEval Model.Tensor Model.Obj Model.KnotInsert
  Model.Tol Model.WF Model.Order Model.LowerOrder
  Proofs.KnotList Proofs.EvaluateSpec Proofs.OrderProofs Proofs.RaiseNested Proofs.OrderRaise Proofs.RaiseAmount
  Proofs.SplitCompose Proofs.IdenticalEndToEnd.
Import ListNotations.
Open Scope R_scope.

(* ------------------------------------------------------------------------------------------------------------ *)
(* raise_order *)

Lemma raise_basis_chain tol p (l : list R) a : lsorted l ->
  @basis_raise_order R NumR tol (mkBasis p l 0) a
  = mkBasis (p + a) (chain l (@knot_spans R NumR tol (mkBasis p l 0) true) a) 0.
Proof.
  intros Hs. unfold basis_raise_order. destruct (Nat.eqb_spec a 0) as [->|Ha].
  - cbn [chain]. rewrite Nat.add_0_r. reflexivity.
  - cbv zeta. cbn [b_per1 b_order b_knots Nat.eqb]. rewrite (chain_eq l _ a Hs). reflexivity.
Qed.

Lemma spans_in_l tol p (l : list R) : 0 <= tol -> l <> [] -> separated tol l ->
  forall x, In x (@knot_spans R NumR tol (mkBasis p l 0) true) <-> In x l.
Proof. intros Ht Hne Hsep x. apply (knot_spans_values tol p l Ht Hne Hsep x). Qed.

(* (1) same distinct knots, every multiplicity + a, order + a; any sorted knot list, any order, non-periodic *)
Theorem raise_order_mults tol p (l : list R) a : 0 <= tol -> lsorted l -> l <> [] -> separated tol l ->
  let b' := @basis_raise_order R NumR tol (mkBasis p l 0) a in
  b_order b' = (p + a)%nat /\ b_per1 b' = 0%nat /\ lsorted (b_knots b') /\
  (forall x, In x (b_knots b') <-> In x l) /\
  (forall x, In x l -> mult (b_knots b') x = (mult l x + a)%nat) /\
  (forall x, ~ In x l -> mult (b_knots b') x = 0%nat) /\
  length (b_knots b') = (length l + a * length (@knot_spans R NumR tol (mkBasis p l 0) true))%nat.
Proof.
  intros Ht Hs Hne Hsep. cbv zeta. rewrite (raise_basis_chain tol p l a Hs). cbn [b_order b_per1 b_knots].
  assert (V : forall x, In x (chain l (@knot_spans R NumR tol (mkBasis p l 0) true) a) <-> In x l).
  { apply chain_values. intros x Hx. apply (spans_in_l tol p l Ht Hne Hsep). exact Hx. }
  split; [reflexivity|]. split; [reflexivity|]. split; [apply chain_sorted, Hs|]. split; [exact V|].
  split; [intros x Hx; apply (mult_chain tol l p a x Ht Hs Hne Hsep Hx)|].
  split; [|apply chain_length].
  intros x Hx. apply count_occ_not_In. intros H. apply Hx, V, H.
Qed.

(* non-vacuity: the knot vector of the task, [0,0,0,1,2,2,3,3,3] *)
Definition ex_l : list R := [0; 0; 0; 1; 2; 2; 3; 3; 3].
Lemma ex_l_sorted : lsorted ex_l.
Proof. unfold ex_l. repeat (constructor; [lra|]). constructor. Qed.
Lemma ex_l_sep : separated (1/10) ex_l.
Proof.
  intros y z Hy Hz. unfold ex_l in *. cbn [In] in Hy, Hz.
  repeat (destruct Hy as [<-|Hy]); try contradiction; repeat (destruct Hz as [<-|Hz]); try contradiction;
    first [left; reflexivity | right; unfold Rabs; destruct (Rcase_abs _); lra].
Qed.
Lemma ex_l_open : open_knots ex_l 3.
Proof.
  split; intros i Hi; destruct i as [|[|[|i]]]; try lia; reflexivity.
Qed.
Example ex_raise_mults : let b' := @basis_raise_order R NumR (1/10) (mkBasis 3 ex_l 0) 2 in
  b_order b' = 5%nat /\ mult (b_knots b') 2 = (mult ex_l 2 + 2)%nat.
Proof.
  destruct (raise_order_mults (1/10) 3 ex_l 2 ltac:(lra) ex_l_sorted ltac:(discriminate) ex_l_sep) as (A & _ & _ & _ & B & _).
  split; [exact A|]. apply B. unfold ex_l. cbn [In]. tauto.
Qed.

(* the raised list of an open knot vector keeps the domain, hence every knot stays inside it *)
Lemma raised_clamped tol p (l : list R) a : 0 <= tol -> lsorted l -> (1 <= p)%nat -> (2 * p <= length l)%nat -> open_knots l p ->
  separated tol l ->
  clamped (chain l (@knot_spans R NumR tol (mkBasis p l 0) true) a) (p + a).
Proof.
  intros Ht Hs Hp Hlen Hopen Hsep.
  assert (Hne : l <> []) by (destruct l; [cbn in Hlen; lia|discriminate]).
  pose proof (spans_in_l tol p l Ht Hne Hsep) as V.
  intros x Hx.
  rewrite (open_same_start l _ p a Hs (fun y Hy => proj2 (V y) Hy) (fun y Hy => proj1 (V y) Hy) Hp Hlen Hopen).
  rewrite (open_same_end l _ p a Hs (fun y Hy => proj2 (V y) Hy) (fun y Hy => proj1 (V y) Hy) Hp Hlen Hopen).
  apply (open_clamped l p Hs Hp Hlen Hopen). apply (chain_values l _ a (fun y Hy => proj1 (V y) Hy) x). exact Hx.
Qed.

Lemma separated_sub tol (l L : list R) : separated tol l -> (forall x, In x L -> In x l) -> separated tol L.
Proof. intros Hsep Hin y z Hy Hz. apply Hsep; apply Hin; assumption. Qed.

(* (1, continuity) BSplineBasis.continuity at every knot: p - m - 1 before, (p+a) - (m+a) - 1 = the same number after *)
Theorem raise_order_continuity tol p (l : list R) a x : 0 < tol -> lsorted l -> (1 <= p)%nat -> (2 * p <= length l)%nat ->
  open_knots l p -> separated tol l -> In x l ->
  @basis_continuity R NumR tol (mkBasis p l 0) x = Ok (Some (Z.of_nat p - Z.of_nat (mult l x) - 1)%Z) /\
  @basis_continuity R NumR tol (@basis_raise_order R NumR tol (mkBasis p l 0) a) x
    = Ok (Some (Z.of_nat p - Z.of_nat (mult l x) - 1)%Z).
Proof.
  intros Htol Hs Hp Hlen Hopen Hsep Hx.
  assert (Ht : 0 <= tol) by lra.
  assert (Hne : l <> []) by (destruct l; [cbn in Hlen; lia|discriminate]).
  assert (M1 : (1 <= mult l x)%nat) by (apply (count_occ_In Req_EM_T); exact Hx).
  split.
  - rewrite (continuity_mult tol l p x (sorted_kn_lsorted l Hs) Htol
              (separated_knot_sep tol l x Htol Hsep Hx l (fun v H => H)) (open_clamped l p Hs Hp Hlen Hopen x Hx)).
    destruct (Nat.eqb_spec (mult l x) 0); [lia|reflexivity].
  - rewrite (raise_basis_chain tol p l a Hs).
    set (L := chain l (@knot_spans R NumR tol (mkBasis p l 0) true) a).
    assert (V : forall y, In y L <-> In y l).
    { apply chain_values. intros y Hy. apply (spans_in_l tol p l Ht Hne Hsep). exact Hy. }
    rewrite (continuity_mult tol L (p + a) x (sorted_kn_lsorted L (chain_sorted l _ a Hs)) Htol
              (separated_knot_sep tol l x Htol Hsep Hx L (fun v H => proj1 (V v) H))
              (raised_clamped tol p l a Ht Hs Hp Hlen Hopen Hsep x (proj2 (V x) Hx))).
    unfold L. rewrite (mult_chain tol l p a x Ht Hs Hne Hsep Hx).
    destruct (Nat.eqb_spec (mult l x + a) 0); [lia|]. do 2 f_equal. lia.
Qed.

Example ex_raise_continuity :
  @basis_continuity R NumR (1/10) (@basis_raise_order R NumR (1/10) (mkBasis 3 ex_l 0) 2) 2
  = @basis_continuity R NumR (1/10) (mkBasis 3 ex_l 0) 2.
Proof.
  destruct (raise_order_continuity (1/10) 3 ex_l 2 2 ltac:(lra) ex_l_sorted ltac:(lia) ltac:(cbn; lia) ex_l_open ex_l_sep
              ltac:(unfold ex_l; cbn [In]; tauto)) as [A B].
  rewrite A, B. reflexivity.
Qed.

(* ------------------------------------------------------------------------------------------------------------ *)
(* lower_order *)

(* (3, error branch) order - amount < 2: ValueError, whatever the basis (periodic or not) *)
Theorem lower_order_too_low tol (b : basis R) a : (b_order b - a < 2)%nat -> @basis_lower_order R NumR tol b a = Err ValueError.
Proof. intros H. unfold basis_lower_order. destruct (Nat.ltb_spec (b_order b - a) 2); [reflexivity|lia]. Qed.

Lemma lower_fold tol (b : basis R) pn (cz : R -> Z) (c : R -> nat) : forall vs acc,
  (forall x, In x vs -> @basis_continuity R NumR tol b x = Ok (Some (cz x)) /\
                         Z.to_nat (Z.max (Z.of_nat pn - 1 - cz x) 1) = c x) ->
  fold_left (fun (acc : res (list R)) (x : R) =>
        match acc with
        | Err e => Err e
        | Ok l =>
          match @basis_continuity R NumR tol b x with
          | Err e => Err e
          | Ok None => Err TypeError
          | Ok (Some c) => Ok (l ++ repeat x (Z.to_nat (Z.max (Z.of_nat pn - 1 - c) 1)))
          end
        end) vs (Ok acc) = Ok (acc ++ flat_map (fun x => repeat x (c x)) vs).
Proof.
  induction vs as [|x vs IH]; intros acc H; cbn [fold_left flat_map]; [rewrite app_nil_r; reflexivity|].
  destruct (H x (or_introl eq_refl)) as [E1 E2]. rewrite E1, E2. rewrite IH.
  - rewrite <- app_assoc. reflexivity.
  - intros y Hy. apply H. right. exact Hy.
Qed.

(* (3) what lower_order(a) does on a non-periodic basis all of whose knots lie in [start, end] (clamped; e.g. open):
   new order p - a, every distinct knot (knot_spans(True)) repeated max(m - a, 1) times: the floor is ONE, so a knot of
   multiplicity <= a stays as a simple knot (its continuity is then p-a-2, not the old p-m-1). *)
Theorem lower_order_knots tol p (l : list R) a : 0 < tol -> lsorted l -> l <> [] -> separated tol l -> clamped l p ->
  (2 <= p - a)%nat ->
  @basis_lower_order R NumR tol (mkBasis p l 0) a
  = Ok (mkBasis (p - a) (flat_map (fun x => repeat x (Nat.max (mult l x - a) 1)) (@knot_spans R NumR tol (mkBasis p l 0) true)) 0).
Proof.
  intros Htol Hs Hne Hsep Hcl Hpa. assert (Ht : 0 <= tol) by lra.
  unfold basis_lower_order. cbn [b_order b_per1 Nat.eqb]. destruct (Nat.ltb_spec (p - a) 2); [lia|]. cbv zeta.
  rewrite (lower_fold tol (mkBasis p l 0) (p - a) (fun x => (Z.of_nat p - Z.of_nat (mult l x) - 1)%Z)
             (fun x => Nat.max (mult l x - a) 1)).
  - reflexivity.
  - intros x Hx. apply (spans_in_l tol p l Ht Hne Hsep) in Hx.
    assert (M1 : (1 <= mult l x)%nat) by (apply (count_occ_In Req_EM_T); exact Hx).
    split; [|lia].
    rewrite (continuity_mult tol l p x (sorted_kn_lsorted l Hs) Htol
              (separated_knot_sep tol l x Htol Hsep Hx l (fun v H => H)) (Hcl x Hx)).
    destruct (Nat.eqb_spec (mult l x) 0); [lia|reflexivity].
Qed.

Lemma spans_ssorted tol p (l : list R) : 0 <= tol -> lsorted l -> l <> [] ->
  StronglySorted Rlt (@knot_spans R NumR tol (mkBasis p l 0) true).
Proof.
  intros Ht Hs Hne. unfold knot_spans. cbn [b_knots b_order]. destruct l as [|a0 l0]; [congruence|].
  change (@kn R NumR (a0 :: l0) 0) with a0.
  apply (ssorted_gap_lt tol); [exact Ht|]. apply uniq_tol_gap; [exact Ht|]. constructor; [lra|exact Hs].
Qed.

Lemma lsorted_cons_le a (r : list R) : lsorted r -> (forall y, In y r -> a <= y) -> lsorted (a :: r).
Proof. intros Hr H. destruct r as [|y r]; [constructor|]. constructor; [apply H; left; reflexivity|exact Hr]. Qed.
Lemma lsorted_repeat_app a n (r : list R) : lsorted r -> (forall y, In y r -> a <= y) -> lsorted (repeat a n ++ r).
Proof.
  intros Hr H. induction n as [|n IH]; [exact Hr|]. cbn [repeat app]. apply lsorted_cons_le; [exact IH|].
  intros y Hy. apply in_app_or in Hy. destruct Hy as [Hy|Hy]; [apply repeat_spec in Hy; lra|apply H, Hy].
Qed.
Lemma flat_lsorted (c : R -> nat) vs : StronglySorted Rlt vs -> lsorted (flat_map (fun x => repeat x (c x)) vs).
Proof.
  induction 1 as [|a vs Hs IH Hf]; cbn [flat_map]; [constructor|]. apply lsorted_repeat_app; [exact IH|].
  intros y Hy. apply in_flat_map in Hy. destruct Hy as (x & Hx & Hr). apply repeat_spec in Hr. subst y.
  rewrite Forall_forall in Hf. pose proof (Hf x Hx). lra.
Qed.

(* the same as multiplicities *)
Theorem lower_order_mults tol p (l : list R) a : 0 < tol -> lsorted l -> l <> [] -> separated tol l -> clamped l p ->
  (2 <= p - a)%nat ->
  exists K, @basis_lower_order R NumR tol (mkBasis p l 0) a = Ok (mkBasis (p - a) K 0) /\ lsorted K /\
    (forall x, In x K <-> In x l) /\
    (forall x, In x l -> mult K x = Nat.max (mult l x - a) 1) /\ (forall x, ~ In x l -> mult K x = 0%nat).
Proof.
  intros Htol Hs Hne Hsep Hcl Hpa. assert (Ht : 0 <= tol) by lra.
  eexists. split; [apply (lower_order_knots tol p l a Htol Hs Hne Hsep Hcl Hpa)|].
  pose proof (spans_ssorted tol p l Ht Hs Hne) as SS. pose proof (spans_in_l tol p l Ht Hne Hsep) as V.
  set (vals := @knot_spans R NumR tol (mkBasis p l 0) true) in *.
  assert (M : forall x, In x l -> mult (flat_map (fun x => repeat x (Nat.max (mult l x - a) 1)) vals) x = Nat.max (mult l x - a) 1).
  { intros x Hx. unfold mult at 1. apply (count_flat_in (fun x => Nat.max (mult l x - a) 1) vals x SS). apply V, Hx. }
  assert (N : forall x, ~ In x l -> mult (flat_map (fun x => repeat x (Nat.max (mult l x - a) 1)) vals) x = 0%nat).
  { intros x Hx. unfold mult at 1. apply (count_flat_notin (fun x => Nat.max (mult l x - a) 1) vals x). intros H. apply Hx, V, H. }
  split; [apply flat_lsorted, SS|]. split; [|split; [exact M|exact N]].
  intros x. split.
  - intros Hin. apply in_flat_map in Hin. destruct Hin as (y & Hy & Hr). apply repeat_spec in Hr. subst x. apply V, Hy.
  - intros Hx. apply (count_occ_In Req_EM_T). fold (mult (flat_map (fun x => repeat x (Nat.max (mult l x - a) 1)) vals) x).
    rewrite (M x Hx). lia.
Qed.

Example ex_lower_mults : exists K, @basis_lower_order R NumR (1/10) (mkBasis 3 ex_l 0) 1 = Ok (mkBasis 2 K 0) /\
  mult K 1 = 1%nat /\ mult K 2 = 1%nat /\ mult K 3 = 2%nat.
Proof.
  destruct (lower_order_mults (1/10) 3 ex_l 1 ltac:(lra) ex_l_sorted ltac:(discriminate) ex_l_sep
              (open_clamped ex_l 3 ex_l_sorted ltac:(lia) ltac:(cbn; lia) ex_l_open) ltac:(lia)) as (K & E & _ & _ & M & _).
  exists K. split; [exact E|].
  assert (C : forall x, mult ex_l x = count_occ Req_EM_T ex_l x) by reflexivity.
  repeat split.
  - rewrite (M 1) by (unfold ex_l; cbn [In]; tauto). rewrite C. unfold ex_l.
    repeat first [rewrite count_occ_cons_eq by lra | rewrite count_occ_cons_neq by lra]. reflexivity.
  - rewrite (M 2) by (unfold ex_l; cbn [In]; tauto). rewrite C. unfold ex_l.
    repeat first [rewrite count_occ_cons_eq by lra | rewrite count_occ_cons_neq by lra]. reflexivity.
  - rewrite (M 3) by (unfold ex_l; cbn [In]; tauto). rewrite C. unfold ex_l.
    repeat first [rewrite count_occ_cons_eq by lra | rewrite count_occ_cons_neq by lra]. reflexivity.
Qed.

(* ------------------------------------------------------------------------------------------------------------ *)
(* (2) lower_order(a) after raise_order(a): exactly the original basis (open non-periodic knot vector, order >= 2) *)
Theorem lower_after_raise_basis tol p (l : list R) a : 0 < tol -> lsorted l -> (2 <= p)%nat -> (2 * p <= length l)%nat ->
  open_knots l p -> separated tol l ->
  @basis_lower_order R NumR tol (@basis_raise_order R NumR tol (mkBasis p l 0) a) a = Ok (mkBasis p l 0).
Proof.
  intros Htol Hs Hp Hlen Hopen Hsep. assert (Ht : 0 <= tol) by lra.
  assert (Hne : l <> []) by (destruct l; [cbn in Hlen; lia|discriminate]).
  rewrite (raise_basis_chain tol p l a Hs).
  set (L := chain l (@knot_spans R NumR tol (mkBasis p l 0) true) a).
  assert (V : forall y, In y L <-> In y l).
  { apply chain_values. intros y Hy. apply (spans_in_l tol p l Ht Hne Hsep). exact Hy. }
  assert (HsL : lsorted L) by (apply chain_sorted, Hs).
  assert (HneL : L <> []).
  { destruct l as [|a0 l0]; [congruence|]. intros E. pose proof (proj2 (V a0) (or_introl eq_refl)) as H. rewrite E in H. destruct H. }
  assert (HsepL : separated tol L) by (apply (separated_sub tol l L Hsep); intros x Hx; apply V, Hx).
  pose proof (raised_clamped tol p l a Ht Hs ltac:(lia) Hlen Hopen Hsep) as HclL. fold L in HclL.
  rewrite (lower_order_knots tol (p + a) L a Htol HsL HneL HsepL HclL ltac:(lia)).
  replace (p + a - a)%nat with p by lia. do 2 f_equal.
  pose proof (spans_ssorted tol (p + a) L Ht HsL HneL) as SS. pose proof (spans_in_l tol (p + a) L Ht HneL HsepL) as VL.
  set (vals := @knot_spans R NumR tol (mkBasis (p + a) L 0) true) in *.
  apply sorted_mult_eq; [apply flat_lsorted, SS|exact Hs|].
  intros v. unfold mult at 1. destruct (In_dec Req_EM_T v l) as [I|N].
  - rewrite (count_flat_in (fun x => Nat.max (mult L x - a) 1) vals v SS (proj2 (VL v) (proj2 (V v) I))).
    unfold L. rewrite (mult_chain tol l p a v Ht Hs Hne Hsep I).
    assert (M1 : (1 <= mult l v)%nat) by (apply (count_occ_In Req_EM_T); exact I). lia.
  - rewrite (count_flat_notin (fun x => Nat.max (mult L x - a) 1) vals v).
    + symmetry. apply count_occ_not_In. exact N.
    + intros H. apply N, V, VL, H.
Qed.

Example ex_lower_after_raise :
  @basis_lower_order R NumR (1/10) (@basis_raise_order R NumR (1/10) (mkBasis 3 ex_l 0) 2) 2 = Ok (mkBasis 3 ex_l 0).
Proof. apply lower_after_raise_basis; [lra|exact ex_l_sorted|lia|cbn; lia|exact ex_l_open|exact ex_l_sep]. Qed.

(* the hypothesis 2 <= p is needed: an order-1 basis raised by a cannot be lowered by a (order - a = 1 < 2: ValueError).
   Python: BSplineBasis(1,[0,1,2]).raise_order(1).lower_order(1) -> ValueError('cannot lower order to less than linears') *)
Lemma raise_order_order tol (b : basis R) a : b_order (@basis_raise_order R NumR tol b a) = (b_order b + a)%nat.
Proof. unfold basis_raise_order. destruct (Nat.eqb_spec a 0) as [->|_]; [lia|reflexivity]. Qed.
Lemma raise_order_per1 tol (b : basis R) a : b_per1 (@basis_raise_order R NumR tol b a) = b_per1 b.
Proof. unfold basis_raise_order. destruct (Nat.eqb_spec a 0) as [->|_]; reflexivity. Qed.
Theorem lower_after_raise_order1_refuted tol (b : basis R) a : b_order b = 1%nat ->
  @basis_lower_order R NumR tol (@basis_raise_order R NumR tol b a) a = Err ValueError.
Proof. intros H. apply lower_order_too_low. rewrite raise_order_order. lia. Qed.

(* ------------------------------------------------------------------------------------------------------------ *)
(* the hypothesis "clamped" of lower_order_knots: a non-periodic basis whose first knot lies before start() *)
Lemma lower_fold_err {A B} (f : res A -> B -> res A) (Hf : forall e x, f (Err e) x = Err e) e : forall vs, fold_left f vs (Err e) = Err e.
Proof. induction vs as [|x vs IH]; cbn [fold_left]; [reflexivity|]. rewrite Hf. exact IH. Qed.

Theorem lower_order_unclamped tol p (l : list R) a : (2 <= p - a)%nat -> @kn R NumR l 0 < @kn R NumR l (p - 1) ->
  @basis_lower_order R NumR tol (mkBasis p l 0) a = Err ValueError.
Proof.
  intros Hpa Hlt. unfold basis_lower_order. cbn [b_order]. destruct (Nat.ltb_spec (p - a) 2); [lia|]. cbv zeta.
  unfold knot_spans at 1. cbn [b_knots b_order fold_left].
  assert (E : @basis_continuity R NumR tol (mkBasis p l 0) (@kn R NumR l 0) = Err ValueError).
  { unfold basis_continuity, b_start, b_end. cbn [b_per1 b_order b_knots Nat.eqb andb]. cbn [nltb NumR].
    destruct (Rltb_spec (@kn R NumR l 0) (@kn R NumR l (p - 1))); [reflexivity|lra]. }
  rewrite E. rewrite lower_fold_err; [reflexivity|]. intros; reflexivity.
Qed.
(* Python: BSplineBasis(3,[0,1,2,3,4,5]).lower_order(1) -> ValueError('out of range') *)
Example ex_unclamped : @basis_lower_order R NumR (1/10) (mkBasis 3 [0; 1; 2; 3; 4; 5] 0) 1 = Err ValueError.
Proof. apply lower_order_unclamped; [lia|]. unfold kn. cbn [nth Nat.sub]. lra. Qed.

(* ------------------------------------------------------------------------------------------------------------ *)
(* periodic bases: lower_order never returns (the code reads the local name `knot_spans`, which does not exist in
   lower_order: NameError -- unless an earlier error wins), hence raise_order(a) followed by lower_order(a) never gives
   the basis back. *)
Theorem lower_order_periodic_error tol (b : basis R) a : b_per1 b <> 0%nat -> exists e, @basis_lower_order R NumR tol b a = Err e.
Proof.
  intros Hper. unfold basis_lower_order. destruct (b_order b - a <? 2)%nat; [eexists; reflexivity|]. cbv zeta.
  destruct (fold_left _ _ _) as [knots|e]; [|eexists; reflexivity].
  destruct (Nat.eqb_spec (b_per1 b) 0); [contradiction|eexists; reflexivity].
Qed.

Theorem lower_after_raise_periodic_refuted tol (b : basis R) a : b_per1 b <> 0%nat ->
  @basis_lower_order R NumR tol (@basis_raise_order R NumR tol b a) a <> Ok b.
Proof.
  intros Hper. destruct (lower_order_periodic_error tol (@basis_raise_order R NumR tol b a) a) as [e E].
  - rewrite raise_order_per1. exact Hper.
  - rewrite E. discriminate.
Qed.
(* non-vacuity: any periodic basis, e.g. order 3, knots [-2..5], periodic = 1 (per1 = 2); executed on Q below *)
Example ex_periodic_refuted :
  @basis_lower_order R NumR (1/10) (@basis_raise_order R NumR (1/10) (mkBasis 3 [-2; -1; 0; 1; 2; 3; 4; 5] 2) 1) 1
  <> Ok (mkBasis 3 [-2; -1; 0; 1; 2; 3; 4; 5] 2).
Proof. apply lower_after_raise_periodic_refuted. cbn. lia. Qed.

(* ------------------------------------------------------------------------------------------------------------ *)
(* Q instance, executed, against the Python implementation (tolerance 1e-10 as in splipy.state):
   PYTHONPATH=/repo /venv/bin/python -c "
   from splipy import BSplineBasis
   b=BSplineBasis(3,[0,0,0,1,2,2,3,3,3]); r=b.raise_order(2)
   print(r.order, list(r.knots))     # 5 [0,0,0,0,0,1,1,1,2,2,2,2,3,3,3,3,3]
   print([b.continuity(k) for k in b.knot_spans(True)], [r.continuity(k) for k in r.knot_spans(True)])  # [-1,1,0,-1] twice
   l=r.lower_order(2); print(l.order, list(l.knots))   # 3 [0,0,0,1,2,2,3,3,3]
   l=b.lower_order(1); print(l.order, list(l.knots), [l.continuity(k) for k in l.knot_spans(True)])
                                     # 2 [0,0,1,2,3,3] [-1,0,0,-1]   (knot 1: continuity 1 -> 0, the floor max(m-a,1))
   b.lower_order(2)                  # ValueError cannot lower order to less than linears
   BSplineBasis(1,[0,1,2]).raise_order(1).lower_order(1)   # ValueError (same)
   BSplineBasis(3,[0,1,2,3,4,5]).lower_order(1)            # ValueError out of range
   pb=BSplineBasis(3,[-2,-1,0,1,2,3,4,5],1); r=pb.raise_order(1)
   print(r.order, list(r.knots), r.periodic)   # 4 [-1,-1,0,0,1,1,2,2,3,3,4,4] 1   (the ghost knots -2 and 5 are gone)
   r.lower_order(1); pb.lower_order(1)         # NameError name 'knot_spans' is not defined (both)
   BSplineBasis(2,[-1,0,1,1],0).raise_order(1) # ValueError knot vector has too few elements (slice knots[1:-0] is empty)
   " *)
From Coq Require Import QArith.
Definition tolq : Q := (1 # 10000000000)%Q.
Definition bq : basis Q := @mkBasis Q 3 [0; 0; 0; 1; 2; 2; 3; 3; 3]%Q 0.

Example q_raise : @basis_raise_order_c Q NumQ tolq bq 2
  = Ok (@mkBasis Q 5 [0; 0; 0; 0; 0; 1; 1; 1; 2; 2; 2; 2; 3; 3; 3; 3; 3]%Q 0).
Proof. vm_compute. reflexivity. Qed.
Example q_raise_runs : b_knots (@basis_raise_order Q NumQ tolq bq 2) = expand_runs (@runs_raise Q 2 (@runs_of Q NumQ (b_knots bq))).
Proof. vm_compute. reflexivity. Qed.
Example q_continuities :
  @basis_continuities Q NumQ tolq bq = [Ok (Some (-1)%Z); Ok (Some 1%Z); Ok (Some 0%Z); Ok (Some (-1)%Z)] /\
  @basis_continuities Q NumQ tolq (@basis_raise_order Q NumQ tolq bq 2) = @basis_continuities Q NumQ tolq bq.
Proof. vm_compute. split; reflexivity. Qed.
Example q_lower_after_raise : @basis_lower_order_c Q NumQ tolq (@basis_raise_order Q NumQ tolq bq 2) 2 = Ok bq.
Proof. vm_compute. reflexivity. Qed.
(* lower_order alone: multiplicities 3,1,2,3 -> 2,1,1,2 (floor 1 at the knot 1), continuity at 1 changes from 1 to 0 *)
Example q_lower : @basis_lower_order_c Q NumQ tolq bq 1 = Ok (@mkBasis Q 2 [0; 0; 1; 2; 3; 3]%Q 0) /\
  b_knots (@mkBasis Q 2 [0; 0; 1; 2; 3; 3]%Q 0) = expand_runs (@runs_lower Q 1 (@runs_of Q NumQ (b_knots bq))) /\
  @basis_continuities Q NumQ tolq (@mkBasis Q 2 [0; 0; 1; 2; 3; 3]%Q 0) = [Ok (Some (-1)%Z); Ok (Some 0%Z); Ok (Some 0%Z); Ok (Some (-1)%Z)].
Proof. vm_compute. repeat split; reflexivity. Qed.
Example q_errors :
  @basis_lower_order_c Q NumQ tolq bq 2 = Err ValueError /\
  @basis_lower_order_c Q NumQ tolq bq (-1) = Err ValueError /\ @basis_raise_order_c Q NumQ tolq bq (-1) = Err ValueError /\
  match @basis_raise_order_c Q NumQ tolq (@mkBasis Q 1 [0; 1; 2]%Q 0) 1 with
  | Ok r => @basis_lower_order_c Q NumQ tolq r 1 = Err ValueError | Err _ => False end /\
  @basis_lower_order_c Q NumQ tolq (@mkBasis Q 3 [0; 1; 2; 3; 4; 5]%Q 0) 1 = Err ValueError.
Proof. vm_compute. repeat split; reflexivity. Qed.
(* periodic: raise_order keeps the multiplicity + a only for the knots that survive the slice; the outermost ghost knots
   -2 and 5 are REMOVED (statement (1) "same distinct knots" is false for the ghost knots of a periodic basis), and
   lower_order is a NameError before and after *)
Definition pbq : basis Q := @mkBasis Q 3 [-2; -1; 0; 1; 2; 3; 4; 5]%Q 2.
Example q_periodic :
  @basis_raise_order_c Q NumQ tolq pbq 1 = Ok (@mkBasis Q 4 [-1; -1; 0; 0; 1; 1; 2; 2; 3; 3; 4; 4]%Q 2) /\
  @basis_lower_order_c Q NumQ tolq (@mkBasis Q 4 [-1; -1; 0; 0; 1; 1; 2; 2; 3; 3; 4; 4]%Q 2) 1 = Err NameError /\
  @basis_lower_order_c Q NumQ tolq pbq 1 = Err NameError /\
  @basis_continuities Q NumQ tolq (@mkBasis Q 4 [-1; -1; 0; 0; 1; 1; 2; 2; 3; 3; 4; 4]%Q 2)
    = [Ok (Some 1%Z); Ok (Some 1%Z); Ok (Some 1%Z); Ok (Some 1%Z); Ok (Some 1%Z); Ok (Some 1%Z)] /\
  @basis_raise_order_c Q NumQ tolq (@mkBasis Q 2 [-1; 0; 1; 1]%Q 1) 1 = Err ValueError.
Proof. vm_compute. repeat split; reflexivity. Qed.
Example q_periodic_ghost_refuted :
  In (-2)%Q (b_knots pbq) /\ ~ In (-2)%Q (b_knots (@basis_raise_order Q NumQ tolq pbq 1)).
Proof. split; [left; reflexivity|]. vm_compute. intros H. repeat (destruct H as [H|H]; [discriminate H|]). exact H. Qed.

(* tolerance 0 (state.knot_tolerance = 0.0): continuity() is inf at every knot, Python keeps every knot once:
   state.knot_tolerance=0.0; BSplineBasis(3,[0,0,0,1,2,3,4,5,5,5]).lower_order(1) -> order 2, knots [0,1,2,3,4,5];
   the transcription of Model/Order.v answers TypeError there (a disagreement of that model with the code, only for
   tol <= 0); basis_lower_order_inf (Model/LowerOrder.v) follows the code.  This is why the theorems assume 0 < tol. *)
Example q_tol0 :
  @basis_lower_order_inf Q NumQ 0%Q (@mkBasis Q 3 [0; 0; 0; 1; 2; 3; 4; 5; 5; 5]%Q 0) 1 = Ok (@mkBasis Q 2 [0; 1; 2; 3; 4; 5]%Q 0) /\
  @basis_lower_order Q NumQ 0%Q (@mkBasis Q 3 [0; 0; 0; 1; 2; 3; 4; 5; 5; 5]%Q 0) 1 = Err TypeError /\
  @basis_lower_order_inf Q NumQ tolq bq 1 = @basis_lower_order Q NumQ tolq bq 1.
Proof. vm_compute. repeat split; reflexivity. Qed.

Print Assumptions raise_order_mults.
Print Assumptions raise_order_continuity.
Print Assumptions lower_order_knots.
Print Assumptions lower_order_mults.
Print Assumptions lower_after_raise_basis.
Print Assumptions lower_after_raise_order1_refuted.
Print Assumptions lower_order_unclamped.
Print Assumptions lower_order_periodic_error.
Print Assumptions lower_after_raise_periodic_refuted.
Print Assumptions q_periodic.
