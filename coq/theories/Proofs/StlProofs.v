(* C19: the STL writer.  Facet counts, vertices are evaluated grid points, the two triangles of a quad, shared edges,
   padding to three components, and the choice of the evaluation parameters. *)
From Coq Require Import List Arith Lia Bool ZArith Permutation.
From SplipyModel Require Import Model.Num Model.BasisDef Model.Tensor Model.Obj Model.KnotInsert Model.Order Model.Stl
  Proofs.EvalConsequences Proofs.TensorLemmas Proofs.TensorApply.
Import ListNotations.

(* ---------- generic list facts ---------- *)
Lemma length_flat_map_uniform {A B} (f : A -> list B) m (l : list A) :
  Forall (fun a => length (f a) = m) l -> length (flat_map f l) = length l * m.
Proof. induction 1 as [|a l Ha _ IH]; cbn [flat_map length]; [reflexivity|]. rewrite app_length, IH, Ha. lia. Qed.

Lemma hd_map {A B} (f : A -> B) (l : list A) d : hd (f d) (map f l) = f (hd d l).
Proof. destruct l; reflexivity. Qed.

Section Poly.
  Context {F : Type} `{Num F}.
  Notation grid := (@stl_grid F).
  Notation pt := (@stl_point F).
  Notation tri := (@stl_tri F).

  (* ---------- (1) counts ---------- *)
  Lemma stl_quads_length (x : grid) : length (stl_quads x) = (stl_nu x - 1) * (stl_nv x - 1).
  Proof.
    unfold stl_quads. rewrite (length_flat_map_uniform _ (stl_nv x - 1)).
    - rewrite seq_length. reflexivity.
    - apply Forall_forall. intros i _. rewrite map_length, seq_length. reflexivity.
  Qed.

  Lemma in_stl_quads (x : grid) q :
    In q (stl_quads x) <-> exists i j, i < stl_nu x - 1 /\ j < stl_nv x - 1 /\ q = stl_quad x i j.
  Proof.
    unfold stl_quads. rewrite in_flat_map. split.
    - intros (i & Hi & Hq). apply in_map_iff in Hq. destruct Hq as (j & <- & Hj). apply in_seq in Hi, Hj.
      exists i, j. repeat split; lia.
    - intros (i & j & Hi & Hj & ->). exists i. split; [apply in_seq; lia|]. apply in_map_iff. exists j. split; [reflexivity|apply in_seq; lia].
  Qed.

  (* the quads are in row-major order: quad (i, j) is entry number i*(nv-1) + j *)
  Lemma stl_quads_nth (x : grid) i j : i < stl_nu x - 1 -> j < stl_nv x - 1 ->
    nth (i * (stl_nv x - 1) + j) (stl_quads x) [] = stl_quad x i j.
  Proof.
    intros Hi Hj. unfold stl_quads. rewrite flat_map_concat_map.
    rewrite (nth_concat_uniform _ (stl_nv x - 1)); [| |exact Hj].
    - rewrite (nth_map_gen _ (seq 0 (stl_nu x - 1)) i [] 0) by (rewrite seq_length; exact Hi).
      rewrite seq_nth by exact Hi. rewrite (nth_map_gen _ (seq 0 (stl_nv x - 1)) j [] 0) by (rewrite seq_length; exact Hj).
      rewrite seq_nth by exact Hj. reflexivity.
    - apply Forall_forall. intros l Hl. apply in_map_iff in Hl. destruct Hl as (a & <- & _). rewrite map_length, seq_length. reflexivity.
  Qed.

  Theorem stl_facets_length (x : grid) : length (stl_facets x) = 2 * (stl_nu x - 1) * (stl_nv x - 1).
  Proof.
    unfold stl_facets. rewrite (length_flat_map_uniform _ 2).
    - rewrite stl_quads_length. lia.
    - apply Forall_forall. intros q Hq. apply in_stl_quads in Hq. destruct Hq as (i & j & _ & _ & ->). reflexivity.
  Qed.

  (* the writer never raises on the quads of a grid, and writes exactly stl_facets *)
  Theorem stl_add_faces_quads (x : grid) : stl_add_faces (stl_quads x) = Ok (stl_facets x).
  Proof.
    unfold stl_facets.
    assert (G : forall qs : list (list pt), Forall (fun q => exists i j, q = stl_quad x i j) qs ->
                stl_add_faces qs = Ok (flat_map stl_split qs)).
    { induction 1 as [|q qs (i & j & ->) _ IH]; [reflexivity|]. cbn [stl_add_faces flat_map]. rewrite IH. reflexivity. }
    apply G. apply Forall_forall. intros q Hq. apply in_stl_quads in Hq. destruct Hq as (i & j & _ & _ & ->). eauto.
  Qed.

  (* the binary writer: one counter increment and one 50-byte record per _write *)
  Lemma stl_binary_run_spec (tris : list tri) : forall c recs,
    fold_left (fun st t => (S (fst st), snd st ++ [stl_binary_facet t])) tris (c, recs)
    = (c + length tris, recs ++ map stl_binary_facet tris).
  Proof.
    induction tris as [|t tris IH]; intros c recs; cbn [fold_left length map fst snd].
    - rewrite Nat.add_0_r, app_nil_r. reflexivity.
    - rewrite IH. rewrite <- app_assoc. cbn [app]. f_equal. lia.
  Qed.

  Theorem stl_binary_count_length (tris : list tri) :
    stl_binary_count tris = length tris /\ length (snd (stl_binary_run tris)) = length tris /\
    Forall (fun rec => length rec = 13) (snd (stl_binary_run tris)).
  Proof.
    unfold stl_binary_count, stl_binary_run. rewrite stl_binary_run_spec. cbn [fst snd app]. rewrite map_length.
    repeat split. apply Forall_forall. intros rec Hr. apply in_map_iff in Hr. destruct Hr as ([[a b] c] & <- & _). reflexivity.
  Qed.

  (* (1) the number of facets written and the count declared in the binary header *)
  Theorem stl_declared_count (x : grid) :
    stl_binary_count (stl_facets x) = 2 * (stl_nu x - 1) * (stl_nv x - 1) /\
    length (stl_facets x) = stl_binary_count (stl_facets x).
  Proof. destruct (stl_binary_count_length (stl_facets x)) as (A & _ & _). rewrite A, stl_facets_length. split; reflexivity. Qed.

  (* ---------- (2) the vertices are the grid points ---------- *)
  Definition grid_rect (x : grid) : Prop := Forall (fun row => length row = stl_nv x) x.

  Lemma in_stl_facets (x : grid) t :
    In t (stl_facets x) <-> exists i j, i < stl_nu x - 1 /\ j < stl_nv x - 1 /\
      (t = (gpt x i j, gpt x i (j + 1), gpt x (i + 1) (j + 1)) \/ t = (gpt x (i + 1) (j + 1), gpt x (i + 1) j, gpt x i j)).
  Proof.
    unfold stl_facets. rewrite in_flat_map. split.
    - intros (q & Hq & Ht). apply in_stl_quads in Hq. destruct Hq as (i & j & Hi & Hj & ->).
      exists i, j. repeat split; try assumption. cbn [stl_quad stl_split In] in Ht. destruct Ht as [<-|[<-|[]]]; [left|right]; reflexivity.
    - intros (i & j & Hi & Hj & Ht). exists (stl_quad x i j). split; [apply in_stl_quads; eauto|].
      cbn [stl_quad stl_split In]. destruct Ht as [->| ->]; [left|right; left]; reflexivity.
  Qed.

  Lemma gpt_entry (x : grid) i j : grid_rect x -> i < stl_nu x -> j < stl_nv x ->
    exists row, nth_error x i = Some row /\ nth_error row j = Some (gpt x i j).
  Proof.
    intros Hr Hi Hj. exists (nth i x []). split; [apply nth_error_nth'; exact Hi|].
    unfold gpt. apply nth_error_nth'. unfold grid_rect in Hr. rewrite Forall_forall in Hr. rewrite (Hr (nth i x [])); [exact Hj|].
    apply nth_In. exact Hi.
  Qed.

  (* every vertex of every facet is an entry x[i][j] of the grid of evaluated points *)
  Theorem stl_vertices_on_grid (x : grid) t p : grid_rect x -> In t (stl_facets x) -> In p (tri_verts t) ->
    exists i j row, i < stl_nu x /\ j < stl_nv x /\ nth_error x i = Some row /\ nth_error row j = Some p.
  Proof.
    intros Hr Ht Hp. apply in_stl_facets in Ht. destruct Ht as (i & j & Hi & Hj & Ht).
    assert (G : forall a b, a < stl_nu x -> b < stl_nv x -> p = gpt x a b ->
                exists i j row, i < stl_nu x /\ j < stl_nv x /\ nth_error x i = Some row /\ nth_error row j = Some p).
    { intros a b Ha Hb ->. destruct (gpt_entry x a b Hr Ha Hb) as (row & E1 & E2). exists a, b, row. auto. }
    destruct Ht as [-> | ->]; cbn [tri_verts In] in Hp; destruct Hp as [<-|[<-|[<-|[]]]];
      (eapply G; [| |reflexivity]; lia).
  Qed.

  (* and no evaluated point is lost: with at least two rows and two columns every grid point is a vertex of a facet *)
  Theorem stl_grid_covered (x : grid) i j : 2 <= stl_nu x -> 2 <= stl_nv x -> i < stl_nu x -> j < stl_nv x ->
    exists t, In t (stl_facets x) /\ In (gpt x i j) (tri_verts t).
  Proof.
    intros Hu Hv Hi Hj.
    destruct (Nat.ltb_spec i (stl_nu x - 1)) as [A|A]; destruct (Nat.ltb_spec j (stl_nv x - 1)) as [B|B].
    - exists (gpt x i j, gpt x i (j + 1), gpt x (i + 1) (j + 1)). split; [|cbn; auto].
      apply in_stl_facets. exists i, j. auto.
    - exists (gpt x i (j - 1), gpt x i (j - 1 + 1), gpt x (i + 1) (j - 1 + 1)). split.
      + apply in_stl_facets. exists i, (j - 1). repeat split; [exact A|lia|left; reflexivity].
      + replace (j - 1 + 1) with j by lia. cbn; auto.
    - exists (gpt x (i - 1 + 1) (j + 1), gpt x (i - 1 + 1) j, gpt x (i - 1) j). split.
      + apply in_stl_facets. exists (i - 1), j. repeat split; [lia|exact B|right; reflexivity].
      + replace (i - 1 + 1) with i by lia. cbn; auto.
    - exists (gpt x (i - 1) (j - 1), gpt x (i - 1) (j - 1 + 1), gpt x (i - 1 + 1) (j - 1 + 1)). split.
      + apply in_stl_facets. exists (i - 1), (j - 1). repeat split; [lia|lia|left; reflexivity].
      + replace (i - 1 + 1) with i by lia. replace (j - 1 + 1) with j by lia. cbn; auto.
  Qed.

  (* ---------- (3) the two triangles of a quad; neighbouring quads ---------- *)
  (* both triangles contain the diagonal p1-p3, traversed in opposite directions (consistent winding), and together
     they have exactly the four corners of the quad *)
  Theorem stl_split_spec (p1 p2 p3 p4 : pt) :
    exists t1 t2, stl_split [p1; p2; p3; p4] = [t1; t2] /\
      In (p3, p1) (tri_edges t1) /\ In (p1, p3) (tri_edges t2) /\
      (forall p, In p (tri_verts t1 ++ tri_verts t2) <-> In p [p1; p2; p3; p4]) /\
      In (p1, p2) (tri_edges t1) /\ In (p2, p3) (tri_edges t1) /\ In (p3, p4) (tri_edges t2) /\ In (p4, p1) (tri_edges t2).
  Proof.
    exists (p1, p2, p3), (p3, p4, p1). cbn [stl_split tri_edges tri_verts app In].
    repeat split; auto 6; intros Hp; repeat (destruct Hp as [Hp|Hp]; auto 7); contradiction.
  Qed.

  (* quad (i,j) and quad (i,j+1) share the edge x[i][j+1] - x[i+1][j+1]; quad (i,j) and quad (i+1,j) share the edge
     x[i+1][j] - x[i+1][j+1]; with stl_quads_nth: consecutive entries of a row of the quad list share an edge *)
  Theorem stl_quads_share_edge (x : grid) i j :
    (nth 1 (stl_quad x i j) [] = nth 0 (stl_quad x i (j + 1)) [] /\ nth 2 (stl_quad x i j) [] = nth 3 (stl_quad x i (j + 1)) []) /\
    (nth 3 (stl_quad x i j) [] = nth 0 (stl_quad x (i + 1) j) [] /\ nth 2 (stl_quad x i j) [] = nth 1 (stl_quad x (i + 1) j) []).
  Proof. repeat split. Qed.

  Corollary stl_consecutive_quads_share_edge (x : grid) i j : i < stl_nu x - 1 -> j + 1 < stl_nv x - 1 ->
    let k := i * (stl_nv x - 1) + j in
    nth 1 (nth k (stl_quads x) []) [] = nth 0 (nth (S k) (stl_quads x) []) [] /\
    nth 2 (nth k (stl_quads x) []) [] = nth 3 (nth (S k) (stl_quads x) []) [].
  Proof.
    intros Hi Hj k. unfold k. replace (S (i * (stl_nv x - 1) + j)) with (i * (stl_nv x - 1) + (j + 1)) by lia.
    rewrite !stl_quads_nth by lia. apply stl_quads_share_edge.
  Qed.

  (* ---------- (5) padding ---------- *)
  Theorem pad3_spec (p : pt) :
    firstn (length p) (pad3 p) = p /\
    (forall c d, c < length p -> nth c (pad3 p) d = nth c p d) /\
    (forall c, length p <= c -> c < 3 -> nth c (pad3 p) n0 = n0) /\
    (length p <= 3 -> length (pad3 p) = 3) /\
    (3 <= length p -> pad3 p = p).
  Proof.
    unfold pad3. repeat split.
    - rewrite firstn_app, Nat.sub_diag, firstn_all. cbn [firstn]. apply app_nil_r.
    - intros c d Hc. apply app_nth1. exact Hc.
    - intros c H1 H2. rewrite app_nth2 by exact H1. apply nth_repeat.
    - intros Hl. rewrite app_length, repeat_length. lia.
    - intros Hl. replace (3 - length p) with 0 by lia. apply app_nil_r.
  Qed.

  Lemma stl_vertex3_id (p : pt) : length p = 3 -> stl_vertex3 p = p.
  Proof. destruct p as [|a [|b [|c [|d p]]]]; try discriminate. reflexivity. Qed.

  Theorem stl_pad_spec dim (x : grid) : Forall (Forall (fun p => length p = dim)) x ->
    (dim <= 3 -> stl_pad dim x = Ok (map (map pad3) x)) /\ (3 < dim -> stl_pad dim x = Err ValueError).
  Proof.
    intros Hx. unfold stl_pad. split; intros Hd.
    - destruct (Nat.eqb_spec dim 3) as [E|E].
      + f_equal. symmetry. rewrite <- (map_id x) at 2. apply map_ext_in. intros row Hrow.
        rewrite <- (map_id row) at 2. apply map_ext_in. intros p Hp.
        rewrite Forall_forall in Hx. specialize (Hx row Hrow). rewrite Forall_forall in Hx. specialize (Hx p Hp).
        apply pad3_spec. lia.
      + destruct (Nat.ltb_spec 3 dim); [lia|reflexivity].
    - destruct (Nat.eqb_spec dim 3); [lia|]. destruct (Nat.ltb_spec 3 dim); [reflexivity|lia].
  Qed.

  Lemma stl_pad_grid (x : grid) :
    stl_nu (map (map pad3) x) = stl_nu x /\ stl_nv (map (map pad3) x) = stl_nv x /\
    forall i j, i < stl_nu x -> j < length (nth i x []) -> gpt (map (map pad3) x) i j = pad3 (gpt x i j).
  Proof.
    unfold stl_nu, stl_nv, gpt. rewrite map_length. split; [reflexivity|]. split.
    - destruct x as [|row x]; [reflexivity|]. cbn [map hd]. apply map_length.
    - intros i j Hi Hj. rewrite (nth_map_gen _ x i [] []) by exact Hi. rewrite (nth_map_gen _ _ j [] []) by exact Hj. reflexivity.
  Qed.
End Poly.

(* ---------- STL.write_surface as a whole: what ends up in the file ---------- *)
Section Surface.
  Context {F : Type} `{Num F}.

  Lemma res_all_Forall2 {A B} (f : A -> res B) (l : list A) : forall ys, res_all (map f l) = Ok ys ->
    Forall2 (fun a y => f a = Ok y) l ys.
  Proof.
    induction l as [|a l IH]; intros ys E; cbn [map res_all] in E.
    - injection E as <-. constructor.
    - destruct (f a) as [y|e] eqn:Ea; [|discriminate]. destruct (res_all (map f l)) as [ys'|e]; [|discriminate].
      injection E as <-. constructor; [exact Ea|apply IH; reflexivity].
  Qed.

  Lemma Forall2_nth_error_r {A B} (R : A -> B -> Prop) l ys : Forall2 R l ys -> forall i y, nth_error ys i = Some y ->
    exists a, nth_error l i = Some a /\ R a y.
  Proof.
    induction 1 as [|a y0 l ys Hay _ IH]; intros i y E; destruct i as [|i]; cbn [nth_error] in E |- *; try discriminate.
    - injection E as <-. eauto.
    - apply IH. exact E.
  Qed.

  Lemma nth_error_map_inv {A B} (g : A -> B) l : forall i y, nth_error (map g l) i = Some y ->
    exists a, nth_error l i = Some a /\ y = g a.
  Proof.
    induction l as [|a l IH]; intros i y E; destruct i as [|i]; cbn [map nth_error] in E |- *; try discriminate.
    - injection E as <-. eauto.
    - apply IH. exact E.
  Qed.

  Lemma Forall2_len {A B} (R : A -> B -> Prop) l ys : Forall2 R l ys -> length l = length ys.
  Proof. induction 1; cbn; congruence. Qed.

  Definition stl_pad_pt (dim : nat) (q : list F) : list F := if (dim =? 3)%nat then q else pad3 q.

  Lemma stl_pad_inv dim (x x3 : @stl_grid F) : stl_pad dim x = Ok x3 -> dim <= 3 /\ x3 = map (map (stl_pad_pt dim)) x.
  Proof.
    unfold stl_pad, stl_pad_pt. destruct (Nat.eqb_spec dim 3) as [E|E].
    - intros [= <-]. split; [lia|]. rewrite (map_ext _ (fun row => row)) by (intros; apply map_id). symmetry. apply map_id.
    - destruct (Nat.ltb_spec 3 dim); [discriminate|]. intros [= <-]. split; [lia|reflexivity].
  Qed.

  (* Everything STL.write_surface writes: the parameter lists are the ones chosen by stl_params from the order and the
     distinct knots of each direction; the number of facets is 2 (nu-1) (nv-1) with nu, nv the numbers of parameters;
     and every vertex of every facet is the surface evaluated at a pair of chosen parameters (zero-padded to three
     components for a planar surface): the vertices lie on the surface. *)
  Theorem stl_write_surface_spec (tol : F) (o : obj F) n tris : stl_write_surface tol o n = Ok tris ->
    exists us vs,
      stl_dir_params tol (nth 0 (o_bases o) (mkBasis 0 [] 0)) (option_map fst n) = Ok us /\
      stl_dir_params tol (nth 1 (o_bases o) (mkBasis 0 [] 0)) (option_map snd n) = Ok vs /\
      o_dim o <= 3 /\
      length tris = 2 * (length us - 1) * (length vs - 1) /\
      stl_binary_count tris = length tris /\
      forall t p, In t tris -> In p (tri_verts t) ->
        exists u v q, In u us /\ In v vs /\ obj_eval tol o [u; v] = Ok q /\ p = stl_pad_pt (o_dim o) q.
  Proof.
    unfold stl_write_surface. cbv zeta. unfold bind.
    destruct (stl_dir_params tol _ (option_map fst n)) as [us|] eqn:Eu; [|discriminate].
    destruct (stl_dir_params tol _ (option_map snd n)) as [vs|] eqn:Ev; [|discriminate].
    destruct (stl_eval_grid tol o us vs) as [x|] eqn:Ex; [|discriminate].
    destruct (stl_pad (o_dim o) x) as [x3|] eqn:Ep; [|discriminate].
    rewrite stl_add_faces_quads. intros [= <-].
    destruct (stl_pad_inv _ _ _ Ep) as [Hd ->]. clear Ep.
    unfold stl_eval_grid in Ex. apply res_all_Forall2 in Ex.
    pose proof (Forall2_len _ _ _ Ex) as Lx.
    assert (Hrow : forall i row, nth_error x i = Some row -> exists u, nth_error us i = Some u /\
                    Forall2 (fun v q => obj_eval tol o [u; v] = Ok q) vs row).
    { intros i row E. destruct (Forall2_nth_error_r _ _ _ Ex i row E) as (u & Eu' & Hr). exists u. split; [exact Eu'|].
      apply res_all_Forall2. exact Hr. }
    set (g := stl_pad_pt (o_dim o)). set (x3 := map (map g) x).
    assert (Hlen : forall row, In row x -> length row = length vs).
    { intros row Hin. apply In_nth_error in Hin. destruct Hin as (i & E). destruct (Hrow i row E) as (u & _ & Hr).
      symmetry. apply (Forall2_len _ _ _ Hr). }
    assert (Hnu : stl_nu x3 = length us) by (unfold x3, stl_nu; rewrite map_length; symmetry; exact Lx).
    assert (Hnv : x <> [] -> stl_nv x3 = length vs).
    { intros Hne. unfold x3, stl_nv. destruct x as [|row x']; [congruence|]. cbn [map hd]. rewrite map_length.
      apply Hlen. left. reflexivity. }
    assert (Hrect : grid_rect x3).
    { unfold grid_rect. apply Forall_forall. intros row3 Hin. unfold x3 in Hin. apply in_map_iff in Hin.
      destruct Hin as (row & <- & Hin). rewrite map_length. transitivity (length vs); [apply Hlen; exact Hin|]. symmetry. apply Hnv.
      intros ->. destruct Hin. }
    exists us, vs. repeat split; try assumption.
    - rewrite stl_facets_length, Hnu. destruct x as [|row x'] eqn:Exx.
      + cbn [length] in Lx. rewrite Lx. reflexivity.
      + rewrite Hnv by discriminate. reflexivity.
    - apply stl_binary_count_length.
    - intros t p Ht Hp. destruct (stl_vertices_on_grid x3 t p Hrect Ht Hp) as (i & j & row3 & Hi & Hj & E1 & E2).
      unfold x3 in E1. apply nth_error_map_inv in E1. destruct E1 as (row & Er & ->).
      apply nth_error_map_inv in E2. destruct E2 as (q & Eq & ->).
      destruct (Hrow i row Er) as (u & Eu' & Hr). destruct (Forall2_nth_error_r _ _ _ Hr j q Eq) as (v & Ev' & Hq).
      exists u, v, q. repeat split; [eapply nth_error_In; exact Eu'|eapply nth_error_In; exact Ev'|exact Hq].
  Qed.
End Surface.

(* ---------- (4) the choice of the evaluation parameters, over R ---------- *)
From Coq Require Import Reals Lra.
From SplipyModel Require Import Spec.BSpline Proofs.OrderProofs Proofs.RaiseNested.
Open Scope R_scope.

Lemma nofnat_INR n : @nofnat R NumR n = INR n.
Proof. unfold nofnat. cbn [nofZ NumR]. symmetry. apply INR_IZR_INZ. Qed.

Lemma lsorted_map_seq (f : nat -> R) : forall n s, (forall i, (s <= i)%nat -> (S i < s + n)%nat -> f i <= f (S i)) ->
  lsorted (map f (seq s n)).
Proof.
  induction n as [|n IH]; intros s Hf; cbn [seq map]; [constructor|].
  destruct n as [|n]; cbn [seq map]; [constructor|].
  constructor; [apply Hf; lia|]. apply (IH (S s)). intros i H1 H2. apply Hf; lia.
Qed.

Lemma lsorted_le_last l : lsorted l -> forall y d, In y l -> y <= last l d.
Proof.
  induction 1 as [|x|x z l Hxz Hs IH]; intros y d Hy.
  - destruct Hy.
  - destruct Hy as [<-|[]]. cbn. lra.
  - change (last (x :: z :: l) d) with (last (z :: l) d). destruct Hy as [<-|Hy].
    + pose proof (IH z d ltac:(left; reflexivity)). lra.
    + apply IH. exact Hy.
Qed.

(* a sorted list whose least element is known starts with it; same for the greatest and the last position *)
Lemma lsorted_min_head l a : lsorted l -> In a l -> (forall y, In y l -> a <= y) -> exists l', l = a :: l'.
Proof.
  intros Hs Ha Hmin. destruct l as [|x l]; [destruct Ha|]. exists l. f_equal.
  destruct Ha as [E|Ha]; [exact E|]. pose proof (lsorted_hd_le x l Hs a Ha). pose proof (Hmin x ltac:(left; reflexivity)). lra.
Qed.
Lemma lsorted_max_last l b d : lsorted l -> In b l -> (forall y, In y l -> y <= b) -> last l d = b.
Proof.
  intros Hs Hb Hmax. pose proof (lsorted_le_last l Hs b d Hb).
  assert (Hin : In (last l d) l).
  { destruct l as [|x l]; [destruct Hb|]. destruct (exists_last (l := x :: l) ltac:(discriminate)) as (l' & z & E).
    rewrite E. rewrite last_last. apply in_or_app. right. left. reflexivity. }
  pose proof (Hmax _ Hin). lra.
Qed.

Lemma lsorted_spans l : lsorted l -> forall k0 k1, In (k0, k1) (@stl_spans R l) -> k0 <= k1 /\ In k0 l /\ In k1 l.
Proof.
  unfold stl_spans. induction 1 as [|x|x z l Hxz Hs IH]; intros k0 k1 Hin; cbn [tl combine] in Hin.
  - destruct Hin.
  - destruct Hin.
  - destruct Hin as [E|Hin].
    + injection E as <- <-. repeat split; [exact Hxz|left; reflexivity|right; left; reflexivity].
    + destruct (IH k0 k1 Hin) as (A & B & C). repeat split; [exact A|right; exact B|right; exact C].
Qed.

Lemma stl_spans_length (l : list R) : length (@stl_spans R l) = (length l - 1)%nat.
Proof. unfold stl_spans. rewrite combine_length. destruct l; cbn [tl length]; lia. Qed.

Lemma in_linspace_open k0 k1 m y : In y (@stl_linspace_open R NumR k0 k1 m) ->
  exists i, (i < m)%nat /\ y = k0 + INR i * ((k1 - k0) / INR m).
Proof.
  unfold stl_linspace_open. intros Hy. apply in_map_iff in Hy. destruct Hy as (i & <- & Hi). apply in_seq in Hi.
  exists i. split; [lia|]. cbn [nadd nmul ndiv nsub NumR]. rewrite !nofnat_INR. reflexivity.
Qed.

(* the points np.linspace(k0, k1, m, endpoint=False) puts into a span lie in [k0, k1), the first one is k0 *)
Lemma linspace_open_range k0 k1 m y : k0 <= k1 -> In y (@stl_linspace_open R NumR k0 k1 m) -> k0 <= y <= k1 /\ (k0 < k1 -> y < k1).
Proof.
  intros Hk Hy. destruct (in_linspace_open _ _ _ _ Hy) as (i & Hi & ->).
  assert (Hm : 0 < INR m) by (apply lt_0_INR; lia).
  assert (Hi0 : 0 <= INR i) by apply pos_INR.
  assert (Him : INR i < INR m) by (apply lt_INR; exact Hi).
  set (s := (k1 - k0) / INR m).
  assert (Hs : 0 <= s) by (unfold s; apply Rmult_le_pos; [lra|left; apply Rinv_0_lt_compat; exact Hm]).
  assert (Hms : INR m * s = k1 - k0) by (unfold s; field; lra).
  assert (H1 : INR i * s <= INR m * s) by (apply Rmult_le_compat_r; lra).
  split; [split; nra|]. intros Hlt.
  assert (Hs' : 0 < s) by (unfold s; apply Rmult_lt_0_compat; [lra|apply Rinv_0_lt_compat; exact Hm]).
  assert (H2 : INR i * s < INR m * s) by (apply Rmult_lt_compat_r; lra). lra.
Qed.

(* (4a) n given: np.linspace(start, end, n) *)
Theorem stl_params_given p kn a b n : a <= b -> (2 <= n)%nat ->
  exists l, @stl_params R NumR p kn a b (Some n) = Ok l /\ length l = n /\ lsorted l /\
    hd 0 l = a /\ last l 0 = b /\
    (forall i, (i < n)%nat -> nth i l 0 = a + INR i * ((b - a) / INR (n - 1))) /\
    (forall t, In t l -> a <= t <= b).
Proof.
  intros Hab Hn. cbn [stl_params]. eexists. split; [reflexivity|].
  set (f := fun i : nat => a + INR i * ((b - a) / INR (n - 1))).
  assert (Hn1 : 0 < INR (n - 1)) by (apply lt_0_INR; lia).
  assert (E : @stl_linspace R NumR a b n = map f (seq 0 n)).
  { unfold stl_linspace. cbv zeta. destruct (Nat.leb_spec n 1) as [A|A]; [lia|].
    destruct (Nat.ltb_spec 1 n) as [B|B]; [|lia]. cbn [andb].
    apply map_ext_in. intros i Hi. apply in_seq in Hi. unfold f. cbn [nadd nmul ndiv nsub NumR]. rewrite !nofnat_INR.
    destruct (Nat.eqb_spec i (n - 1)) as [->|C]; [field; lra|reflexivity]. }
  rewrite E.
  assert (Hstep : 0 <= (b - a) / INR (n - 1)) by (apply Rmult_le_pos; [lra|left; apply Rinv_0_lt_compat; exact Hn1]).
  assert (Hmono : forall i, f i <= f (S i)) by (intros i; unfold f; rewrite S_INR; nra).
  assert (Hs : lsorted (map f (seq 0 n))) by (apply lsorted_map_seq; intros; apply Hmono).
  assert (Hnth : forall i, (i < n)%nat -> nth i (map f (seq 0 n)) 0 = f i).
  { intros i Hi. rewrite (nth_map_gen _ (seq 0 n) i 0 0%nat) by (rewrite seq_length; exact Hi). rewrite seq_nth by exact Hi. reflexivity. }
  assert (Hhd : hd 0 (map f (seq 0 n)) = a).
  { destruct n as [|n']; [lia|]. cbn [seq map hd]. unfold f. cbn [INR]. lra. }
  assert (Hlast : last (map f (seq 0 n)) 0 = b).
  { replace n with (S (n - 1)) at 1 by lia. rewrite seq_S, map_app. cbn [map Nat.add]. rewrite last_last. unfold f. field. lra. }
  rewrite map_length, seq_length.
  split; [reflexivity|]. split; [exact Hs|]. split; [exact Hhd|]. split; [exact Hlast|]. split; [exact Hnth|].
  intros t Ht. pose proof (lsorted_le_last _ Hs t 0 Ht) as H1. rewrite Hlast in H1. split; [|exact H1].
  destruct (map f (seq 0 n)) as [|x l] eqn:El; [destruct Ht|]. cbn [hd] in Hhd. subst x.
  destruct Ht as [<-|Ht]; [lra|]. apply (lsorted_hd_le a l Hs t Ht).
Qed.

(* n = 1 and n = 0 as numpy does them *)
Lemma stl_params_given_small p kn a b :
  @stl_params R NumR p kn a b (Some 1%nat) = Ok [a] /\ @stl_params R NumR p kn a b (Some 0%nat) = Ok [].
Proof.
  split; [|reflexivity]. cbn [stl_params]. unfold stl_linspace. cbn [Nat.leb Nat.ltb andb seq map].
  cbn [nadd nmul n0 NumR]. rewrite nofnat_INR. cbn [INR]. f_equal. f_equal. lra.
Qed.

(* (4b) linear splines: the distinct knots themselves *)
Theorem stl_params_linear kn a b : @stl_params R NumR 2 kn a b None = Ok kn.
Proof. reflexivity. Qed.

(* order 1 (piecewise constants): np.linspace is asked for -1 points and raises *)
Theorem stl_params_order1 p kn a b : (p <= 1)%nat -> (2 <= length kn)%nat -> @stl_params R NumR p kn a b None = Err ValueError.
Proof.
  intros Hp Hk. cbn [stl_params]. destruct (Nat.eqb_spec p 2); [lia|].
  destruct (Nat.ltb_spec (2 * p) 3); [|lia]. destruct (Nat.leb_spec 2 (length kn)); [reflexivity|lia].
Qed.

Definition stl_span_points (p : nat) (kn : list R) : list R :=
  flat_map (fun k01 => @stl_linspace_open R NumR (fst k01) (snd k01) (2 * p - 3)) (@stl_spans R kn).

Lemma stl_span_points_length p kn : length (stl_span_points p kn) = ((length kn - 1) * (2 * p - 3))%nat.
Proof.
  unfold stl_span_points. rewrite (length_flat_map_uniform _ (2 * p - 3)%nat).
  - rewrite stl_spans_length. reflexivity.
  - apply Forall_forall. intros k01 _. unfold stl_linspace_open. rewrite map_length, seq_length. reflexivity.
Qed.

(* (4c) the general case (order >= 3): 2p-3 equispaced points per span from the span start, plus all the knots, sorted *)
Theorem stl_params_general p kn a b : (3 <= p)%nat -> kn <> [] -> lsorted kn ->
  exists l, @stl_params R NumR p kn a b None = Ok l /\
    lsorted l /\ Permutation l (stl_span_points p kn ++ kn) /\
    hd 0 l = hd 0 kn /\ last l 0 = last kn 0 /\
    (forall k, In k kn -> In k l) /\
    length l = ((length kn - 1) * (2 * p - 3) + length kn)%nat /\
    (forall t, In t l -> hd 0 kn <= t <= last kn 0) /\
    (forall l', lsorted l' -> Permutation l' (stl_span_points p kn ++ kn) -> l' = l).
Proof.
  intros Hp Hne Hs. cbn [stl_params]. destruct (Nat.eqb_spec p 2); [lia|]. destruct (Nat.ltb_spec (2 * p) 3); [lia|].
  cbn [andb]. eexists. split; [reflexivity|]. fold (stl_span_points p kn).
  set (L := stl_span_points p kn ++ kn). set (l := @sort_list R NumR L).
  pose proof (sort_list_sorted L) as Hsl. pose proof (sort_list_perm L) as Hpl. fold l in Hsl, Hpl.
  set (k0 := hd 0 kn).
  assert (Hhd : hd 0 kn = k0) by reflexivity.
  assert (Hk0 : In k0 kn) by (unfold k0; destruct kn; [congruence|left; reflexivity]).
  assert (Hlo : forall y, In y kn -> k0 <= y).
  { intros y Hy. unfold k0. destruct kn as [|c kn']; [destruct Hy|]. cbn [hd].
    destruct Hy as [<-|Hy]; [lra|]. apply (lsorted_hd_le c kn' Hs y Hy). }
  assert (Hhi : forall y, In y kn -> y <= last kn 0) by (intros y Hy; apply lsorted_le_last; assumption).
  assert (Hlast : In (last kn 0) kn).
  { destruct (exists_last Hne) as (l0 & z & E). rewrite E, last_last. apply in_or_app. right. left. reflexivity. }
  assert (HL : forall y, In y L -> k0 <= y <= last kn 0).
  { intros y Hy. unfold L in Hy. apply in_app_or in Hy. destruct Hy as [Hy|Hy]; [|split; [apply Hlo|apply Hhi]; exact Hy].
    unfold stl_span_points in Hy. apply in_flat_map in Hy. destruct Hy as ([c0 c1] & Hsp & Hy). cbn [fst snd] in Hy.
    destruct (lsorted_spans kn Hs c0 c1 Hsp) as (Hc & I0 & I1).
    assert (Hm : (0 < 2 * p - 3)%nat) by lia.
    destruct (in_linspace_open _ _ _ _ Hy) as (i & Hi & _).
    destruct (linspace_open_range c0 c1 _ y Hc Hy) as [[A B] _].
    pose proof (Hlo c0 I0). pose proof (Hhi c1 I1). lra. }
  assert (Hl : forall y, In y l -> k0 <= y <= last kn 0) by (intros y Hy; apply HL; apply (Permutation_in _ Hpl); exact Hy).
  assert (Hin : forall k, In k kn -> In k l).
  { intros k Hk. apply (Permutation_in _ (Permutation_sym Hpl)). unfold L. apply in_or_app. right. exact Hk. }
  split; [exact Hsl|]. split; [exact Hpl|]. split; [|split; [|split; [exact Hin|split; [|split; [exact Hl|]]]]].
  - destruct (lsorted_min_head l k0 Hsl (Hin k0 Hk0) (fun y Hy => proj1 (Hl y Hy))) as (l' & ->). reflexivity.
  - apply lsorted_max_last; [exact Hsl|apply Hin; exact Hlast|intros y Hy; apply Hl; exact Hy].
  - rewrite (Permutation_length Hpl). unfold L. rewrite app_length, stl_span_points_length. reflexivity.
  - intros l' Hs' Hp'. apply sorted_perm_unique; [exact Hs'|exact Hsl|]. rewrite Hp'. symmetry. exact Hpl.
Qed.

(* FINDING (reproduced on the implementation): linspace(..., endpoint=False) already starts at the span's first knot,
   and the knots are appended once more, so every knot except the last one is evaluated twice: the parameter list of
   the general case is never strictly increasing and the file holds zero-area facets *)
Theorem stl_params_general_duplicate p kn a b : (3 <= p)%nat -> (2 <= length kn)%nat -> lsorted kn ->
  exists l', @stl_params R NumR p kn a b None = Ok (hd 0 kn :: hd 0 kn :: l').
Proof.
  intros Hp Hlen Hs. destruct kn as [|k0 [|k1 kn']] eqn:Ekn; cbn [length] in Hlen; try lia. rewrite <- Ekn in *.
  assert (Hne : kn <> []) by (rewrite Ekn; discriminate).
  destruct (stl_params_general p kn a b Hp Hne Hs) as (l & E & Hsl & Hpl & Hhd & _ & _ & _ & Hrange & _).
  rewrite E. assert (Hk : hd 0 kn = k0) by (rewrite Ekn; reflexivity). rewrite Hk in *.
  (* the span points start with k0, the knots too *)
  assert (Hm : exists m, (2 * p - 3 = S m)%nat) by (exists (2 * p - 4)%nat; lia). destruct Hm as (m & Hm).
  assert (P2 : exists L', Permutation (stl_span_points p kn ++ kn) (k0 :: k0 :: L')).
  { unfold stl_span_points, stl_spans. rewrite Ekn. cbn [tl combine flat_map fst snd]. rewrite Hm.
    unfold stl_linspace_open at 1. cbn [seq map]. cbn [nadd nmul NumR]. rewrite nofnat_INR. cbn [INR]. rewrite Rmult_0_l, Rplus_0_r.
    eexists. cbn [app]. apply perm_skip. symmetry. apply Permutation_middle. }
  destruct P2 as (L' & P2). pose proof (perm_trans Hpl P2) as P3.
  destruct l as [|x l1]; [apply Permutation_nil in P3; discriminate|]. cbn [hd] in Hhd. subst x.
  apply Permutation_cons_inv in P3.
  assert (I1 : In k0 l1) by (apply (Permutation_in _ (Permutation_sym P3)); left; reflexivity).
  destruct (lsorted_min_head l1 k0 (lsorted_tl _ _ Hsl) I1) as (l' & ->).
  - intros y Hy. apply (Hrange y). right. exact Hy.
  - exists l'. reflexivity.
Qed.

(* ---------- the parameters of a direction of an actual basis stay in its domain ---------- *)
Lemma lsorted_drop2 a x l : lsorted (a :: x :: l) -> lsorted (a :: l).
Proof.
  intros Hs. inversion Hs as [| |? ? ? Hax Hs']; subst. destruct l as [|z l]; [constructor|].
  inversion Hs' as [| |? ? ? Hxz Hs'']; subst. constructor; [lra|exact Hs''].
Qed.

Lemma uniq_tol_sorted tol : forall l lst, lsorted (lst :: l) ->
  lsorted (lst :: @uniq_tol R NumR tol lst l) /\ (forall y, In y (@uniq_tol R NumR tol lst l) -> In y l).
Proof.
  induction l as [|x l IH]; intros lst Hs; cbn [uniq_tol]; [split; [constructor|intros y []]|].
  destruct (@nltb R NumR tol _).
  - destruct (IH x (lsorted_tl _ _ Hs)) as [A B]. split.
    + constructor; [inversion Hs; assumption|exact A].
    + intros y [<-|Hy]; [left; reflexivity|right; apply B; exact Hy].
  - destruct (IH lst (lsorted_drop2 _ _ _ Hs)) as [A B]. split; [exact A|]. intros y Hy. right. apply B. exact Hy.
Qed.

Lemma lsorted_skipn n : forall l, lsorted l -> lsorted (skipn n l).
Proof.
  induction n as [|n IH]; intros l Hs; [exact Hs|]. destruct l as [|x l]; [constructor|]. cbn [skipn]. apply IH.
  apply (lsorted_tl x l Hs).
Qed.
Lemma lsorted_firstn n : forall l, lsorted l -> lsorted (firstn n l).
Proof.
  induction n as [|n IH]; intros l Hs; [constructor|]. destruct l as [|x l]; [constructor|]. cbn [firstn].
  pose proof (IH l (lsorted_tl x l Hs)) as H1. destruct l as [|z l]; [destruct n; constructor|].
  destruct n as [|n]; [constructor|]. cbn [firstn] in H1 |- *. constructor; [inversion Hs; assumption|exact H1].
Qed.

Lemma in_firstn_skipn {A} (l : list A) s n y d : In y (firstn n (skipn s l)) ->
  exists i, (s <= i < s + n)%nat /\ (i < length l)%nat /\ y = nth i l d.
Proof.
  intros Hy. apply (In_nth _ _ d) in Hy. destruct Hy as (j & Hj & <-).
  rewrite firstn_length, skipn_length in Hj. exists (s + j)%nat. repeat split; try lia.
  rewrite SplipyModel.Proofs.InsertMatrix.nth_firstn_lt by lia. rewrite SplipyModel.Proofs.InsertMatrix.nth_skipn_add. reflexivity.
Qed.

Lemma kn_nth_R (k : list R) i : (i < length k)%nat -> @kn R NumR k i = nth i k 0.
Proof. intros Hi. unfold kn. apply nth_indep. exact Hi. Qed.

Lemma knot_spans_domain tol (b : basis R) : lsorted (b_knots b) -> (1 <= b_order b)%nat -> (2 * b_order b <= length (b_knots b))%nat ->
  let sp := @knot_spans R NumR tol b false in
  lsorted sp /\ hd 0 sp = b_start b /\ sp <> [] /\ b_start b <= b_end b /\ (forall y, In y sp -> b_start b <= y <= b_end b).
Proof.
  intros Hs Hp Hl. cbv zeta. unfold knot_spans, b_start, b_end. set (k := b_knots b) in *. set (p := b_order b) in *.
  cbn [hd].
  rewrite !kn_nth_R by lia.
  assert (Hse : nth (p - 1) k 0 <= nth (length k - p) k 0) by (apply lsorted_nth; [exact Hs|lia]).
  set (inner := if (p =? 1)%nat then [] else firstn (length k - 2 * p + 2) (skipn (p - 1) k)).
  assert (Hin : forall y, In y inner -> exists i, (p - 1 <= i <= length k - p)%nat /\ y = nth i k 0).
  { intros y Hy. unfold inner in Hy. destruct (p =? 1)%nat; [destruct Hy|].
    destruct (in_firstn_skipn k _ _ y 0 Hy) as (i & Hi & Hi' & ->). exists i. split; [lia|reflexivity]. }
  assert (Hsi : lsorted (nth (p - 1) k 0 :: inner)).
  { assert (Hsi' : lsorted inner) by (unfold inner; destruct (p =? 1)%nat; [constructor|apply lsorted_firstn, lsorted_skipn, Hs]).
    destruct inner as [|z inner'] eqn:Ei; [constructor|]. constructor; [|exact Hsi'].
    destruct (Hin z ltac:(left; reflexivity)) as (i & Hi & ->). apply lsorted_nth; [exact Hs|lia]. }
  destruct (uniq_tol_sorted tol inner _ Hsi) as [A B].
  split; [exact A|]. split; [reflexivity|]. split; [discriminate|]. split; [exact Hse|].
  intros y [<-|Hy]; [lra|]. destruct (Hin y (B y Hy)) as (i & Hi & ->).
  split; apply lsorted_nth; try exact Hs; lia.
Qed.

(* for every order >= 2 and every admissible request, the parameters chosen in a direction are sorted, start at the
   start of the domain and stay inside the domain: the grid evaluation does not leave the surface's domain *)
Theorem stl_dir_params_domain tol (b : basis R) n :
  lsorted (b_knots b) -> (2 <= b_order b)%nat -> (2 * b_order b <= length (b_knots b))%nat ->
  match n with Some n' => (2 <= n')%nat | None => True end ->
  exists l, @stl_dir_params R NumR tol b n = Ok l /\ lsorted l /\ l <> [] /\ hd 0 l = b_start b /\
            (forall t, In t l -> b_start b <= t <= b_end b) /\
            (match n with Some n' => length l = n' /\ last l 0 = b_end b | None => True end).
Proof.
  intros Hs Hp Hl Hn. destruct (knot_spans_domain tol b Hs ltac:(lia) Hl) as (S1 & S2 & S3 & S4 & S5).
  unfold stl_dir_params. destruct n as [n'|].
  - destruct (stl_params_given (b_order b) (@knot_spans R NumR tol b false) _ _ n' S4 Hn) as (l & E & L1 & L2 & L3 & L4 & _ & L6).
    exists l. split; [exact E|]. split; [exact L2|]. split; [intros ->; cbn in L1; lia|]. split; [exact L3|]. split; [exact L6|].
    split; assumption.
  - destruct (Nat.eq_dec (b_order b) 2) as [E2|E2].
    + rewrite E2. rewrite stl_params_linear. exists (@knot_spans R NumR tol b false). repeat split; try assumption; apply S5; assumption.
    + destruct (stl_params_general (b_order b) _ (b_start b) (b_end b) ltac:(lia) S3 S1) as (l & E & L1 & L2 & L3 & L4 & L5 & L6 & L7 & _).
      exists l. split; [exact E|]. split; [exact L1|]. split.
      { intros ->. destruct (@knot_spans R NumR tol b false) as [|c sp']; [congruence|]. apply (L5 c). left. reflexivity. }
      split; [rewrite L3; exact S2|]. split; [|exact I].
      intros t Ht. destruct (L7 t Ht) as [A B]. rewrite S2 in A. split; [exact A|].
      assert (Hlast : In (last (@knot_spans R NumR tol b false) 0) (@knot_spans R NumR tol b false)).
      { destruct (exists_last S3) as (l0 & z & Ez). rewrite Ez, last_last. apply in_or_app. right. left. reflexivity. }
      pose proof (S5 _ Hlast). lra.
Qed.

(* ---------- executed on Q ---------- *)
From Coq Require Import QArith.
Definition qred_res (r : res (list Q)) : res (list Q) := match r with Ok l => Ok (map Qred l) | Err e => Err e end.
Example stl_example :
  let x := [[[0;0]; [0;1]]; [[1;0]; [1;1]]; [[2;0]; [2;2]]]%Q in      (* 3 x 2 grid of planar points *)
  let x3 := map (map (@pad3 Q NumQ)) x in
  @stl_pad Q NumQ 2 x = Ok x3 /\
  @stl_add_faces Q (@stl_quads Q x3) =
    Ok [([0;0;0], [0;1;0], [1;1;0]); ([1;1;0], [1;0;0], [0;0;0]);
        ([1;0;0], [1;1;0], [2;2;0]); ([2;2;0], [2;0;0], [1;0;0])]%Q /\
  @stl_binary_count Q NumQ (@stl_facets Q x3) = 4%nat /\
  qred_res (@stl_params Q NumQ 3 [0; 1; 3]%Q 0%Q 3%Q None) = Ok [0; 0; 1#3; 2#3; 1; 1; 5#3; 7#3; 3]%Q /\
  @stl_params Q NumQ 2 [0; 1; 3]%Q 0%Q 3%Q None = Ok [0; 1; 3]%Q /\
  @stl_params Q NumQ 1 [0; 1; 3]%Q 0%Q 3%Q None = Err ValueError /\
  qred_res (@stl_params Q NumQ 3 [0; 1; 3]%Q 0%Q 3%Q (Some 4%nat)) = Ok [0; 1; 2; 3]%Q /\
  @stl_pad Q NumQ 4 [[[0;0;0;0]]]%Q = Err ValueError.
Proof. vm_compute. repeat split; reflexivity. Qed.

(* the whole writer on a bilinear patch in the plane: two triangles, vertices = the padded corner evaluations *)
Example stl_surface_example :
  let bu := @mkBasis Q 2 [0; 0; 1; 1]%Q 0 in
  let o := @mkObj Q [bu; bu] [[0;0]; [0;1]; [1;0]; [1;1]]%Q 2 false in
  @stl_write_surface Q NumQ (1#1000000) o None =
    Ok [([0;0;0], [0;1;0], [1;1;0]); ([1;1;0], [1;0;0], [0;0;0])]%Q.
Proof. vm_compute. reflexivity. Qed.

