(* C11: consequences of the effect signatures. *)
From Coq Require Import List Bool Arith Lia.
From SplipyModel Require Import Model.Alias.
Import ListNotations.

Section P.
Variable V : Type.

(* a non-in-place operation leaves every pre-existing cell (hence every operand) unchanged *)
Theorem frame (e : effect) (s s' : store V) : pure_new V e s -> respects V e s s' ->
  forall c, allocated V s c -> s' c = s c.
Proof. intros [Hw _] [Hr _] c Hc. apply Hr; [exact Hc|]. rewrite Hw. intros []. Qed.

(* and its result shares nothing with anything that existed before *)
Theorem fresh (e : effect) (s : store V) (fp : list nat) : pure_new V e s ->
  (forall c, In c fp -> allocated V s c) -> forall c, In c (e_result e) -> ~ In c fp.
Proof. intros [_ Hf] Hfp c Hc Hin. apply (Hf c Hc). apply Hfp. exact Hin. Qed.

(* later mutation of the result never changes an operand, and vice versa *)
Theorem no_interference (e : effect) (s s' : store V) (fp : list nat) c v :
  pure_new V e s -> respects V e s s' -> (forall x, In x fp -> allocated V s x) ->
  (In c (e_result e) -> forall x, In x fp -> write V s' c v x = s x) /\
  (In c fp -> forall x, In x (e_result e) -> write V s' c v x = s' x).
Proof.
  intros HP HR Hfp. split.
  - intros Hc x Hx. unfold write. destruct (Nat.eqb_spec x c) as [->|N].
    + exfalso. apply (fresh e s fp HP Hfp c Hc Hx).
    + apply (frame e s s' HP HR). apply Hfp. exact Hx.
  - intros Hc x Hx. unfold write. destruct (Nat.eqb_spec x c) as [->|N]; [|reflexivity].
    exfalso. apply (fresh e s fp HP Hfp c Hx Hc).
Qed.

(* an in-place operation touches only its receiver's footprint *)
Theorem inplace_frame (e : effect) (s s' : store V) (fp : list nat) : in_place e fp -> respects V e s s' ->
  forall c, allocated V s c -> ~ In c fp -> s' c = s c.
Proof. intros [Hw _] [Hr _] c Hc Hn. apply Hr; [exact Hc|]. intro Hin. apply Hn. apply Hw. exact Hin. Qed.
End P.
