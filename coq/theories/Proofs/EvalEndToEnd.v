(* C02, end to end on the model's own [obj_eval], any parametric dimension: for a well-formed object with
   non-periodic directions and a parameter tuple of its domain, the result is the tensor-product defining sum
   sum_{i1..in} N_i1(t1) ... N_in(tn) P_{i1..in} of Cox-de Boor values (at the normalised parameter/side of each
   direction), divided by the same sum of the weights when the object is rational. *)
From Coq Require Import List Arith Reals Lra Lia Bool ZArith.
From SplipyModel Require Import Spec.BSpline Model.Num Model.BasisDef Model.BasisEval Model.Tensor Model.Obj Model.KnotInsert Model.Interp
  Proofs.KnotList Proofs.SpanCorrect Proofs.EvaluateSpec Proofs.EvalConsequences Proofs.SnapSpec Proofs.TensorLemmas Proofs.ObjEval
  Proofs.InsertMatrix Proofs.TensorApply Proofs.OrderRaise Proofs.InsertEndToEnd.
Import ListNotations.
Open Scope R_scope.

Section EvalSum.
Variable tol : R.
Hypothesis Htol : 0 < tol.
Variable o : obj R.
Hypothesis Hwf : wf_obj_R tol o.
Hypothesis Hnp : forall i, (i < length (o_bases o))%nat -> b_per1 (nth i (o_bases o) dflt_basis) = 0%nat.
Variable ts : list R.
Hypothesis Hdom : forall i, (i < length (o_bases o))%nat -> in_dom tol (nth i (o_bases o) dflt_basis) (nth i ts 0).

Local Notation bi := (fun i => nth i (o_bases o) dflt_basis).
Local Notation ts' := (map (fun i => @snap1 R NumR (b_knots (bi i)) tol (nth i ts 0)) (seq 0 (length (o_bases o)))).

(* the normalised parameter and side of direction i *)
Definition norm_dir (i : nat) : R * bool :=
  match @normalise R NumR (b_knots (bi i)) (b_order (bi i)) 0 tol true
          (@snap1 R NumR (b_knots (bi i)) tol (@snap1 R NumR (b_knots (bi i)) tol (nth i ts 0))) with
  | Some ts0 => ts0
  | None => (0, true)
  end.
Definition ref_rows : list (list R) :=
  map (fun i => Brow (snd (norm_dir i)) (b_knots (bi i)) (b_order (bi i)) (fst (norm_dir i))) (seq 0 (length (o_bases o))).

Lemma norm_dir_some i : (i < length (o_bases o))%nat ->
  @normalise R NumR (b_knots (bi i)) (b_order (bi i)) 0 tol true
     (@snap1 R NumR (b_knots (bi i)) tol (@snap1 R NumR (b_knots (bi i)) tol (nth i ts 0))) = Some (norm_dir i).
Proof.
  intros Hi. destruct (bd_wf tol o Hwf i Hi) as (HK & Hp & Hlen & Hn & Hw).
  pose proof (snap1_idem (b_knots (bi i)) HK tol Htol (nth i ts 0)) as Hid.
  destruct (normalise_some (b_knots (bi i)) (b_order (bi i)) 0 tol Htol Hw
              (@snap1 R NumR (b_knots (bi i)) tol (@snap1 R NumR (b_knots (bi i)) tol (nth i ts 0)))) as (t' & side & E).
  { intros _. rewrite Hid. apply (Hdom i Hi). apply Hnp, Hi. }
  unfold norm_dir. rewrite E. reflexivity.
Qed.

Lemma rows_are_ref : @rows_at R NumR tol (o_bases o) [] [] ts' = ref_rows.
Proof.
  apply (nth_ext _ _ [] []).
  - rewrite rows_at_length. unfold ref_rows. rewrite map_length, seq_length. reflexivity.
  - intros i Hi. rewrite rows_at_length in Hi.
    destruct (bd_wf tol o Hwf i Hi) as (HK & Hp & Hlen & Hn & Hw).
    rewrite rows_at_nth by exact Hi. rewrite !nth_nil_any.
    rewrite (nth_map_gen _ _ i 0 0%nat) by (rewrite seq_length; exact Hi). rewrite seq_nth by exact Hi. cbn [Nat.add].
    assert (Eb : bi i = mkBasis (b_order (bi i)) (b_knots (bi i)) 0).
    { pose proof (Hnp i Hi) as Hper. destruct (bi i) as [pp kk per]. cbn [b_per1 b_order b_knots] in *. rewrite Hper. reflexivity. }
    rewrite Eb at 1. rewrite (basis_row_nonper tol _ _ _ HK Hp Hlen Htol). rewrite (norm_dir_some i Hi).
    unfold ref_rows. rewrite (nth_map_gen _ _ i [] 0%nat) by (rewrite seq_length; exact Hi). rewrite seq_nth by exact Hi. cbn [Nat.add].
    destruct (norm_dir i) as [t' side]. reflexivity.
Qed.

Lemma shape_ref : map (@length R) ref_rows = @o_shape R o.
Proof.
  unfold ref_rows, o_shape. rewrite map_map. apply (nth_ext _ _ 0%nat 0%nat).
  - rewrite !map_length, seq_length. reflexivity.
  - intros i Hi. rewrite map_length, seq_length in Hi.
    rewrite (nth_map_gen _ _ i 0%nat 0%nat) by (rewrite seq_length; exact Hi). rewrite seq_nth by exact Hi. cbn [Nat.add].
    rewrite (nth_map_gen _ _ i 0%nat dflt_basis) by exact Hi.
    unfold Brow. rewrite map_length, seq_length. unfold b_nfun. rewrite (Hnp i Hi). lia.
Qed.

Theorem obj_eval_is_tensor_sum :
  let r := map (fun c => tsum ref_rows (cnet (@o_ncomp R o) c (o_cps o))) (seq 0 (@o_ncomp R o)) in
  @obj_eval R NumR tol o ts = Ok (if o_rat o then @project_rat R NumR (o_dim o) r else r).
Proof.
  cbv zeta. unfold obj_eval. destruct (validate_spec tol (o_bases o) ts) as [V1 _]. rewrite (V1 Hdom).
  unfold eval_h. rewrite rows_are_ref.
  destruct Hwf as (HB & HV & HL).
  assert (Hnet : net_ok (@o_ncomp R o) ref_rows (o_cps o)) by (split; [exact HV|rewrite shape_ref; exact HL]).
  assert (Er : @teval R NumR (@o_ncomp R o) ref_rows (o_cps o)
               = map (fun c => tsum ref_rows (cnet (@o_ncomp R o) c (o_cps o))) (seq 0 (@o_ncomp R o))).
  { apply (nth_ext _ _ 0 0).
    - rewrite (teval_length _ _ _ Hnet), map_length, seq_length. reflexivity.
    - intros c Hc. rewrite (teval_length _ _ _ Hnet) in Hc.
      rewrite (nth_map_gen _ _ c 0 0%nat) by (rewrite seq_length; exact Hc). rewrite seq_nth by exact Hc. cbn [Nat.add].
      apply (teval_tsum (@o_ncomp R o) c ref_rows Hc (o_cps o) Hnet). }
  rewrite Er. reflexivity.
Qed.
End EvalSum.
