(* C04 for the refinement helpers (Model/Refinement.v): geometric_refine, SplineObject.refine, edge_refine / center_refine
   only ever insert valid knots, hence (Proofs/InsertListEndToEnd.v) never change the geometry.

   Part A  geometric_refine: closed form of the candidates, inside the open domain, strictly increasing, gaps in ratio alpha
   Part B  knot_spans (obj.knots(direction)): strictly increasing, inside the closed domain
   Part C  refine(n): the new knots, count, strictly increasing
   Part D  edge_refine / center_refine with an abstract odd, strictly increasing phi
   Part E  end to end (obj_eval unchanged)
   Part F  Q examples against the Python implementation *)
From Coq Require Import QArith.
From Coq Require Import List Arith Reals Lra Lia Bool ZArith Sorted.
From SplipyModel Require Import Spec.BSpline Model.Num Model.BasisDef Model.BasisEval Model.Tensor Model.Obj Model.KnotInsert
  Model.Reparam Model.Refinement
  Proofs.KnotList Proofs.EvaluateSpec Proofs.TensorLemmas Proofs.ObjEval Proofs.SnapChar Proofs.InsertEndToEnd Proofs.InsertListEndToEnd
  Proofs.OrderProofs Proofs.RaiseNested Proofs.SplitCompose Proofs.IdenticalEndToEnd Proofs.ReverseEndToEnd.
Import ListNotations.
Open Scope R_scope.

(* ================================================================================================ *)
(* Part A: geometric_refine, the candidates *)

(* gs alpha m = 1 + alpha + ... + alpha^(m-1) *)
Fixpoint gs (alpha : R) (m : nat) : R := match m with O => 0 | S m' => 1 + alpha * gs alpha m' end.

Lemma gs_step alpha m : gs alpha (S m) = gs alpha m + alpha ^ m.
Proof.
  induction m as [|m IH]; [cbn [gs pow]; ring|].
  change (gs alpha (S (S m))) with (1 + alpha * gs alpha (S m)). rewrite IH at 1.
  change (gs alpha (S m)) with (1 + alpha * gs alpha m). cbn [pow]. ring.
Qed.

Lemma gs_one m : gs 1 m = INR m.
Proof. induction m as [|m IH]; [reflexivity|]. rewrite S_INR. cbn [gs]. rewrite IH. ring. Qed.

Lemma gs_lt alpha : 0 < alpha -> forall i j, (i < j)%nat -> gs alpha i < gs alpha j.
Proof.
  intros Ha i j Hij. induction Hij as [|j Hij IH].
  - rewrite gs_step. pose proof (pow_lt alpha i Ha). lra.
  - rewrite gs_step. pose proof (pow_lt alpha j Ha). lra.
Qed.

Lemma gs_pos alpha m : 0 < alpha -> 0 < gs alpha (S m).
Proof. intros Ha. change 0 with (gs alpha 0) at 1. apply gs_lt; [exact Ha|lia]. Qed.

Lemma geo_sum_spec alpha : forall m s p, @geo_sum R NumR alpha m s p = s + p * gs alpha m.
Proof.
  induction m as [|m IH]; intros s p; cbn [geo_sum gs]; [ring|].
  rewrite IH. cbn [nadd nmul NumR]. ring.
Qed.

Lemma geo_knots_spec alpha ks dk : forall m knot d1,
  @geo_knots R NumR alpha ks dk m knot d1 = map (fun i => ks + (knot + alpha * d1 * gs alpha i) * dk) (seq 0 m).
Proof.
  induction m as [|m IH]; intros knot d1; [reflexivity|].
  cbn [geo_knots seq map]. f_equal.
  - cbn [nadd nmul NumR gs]. ring.
  - rewrite IH. rewrite <- seq_shift, map_map. apply map_ext. intros i. cbn [nadd nmul NumR gs]. ring.
Qed.

(* the i-th candidate (i = 0 .. n-1) *)
Definition geo_x (alpha ks ke : R) (n i : nat) : R := ks + gs alpha (S i) / gs alpha (S n) * (ke - ks).

(* what the code computes: as soon as 1 + alpha + ... + alpha^n <> 0 (every alpha >= 0; alpha < 0 unless it is a root) *)
Theorem geo_candidates_closed alpha ks ke n : gs alpha (S n) <> 0 ->
  @geo_candidates R NumR alpha ks ke n = Ok (map (geo_x alpha ks ke n) (seq 0 n)).
Proof.
  intros HT. unfold geo_candidates. cbv zeta. rewrite geo_sum_spec. cbn [n0 n1 nsub ndiv neqb NumR].
  replace (n + 1)%nat with (S n) by lia. replace (0 + 1 * gs alpha (S n)) with (gs alpha (S n)) by ring.
  destruct (Reqb_spec (gs alpha (S n)) 0) as [E|E]; [contradiction|].
  rewrite geo_knots_spec. f_equal. apply map_ext. intros i. unfold geo_x. cbn [gs]. field. exact HT.
Qed.

(* ... and the ZeroDivisionError otherwise (alpha = -1 with n odd) *)
Theorem geo_candidates_zero alpha ks ke n : gs alpha (S n) = 0 -> @geo_candidates R NumR alpha ks ke n = Err Singular.
Proof.
  intros HT. unfold geo_candidates. cbv zeta. rewrite geo_sum_spec. cbn [n0 n1 nsub ndiv neqb NumR].
  replace (n + 1)%nat with (S n) by lia. replace (0 + 1 * gs alpha (S n)) with (gs alpha (S n)) by ring.
  destruct (Reqb_spec (gs alpha (S n)) 0) as [E|E]; [reflexivity|contradiction].
Qed.
Example geo_candidates_zero_ex : @geo_candidates R NumR (-1) 0 2 1 = Err Singular.
Proof. apply geo_candidates_zero. cbn. ring. Qed.

(* MAIN (1a): alpha > 0 and a non-degenerate domain: the n candidates lie strictly inside (ks, ke) -- the WHOLE knot range of the
   direction, not its first span --, are strictly increasing, and the n+1 gaps (from ks, between neighbours, to ke) form a
   geometric sequence of ratio alpha starting at (ke-ks)/(1+alpha+...+alpha^n) *)
Theorem geo_x_props alpha ks ke n : 0 < alpha -> ks < ke ->
  (forall i, (i < n)%nat -> ks < geo_x alpha ks ke n i < ke) /\
  (forall i j, (i < j)%nat -> (j < n)%nat -> geo_x alpha ks ke n i < geo_x alpha ks ke n j) /\
  geo_x alpha ks ke n 0 - ks = (ke - ks) / gs alpha (S n) /\
  (forall i, geo_x alpha ks ke n (S i) - geo_x alpha ks ke n i = alpha ^ (S i) * ((ke - ks) / gs alpha (S n))) /\
  (forall i, geo_x alpha ks ke n (S (S i)) - geo_x alpha ks ke n (S i) = alpha * (geo_x alpha ks ke n (S i) - geo_x alpha ks ke n i)) /\
  ((1 <= n)%nat -> ke - geo_x alpha ks ke n (n - 1) = alpha ^ n * ((ke - ks) / gs alpha (S n))).
Proof.
  intros Ha Hk. pose proof (gs_pos alpha n Ha) as HT.
  assert (Hgap : forall i, geo_x alpha ks ke n (S i) - geo_x alpha ks ke n i = alpha ^ (S i) * ((ke - ks) / gs alpha (S n))).
  { intros i. unfold geo_x. rewrite (gs_step alpha (S i)). field. lra. }
  assert (Hmono : forall i j, (i < j)%nat -> geo_x alpha ks ke n i < geo_x alpha ks ke n j).
  { intros i j Hij. unfold geo_x. pose proof (gs_lt alpha Ha (S i) (S j) ltac:(lia)) as G.
    apply Rplus_lt_compat_l. apply Rmult_lt_compat_r; [lra|]. apply Rmult_lt_compat_r; [apply Rinv_0_lt_compat; exact HT|exact G]. }
  assert (Hn : geo_x alpha ks ke n n = ke). { unfold geo_x. field. lra. }
  split; [|split; [|split; [|split; [|split]]]].
  - intros i Hi. split.
    + unfold geo_x. pose proof (gs_pos alpha i Ha) as Gi.
      assert (0 < gs alpha (S i) / gs alpha (S n) * (ke - ks)); [|lra].
      apply Rmult_lt_0_compat; [|lra]. apply Rdiv_lt_0_compat; assumption.
    + pose proof (Hmono i n Hi) as Hm. rewrite Hn in Hm. exact Hm.
  - intros i j Hij _. apply Hmono. exact Hij.
  - unfold geo_x. change (gs alpha 1) with (1 + alpha * 0). field. lra.
  - exact Hgap.
  - intros i. rewrite !Hgap. cbn [pow]. ring.
  - intros Hn1. destruct n as [|n]; [lia|].
    replace (S n - 1)%nat with n by lia. pose proof (Hgap n) as Hg. rewrite Hn in Hg. exact Hg.
Qed.

(* non-vacuity / Python: alpha = 2, n = 3 on [0,2]: 2/15, 6/15, 14/15 *)
Example geo_x_ex : map (geo_x 2 0 2 3) (seq 0 3) = [2/15; 2/5; 14/15].
Proof. cbn. unfold geo_x. cbn. repeat (f_equal; try field). Qed.

(* alpha = 1: uniform *)
Theorem geo_x_alpha1 ks ke n i : geo_x 1 ks ke n i = ks + INR (S i) / INR (S n) * (ke - ks).
Proof. unfold geo_x. rewrite !gs_one. reflexivity. Qed.

(* alpha = 0: every candidate IS the end knot (and is then discarded by knot_exists: nothing is inserted) *)
Theorem geo_x_alpha0 ks ke n i : geo_x 0 ks ke n i = ke.
Proof. unfold geo_x. cbn [gs]. field. Qed.

(* the expected statement "inside the FIRST knot span" is false: the code spreads the knots over the whole direction
   (knots [0,0,0,1,2,2,2], alpha = 1, n = 3: 1/2, 1, 3/2; the last one is in the second span) *)
Theorem geo_first_span_refuted : exists alpha ks ke k1 n i, 0 < alpha /\ ks < k1 < ke /\ (i < n)%nat /\ ~ geo_x alpha ks ke n i < k1.
Proof. exists 1, 0, 2, 1, 3%nat, 2%nat. repeat split; try lra; try lia. rewrite geo_x_alpha1. cbn. lra. Qed.

(* alpha < 0: a candidate outside the domain (alpha = -1/2, n = 2, first candidate ks + 4/3 (ke-ks)): ValueError in insert_knot *)
Theorem geo_negative_alpha_refuted : exists alpha ks ke n i, ks < ke /\ (i < n)%nat /\ gs alpha (S n) <> 0 /\ ~ geo_x alpha ks ke n i <= ke.
Proof. exists (-1/2), 0, 2, 2%nat, 0%nat. unfold geo_x. cbn. repeat split; try lra; try lia. Qed.

(* the knot_exists filter: a sublist, equal to the candidates when no existing knot is close *)
Lemma keep_new_In atol rtol ex cand x : In x (@keep_new R NumR atol rtol ex cand) -> In x cand.
Proof. unfold keep_new. intros H. apply filter_In in H. apply H. Qed.

Lemma keep_new_all atol rtol ex cand :
  (forall a x, In a ex -> In x cand -> atol + rtol * Rabs x < Rabs (a - x)) -> @keep_new R NumR atol rtol ex cand = cand.
Proof.
  intros Hfar. unfold keep_new. induction cand as [|x cand IH]; [reflexivity|]. cbn [filter].
  assert (E : @knot_exists R NumR atol rtol ex x = false).
  { unfold knot_exists. apply not_true_is_false. intros Hex. apply existsb_exists in Hex. destruct Hex as (a & Ha & Hc).
    unfold isclose in Hc. cbn [nleb nadd nmul nsub NumR] in Hc. rewrite !nabs_R in Hc.
    destruct (Rleb_spec (Rabs (a - x)) (atol + rtol * Rabs x)) as [L|L]; [|discriminate].
    pose proof (Hfar a x Ha ltac:(left; reflexivity)). lra. }
  rewrite E. cbn [negb]. f_equal. apply IH. intros a y Ha Hy. apply Hfar; [exact Ha|right; exact Hy].
Qed.

Lemma keep_new_self atol rtol ex x : 0 <= atol -> 0 <= rtol -> In x ex -> @keep_new R NumR atol rtol ex [x] = [].
Proof.
  intros Ha Hr Hx. unfold keep_new. cbn [filter].
  assert (E : @knot_exists R NumR atol rtol ex x = true).
  { unfold knot_exists. apply existsb_exists. exists x. split; [exact Hx|]. unfold isclose. cbn [nleb nadd nmul nsub NumR]. rewrite !nabs_R.
    destruct (Rleb_spec (Rabs (x - x)) (atol + rtol * Rabs x)) as [L|L]; [reflexivity|]. exfalso. apply L.
    replace (x - x) with 0 by ring. rewrite Rabs_R0. pose proof (Rabs_pos x). nra. }
  rewrite E. reflexivity.
Qed.

Lemma ssorted_filter {A} (P : A -> A -> Prop) (f : A -> bool) l : StronglySorted P l -> StronglySorted P (filter f l).
Proof.
  induction 1 as [|a l Hs IH Hf]; [constructor|]. cbn [filter]. destruct (f a); [|exact IH].
  constructor; [exact IH|]. rewrite Forall_forall in *. intros x Hx. apply Hf. apply filter_In in Hx. apply Hx.
Qed.

Lemma ssorted_map_seq (f : nat -> R) : forall m a, (forall i j, (a <= i)%nat -> (i < j)%nat -> (j < a + m)%nat -> f i < f j) ->
  StronglySorted Rlt (map f (seq a m)).
Proof.
  induction m as [|m IH]; intros a H; [constructor|]. cbn [seq map]. constructor.
  - apply IH. intros i j Hi Hij Hj. apply H; lia.
  - rewrite Forall_forall. intros x Hx. apply in_map_iff in Hx. destruct Hx as (j & <- & Hj). apply in_seq in Hj. apply H; lia.
Qed.

(* MAIN (1b): the knots geometric_refine really inserts (after the filter), alpha > 0 *)
Theorem geo_inserted_props atol rtol ex alpha ks ke n : 0 < alpha -> ks < ke ->
  exists cand, @geo_candidates R NumR alpha ks ke n = Ok cand /\ length cand = n /\
    StronglySorted Rlt (@keep_new R NumR atol rtol ex cand) /\
    (forall x, In x (@keep_new R NumR atol rtol ex cand) -> ks < x < ke).
Proof.
  intros Ha Hk. pose proof (gs_pos alpha n Ha) as HT.
  destruct (geo_x_props alpha ks ke n Ha Hk) as (Hin & Hmono & _).
  exists (map (geo_x alpha ks ke n) (seq 0 n)). split; [apply geo_candidates_closed; lra|].
  split; [rewrite map_length, seq_length; reflexivity|]. split.
  - apply ssorted_filter. apply ssorted_map_seq. intros i j _ Hij Hj. apply Hmono; lia.
  - intros x Hx. apply keep_new_In in Hx. apply in_map_iff in Hx. destruct Hx as (i & <- & Hi). apply in_seq in Hi. apply Hin. lia.
Qed.

(* ================================================================================================ *)
(* Part B: obj.knots(direction) = knot_spans *)

Lemma rf_nth_firstn {A} (d : A) : forall m (l : list A) j, (j < m)%nat -> nth j (firstn m l) d = nth j l d.
Proof. induction m as [|m IH]; intros l j Hj; [lia|]. destruct l as [|a l]; [destruct j; reflexivity|]. destruct j as [|j]; [reflexivity|]. cbn [firstn nth]. apply IH. lia. Qed.
Lemma rf_nth_skipn {A} (d : A) : forall m (l : list A) j, nth j (skipn m l) d = nth (m + j) l d.
Proof. induction m as [|m IH]; intros l j; [reflexivity|]. destruct l as [|a l]; [destruct j; reflexivity|]. cbn [skipn]. rewrite IH. reflexivity. Qed.

Lemma uniq_tol_In tol : forall l lst y, In y (@uniq_tol R NumR tol lst l) -> In y l.
Proof.
  induction l as [|x l IH]; intros lst y Hy; [exact Hy|]. cbn [uniq_tol] in Hy.
  destruct (nltb tol (nabs (nsub x lst))); [destruct Hy as [<-|Hy]; [left; reflexivity|right; exact (IH _ _ Hy)]|right; exact (IH _ _ Hy)].
Qed.

Lemma uniq_tol_nonempty tol : forall l lst, (exists x, In x l /\ tol < Rabs (x - lst)) -> @uniq_tol R NumR tol lst l <> [].
Proof.
  induction l as [|x l IH]; intros lst (y & Hy & Hfar); [destruct Hy|]. cbn [uniq_tol]. cbn [nltb nsub NumR]. rewrite nabs_R.
  destruct (Rltb_spec tol (Rabs (x - lst))) as [A|A]; [discriminate|].
  apply IH. exists y. split; [|exact Hfar]. destruct Hy as [<-|Hy]; [contradiction|exact Hy].
Qed.

Section SpansFacts.
Variable tol : R.
Hypothesis Htol : 0 < tol.
Variable b : basis R.
Hypothesis Hwf : wf_basis_R tol b.
Local Notation k := (b_knots b).
Local Notation p := (b_order b).
Local Notation sp := (@knot_spans R NumR tol b false).
Local Notation st := (@b_start R NumR b).
Local Notation en := (@b_end R NumR b).

Lemma sf_S_in y : In y (firstn (length k - 2 * p + 2) (skipn (p - 1) k)) -> st <= y <= en.
Proof.
  destruct Hwf as (HK & Hp & Hlen & _). pose proof (lsorted_of_kn k HK) as Hs.
  intros Hy. destruct (In_nth _ _ 0 Hy) as (j & Hj & <-).
  rewrite firstn_length in Hj. rewrite rf_nth_firstn by lia. rewrite rf_nth_skipn.
  unfold b_start, b_end. rewrite (kn_in k (p - 1) ltac:(lia) 0), (kn_in k (length k - p) ltac:(lia) 0).
  rewrite skipn_length in Hj. split; apply (lsorted_nth k Hs); lia.
Qed.

Lemma sf_st_en : st <= en.
Proof. destruct Hwf as (HK & Hp & Hlen & _). unfold b_start, b_end. apply HK. lia. Qed.

(* MAIN (B): knots(direction) starts at start(), is strictly increasing with gaps > tol, and stays in [start, end] *)
Theorem spans_facts :
  StronglySorted (gapt tol) sp /\ hd 0 sp = st /\ (forall y, In y sp -> st <= y <= en) /\ In (last sp 0) sp.
Proof.
  destruct Hwf as (HK & Hp & Hlen & _). pose proof (lsorted_of_kn k HK) as Hs. pose proof sf_st_en as Hse.
  assert (Hlast : forall l : list R, l <> [] -> In (last l 0) l).
  { intros l Hl. destruct (exists_last Hl) as (l' & a & ->). rewrite last_last. apply in_or_app. right. left. reflexivity. }
  unfold knot_spans. destruct (Nat.eqb_spec p 1) as [E|E].
  - split; [constructor; constructor|]. unfold b_start. rewrite E. cbn [hd uniq_tol last Nat.sub]. split; [reflexivity|].
    split; [|left; reflexivity]. intros y [<-|[]]. unfold b_start, b_end in Hse. rewrite E in Hse. cbn [Nat.sub] in Hse. unfold b_end. rewrite E. lra.
  - set (S := firstn (length k - 2 * p + 2) (skipn (p - 1) k)).
    assert (HSs : lsorted (@kn R NumR k (p - 1) :: S)).
    { assert (H : lsorted S) by (apply ie_lsorted_firstn, ie_lsorted_skipn, Hs).
      destruct S as [|s0 S'] eqn:ES; [constructor|]. constructor; [|exact H].
      apply (sf_S_in s0). fold S. rewrite ES. left. reflexivity. }
    split; [apply uniq_tol_gap; [lra|exact HSs]|]. split; [reflexivity|]. split; [|apply Hlast; discriminate].
    intros y [<-|Hy]; [fold st; lra|]. apply sf_S_in. fold S. exact (uniq_tol_In tol _ _ _ Hy).
Qed.

(* for order >= 2 the list has at least two entries: first < last (order 1: knots() is [start] only, see spans_order1) *)
Theorem spans_first_lt_last : (2 <= p)%nat -> hd 0 sp + tol < last sp 0.
Proof.
  intros Hp2. destruct Hwf as (HK & Hp & Hlen & Hn & Hw). pose proof (lsorted_of_kn k HK) as Hs.
  destruct spans_facts as (SS & Hhd & _ & _). revert SS Hhd.
  unfold knot_spans. destruct (Nat.eqb_spec p 1) as [E|E]; [lia|].
  set (S := firstn (length k - 2 * p + 2) (skipn (p - 1) k)). intros SS _.
  assert (Hne : @uniq_tol R NumR tol (@kn R NumR k (p - 1)) S <> []).
  { apply uniq_tol_nonempty. exists en. split.
    - unfold S, b_end. rewrite (kn_in k (length k - p) ltac:(lia) 0).
      replace (length k - p)%nat with ((p - 1) + (length k - 2 * p + 1))%nat at 1 by lia.
      rewrite <- (rf_nth_skipn 0). rewrite <- (rf_nth_firstn 0 (length k - 2 * p + 2)) by lia.
      apply nth_In. rewrite firstn_length, skipn_length. lia.
    - fold st. rewrite Rabs_right; lra. }
  cbn [hd]. destruct (exists_last Hne) as (l' & a & El). rewrite El in *.
  change (@kn R NumR k (p - 1) :: l' ++ [a]) with ((@kn R NumR k (p - 1) :: l') ++ [a]). rewrite last_last.
  apply StronglySorted_inv in SS. destruct SS as [_ F]. rewrite Forall_forall in F. apply (F a). apply in_or_app. right. left. reflexivity.
Qed.
End SpansFacts.

Theorem spans_order1 tol (k : list R) per1 : @knot_spans R NumR tol (mkBasis 1 k per1) false = [@kn R NumR k 0].
Proof. reflexivity. Qed.

(* ================================================================================================ *)
(* Part C: SplineObject.refine(n), the new knots *)

Lemma INR_nofnat j : @nofnat R NumR j = INR j.
Proof. unfold nofnat. cbn [nofZ NumR]. symmetry. apply INR_IZR_INZ. Qed.

(* the j-th of the n new knots of the span (k0, k1) *)
Definition lin_pt (k0 k1 : R) (n j : nat) : R := k0 + INR j * (k1 - k0) / INR (n + 1).

Lemma lin_inner_spec k0 k1 n : @lin_inner R NumR k0 k1 n = map (lin_pt k0 k1 n) (seq 1 n).
Proof.
  unfold lin_inner. cbv zeta. apply map_ext. intros j. cbn [nadd nmul ndiv nsub NumR]. rewrite !INR_nofnat. unfold lin_pt.
  field. apply not_0_INR. lia.
Qed.

Lemma lin_pt_lt k0 k1 n i j : k0 < k1 -> (i < j)%nat -> lin_pt k0 k1 n i < lin_pt k0 k1 n j.
Proof.
  intros Hk Hij. unfold lin_pt. pose proof (lt_INR _ _ Hij) as H1. assert (HN : 0 < INR (n + 1)) by (apply lt_0_INR; lia).
  assert (0 < (INR j - INR i) * ((k1 - k0) / INR (n + 1))).
  { apply Rmult_lt_0_compat; [lra|]. apply Rdiv_lt_0_compat; lra. }
  replace (INR j * (k1 - k0) / INR (n + 1)) with (INR i * (k1 - k0) / INR (n + 1) + (INR j - INR i) * ((k1 - k0) / INR (n + 1))) by (field; lra).
  lra.
Qed.

Lemma lin_pt_ends k0 k1 n : lin_pt k0 k1 n 0 = k0 /\ lin_pt k0 k1 n (n + 1) = k1.
Proof. assert (HN : 0 < INR (n + 1)) by (apply lt_0_INR; lia). unfold lin_pt. split; [cbn [INR]; field; lra|field; lra]. Qed.

Lemma lin_pt_in k0 k1 n j : k0 < k1 -> (1 <= j <= n)%nat -> k0 < lin_pt k0 k1 n j < k1.
Proof.
  intros Hk Hj. destruct (lin_pt_ends k0 k1 n) as [E0 E1]. split.
  - rewrite <- E0 at 1. apply lin_pt_lt; [exact Hk|lia].
  - rewrite <- E1 at 2. apply lin_pt_lt; [exact Hk|lia].
Qed.

Lemma combine_removelast {A} : forall l : list A, combine (removelast l) (tl l) = combine l (tl l).
Proof.
  induction l as [|a l IH]; [reflexivity|]. destruct l as [|b r]; [reflexivity|].
  change (removelast (a :: b :: r)) with (a :: removelast (b :: r)). cbn [tl combine]. f_equal. exact IH.
Qed.

Lemma adj_pairs : forall (sp : list R) a b, StronglySorted Rlt sp -> In (a, b) (combine sp (tl sp)) -> a < b /\ In a sp /\ In b sp.
Proof.
  induction sp as [|x rest IH]; intros a b SS Hin; [destruct Hin|].
  destruct rest as [|y r]; [destruct Hin|]. cbn [tl combine] in Hin. apply StronglySorted_inv in SS. destruct SS as [SS F].
  destruct Hin as [E|Hin].
  - injection E as <- <-. split; [|split; [left; reflexivity|right; left; reflexivity]]. rewrite Forall_forall in F. apply F. left. reflexivity.
  - destruct (IH a b SS Hin) as (L & I1 & I2). split; [exact L|split; right; assumption].
Qed.

(* MAIN (2a): exactly the values k_i + j (k_{i+1} - k_i)/(n+1), j = 1..n, over the consecutive pairs of knots(direction) *)
Theorem refine_new_In (sp : list R) n x : In x (@refine_new R NumR sp n) <->
  exists k0 k1 j, In (k0, k1) (combine sp (tl sp)) /\ (1 <= j <= n)%nat /\ x = lin_pt k0 k1 n j.
Proof.
  unfold refine_new. rewrite combine_removelast, in_flat_map. split.
  - intros ((k0, k1) & Hab & Hx). cbn [fst snd] in Hx. rewrite lin_inner_spec in Hx. apply in_map_iff in Hx. destruct Hx as (j & <- & Hj).
    apply in_seq in Hj. exists k0, k1, j. split; [exact Hab|split; [lia|reflexivity]].
  - intros (k0 & k1 & j & Hab & Hj & ->). exists (k0, k1). split; [exact Hab|]. cbn [fst snd]. rewrite lin_inner_spec.
    apply in_map. apply in_seq. lia.
Qed.

(* strictly inside its (non-degenerate) span *)
Theorem refine_new_inside (sp : list R) n x : StronglySorted Rlt sp -> In x (@refine_new R NumR sp n) ->
  exists k0 k1, In (k0, k1) (combine sp (tl sp)) /\ In k0 sp /\ In k1 sp /\ k0 < x < k1.
Proof.
  intros SS Hx. apply refine_new_In in Hx. destruct Hx as (k0 & k1 & j & Hab & Hj & ->).
  destruct (adj_pairs sp k0 k1 SS Hab) as (L & I0 & I1). exists k0, k1. repeat split; try assumption; apply lin_pt_in; assumption.
Qed.

(* MAIN (2b): count = n * (number of spans) *)
Theorem refine_new_length (sp : list R) n : length (@refine_new R NumR sp n) = (n * (length sp - 1))%nat.
Proof.
  unfold refine_new. rewrite combine_removelast.
  assert (G : forall l : list (R * R), length (flat_map (fun ab => @lin_inner R NumR (fst ab) (snd ab) n) l) = (n * length l)%nat).
  { induction l as [|ab l IH]; [cbn; lia|]. cbn [flat_map length]. rewrite app_length, IH. unfold lin_inner. rewrite map_length, seq_length. lia. }
  rewrite G, combine_length. destruct sp as [|a r]; cbn [tl length]; lia.
Qed.

Lemma ssorted_app (l1 l2 : list R) : StronglySorted Rlt l1 -> StronglySorted Rlt l2 ->
  (forall x y, In x l1 -> In y l2 -> x < y) -> StronglySorted Rlt (l1 ++ l2).
Proof.
  induction l1 as [|a l1 IH]; intros S1 S2 H; [exact S2|]. cbn [app]. apply StronglySorted_inv in S1. destruct S1 as [S1 F].
  constructor; [apply IH; [exact S1|exact S2|intros x y Hx Hy; apply H; [right; exact Hx|exact Hy]]|].
  rewrite Forall_forall in *. intros x Hx. apply in_app_or in Hx. destruct Hx as [Hx|Hx]; [apply F; exact Hx|apply H; [left; reflexivity|exact Hx]].
Qed.

(* MAIN (2c): the list handed to insert_knot is strictly increasing *)
Theorem refine_new_sorted n : forall sp : list R, StronglySorted Rlt sp -> StronglySorted Rlt (@refine_new R NumR sp n).
Proof.
  induction sp as [|a rest IH]; intros SS; [constructor|]. destruct rest as [|b r]; [constructor|].
  change (@refine_new R NumR (a :: b :: r) n) with (@lin_inner R NumR a b n ++ @refine_new R NumR (b :: r) n).
  pose proof SS as SS0. apply StronglySorted_inv in SS. destruct SS as [SS F]. rewrite Forall_forall in F.
  assert (Hab : a < b) by (apply F; left; reflexivity).
  apply ssorted_app.
  - rewrite lin_inner_spec. apply ssorted_map_seq. intros i j _ Hij _. apply lin_pt_lt; assumption.
  - apply IH. exact SS.
  - intros x y Hx Hy. rewrite lin_inner_spec in Hx. apply in_map_iff in Hx. destruct Hx as (j & <- & Hj). apply in_seq in Hj.
    destruct (lin_pt_in a b n j Hab ltac:(lia)) as [_ U].
    destruct (refine_new_inside (b :: r) n y SS Hy) as (k0 & k1 & _ & I0 & _ & L & _).
    apply StronglySorted_inv in SS. destruct SS as [_ Fb]. rewrite Forall_forall in Fb.
    destruct I0 as [<-|I0]; [lra|]. pose proof (Fb k0 I0). lra.
Qed.

(* non-vacuity / Python: knots() = [0,1,2], n = 2 *)
Example refine_new_ex : @refine_new R NumR [0; 1; 3] 2 = [1/3; 2/3; 5/3; 7/3] /\ StronglySorted Rlt [0; 1; 3].
Proof.
  split; [|repeat constructor; lra]. unfold refine_new, lin_inner. cbn [removelast tl combine flat_map fst snd seq map app Nat.add].
  rewrite !INR_nofnat. cbn [nadd nmul ndiv nsub NumR INR].
  repeat match goal with |- _ :: _ = _ :: _ => apply (f_equal2 (@cons R)); [lra|] end. reflexivity.
Qed.

(* ================================================================================================ *)
(* Part D: center_refine (phi = tan) / edge_refine (phi = atan).  The properties of phi the argument uses:
     (i)  phi is strictly increasing on [-S, S]      (tan: this is the assert 0 < S < pi/2; atan: every S)
     (ii) phi is odd                                  (so that phi(-S) = -phi(S): the map sends (0,1) INTO (0,1), and is symmetric)
   with g(u) = (phi((2u-1) S) + phi(S)) / (2 phi(S)): g(0) = 0, g(1) = 1, g strictly increasing, g(u) + g(1-u) = 1 *)
Section GradedFacts.
Variable phi : R -> R.
Variable S : R.
Hypothesis HS : 0 < S.
Hypothesis Hinc : forall x y, - S <= x -> x < y -> y <= S -> phi x < phi y.
Hypothesis Hodd : forall x, phi (- x) = - phi x.

Definition xiR (n i : nat) : R := (0 - 1 + (1 + 1) * INR i / INR (n + 1)) * S.

Lemma graded_knot_R ks dk n i : @graded_knot R NumR phi S ks dk n i = ks + (phi (xiR n i) + phi S) / (1 + 1) / phi S * dk.
Proof. unfold graded_knot, xiR. cbv zeta. cbn [nadd nmul ndiv nsub n0 n1 NumR]. rewrite !INR_nofnat. reflexivity. Qed.

Lemma phi0 : phi 0 = 0.
Proof. pose proof (Hodd 0) as H. rewrite Ropp_0 in H. lra. Qed.
Lemma phiS_pos : 0 < phi S.
Proof. rewrite <- phi0. apply Hinc; lra. Qed.

Lemma xiR_lt n i j : (i < j)%nat -> xiR n i < xiR n j.
Proof.
  intros Hij. unfold xiR. pose proof (lt_INR _ _ Hij) as H1. assert (HN : 0 < INR (n + 1)) by (apply lt_0_INR; lia).
  apply Rmult_lt_compat_r; [exact HS|]. apply Rplus_lt_compat_l.
  unfold Rdiv. apply Rmult_lt_compat_r; [apply Rinv_0_lt_compat; exact HN|]. lra.
Qed.
Lemma xiR_ends n : xiR n 0 = - S /\ xiR n (n + 1) = S.
Proof. assert (HN : 0 < INR (n + 1)) by (apply lt_0_INR; lia). unfold xiR. split; [cbn [INR]; field; lra|field; lra]. Qed.
Lemma xiR_sym n i : (i <= n + 1)%nat -> xiR n (n + 1 - i) = - xiR n i.
Proof. intros Hi. assert (HN : 0 < INR (n + 1)) by (apply lt_0_INR; lia). unfold xiR. rewrite minus_INR by exact Hi. field. lra. Qed.

(* MAIN (3): the n candidates are strictly inside (ks, ke), strictly increasing (hence distinct), and symmetric about the
   middle of the domain *)
Theorem graded_props ks ke n : ks < ke ->
  (forall i, (1 <= i <= n)%nat -> ks < @graded_knot R NumR phi S ks (ke - ks) n i < ke) /\
  (forall i j, (1 <= i)%nat -> (i < j)%nat -> (j <= n)%nat ->
     @graded_knot R NumR phi S ks (ke - ks) n i < @graded_knot R NumR phi S ks (ke - ks) n j) /\
  (forall i, (1 <= i <= n)%nat ->
     @graded_knot R NumR phi S ks (ke - ks) n i + @graded_knot R NumR phi S ks (ke - ks) n (n + 1 - i) = ks + ke).
Proof.
  intros Hk. pose proof phiS_pos as HP. destruct (xiR_ends n) as [E0 E1].
  assert (Hrange : forall i, (1 <= i <= n)%nat -> - S < xiR n i < S).
  { intros i Hi. split; [rewrite <- E0|rewrite <- E1]; apply xiR_lt; lia. }
  assert (Hform : forall i, @graded_knot R NumR phi S ks (ke - ks) n i = ks + (phi (xiR n i) + phi S) / (2 * phi S) * (ke - ks)).
  { intros i. rewrite graded_knot_R. field. lra. }
  assert (Hmono : forall x y, - S <= x -> x < y -> y <= S ->
            ks + (phi x + phi S) / (2 * phi S) * (ke - ks) < ks + (phi y + phi S) / (2 * phi S) * (ke - ks)).
  { intros x y Hx Hxy Hy. pose proof (Hinc x y Hx Hxy Hy) as Hp. apply Rplus_lt_compat_l. apply Rmult_lt_compat_r; [lra|].
    unfold Rdiv. apply Rmult_lt_compat_r; [apply Rinv_0_lt_compat; lra|lra]. }
  split; [|split].
  - intros i Hi. rewrite Hform. destruct (Hrange i Hi) as [L U]. split.
    + replace ks with (ks + (phi (- S) + phi S) / (2 * phi S) * (ke - ks)) at 1 by (rewrite Hodd; field; lra).
      apply Hmono; lra.
    + replace ke with (ks + (phi S + phi S) / (2 * phi S) * (ke - ks)) at 2 by (field; lra).
      apply Hmono; lra.
  - intros i j Hi Hij Hj. rewrite !Hform. pose proof (xiR_lt n i j Hij). destruct (Hrange i ltac:(lia)), (Hrange j ltac:(lia)).
    apply Hmono; lra.
  - intros i Hi. rewrite !Hform. rewrite xiR_sym by lia. rewrite Hodd. field. lra.
Qed.
End GradedFacts.

(* the hypotheses are those of the real functions: edge_refine (atan, every S > 0) and center_refine (tan, 0 < S < pi/2) *)
Theorem edge_refine_knots S ks ke n : 0 < S -> ks < ke ->
  (forall i, (1 <= i <= n)%nat -> ks < @graded_knot R NumR atan S ks (ke - ks) n i < ke) /\
  (forall i j, (1 <= i)%nat -> (i < j)%nat -> (j <= n)%nat -> @graded_knot R NumR atan S ks (ke - ks) n i < @graded_knot R NumR atan S ks (ke - ks) n j) /\
  (forall i, (1 <= i <= n)%nat -> @graded_knot R NumR atan S ks (ke - ks) n i + @graded_knot R NumR atan S ks (ke - ks) n (n + 1 - i) = ks + ke).
Proof.
  intros HS Hk. apply (graded_props atan S HS); [|exact atan_opp|exact Hk]. intros x y _ Hxy _. apply atan_increasing. exact Hxy.
Qed.
Theorem center_refine_knots S ks ke n : 0 < S < PI / 2 -> ks < ke ->
  (forall i, (1 <= i <= n)%nat -> ks < @graded_knot R NumR tan S ks (ke - ks) n i < ke) /\
  (forall i j, (1 <= i)%nat -> (i < j)%nat -> (j <= n)%nat -> @graded_knot R NumR tan S ks (ke - ks) n i < @graded_knot R NumR tan S ks (ke - ks) n j) /\
  (forall i, (1 <= i <= n)%nat -> @graded_knot R NumR tan S ks (ke - ks) n i + @graded_knot R NumR tan S ks (ke - ks) n (n + 1 - i) = ks + ke).
Proof.
  intros [HS HS2] Hk. apply (graded_props tan S HS); [|exact tan_neg|exact Hk]. intros x y Hx Hxy Hy. apply tan_increasing; lra.
Qed.

(* ================================================================================================ *)
(* Part E: end to end.  [same_geometry tol o d ts o']: o' is well formed, evaluates like o at ts, has the same directions, the
   same bases away from d and the same domain in direction d (the conclusion of Proofs/InsertListEndToEnd.v) *)
Definition same_geometry (tol : R) (o : obj R) (d : nat) (ts : list R) (o' : obj R) : Prop :=
  wf_obj_R tol o' /\ @obj_eval R NumR tol o' ts = @obj_eval R NumR tol o ts /\
  length (o_bases o') = length (o_bases o) /\
  (forall i, i <> d -> nth i (o_bases o') dflt_basis = nth i (o_bases o) dflt_basis) /\
  @b_start R NumR (nth d (o_bases o') dflt_basis) = @b_start R NumR (nth d (o_bases o) dflt_basis) /\
  @b_end R NumR (nth d (o_bases o') dflt_basis) = @b_end R NumR (nth d (o_bases o) dflt_basis).

Lemma hd_In_of_lt (l : list R) : hd 0 l < last l 0 -> In (hd 0 l) l.
Proof. destruct l as [|a r]; cbn [hd last]; [lra|]. intros _. left. reflexivity. Qed.

Section E2E.
Variable tol : R.
Hypothesis Htol : 0 < tol.
Variable o : obj R.
Hypothesis Hwf : wf_obj_R tol o.
Variable d : nat.
Hypothesis Hd : (d < length (o_bases o))%nat.
Local Notation bd := (nth d (o_bases o) dflt_basis).
Hypothesis Hper : b_per1 bd = 0%nat.
Variable ts : list R.
Hypothesis Hdom : forall i, (i < length (o_bases o))%nat -> in_dom tol (nth i (o_bases o) dflt_basis) (nth i ts 0).
Local Notation sp := (@dir_knots R NumR tol o d).
(* FAR: the evaluation parameter is at least twice the snapping tolerance away from every inserted knot (hypothesis of the
   insertion theorem: evaluate() snaps parameters to knots closer than tol, and a new knot changes what is snapped) *)
Local Notation far xs := (forall x, In x xs -> 2 * tol <= Rabs (x - nth d ts 0)).

Lemma bd_wfb : wf_basis_R tol bd.
Proof. destruct Hwf as (HB & _). rewrite Forall_forall in HB. apply HB. apply nth_In. exact Hd. Qed.

Lemma sp_facts' : StronglySorted Rlt sp /\ hd 0 sp = @b_start R NumR bd /\
  (forall y, In y sp -> @b_start R NumR bd <= y <= @b_end R NumR bd) /\ In (last sp 0) sp.
Proof.
  destruct (spans_facts tol Htol bd bd_wfb) as (SS & H1 & H2 & H3).
  split; [apply (ssorted_gap_lt tol); [lra|exact SS]|]. split; [exact H1|]. split; [exact H2|exact H3].
Qed.

Lemma insert_between xs :
  (forall x, In x xs -> exists lo hi, In lo sp /\ In hi sp /\ lo <= x < hi) -> far xs ->
  exists o', @obj_insert_knots R NumR o d xs = Ok o' /\ same_geometry tol o d ts o'.
Proof.
  intros Hin Hfar. destruct sp_facts' as (_ & _ & Hr & _).
  apply (insert_knots_eval tol Htol d ts xs o Hwf Hd Hper); [|exact Hdom].
  intros x Hx. split; [|apply Hfar; exact Hx]. destruct (Hin x Hx) as (lo & hi & Hlo & Hhi & L).
  pose proof (Hr lo Hlo). pose proof (Hr hi Hhi). lra.
Qed.

(* MAIN (1c): geometric_refine(obj, alpha, n, d), reverse=False, alpha > 0, n >= 1 succeeds and does not change the geometry.
   Hlt (first knot < last knot of knots(d)) holds for every order >= 2 (spans_first_lt_last); for order 1 knots(d) = [start]
   and the routine inserts nothing. *)
Theorem geometric_refine_eval atol rtol alpha n :
  0 < alpha -> (1 <= n)%nat -> hd 0 sp < last sp 0 ->
  far (@keep_new R NumR atol rtol sp (map (geo_x alpha (hd 0 sp) (last sp 0) n) (seq 0 n))) ->
  exists o', @geometric_refine R NumR tol atol rtol o alpha n d false = Ok o' /\ same_geometry tol o d ts o'.
Proof.
  intros Ha Hn Hlt Hfar. unfold geometric_refine.
  destruct (Nat.eqb_spec n 0) as [Hn0|_]; [lia|]. unfold o_pardim. destruct (Nat.ltb_spec d (length (o_bases o))) as [_|Hge]; [|lia]. cbn [negb]. cbv zeta.
  cbn [n0 NumR]. rewrite (geo_candidates_closed alpha _ _ n) by (pose proof (gs_pos alpha n Ha); lra).
  enough (Hb : forall x, In x (@keep_new R NumR atol rtol sp (map (geo_x alpha (hd 0 sp) (last sp 0) n) (seq 0 n))) ->
                exists lo hi, In lo sp /\ In hi sp /\ lo <= x < hi).
  { destruct (insert_between _ Hb Hfar) as (o' & E & G). exists o'. rewrite E. split; [reflexivity|exact G]. }
  intros x Hx. apply keep_new_In in Hx. apply in_map_iff in Hx. destruct Hx as (i & <- & Hi). apply in_seq in Hi.
  destruct sp_facts' as (SS & _ & _ & Hl). destruct (geo_x_props alpha _ _ n Ha Hlt) as (Hin & _).
  exists (hd 0 sp), (last sp 0). split; [apply hd_In_of_lt; exact Hlt|]. split; [exact Hl|].
  destruct (Hin i ltac:(lia)). lra.
Qed.

Corollary geometric_refine_eval_order2 atol rtol alpha n :
  0 < alpha -> (1 <= n)%nat -> (2 <= b_order bd)%nat ->
  far (@keep_new R NumR atol rtol sp (map (geo_x alpha (hd 0 sp) (last sp 0) n) (seq 0 n))) ->
  exists o', @geometric_refine R NumR tol atol rtol o alpha n d false = Ok o' /\ same_geometry tol o d ts o'.
Proof.
  intros Ha Hn Hp Hfar. apply geometric_refine_eval; try assumption.
  pose proof (spans_first_lt_last tol Htol bd bd_wfb Hp). unfold dir_knots. change (@mkBasis R 0 [] 0) with dflt_basis. lra.
Qed.

(* MAIN (2d): one round of refine (direction d, n new knots per span) succeeds and does not change the geometry *)
Theorem refine_dir_eval n :
  far (@refine_new R NumR sp n) ->
  exists o', @obj_refine_dir R NumR tol o d n = Ok o' /\ same_geometry tol o d ts o'.
Proof.
  intros Hfar. unfold obj_refine_dir. apply insert_between; [|exact Hfar].
  intros x Hx. destruct sp_facts' as (SS & _). destruct (refine_new_inside sp n x SS Hx) as (k0 & k1 & _ & I0 & I1 & L).
  exists k0, k1. repeat split; try assumption; lra.
Qed.

(* obj.refine(n, direction=d) *)
Theorem refine_direction_eval n :
  far (@refine_new R NumR sp n) ->
  exists o', @obj_refine R NumR tol o [n] (Some d) = Ok o' /\ same_geometry tol o d ts o'.
Proof.
  intros Hfar. destruct (refine_dir_eval n Hfar) as (o' & E & G). exists o'. split; [|exact G].
  unfold obj_refine, o_pardim. cbv zeta. destruct (Nat.ltb_spec d (length (o_bases o))); [|lia].
  cbn [obj_refine_zip]. rewrite E. reflexivity.
Qed.

(* MAIN (3b): center_refine / edge_refine with an odd phi, strictly increasing on [-S, S] *)
Theorem graded_refine_eval (phi : R -> R) S atol rtol n :
  0 < S -> (forall x y, - S <= x -> x < y -> y <= S -> phi x < phi y) -> (forall x, phi (- x) = - phi x) ->
  (1 <= n)%nat -> hd 0 sp < last sp 0 ->
  far (@keep_new R NumR atol rtol sp (@graded_candidates R NumR phi S (hd 0 sp) (last sp 0) n)) ->
  exists o', @graded_refine R NumR phi tol atol rtol o S n d = Ok o' /\ same_geometry tol o d ts o'.
Proof.
  intros HS Hinc Hodd Hn Hlt Hfar. unfold graded_refine.
  destruct (Nat.eqb_spec n 0) as [Hn0|_]; [lia|]. unfold o_pardim. destruct (Nat.ltb_spec d (length (o_bases o))) as [_|Hge]; [|lia]. cbn [negb]. cbv zeta.
  cbn [n0 neqb NumR]. pose proof (phiS_pos phi S HS Hinc Hodd) as HP.
  destruct (Reqb_spec (phi S) 0) as [E|_]; [lra|].
  apply insert_between; [|exact Hfar].
  intros x Hx. apply keep_new_In in Hx. unfold graded_candidates in Hx. apply in_map_iff in Hx. destruct Hx as (i & <- & Hi). apply in_seq in Hi.
  destruct sp_facts' as (SS & _ & _ & Hl). destruct (graded_props phi S HS Hinc Hodd _ _ n Hlt) as (Hin & _).
  exists (hd 0 sp), (last sp 0). split; [apply hd_In_of_lt; exact Hlt|]. split; [exact Hl|].
  cbn [nsub NumR]. destruct (Hin i ltac:(lia)). lra.
Qed.
End E2E.

(* reverse=True is reverse . (reverse=False) . reverse, literally: the final object is parametrised like the original one
   (Proofs/ReverseEndToEnd.v: reverse_eval, reverse_domain, reverse_wf apply to both reversals; the middle step is
   geometric_refine_eval on the reversed object, which is well formed with the same domain) *)
Theorem geometric_refine_reverse_decomp tol atol rtol (o : obj R) alpha n d :
  @geometric_refine R NumR tol atol rtol o alpha n d true =
  match @geometric_refine R NumR tol atol rtol (@obj_reverse R NumR o d) alpha n d false with
  | Ok o2 => Ok (@obj_reverse R NumR o2 d)
  | Err e => Err e
  end.
Proof.
  unfold geometric_refine.
  assert (E : @o_pardim R (@obj_reverse R NumR o d) = @o_pardim R o).
  { unfold o_pardim, obj_reverse. cbv zeta. cbn [o_bases]. apply upd_length. }
  rewrite E. destruct (n =? 0)%nat; [reflexivity|]. destruct (negb (d <? @o_pardim R o)%nat); [reflexivity|].
  cbv beta iota zeta.
  destruct (@geo_candidates R NumR alpha _ _ n) as [c|e]; [|reflexivity].
  destruct (@obj_insert_knots R NumR _ d _); reflexivity.
Qed.

(* the middle step on the reversed object: succeeds, geometry of the REVERSED object unchanged *)
Theorem geometric_refine_reversed_middle tol (o : obj R) d ts atol rtol alpha n :
  0 < tol -> wf_obj_R tol o -> (d < length (o_bases o))%nat -> b_per1 (nth d (o_bases o) dflt_basis) = 0%nat ->
  let o1 := @obj_reverse R NumR o d in
  let sp1 := @dir_knots R NumR tol o1 d in
  (forall i, (i < length (o_bases o1))%nat -> in_dom tol (nth i (o_bases o1) dflt_basis) (nth i ts 0)) ->
  0 < alpha -> (1 <= n)%nat -> (2 <= b_order (nth d (o_bases o) dflt_basis))%nat ->
  (forall x, In x (@keep_new R NumR atol rtol sp1 (map (geo_x alpha (hd 0 sp1) (last sp1 0) n) (seq 0 n))) -> 2 * tol <= Rabs (x - nth d ts 0)) ->
  exists o2, @geometric_refine R NumR tol atol rtol o1 alpha n d false = Ok o2 /\ same_geometry tol o1 d ts o2 /\
             @geometric_refine R NumR tol atol rtol o alpha n d true = Ok (@obj_reverse R NumR o2 d).
Proof.
  intros Htol Hwf Hd Hper o1 sp1 Hdom Ha Hn Hp Hfar.
  destruct (reverse_domain tol Htol o Hwf d Hd Hper) as (_ & _ & Ho & Hp1 & _ & Hl & _).
  assert (Hwf1 : wf_obj_R tol o1) by exact (reverse_wf tol Htol o Hwf d Hd Hper).
  assert (Hd1 : (d < length (o_bases o1))%nat) by (unfold o1; rewrite Hl; exact Hd).
  destruct (geometric_refine_eval_order2 tol Htol o1 Hwf1 d Hd1 ltac:(unfold o1; rewrite Hp1; exact Hper) ts Hdom atol rtol alpha n Ha Hn
              ltac:(unfold o1; rewrite Ho; exact Hp) Hfar) as (o2 & E & G).
  exists o2. split; [exact E|]. split; [exact G|]. rewrite geometric_refine_reverse_decomp. fold o1. rewrite E. reflexivity.
Qed.

(* ================================================================================================ *)
(* Part F: the Q instance of the model against the Python implementation.

   PYTHONPATH=/repo /venv/bin/python:
     from splipy import Curve, BSplineBasis, Surface; import splipy.utils.refinement as rf
     mk = lambda: Curve(BSplineBasis(3,[0,0,0,1,2,2,2]), [[0,1],[1,3],[2,0],[4,1]])
     c = mk(); rf.geometric_refine(c, 2, 3);                c.knots(0,True) -> [0 0 0 .13333333 .4 .93333333 1 2 2 2]; c(.3) -> [.555 1.885]
        c.controlpoints -> [0,1],[.13333,1.26667],[.50667,1.88],[1.14667,2.36],[1.46667,1.6],[2,0],[4,1]
     c = mk(); rf.geometric_refine(c, .5, 3, reverse=True); the same knots, c.controlpoints[0] = [0,1], c(.3) -> [.555 1.885]
     c = mk(); rf.geometric_refine(c, 1, 3)   -> knots [0 0 0 .5 1 1.5 2 2 2]      (NOT inside the first span [0,1])
     c = mk(); rf.geometric_refine(c, 0, 3)   -> knots unchanged
     rf.geometric_refine(mk(), -.5, 2)        -> ValueError: new_knot out of range (with reverse=True the object is left reversed)
     rf.geometric_refine(mk(), -1, 1)         -> ZeroDivisionError;   (-1, 2) -> knots unchanged;   n = 0 -> ValueError
     c = mk(); c.refine(2)                    -> knots [0 0 0 1/3 2/3 1 4/3 5/3 2 2 2], c(.3) -> [.555 1.885],
        controlpoints [0,1],[1/3,5/3],[8/9,20/9],[4/3,2],[5/3,1],[7/3,5/9],[10/3,2/3],[4,1]
     s = Surface(BSplineBasis(2,[0,0,1,1]), BSplineBasis(3,[0,0,0,1,3,3,3]), cps)
        s.refine(1,2,3) and s.refine(1,2,direction=0) -> ([0 0 .5 1 1], [0 0 0 1/3 2/3 1 5/3 7/3 3 3 3]);  s.refine(1,direction='v') -> ([0 0 1 1],[0 0 0 .5 1 2 3 3 3])
     c = Curve(BSplineBasis(1,[0,1,2,3]), [[0],[1],[2]]); c.knots(0) -> [0.0]; c.refine(2), geometric_refine(c,2,3): knots unchanged
     rf.tan = lambda x: x**3 + x   (an odd, increasing stand-in for tan with rational values)
     c = mk(); rf.center_refine(c, 1.0, 3) -> knots [0 0 0 .6875 1 1.3125 2 2 2] (the middle candidate 1 exists already), c(.3) -> [.555 1.885]
     c = mk(); rf.center_refine(c, 1.0, 4) -> knots [0 0 0 .592 .896 1 1.104 1.408 2 2 2] *)
Local Open Scope Q_scope.
Definition qtol : Q := (1#10000000000).
Definition qatol : Q := (1#10000000).
Definition qrtol : Q := (1#10000000000).
Definition qcurve : obj Q := @mkObj Q [@mkBasis Q 3 [0;0;0;1;2;2;2]%Q 0] [[0;1];[1;3];[2;0];[4;1]]%Q 2 false.
Definition qsurf : obj Q := @mkObj Q [@mkBasis Q 2 [0;0;1;1]%Q 0; @mkBasis Q 3 [0;0;0;1;3;3;3]%Q 0]
  [[0;0];[1;0];[2;1];[3;0];[0;1];[1;2];[2;2];[3;3]]%Q 2 false.
Definition qp1 : obj Q := @mkObj Q [@mkBasis Q 1 [0;1;2;3]%Q 0] [[0];[1];[2]]%Q 1 false.
Definition qphi (x : Q) : Q := (x*x*x + x)%Q.
Definition qknots (r : res (obj Q)) (d : nat) : list Q :=
  match r with Ok o => map Qred (b_knots (nth d (o_bases o) (@mkBasis Q 0 [] 0))) | Err _ => [] end.
Definition qcps (r : res (obj Q)) : list (list Q) := match r with Ok o => map (map Qred) (o_cps o) | Err _ => [] end.
Definition qeval (r : res (obj Q)) (ts : list Q) : list Q :=
  match r with Ok o => match @obj_eval Q NumQ qtol o ts with Ok v => map Qred v | Err _ => [] end | Err _ => [] end.

Example q_geometric :
  let r := @geometric_refine Q NumQ qtol qatol qrtol qcurve 2 3 0 false in
  qknots r 0 = [0; 0; 0; 2#15; 2#5; 14#15; 1; 2; 2; 2]%Q /\ qeval r [3#10]%Q = [111#200; 377#200]%Q /\
  qcps r = [[0; 1]; [2#15; 19#15]; [38#75; 47#25]; [86#75; 59#25]; [22#15; 8#5]; [2; 0]; [4; 1]]%Q /\
  qeval (Ok qcurve) [3#10]%Q = [111#200; 377#200]%Q.
Proof. vm_compute. repeat split; reflexivity. Qed.
Example q_geometric_reverse :
  let r := @geometric_refine Q NumQ qtol qatol qrtol qcurve (1#2) 3 0 true in
  qknots r 0 = [0; 0; 0; 2#15; 2#5; 14#15; 1; 2; 2; 2]%Q /\ qeval r [3#10]%Q = [111#200; 377#200]%Q /\
  qcps r = [[0; 1]; [2#15; 19#15]; [38#75; 47#25]; [86#75; 59#25]; [22#15; 8#5]; [2; 0]; [4; 1]]%Q.
Proof. vm_compute. repeat split; reflexivity. Qed.
Example q_geometric_alpha1_not_first_span : qknots (@geometric_refine Q NumQ qtol qatol qrtol qcurve 1 3 0 false) 0 = [0; 0; 0; 1#2; 1; 3#2; 2; 2; 2]%Q.
Proof. vm_compute. reflexivity. Qed.
Example q_geometric_alpha0_nothing : qknots (@geometric_refine Q NumQ qtol qatol qrtol qcurve 0 3 0 false) 0 = [0; 0; 0; 1; 2; 2; 2]%Q.
Proof. vm_compute. reflexivity. Qed.
Example q_geometric_negative_alpha : @geometric_refine Q NumQ qtol qatol qrtol qcurve (-1#2) 2 0 false = Err ValueError /\
  @geometric_refine Q NumQ qtol qatol qrtol qcurve (-1#2) 2 0 true = Err ValueError /\
  @geometric_refine Q NumQ qtol qatol qrtol qcurve (-1) 1 0 false = Err Singular /\
  qknots (@geometric_refine Q NumQ qtol qatol qrtol qcurve (-1) 2 0 false) 0 = [0; 0; 0; 1; 2; 2; 2]%Q /\
  @geometric_refine Q NumQ qtol qatol qrtol qcurve 2 0 0 false = Err ValueError.
Proof. vm_compute. repeat split; reflexivity. Qed.
Example q_refine :
  let r := @obj_refine Q NumQ qtol qcurve [2%nat] None in
  qknots r 0 = [0; 0; 0; 1#3; 2#3; 1; 4#3; 5#3; 2; 2; 2]%Q /\ qeval r [3#10]%Q = [111#200; 377#200]%Q /\
  qcps r = [[0; 1]; [1#3; 5#3]; [8#9; 20#9]; [4#3; 2]; [5#3; 1]; [7#3; 5#9]; [10#3; 2#3]; [4; 1]]%Q.
Proof. vm_compute. repeat split; reflexivity. Qed.
Example q_refine_surface :
  let r3 := @obj_refine Q NumQ qtol qsurf [1;2;3]%nat None in
  let r2 := @obj_refine Q NumQ qtol qsurf [1;2]%nat (Some 0%nat) in
  let r1 := @obj_refine Q NumQ qtol qsurf [1]%nat (Some 1%nat) in
  (qknots r3 0, qknots r3 1) = ([0; 0; 1#2; 1; 1], [0; 0; 0; 1#3; 2#3; 1; 5#3; 7#3; 3; 3; 3])%Q /\
  (qknots r2 0, qknots r2 1) = ([0; 0; 1#2; 1; 1], [0; 0; 0; 1#3; 2#3; 1; 5#3; 7#3; 3; 3; 3])%Q /\
  (qknots r1 0, qknots r1 1) = ([0; 0; 1; 1], [0; 0; 0; 1#2; 1; 2; 3; 3; 3])%Q.
Proof. vm_compute. repeat split; reflexivity. Qed.
(* order 1: knots(direction) is [start] only (knots[0:-0] in knot_spans), so refine and geometric_refine insert nothing *)
Example q_order1_nothing :
  qknots (@obj_refine Q NumQ qtol qp1 [2%nat] None) 0 = [0; 1; 2; 3]%Q /\
  qknots (@geometric_refine Q NumQ qtol qatol qrtol qp1 2 3 0 false) 0 = [0; 1; 2; 3]%Q.
Proof. vm_compute. split; reflexivity. Qed.
Example q_center_refine :
  let r := @graded_refine Q NumQ qphi qtol qatol qrtol qcurve 1 3 0 in
  qknots r 0 = [0; 0; 0; 11#16; 1; 21#16; 2; 2; 2]%Q /\ qeval r [3#10]%Q = [111#200; 377#200]%Q /\
  qknots (@graded_refine Q NumQ qphi qtol qatol qrtol qcurve 1 4 0) 0 = [0; 0; 0; 74#125; 112#125; 1; 138#125; 176#125; 2; 2; 2]%Q /\
  @graded_refine Q NumQ qphi qtol qatol qrtol qcurve 0 3 0 = Err Singular.
Proof. vm_compute. repeat split; reflexivity. Qed.

Print Assumptions geo_candidates_closed.
Print Assumptions geo_x_props.
Print Assumptions geo_inserted_props.
Print Assumptions spans_facts.
Print Assumptions spans_first_lt_last.
Print Assumptions refine_new_In.
Print Assumptions refine_new_length.
Print Assumptions refine_new_sorted.
Print Assumptions graded_props.
Print Assumptions edge_refine_knots.
Print Assumptions center_refine_knots.
Print Assumptions geometric_refine_eval.
Print Assumptions geometric_refine_eval_order2.
Print Assumptions refine_dir_eval.
Print Assumptions refine_direction_eval.
Print Assumptions graded_refine_eval.
Print Assumptions geometric_refine_reverse_decomp.
Print Assumptions geometric_refine_reversed_middle.
