(* C18: the abstract numbering is a bijection between the distinct geometric points and 0..ncps-1, shared
   consistently by all patches. *)
From Coq Require Import List Arith Lia Bool.
From SplipyModel Require Import Model.Numbering Model.Orient Proofs.OrientProofs.
Import ListNotations.

(* invariant of the table: keys distinct, values are exactly 0..next-1 and determine the key *)
Definition tbl_inv (tbl : list (nat * nat)) (next : nat) : Prop :=
  NoDup (map fst tbl) /\ NoDup (map snd tbl) /\ (forall v, In v (map snd tbl) <-> v < next) /\ length tbl = next.

Lemma lookup_key_some k tbl v : lookup_key k tbl = Some v -> In (k, v) tbl.
Proof.
  induction tbl as [|[k' v'] r IH]; cbn; [discriminate|].
  destruct (Nat.eqb_spec k k') as [->|]; [intros [= ->]; left; reflexivity|intros H; right; apply IH, H].
Qed.
Lemma lookup_key_none k tbl : lookup_key k tbl = None -> ~ In k (map fst tbl).
Proof.
  induction tbl as [|[k' v'] r IH]; cbn; [intros _ []|].
  destruct (Nat.eqb_spec k k') as [->|N]; [discriminate|]. intros H [E|I]; [congruence|]. apply (IH H I).
Qed.
Lemma lookup_key_in k v tbl : NoDup (map fst tbl) -> In (k, v) tbl -> lookup_key k tbl = Some v.
Proof.
  induction tbl as [|[k' v'] r IH]; cbn; [intros _ []|]. intros ND [E|I].
  - injection E as -> ->. rewrite Nat.eqb_refl. reflexivity.
  - inversion ND as [|? ? Hn ND']; subst. destruct (Nat.eqb_spec k k') as [->|]; [|apply IH; assumption].
    exfalso. apply Hn. apply (in_map fst) in I. exact I.
Qed.

Lemma tbl_inv_extend tbl next p : tbl_inv tbl next -> ~ In p (map fst tbl) -> tbl_inv ((p, next) :: tbl) (S next).
Proof.
  intros (N1 & N2 & R & L) Hp. unfold tbl_inv. cbn [map fst snd length]. repeat split.
  - constructor; assumption.
  - constructor; [|assumption]. intros I. apply R in I. lia.
  - intros [E|I]; [lia|apply R in I; lia].
  - intros Hv. destruct (Nat.eq_dec v next) as [->|]; [left; reflexivity|right; apply R; lia].
  - lia.
Qed.

Lemma tbl_inv_nil : tbl_inv [] 0.
Proof.
  unfold tbl_inv. cbn [map length]. split; [apply NoDup_nil|]. split; [apply NoDup_nil|]. split; [|reflexivity].
  intros v. split; [intros []|lia].
Qed.

(* the table only grows *)
Lemma number_patch_mono pts : forall tbl next ns t nx, number_patch pts tbl next = (ns, t, nx) ->
  (forall kv, In kv tbl -> In kv t) /\ next <= nx.
Proof.
  induction pts as [|p r IH]; intros tbl next ns t nx H; cbn in H.
  - injection H as <- <- <-. split; [auto|lia].
  - destruct (lookup_key p tbl) as [v|] eqn:E.
    + destruct (number_patch r tbl next) as [[ns' t'] nx'] eqn:E2. injection H as <- <- <-. apply (IH _ _ _ _ _ E2).
    + destruct (number_patch r ((p, next) :: tbl) (S next)) as [[ns' t'] nx'] eqn:E2. injection H as <- <- <-.
      destruct (IH _ _ _ _ _ E2) as [M1 M2]. split; [intros kv I; apply M1; right; exact I|lia].
Qed.

(* one patch: invariant kept, every point of the patch is in the table with the number reported for it *)
Lemma number_patch_spec pts : forall tbl next ns t nx, tbl_inv tbl next -> number_patch pts tbl next = (ns, t, nx) ->
  tbl_inv t nx /\ length ns = length pts /\ forall i, i < length pts -> In (nth i pts 0, nth i ns 0) t.
Proof.
  induction pts as [|p r IH]; intros tbl next ns t nx Inv H; cbn in H.
  - injection H as <- <- <-. split; [exact Inv|]. split; [reflexivity|]. intros i Hi. cbn in Hi. lia.
  - destruct (lookup_key p tbl) as [v|] eqn:E.
    + destruct (number_patch r tbl next) as [[ns' t'] nx'] eqn:E2. injection H as <- <- <-.
      destruct (IH _ _ _ _ _ Inv E2) as (I1 & I2 & I3). split; [exact I1|]. split; [cbn; lia|].
      intros [|i] Hi; cbn [nth].
      * apply (number_patch_mono r _ _ _ _ _ E2). apply lookup_key_some, E.
      * apply I3. cbn in Hi. lia.
    + destruct (number_patch r ((p, next) :: tbl) (S next)) as [[ns' t'] nx'] eqn:E2. injection H as <- <- <-.
      pose proof (tbl_inv_extend tbl next p Inv (lookup_key_none p tbl E)) as Inv'.
      destruct (IH _ _ _ _ _ Inv' E2) as (I1 & I2 & I3). split; [exact I1|]. split; [cbn; lia|].
      intros [|i] Hi; cbn [nth].
      * apply (number_patch_mono r _ _ _ _ _ E2). left. reflexivity.
      * apply I3. cbn in Hi. lia.
Qed.

Lemma number_patches_mono ps : forall tbl next nss t nx, number_patches ps tbl next = (nss, t, nx) ->
  forall kv, In kv tbl -> In kv t.
Proof.
  induction ps as [|p r IH]; intros tbl next nss t nx H kv I; cbn in H.
  - injection H as <- <- <-. exact I.
  - destruct (number_patch p tbl next) as [[ns t1] nx1] eqn:E1.
    destruct (number_patches r t1 nx1) as [[rest t2] nx2] eqn:E2. injection H as <- <- <-.
    apply (IH _ _ _ _ _ E2). apply (number_patch_mono p _ _ _ _ _ E1). exact I.
Qed.

Lemma number_patches_spec ps : forall tbl next nss t nx, tbl_inv tbl next -> number_patches ps tbl next = (nss, t, nx) ->
  tbl_inv t nx /\ length nss = length ps /\
  forall a i, a < length ps -> i < length (nth a ps []) -> In (nth i (nth a ps []) 0, nth i (nth a nss []) 0) t.
Proof.
  induction ps as [|p r IH]; intros tbl next nss t nx Inv H; cbn in H.
  - injection H as <- <- <-. split; [exact Inv|]. split; [reflexivity|]. intros a i Ha. cbn in Ha. lia.
  - destruct (number_patch p tbl next) as [[ns t1] nx1] eqn:E1.
    destruct (number_patches r t1 nx1) as [[rest t2] nx2] eqn:E2. injection H as <- <- <-.
    destruct (number_patch_spec p _ _ _ _ _ Inv E1) as (J1 & J2 & J3).
    destruct (IH _ _ _ _ _ J1 E2) as (K1 & K2 & K3). split; [exact K1|]. split; [cbn; lia|].
    intros [|a] i Ha Hi; cbn [nth] in *.
    + apply (number_patches_mono r _ _ _ _ _ E2). apply J3. exact Hi.
    + apply K3; [cbn in Ha; lia|exact Hi].
Qed.

(* main theorem: two control points anywhere in the model carry the same number exactly when they are the same
   geometric point; the numbers used are exactly 0 .. ncps-1 *)
Theorem numbering_correct ps nss ncps : number_model ps = (nss, ncps) ->
  length nss = length ps /\
  (forall a i b j, a < length ps -> i < length (nth a ps []) -> b < length ps -> j < length (nth b ps []) ->
     (nth i (nth a nss []) 0 = nth j (nth b nss []) 0 <-> nth i (nth a ps []) 0 = nth j (nth b ps []) 0)) /\
  (forall a i, a < length ps -> i < length (nth a ps []) -> nth i (nth a nss []) 0 < ncps).
Proof.
  unfold number_model. destruct (number_patches ps [] 0) as [[nss' t] nx] eqn:E. intros [= <- <-].
  pose proof tbl_inv_nil as Inv0.
  destruct (number_patches_spec ps _ _ _ _ _ Inv0 E) as ((N1 & N2 & R & L) & K2 & K3).
  split; [exact K2|]. split.
  - intros a i b j Ha Hi Hb Hj. pose proof (K3 a i Ha Hi) as I1. pose proof (K3 b j Hb Hj) as I2.
    set (p1 := nth i (nth a ps []) 0) in *. set (p2 := nth j (nth b ps []) 0) in *.
    set (v1 := nth i (nth a nss' []) 0) in *. set (v2 := nth j (nth b nss' []) 0) in *.
    split; intros Eq.
    + (* same number -> same key: values are distinct in the table *)
      rewrite Eq in I1. clear -N2 I1 I2.
      induction t as [|[k v] r IH]; [destruct I1|]. cbn [map snd] in N2. inversion N2 as [|? ? Hn N2']; subst.
      destruct I1 as [E1|I1], I2 as [E2|I2].
      * congruence.
      * injection E1 as -> ->. exfalso. apply Hn. apply (in_map snd) in I2. exact I2.
      * injection E2 as -> ->. exfalso. apply Hn. apply (in_map snd) in I1. exact I1.
      * apply IH; assumption.
    + (* same key -> same number: keys are distinct in the table *)
      rewrite Eq in I1. pose proof (lookup_key_in _ _ _ N1 I1) as L1. pose proof (lookup_key_in _ _ _ N1 I2) as L2. congruence.
  - intros a i Ha Hi. apply R. pose proof (K3 a i Ha Hi) as I. apply (in_map snd) in I. exact I.
Qed.

(* every number below ncps is used: the numbers in the table are exactly the numbers of points of patches, when the
   table starts empty (all entries come from patch points) *)
Lemma number_patch_origin pts : forall tbl next ns t nx, number_patch pts tbl next = (ns, t, nx) ->
  forall kv, In kv t -> In kv tbl \/ exists i, i < length pts /\ nth i pts 0 = fst kv /\ nth i ns 0 = snd kv.
Proof.
  induction pts as [|p r IH]; intros tbl next ns t nx H kv I; cbn in H.
  - injection H as <- <- <-. left. exact I.
  - destruct (lookup_key p tbl) as [v|] eqn:E.
    + destruct (number_patch r tbl next) as [[ns' t'] nx'] eqn:E2. injection H as <- <- <-.
      destruct (IH _ _ _ _ _ E2 kv I) as [Il|(i & Hi & E1 & E3)]; [left; exact Il|].
      right. exists (S i). cbn. split; [lia|split; assumption].
    + destruct (number_patch r ((p, next) :: tbl) (S next)) as [[ns' t'] nx'] eqn:E2. injection H as <- <- <-.
      destruct (IH _ _ _ _ _ E2 kv I) as [[Il|Il]|(i & Hi & E1 & E3)].
      * right. exists 0. subst kv. cbn. split; [lia|split; reflexivity].
      * left. exact Il.
      * right. exists (S i). cbn. split; [lia|split; assumption].
Qed.
Lemma number_patches_origin ps : forall tbl next nss t nx, number_patches ps tbl next = (nss, t, nx) ->
  forall kv, In kv t -> In kv tbl \/ exists a i, a < length ps /\ i < length (nth a ps []) /\ nth i (nth a ps []) 0 = fst kv /\ nth i (nth a nss []) 0 = snd kv.
Proof.
  induction ps as [|p r IH]; intros tbl next nss t nx H kv I; cbn in H.
  - injection H as <- <- <-. left. exact I.
  - destruct (number_patch p tbl next) as [[ns t1] nx1] eqn:E1.
    destruct (number_patches r t1 nx1) as [[rest t2] nx2] eqn:E2. injection H as <- <- <-.
    destruct (IH _ _ _ _ _ E2 kv I) as [I1|(a & i & Ha & Hi & F1 & F2)].
    + destruct (number_patch_origin p _ _ _ _ _ E1 kv I1) as [Il|(i & Hi & F1 & F2)]; [left; exact Il|].
      right. exists 0, i. cbn. split; [lia|]. split; [exact Hi|split; assumption].
    + right. exists (S a), i. cbn. split; [lia|]. split; [exact Hi|split; assumption].
Qed.
Theorem numbering_surjective ps nss ncps : number_model ps = (nss, ncps) ->
  forall v, v < ncps -> exists a i, a < length ps /\ i < length (nth a ps []) /\ nth i (nth a nss []) 0 = v.
Proof.
  unfold number_model. destruct (number_patches ps [] 0) as [[nss' t] nx] eqn:E. intros [= <- <-] v Hv.
  pose proof tbl_inv_nil as Inv0.
  destruct (number_patches_spec ps _ _ _ _ _ Inv0 E) as ((N1 & N2 & R & L) & _ & _).
  apply R in Hv. apply in_map_iff in Hv. destruct Hv as ([k v'] & Ev & I). cbn in Ev. subst v'.
  destruct (number_patches_origin ps _ _ _ _ _ E (k, v) I) as [[]|(a & i & Ha & Hi & _ & F2)].
  exists a, i. repeat split; assumption.
Qed.

(* the IFEM orientation flag determines the orientation of a face (8 cases) or an edge (2 cases) *)
Theorem ifem_flag_injective : forall n, 1 <= n <= 2 ->
  forallb (fun a => forallb (fun b => implb (match oifem a, oifem b with Some x, Some y => x =? y | _, _ => false end) (orient_eqb a b))
                            (all_orients n)) (all_orients n) = true.
Proof. intros n Hn. destruct n as [|[|[|n]]]; [lia| | |lia]; vm_compute; reflexivity. Qed.
