(* C20 (settings half): with-blocks restore every setting however they end; only top-level assignments write. *)
From Coq Require Import List Bool Arith Lia.
From SplipyModel Require Import Model.StateCtx.
Import ListNotations.

Section P.
Variable V : Type.
Local Notation settings := (settings V).
Local Notation prog := (prog V).

Lemma restore_spec (before s : settings) k :
  restore V before s k = if (k <? NSTATES)%nat then before k else s k.
Proof.
  unfold restore, NSTATES.
  assert (G : forall n (s0 : settings), (forall j, (j < n)%nat -> True) ->
     fold_left (fun s' j => supd V s' j (before j)) (seq 0 n) s0 k = if (k <? n)%nat then before k else s0 k).
  { induction n as [|n IH]; intros s0 _; [reflexivity|].
    rewrite seq_S, fold_left_app. cbn [fold_left Nat.add]. unfold supd at 1.
    destruct (Nat.eqb_spec k n) as [->|N].
    - destruct (Nat.ltb_spec n (S n)); [reflexivity|lia].
    - rewrite IH by auto. destruct (Nat.ltb_spec k n); destruct (Nat.ltb_spec k (S n)); try reflexivity; lia. }
  apply G. auto.
Qed.

(* C20: whatever the body does and however it ends (normally or by an exception, at any nesting depth),
   every one of the six settings has its previous value after the with-block *)
Theorem with_restores (kvs : list (nat * V)) (body : prog) (s : settings) k : (k < NSTATES)%nat ->
  fst (exec V (With kvs body) s) k = s k.
Proof.
  intros Hk. cbn [exec fst]. rewrite restore_spec. destruct (Nat.ltb_spec k NSTATES); [reflexivity|lia].
Qed.

(* the outcome of the block is the outcome of its body: exceptions propagate *)
Theorem with_propagates (kvs : list (nat * V)) (body : prog) (s : settings) :
  snd (exec V (With kvs body) s) = snd (exec V body (set_all V s kvs)).
Proof. reflexivity. Qed.

(* inside the block the requested settings are in force *)
Lemma set_all_last (s : settings) kvs k v : (forall v', In (k, v') kvs -> v' = v) -> In k (map fst kvs) ->
  set_all V s kvs k = v.
Proof.
  unfold set_all. revert s. induction kvs as [|[k0 v0] kvs IH]; intros s Hu Hin; [contradiction|].
  cbn [fold_left fst snd].
  destruct (in_dec Nat.eq_dec k (map fst kvs)) as [I|NI].
  - apply IH; [intros; apply Hu; right; assumption|exact I].
  - destruct Hin as [E|I]; [|contradiction]. cbn in E. subst k0.
    assert (G : forall (l : list (nat * V)) s0, ~ In k (map fst l) -> fold_left (fun s' kv => supd V s' (fst kv) (snd kv)) l s0 k = s0 k).
    { induction l as [|[a b] l IHl]; intros s0 Hn; [reflexivity|]. cbn [fold_left fst snd]. rewrite IHl by (intro; apply Hn; right; assumption).
      unfold supd. destruct (Nat.eqb_spec k a); [exfalso; apply Hn; left; cbn; congruence|reflexivity]. }
    rewrite (G kvs _ NI). unfold supd. rewrite Nat.eqb_refl. apply Hu. left. reflexivity.
Qed.

(* no program changes a setting that is not assigned at top level (outside every with-block);
   library calls write nothing *)
Theorem only_assign_writes (p : prog) : forall (s : settings) k, (k < NSTATES)%nat ->
  ~ In k (top_assigned V p) -> fst (exec V p s) k = s k.
Proof.
  induction p as [k0 v|kvs body IH|p IHp q IHq| | |api]; intros s k Hk Hn; cbn [exec fst].
  - unfold supd. destruct (Nat.eqb_spec k k0); [exfalso; apply Hn; left; congruence|reflexivity].
  - rewrite restore_spec. destruct (Nat.ltb_spec k NSTATES); [reflexivity|lia].
  - cbn [top_assigned] in Hn. destruct (snd (exec V p s)) eqn:E.
    + rewrite IHq by (try assumption; intro; apply Hn; apply in_or_app; right; assumption).
      apply IHp; [assumption|intro; apply Hn; apply in_or_app; left; assumption].
    + apply IHp; [assumption|intro; apply Hn; apply in_or_app; left; assumption].
  - reflexivity.
  - reflexivity.
  - reflexivity.
Qed.
End P.

(* the code before the repair leaked: a witness *)
Theorem with_restores_unrepaired_refuted :
  exists (p : StateCtx.prog nat) (s : StateCtx.settings nat) k, (k < NSTATES)%nat /\ fst (exec_old nat p s) k <> s k.
Proof.
  exists (With [(4, 7)] Raise), (fun _ => 0), 4. split; [unfold NSTATES; lia|]. cbn. discriminate.
Qed.
