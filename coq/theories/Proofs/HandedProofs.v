(* C17: handedness.  utils.is_right_hand, its behaviour under re-orientation (swap / reverse), and the
   force_right_hand clause of SplineModel._validate.  Model: Model/Handed.v. *)
From Coq Require Import List Arith Reals Lra Lia Bool ZArith Psatz.
From Coquelicot Require Import Coquelicot.
From SplipyModel Require Import Spec.BSpline Model.Num Model.BasisDef Model.Tensor Model.Obj Model.Orient Model.KnotInsert
  Model.Reparam Model.Handed Proofs.OrientProofs Proofs.ObjEval Proofs.InsertEndToEnd
  Proofs.SwapEndToEnd Proofs.ReverseEndToEnd Proofs.DefaultObjProofs.
Import ListNotations.
Open Scope R_scope.

(* ================================================================================================ *)
(* 1. algebra of the triple product and of the scalar cross product                                   *)

Lemma vc_vneg (v : list R) i : @vc R NumR (@vneg R NumR v) i = - @vc R NumR v i.
Proof.
  unfold vc, vneg. revert i. induction v as [|x v IH]; intros i.
  - destruct i; cbn; ring.
  - destruct i; cbn [map nth]; [unfold nneg; cbn; ring|apply IH].
Qed.

Ltac alg := unfold triple3, dot3, cross3, cross2, dot2; cbn [nadd nsub nmul ndiv n0 n1 NumR];
  repeat (change (@vc R NumR (?a :: ?l) 0%nat) with a; change (@vc R NumR (?a :: ?b :: ?l) 1%nat) with b;
          change (@vc R NumR (?a :: ?b :: ?c :: ?l) 2%nat) with c);
  rewrite ?vc_vneg.

(* alternating *)
Lemma triple3_swap12 du dv dw : @triple3 R NumR dv du dw = - @triple3 R NumR du dv dw.
Proof. alg. ring. Qed.
Lemma triple3_swap13 du dv dw : @triple3 R NumR dw dv du = - @triple3 R NumR du dv dw.
Proof. alg. ring. Qed.
Lemma triple3_swap23 du dv dw : @triple3 R NumR du dw dv = - @triple3 R NumR du dv dw.
Proof. alg. ring. Qed.
Lemma triple3_cycle du dv dw : @triple3 R NumR dv dw du = @triple3 R NumR du dv dw.
Proof. alg. ring. Qed.
Lemma cross2_swap du dv : @cross2 R NumR dv du = - @cross2 R NumR du dv.
Proof. alg. ring. Qed.
(* odd in each argument *)
Lemma triple3_neg1 du dv dw : @triple3 R NumR (@vneg R NumR du) dv dw = - @triple3 R NumR du dv dw.
Proof. alg. ring. Qed.
Lemma triple3_neg2 du dv dw : @triple3 R NumR du (@vneg R NumR dv) dw = - @triple3 R NumR du dv dw.
Proof. alg. ring. Qed.
Lemma triple3_neg3 du dv dw : @triple3 R NumR du dv (@vneg R NumR dw) = - @triple3 R NumR du dv dw.
Proof. alg. ring. Qed.
Lemma cross2_neg1 du dv : @cross2 R NumR (@vneg R NumR du) dv = - @cross2 R NumR du dv.
Proof. alg. ring. Qed.
Lemma cross2_neg2 du dv : @cross2 R NumR du (@vneg R NumR dv) = - @cross2 R NumR du dv.
Proof. alg. ring. Qed.
(* a repeated argument kills it *)
Lemma triple3_rep12 du dw : @triple3 R NumR du du dw = 0.
Proof. alg. ring. Qed.
Lemma cross2_rep du : @cross2 R NumR du du = 0.
Proof. alg. ring. Qed.

(* the finite sets of orientations *)
Definition A2 : list orient := Eval vm_compute in all_orients 2.
Definition A3 : list orient := Eval vm_compute in all_orients 3.
Lemma A2_eq : A2 = all_orients 2. Proof. vm_compute. reflexivity. Qed.
Lemma A3_eq : A3 = all_orients 3. Proof. vm_compute. reflexivity. Qed.

Lemma signed_perm_A3 o : signed_perm 3 o -> In o A3.
Proof. intros Ho. rewrite A3_eq. exact (all_candidates 3 o Ho). Qed.
Lemma signed_perm_A2 o : signed_perm 2 o -> In o A2.
Proof. intros Ho. rewrite A2_eq. exact (all_candidates 2 o Ho). Qed.

Lemma osign_R o : @osign R NumR o = if oparity o then -1 else 1.
Proof. unfold osign. destruct (oparity o); [unfold nneg; cbn; ring|reflexivity]. Qed.

Ltac enum H := unfold A2, A3 in H; cbn [In] in H;
  repeat (destruct H as [H|H]; [subst|]); [..|contradiction].

(* the derivative vectors of a re-oriented volume / surface have sign(o) times the triple / cross product *)
Theorem triple3_oapply o du dv dw : In o A3 ->
  let ds := @oapply R NumR o [du; dv; dw] in
  @triple3 R NumR (nth 0 ds []) (nth 1 ds []) (nth 2 ds []) = @osign R NumR o * @triple3 R NumR du dv dw.
Proof.
  intros Ho. enum Ho; cbv zeta; rewrite osign_R; cbn [oapply o_perm o_flip length seq map nth oparity perm_odd inv_head flips_odd fold_right xorb Nat.ltb Nat.leb];
    alg; ring.
Qed.

Theorem cross2_oapply o du dv : In o A2 ->
  let ds := @oapply R NumR o [du; dv] in
  @cross2 R NumR (nth 0 ds []) (nth 1 ds []) = @osign R NumR o * @cross2 R NumR du dv.
Proof.
  intros Ho. enum Ho; cbv zeta; rewrite osign_R; cbn [oapply o_perm o_flip length seq map nth oparity perm_odd inv_head flips_odd fold_right xorb Nat.ltb Nat.leb];
    alg; ring.
Qed.

(* the enumerated orientations are exactly the signed permutations (Proofs/OrientProofs.v signed_perm) *)
Lemma A3_signed_perm o : In o A3 -> signed_perm 3 o.
Proof.
  intros Ho. enum Ho; (split; [repeat constructor; cbn; intuition lia|split; [intros x; cbn; lia|reflexivity]]).
Qed.
Lemma A2_signed_perm o : In o A2 -> signed_perm 2 o.
Proof.
  intros Ho. enum Ho; (split; [repeat constructor; cbn; intuition lia|split; [intros x; cbn; lia|reflexivity]]).
Qed.
Lemma signed_perm_wf n o : signed_perm n o -> wf_orient n o.
Proof.
  intros (Hnd & Hin & Hf). split; [|split; [exact Hf|]].
  - assert (P : Permutation.Permutation (o_perm o) (seq 0 n)).
    { apply Permutation.NoDup_Permutation; [exact Hnd|apply seq_NoDup|]. intros x. rewrite Hin, in_seq. lia. }
    rewrite (Permutation.Permutation_length P). apply seq_length.
  - apply Forall_forall. intros x Hx. apply Hin. exact Hx.
Qed.

(* ---- parity is a homomorphism ---- *)
Definition orient_eq_dec (a b : orient) : {a = b} + {a <> b}.
Proof. decide equality; [apply (list_eq_dec Bool.bool_dec)|apply (list_eq_dec Nat.eq_dec)]. Defined.
Definition omem (o : orient) (l : list orient) : bool := if in_dec orient_eq_dec o l then true else false.
Lemma omem_In o l : omem o l = true -> In o l.
Proof. unfold omem. destruct (in_dec orient_eq_dec o l); [auto|discriminate]. Qed.

Lemma forallb2_lift (l : list orient) (P : orient -> orient -> bool) :
  forallb (fun a => forallb (fun b => P a b) l) l = true -> forall a b, In a l -> In b l -> P a b = true.
Proof. intros Hf a b Ha Hb. rewrite forallb_forall in Hf. specialize (Hf a Ha). rewrite forallb_forall in Hf. exact (Hf b Hb). Qed.

Lemma compose_closed3 a b : In a A3 -> In b A3 -> In (ocompose a b) A3.
Proof.
  intros Ha Hb. apply omem_In. revert a b Ha Hb. apply (forallb2_lift A3 (fun a b => omem (ocompose a b) A3)).
  vm_compute. reflexivity.
Qed.
Lemma compose_closed2 a b : In a A2 -> In b A2 -> In (ocompose a b) A2.
Proof.
  intros Ha Hb. apply omem_In. revert a b Ha Hb. apply (forallb2_lift A2 (fun a b => omem (ocompose a b) A2)).
  vm_compute. reflexivity.
Qed.

Lemma oparity_compose_A3 a b : In a A3 -> In b A3 -> oparity (ocompose a b) = xorb (oparity a) (oparity b).
Proof.
  intros Ha Hb. apply Bool.eqb_prop. revert a b Ha Hb.
  apply (forallb2_lift A3 (fun a b => Bool.eqb (oparity (ocompose a b)) (xorb (oparity a) (oparity b)))).
  vm_compute. reflexivity.
Qed.
Lemma oparity_compose_A2 a b : In a A2 -> In b A2 -> oparity (ocompose a b) = xorb (oparity a) (oparity b).
Proof.
  intros Ha Hb. apply Bool.eqb_prop. revert a b Ha Hb.
  apply (forallb2_lift A2 (fun a b => Bool.eqb (oparity (ocompose a b)) (xorb (oparity a) (oparity b)))).
  vm_compute. reflexivity.
Qed.

(* stated on the signed permutations of the development *)
Theorem oparity_compose n a b : (n = 2 \/ n = 3)%nat -> signed_perm n a -> signed_perm n b ->
  signed_perm n (ocompose a b) /\ oparity (ocompose a b) = xorb (oparity a) (oparity b).
Proof.
  intros [->| ->] Ha Hb.
  - apply signed_perm_A2 in Ha. apply signed_perm_A2 in Hb. split; [apply A2_signed_perm, compose_closed2; assumption|apply oparity_compose_A2; assumption].
  - apply signed_perm_A3 in Ha. apply signed_perm_A3 in Hb. split; [apply A3_signed_perm, compose_closed3; assumption|apply oparity_compose_A3; assumption].
Qed.
Lemma oparity_ident n : oparity (oident n) = false.
Proof.
  unfold oparity, oident. cbn [o_perm o_flip].
  assert (E1 : forall m s, perm_odd (seq s m) = false).
  { induction m as [|m IH]; intros s; [reflexivity|]. cbn [seq perm_odd]. rewrite IH.
    assert (E : forall k t, (s < t)%nat -> inv_head s (seq t k) = false).
    { induction k as [|k IHk]; intros t Ht; [reflexivity|]. cbn [seq inv_head]. rewrite IHk by lia.
      destruct (Nat.ltb_spec t s); [lia|reflexivity]. }
    rewrite E by lia. reflexivity. }
  assert (E2 : flips_odd (repeat false n) = false) by (induction n as [|m IH]; [reflexivity|unfold flips_odd in *; cbn [repeat fold_right]; rewrite IH; reflexivity]).
  rewrite E1, E2. reflexivity.
Qed.

(* ---- the action on derivative tuples is compatible with composition (any number of directions) ---- *)
Lemma vneg_invol (v : list R) : @vneg R NumR (@vneg R NumR v) = v.
Proof. unfold vneg. rewrite map_map. rewrite <- (map_id v) at 2. apply map_ext. intros x. unfold nneg; cbn; ring. Qed.

Theorem oapply_compose n l r (ds : list (list R)) : wf_orient n l -> wf_orient n r ->
  @oapply R NumR (ocompose l r) ds = @oapply R NumR l (@oapply R NumR r ds).
Proof.
  intros Hl Hr. pose proof (ocompose_wf n l r Hl Hr) as (Llr & _ & _).
  pose proof Hl as (Ll & Fl & Pl). pose proof Hr as (Lr & Fr & Pr).
  unfold oapply at 1 2. rewrite Llr, Ll. apply map_ext_in. intros d Hd. apply in_seq in Hd. cbv zeta.
  rewrite (ocompose_perm n l r d Hl) by lia. rewrite (ocompose_flip n l r d Hl) by lia.
  assert (Hld : (nth d (o_perm l) 0 < n)%nat) by (apply (wf_perm_lt n l); [exact Hl|lia]).
  unfold oapply. rewrite Lr. rewrite nth_map_seq_nat by exact Hld.
  destruct (nth d (o_flip l) false), (nth (nth d (o_perm l) 0%nat) (o_flip r) false); cbn [xorb]; try reflexivity.
  rewrite vneg_invol. reflexivity.
Qed.

(* ---- swap and reverse as orientations; sequences of them ---- *)
Definition valid_step (n : nat) (s : rstep) : Prop :=
  match s with RSwap d1 d2 => d1 <> d2 /\ (d1 < n)%nat /\ (d2 < n)%nat | RRev d => (d < n)%nat end.
Definition valid_stepb (n : nat) (s : rstep) : bool :=
  match s with RSwap d1 d2 => negb (d1 =? d2)%nat && (d1 <? n)%nat && (d2 <? n)%nat | RRev d => (d <? n)%nat end.
Lemma valid_stepb_spec n s : valid_stepb n s = true -> valid_step n s.
Proof.
  destruct s as [d1 d2|d]; cbn [valid_stepb valid_step].
  - intros Hb. apply andb_true_iff in Hb. destruct Hb as [Hb H2]. apply andb_true_iff in Hb. destruct Hb as [H0 H1].
    apply Nat.ltb_lt in H1, H2. apply negb_true_iff in H0. apply Nat.eqb_neq in H0. tauto.
  - apply Nat.ltb_lt.
Qed.

(* every swap of two different directions and every reversal is an odd orientation, and acts on the derivative
   tuple as that orientation *)
Lemma step_A3 s : valid_step 3 s ->
  In (step_orient 3 s) A3 /\ oparity (step_orient 3 s) = true /\
  forall a b c : list R, @step_apply R NumR s [a; b; c] = @oapply R NumR (step_orient 3 s) [a; b; c].
Proof.
  destruct s as [d1 d2|d]; cbn [valid_step].
  - intros (Hne & H1 & H2). destruct d1 as [|[|[|d1]]]; [| | |lia]; (destruct d2 as [|[|[|d2]]]; [| | |lia]); try congruence;
      (split; [apply omem_In; vm_compute; reflexivity|split; [reflexivity|intros a b c; reflexivity]]).
  - intros H. destruct d as [|[|[|d]]]; [| | |lia];
      (split; [apply omem_In; vm_compute; reflexivity|split; [reflexivity|intros a b c; reflexivity]]).
Qed.
Lemma step_A2 s : valid_step 2 s ->
  In (step_orient 2 s) A2 /\ oparity (step_orient 2 s) = true /\
  forall a b : list R, @step_apply R NumR s [a; b] = @oapply R NumR (step_orient 2 s) [a; b].
Proof.
  destruct s as [d1 d2|d]; cbn [valid_step].
  - intros (Hne & H1 & H2). destruct d1 as [|[|d1]]; [| |lia]; (destruct d2 as [|[|d2]]; [| |lia]); try congruence;
      (split; [apply omem_In; vm_compute; reflexivity|split; [reflexivity|intros a b; reflexivity]]).
  - intros H. destruct d as [|[|d]]; [| |lia];
      (split; [apply omem_In; vm_compute; reflexivity|split; [reflexivity|intros a b; reflexivity]]).
Qed.

Lemma odd_S_xorb k : Nat.odd (S k) = xorb (Nat.odd k) true.
Proof. rewrite Nat.odd_succ, <- Nat.negb_odd. destruct (Nat.odd k); reflexivity. Qed.

(* a sequence of k swaps / reversals is an orientation of parity k mod 2 *)
Theorem steps_orient_parity3 w : List.Forall (valid_step 3) w ->
  In (steps_orient 3 w) A3 /\ oparity (steps_orient 3 w) = Nat.odd (length w).
Proof.
  induction 1 as [|s r Hs Hr [IH1 IH2]].
  - split; [apply omem_In; vm_compute; reflexivity|reflexivity].
  - destruct (step_A3 s Hs) as (S1 & S2 & _). cbn [steps_orient length]. split; [apply compose_closed3; assumption|].
    rewrite oparity_compose_A3 by assumption. rewrite IH2, S2. symmetry. apply odd_S_xorb.
Qed.
Theorem steps_orient_parity2 w : List.Forall (valid_step 2) w ->
  In (steps_orient 2 w) A2 /\ oparity (steps_orient 2 w) = Nat.odd (length w).
Proof.
  induction 1 as [|s r Hs Hr [IH1 IH2]].
  - split; [apply omem_In; vm_compute; reflexivity|reflexivity].
  - destruct (step_A2 s Hs) as (S1 & S2 & _). cbn [steps_orient length]. split; [apply compose_closed2; assumption|].
    rewrite oparity_compose_A2 by assumption. rewrite IH2, S2. symmetry. apply odd_S_xorb.
Qed.

Lemma oapply_length o (ds : list (list R)) : length (@oapply R NumR o ds) = length (o_perm o).
Proof. unfold oapply. rewrite map_length, seq_length. reflexivity. Qed.

(* ... and acts on the derivative tuple as that orientation *)
Theorem steps_apply_oapply3 w : List.Forall (valid_step 3) w -> forall ds : list (list R), length ds = 3%nat ->
  @steps_apply R NumR w ds = @oapply R NumR (steps_orient 3 w) ds.
Proof.
  induction 1 as [|s r Hs Hr IH]; intros ds Hds.
  - destruct ds as [|a [|b [|c [|x ds]]]]; try discriminate. reflexivity.
  - destruct ds as [|a [|b [|c [|x ds]]]]; try discriminate.
    destruct (step_A3 s Hs) as (S1 & _ & S3). destruct (steps_orient_parity3 r Hr) as [R1 _].
    unfold steps_apply. cbn [fold_left steps_orient]. fold (@steps_apply R NumR r (@step_apply R NumR s [a; b; c])).
    rewrite S3. rewrite IH.
    + symmetry. apply (oapply_compose 3); apply signed_perm_wf, A3_signed_perm; assumption.
    + rewrite oapply_length. apply A3_signed_perm, signed_perm_wf in S1. apply S1.
Qed.
Theorem steps_apply_oapply2 w : List.Forall (valid_step 2) w -> forall ds : list (list R), length ds = 2%nat ->
  @steps_apply R NumR w ds = @oapply R NumR (steps_orient 2 w) ds.
Proof.
  induction 1 as [|s r Hs Hr IH]; intros ds Hds.
  - destruct ds as [|a [|b [|x ds]]]; try discriminate. reflexivity.
  - destruct ds as [|a [|b [|x ds]]]; try discriminate.
    destruct (step_A2 s Hs) as (S1 & _ & S3). destruct (steps_orient_parity2 r Hr) as [R1 _].
    unfold steps_apply. cbn [fold_left steps_orient]. fold (@steps_apply R NumR r (@step_apply R NumR s [a; b])).
    rewrite S3. rewrite IH.
    + symmetry. apply (oapply_compose 2); apply signed_perm_wf, A2_signed_perm; assumption.
    + rewrite oapply_length. apply A2_signed_perm, signed_perm_wf in S1. apply S1.
Qed.

(* the harness's reorient(obj, perm, flip) (swaps that bring perm[d] to position d, then reversals) realises
   exactly the orientation (perm, flip), for every signed permutation of 2 or 3 directions *)
Lemma forallb_lift (l : list orient) (P : orient -> bool) : forallb P l = true -> forall o, In o l -> P o = true.
Proof. intros Hf o Ho. rewrite forallb_forall in Hf. exact (Hf o Ho). Qed.
Theorem reorient_steps_ok3 o : In o A3 ->
  List.Forall (valid_step 3) (reorient_steps o) /\ steps_orient 3 (reorient_steps o) = o.
Proof.
  intros Ho.
  assert (Hb : (forallb (valid_stepb 3) (reorient_steps o) && (if orient_eq_dec (steps_orient 3 (reorient_steps o)) o then true else false))%bool = true).
  { revert o Ho. apply forallb_lift. vm_compute. reflexivity. }
  apply andb_true_iff in Hb. destruct Hb as [H1 H2]. split.
  - apply Forall_forall. intros s Hs. rewrite forallb_forall in H1. apply valid_stepb_spec, H1, Hs.
  - destruct (orient_eq_dec (steps_orient 3 (reorient_steps o)) o); [assumption|discriminate].
Qed.
Theorem reorient_steps_ok2 o : In o A2 ->
  List.Forall (valid_step 2) (reorient_steps o) /\ steps_orient 2 (reorient_steps o) = o.
Proof.
  intros Ho.
  assert (Hb : (forallb (valid_stepb 2) (reorient_steps o) && (if orient_eq_dec (steps_orient 2 (reorient_steps o)) o then true else false))%bool = true).
  { revert o Ho. apply forallb_lift. vm_compute. reflexivity. }
  apply andb_true_iff in Hb. destruct Hb as [H1 H2]. split.
  - apply Forall_forall. intros s Hs. rewrite forallb_forall in H1. apply valid_stepb_spec, H1, Hs.
  - destruct (orient_eq_dec (steps_orient 2 (reorient_steps o)) o); [assumption|discriminate].
Qed.
Corollary reorient_steps_apply3 o du dv dw : In o A3 ->
  @steps_apply R NumR (reorient_steps o) [du; dv; dw] = @oapply R NumR o [du; dv; dw] /\
  oparity o = Nat.odd (length (reorient_steps o)).
Proof.
  intros Ho. destruct (reorient_steps_ok3 o Ho) as [V E]. split.
  - rewrite (steps_apply_oapply3 _ V) by reflexivity. rewrite E. reflexivity.
  - rewrite <- E at 1. apply steps_orient_parity3, V.
Qed.
Corollary reorient_steps_apply2 o du dv : In o A2 ->
  @steps_apply R NumR (reorient_steps o) [du; dv] = @oapply R NumR o [du; dv] /\
  oparity o = Nat.odd (length (reorient_steps o)).
Proof.
  intros Ho. destruct (reorient_steps_ok2 o Ho) as [V E]. split.
  - rewrite (steps_apply_oapply2 _ V) by reflexivity. rewrite E. reflexivity.
  - rewrite <- E at 1. apply steps_orient_parity2, V.
Qed.

(* ================================================================================================ *)
(* 2. the normalised test value                                                                       *)

Definition norm3 (v : list R) : R := sqrt (@dot3 R NumR v v).
Definition norm2 (v : list R) : R := sqrt (@dot2 R NumR v v).
Definition vdiv (v : list R) (c : R) : list R := map (fun x => x / c) v.
(* du / np.linalg.norm(du) *)
Definition unit3 (v : list R) : list R := vdiv v (norm3 v).
Definition unit2 (v : list R) : list R := vdiv v (norm2 v).
(* np.dot(dw, np.cross(du, dv)) resp. np.cross(du, dv) of the normalised vectors *)
Definition rh_value3 (du dv dw : list R) : R := @triple3 R NumR (unit3 du) (unit3 dv) (unit3 dw).
Definition rh_value2 (du dv : list R) : R := @cross2 R NumR (unit2 du) (unit2 dv).

Lemma vc_vdiv v c i : @vc R NumR (vdiv v c) i = @vc R NumR v i / c.
Proof.
  unfold vc, vdiv. revert i. induction v as [|x v IH]; intros i.
  - destruct i; cbn; unfold Rdiv; ring.
  - destruct i; cbn [map nth]; [reflexivity|apply IH].
Qed.
Lemma dot3_vneg v : @dot3 R NumR (@vneg R NumR v) (@vneg R NumR v) = @dot3 R NumR v v.
Proof. alg. ring. Qed.
Lemma dot2_vneg v : @dot2 R NumR (@vneg R NumR v) (@vneg R NumR v) = @dot2 R NumR v v.
Proof. alg. ring. Qed.
Lemma dot3_nonneg v : 0 <= @dot3 R NumR v v.
Proof. alg. nra. Qed.
Lemma dot2_nonneg v : 0 <= @dot2 R NumR v v.
Proof. alg. nra. Qed.
Lemma vdiv_vneg v c : vdiv (@vneg R NumR v) c = @vneg R NumR (vdiv v c).
Proof. unfold vdiv, vneg. rewrite !map_map. apply map_ext. intros x. unfold nneg. cbn. unfold Rdiv. ring. Qed.
Lemma unit3_vneg v : unit3 (@vneg R NumR v) = @vneg R NumR (unit3 v).
Proof. unfold unit3, norm3. rewrite dot3_vneg. apply vdiv_vneg. Qed.
Lemma unit2_vneg v : unit2 (@vneg R NumR v) = @vneg R NumR (unit2 v).
Proof. unfold unit2, norm2. rewrite dot2_vneg. apply vdiv_vneg. Qed.

Lemma norm3_pos v : 0 < @dot3 R NumR v v -> 0 < norm3 v.
Proof. intros Hp. apply sqrt_lt_R0, Hp. Qed.
Lemma norm2_pos v : 0 < @dot2 R NumR v v -> 0 < norm2 v.
Proof. intros Hp. apply sqrt_lt_R0, Hp. Qed.
Lemma norm3_sq v : norm3 v * norm3 v = @dot3 R NumR v v.
Proof. apply sqrt_sqrt, dot3_nonneg. Qed.
Lemma norm2_sq v : norm2 v * norm2 v = @dot2 R NumR v v.
Proof. apply sqrt_sqrt, dot2_nonneg. Qed.

(* the value is the un-normalised product divided by the product of the lengths *)
Theorem rh_value3_eq du dv dw : 0 < @dot3 R NumR du du -> 0 < @dot3 R NumR dv dv -> 0 < @dot3 R NumR dw dw ->
  rh_value3 du dv dw = @triple3 R NumR du dv dw / (norm3 du * norm3 dv * norm3 dw).
Proof.
  intros Hu Hv Hw. apply norm3_pos in Hu, Hv, Hw. unfold rh_value3, unit3.
  alg. rewrite !vc_vdiv. field. repeat split; lra.
Qed.
Theorem rh_value2_eq du dv : 0 < @dot2 R NumR du du -> 0 < @dot2 R NumR dv dv ->
  rh_value2 du dv = @cross2 R NumR du dv / (norm2 du * norm2 dv).
Proof.
  intros Hu Hv. apply norm2_pos in Hu, Hv. unfold rh_value2, unit2.
  alg. rewrite !vc_vdiv. field. split; lra.
Qed.

(* Hadamard: |det| <= product of the lengths *)
Lemma hadamard_real a0 a1 a2 b0 b1 b2 c0 c1 c2 :
  (c0 * (a1 * b2 - a2 * b1) + c1 * (a2 * b0 - a0 * b2) + c2 * (a0 * b1 - a1 * b0)) *
  (c0 * (a1 * b2 - a2 * b1) + c1 * (a2 * b0 - a0 * b2) + c2 * (a0 * b1 - a1 * b0)) <=
  (a0 * a0 + a1 * a1 + a2 * a2) * (b0 * b0 + b1 * b1 + b2 * b2) * (c0 * c0 + c1 * c1 + c2 * c2).
Proof.
  set (x0 := a1 * b2 - a2 * b1). set (x1 := a2 * b0 - a0 * b2). set (x2 := a0 * b1 - a1 * b0).
  assert (CS : (c0 * x0 + c1 * x1 + c2 * x2) * (c0 * x0 + c1 * x1 + c2 * x2) <=
               (c0 * c0 + c1 * c1 + c2 * c2) * (x0 * x0 + x1 * x1 + x2 * x2)).
  { assert (E : (c0 * c0 + c1 * c1 + c2 * c2) * (x0 * x0 + x1 * x1 + x2 * x2) - (c0 * x0 + c1 * x1 + c2 * x2) * (c0 * x0 + c1 * x1 + c2 * x2)
                = (c1 * x2 - c2 * x1) * (c1 * x2 - c2 * x1) + (c2 * x0 - c0 * x2) * (c2 * x0 - c0 * x2) + (c0 * x1 - c1 * x0) * (c0 * x1 - c1 * x0)) by ring.
    pose proof (Rle_0_sqr (c1 * x2 - c2 * x1)). pose proof (Rle_0_sqr (c2 * x0 - c0 * x2)). pose proof (Rle_0_sqr (c0 * x1 - c1 * x0)).
    unfold Rsqr in *. lra. }
  assert (L : x0 * x0 + x1 * x1 + x2 * x2 =
              (a0 * a0 + a1 * a1 + a2 * a2) * (b0 * b0 + b1 * b1 + b2 * b2) - (a0 * b0 + a1 * b1 + a2 * b2) * (a0 * b0 + a1 * b1 + a2 * b2))
    by (unfold x0, x1, x2; ring).
  pose proof (Rle_0_sqr (a0 * b0 + a1 * b1 + a2 * b2)) as Hd. unfold Rsqr in Hd.
  assert (Hc : 0 <= c0 * c0 + c1 * c1 + c2 * c2) by nra.
  set (C := c0 * c0 + c1 * c1 + c2 * c2) in *. set (X := x0 * x0 + x1 * x1 + x2 * x2) in *.
  set (AB := (a0 * a0 + a1 * a1 + a2 * a2) * (b0 * b0 + b1 * b1 + b2 * b2)) in *.
  set (D := (a0 * b0 + a1 * b1 + a2 * b2) * (a0 * b0 + a1 * b1 + a2 * b2)) in *.
  assert (C * X <= C * AB) by (apply Rmult_le_compat_l; lra).
  replace (AB * C) with (C * AB) by ring. lra.
Qed.
Theorem hadamard3 du dv dw :
  @triple3 R NumR du dv dw * @triple3 R NumR du dv dw <= @dot3 R NumR du du * @dot3 R NumR dv dv * @dot3 R NumR dw dw.
Proof. alg. apply hadamard_real. Qed.
Theorem hadamard2 du dv :
  @cross2 R NumR du dv * @cross2 R NumR du dv <= @dot2 R NumR du du * @dot2 R NumR dv dv.
Proof.
  alg. set (a0 := @vc R NumR du 0). set (a1 := @vc R NumR du 1). set (b0 := @vc R NumR dv 0). set (b1 := @vc R NumR dv 1).
  pose proof (Rle_0_sqr (a0 * b0 + a1 * b1)) as Hd. unfold Rsqr in Hd.
  assert (E : (a0 * a0 + a1 * a1) * (b0 * b0 + b1 * b1) - (a0 * b1 - a1 * b0) * (a0 * b1 - a1 * b0) = (a0 * b0 + a1 * b1) * (a0 * b0 + a1 * b1)) by ring.
  lra.
Qed.

Lemma sq_le_abs t N : 0 < N -> t * t <= N * N -> - N <= t <= N.
Proof. intros HN Hs. split; nra. Qed.

(* the value of the test lies in [-1, 1] *)
Theorem rh_value3_bound du dv dw : 0 < @dot3 R NumR du du -> 0 < @dot3 R NumR dv dv -> 0 < @dot3 R NumR dw dw ->
  -1 <= rh_value3 du dv dw <= 1.
Proof.
  intros Hu Hv Hw. rewrite (rh_value3_eq du dv dw Hu Hv Hw).
  pose proof (norm3_pos du Hu) as Pu. pose proof (norm3_pos dv Hv) as Pv. pose proof (norm3_pos dw Hw) as Pw.
  set (N := norm3 du * norm3 dv * norm3 dw).
  assert (HN : 0 < N) by (unfold N; repeat apply Rmult_lt_0_compat; assumption).
  assert (HS : @triple3 R NumR du dv dw * @triple3 R NumR du dv dw <= N * N).
  { replace (N * N) with ((norm3 du * norm3 du) * (norm3 dv * norm3 dv) * (norm3 dw * norm3 dw)) by (unfold N; ring).
    rewrite !norm3_sq. apply hadamard3. }
  destruct (sq_le_abs _ N HN HS) as [H1 H2]. split.
  - apply Rle_div_r; [exact HN|lra].
  - apply Rle_div_l; [exact HN|lra].
Qed.
Theorem rh_value2_bound du dv : 0 < @dot2 R NumR du du -> 0 < @dot2 R NumR dv dv ->
  -1 <= rh_value2 du dv <= 1.
Proof.
  intros Hu Hv. rewrite (rh_value2_eq du dv Hu Hv).
  pose proof (norm2_pos du Hu) as Pu. pose proof (norm2_pos dv Hv) as Pv.
  set (N := norm2 du * norm2 dv).
  assert (HN : 0 < N) by (unfold N; repeat apply Rmult_lt_0_compat; assumption).
  assert (HS : @cross2 R NumR du dv * @cross2 R NumR du dv <= N * N).
  { replace (N * N) with ((norm2 du * norm2 du) * (norm2 dv * norm2 dv)) by (unfold N; ring).
    rewrite !norm2_sq. apply hadamard2. }
  destruct (sq_le_abs _ N HN HS) as [H1 H2]. split.
  - apply Rle_div_r; [exact HN|lra].
  - apply Rle_div_l; [exact HN|lra].
Qed.

(* ---- the square-root-free executable form agrees with the normalised test ---- *)
Theorem ge_scaled_spec tol t N2 : 0 < N2 -> (@ge_scaled R NumR tol t N2 = true <-> tol <= t / sqrt N2).
Proof.
  intros HN. pose proof (sqrt_lt_R0 N2 HN) as HS. pose proof (sqrt_sqrt N2 (Rlt_le _ _ HN)) as HQ.
  set (N := sqrt N2) in *.
  assert (EQ : tol <= t / N <-> tol * N <= t) by (symmetry; apply Rle_div_r; exact HS).
  rewrite EQ. unfold ge_scaled. cbn [nltb nleb nmul n0 NumR].
  destruct (Rltb_spec 0 N2) as [_|]; [|lra]. cbn [andb].
  set (x := tol * N). assert (Ex : tol * tol * N2 = x * x) by (unfold x; rewrite <- HQ; ring). rewrite Ex.
  destruct (Rleb_spec 0 tol) as [Ht|Ht].
  - assert (0 <= x) by (unfold x; apply Rmult_le_pos; lra).
    destruct (Rleb_spec 0 t) as [H0|H0], (Rleb_spec (x * x) (t * t)) as [H1|H1]; cbn [andb]; split; intros Hx; try discriminate; try reflexivity; nra.
  - assert (x < 0) by (unfold x; nra).
    destruct (Rleb_spec 0 t) as [H0|H0], (Rleb_spec (t * t) (x * x)) as [H1|H1]; cbn [orb]; split; intros Hx; try discriminate; try reflexivity; nra.
Qed.

Theorem right_hand3_spec tol du dv dw : 0 < @dot3 R NumR du du -> 0 < @dot3 R NumR dv dv -> 0 < @dot3 R NumR dw dw ->
  (@right_hand3 R NumR tol du dv dw = true <-> tol <= rh_value3 du dv dw).
Proof.
  intros Hu Hv Hw. unfold right_hand3. cbn [nmul NumR].
  assert (HN : 0 < @dot3 R NumR du du * @dot3 R NumR dv dv * @dot3 R NumR dw dw) by (repeat apply Rmult_lt_0_compat; assumption).
  rewrite (ge_scaled_spec _ _ _ HN). rewrite (rh_value3_eq du dv dw Hu Hv Hw).
  rewrite !sqrt_mult by (try apply Rmult_le_pos; apply dot3_nonneg). reflexivity.
Qed.
Theorem right_hand2_spec tol du dv : 0 < @dot2 R NumR du du -> 0 < @dot2 R NumR dv dv ->
  (@right_hand2 R NumR tol du dv = true <-> tol <= rh_value2 du dv).
Proof.
  intros Hu Hv. unfold right_hand2. cbn [nmul NumR].
  assert (HN : 0 < @dot2 R NumR du du * @dot2 R NumR dv dv) by (repeat apply Rmult_lt_0_compat; assumption).
  rewrite (ge_scaled_spec _ _ _ HN). rewrite (rh_value2_eq du dv Hu Hv).
  rewrite !sqrt_mult by (try apply Rmult_le_pos; apply dot2_nonneg). reflexivity.
Qed.

(* a zero derivative vector: the model's value is 0 (numpy: nan), and the test fails for every positive tolerance *)
Lemma dot3_zero v : @dot3 R NumR v v = 0 -> @vc R NumR v 0 = 0 /\ @vc R NumR v 1 = 0 /\ @vc R NumR v 2 = 0.
Proof. alg. intros Hz. repeat split; nra. Qed.
Lemma dot2_zero v : @dot2 R NumR v v = 0 -> @vc R NumR v 0 = 0 /\ @vc R NumR v 1 = 0.
Proof. alg. intros Hz. repeat split; nra. Qed.
Lemma rh_value3_pos_nonzero du dv dw : 0 < rh_value3 du dv dw ->
  0 < @dot3 R NumR du du /\ 0 < @dot3 R NumR dv dv /\ 0 < @dot3 R NumR dw dw.
Proof.
  intros Hp.
  assert (K : forall v, 0 < @dot3 R NumR v v \/ (forall i, (i < 3)%nat -> @vc R NumR (unit3 v) i = 0)).
  { intros v. destruct (Rle_lt_or_eq_dec _ _ (dot3_nonneg v)) as [Hl|He]; [left; exact Hl|right].
    destruct (dot3_zero v (eq_sym He)) as (Z0 & Z1 & Z2). intros i Hi. unfold unit3. rewrite vc_vdiv.
    destruct i as [|[|[|i]]]; [rewrite Z0|rewrite Z1|rewrite Z2|lia]; unfold Rdiv; ring. }
  destruct (K du) as [Hu|Zu]; [|exfalso; revert Hp; unfold rh_value3; alg; rewrite !Zu by lia; lra].
  destruct (K dv) as [Hv|Zv]; [|exfalso; revert Hp; unfold rh_value3; alg; rewrite !Zv by lia; lra].
  destruct (K dw) as [Hw|Zw]; [|exfalso; revert Hp; unfold rh_value3; alg; rewrite !Zw by lia; lra].
  repeat split; assumption.
Qed.
Lemma rh_value2_pos_nonzero du dv : 0 < rh_value2 du dv ->
  0 < @dot2 R NumR du du /\ 0 < @dot2 R NumR dv dv.
Proof.
  intros Hp.
  assert (K : forall v, 0 < @dot2 R NumR v v \/ (forall i, (i < 2)%nat -> @vc R NumR (unit2 v) i = 0)).
  { intros v. destruct (Rle_lt_or_eq_dec _ _ (dot2_nonneg v)) as [Hl|He]; [left; exact Hl|right].
    destruct (dot2_zero v (eq_sym He)) as (Z0 & Z1). intros i Hi. unfold unit2. rewrite vc_vdiv.
    destruct i as [|[|i]]; [rewrite Z0|rewrite Z1|lia]; unfold Rdiv; ring. }
  destruct (K du) as [Hu|Zu]; [|exfalso; revert Hp; unfold rh_value2; alg; rewrite !Zu by lia; lra].
  destruct (K dv) as [Hv|Zv]; [|exfalso; revert Hp; unfold rh_value2; alg; rewrite !Zv by lia; lra].
  split; assumption.
Qed.

(* ---- re-orientation of the derivative tuple: the value is multiplied by the sign ---- *)
Theorem rh_value3_oapply o du dv dw : In o A3 ->
  let ds := @oapply R NumR o [du; dv; dw] in
  rh_value3 (nth 0 ds []) (nth 1 ds []) (nth 2 ds []) = @osign R NumR o * rh_value3 du dv dw.
Proof.
  intros Ho. enum Ho; cbv zeta; rewrite osign_R; cbn [oapply o_perm o_flip length seq map nth oparity perm_odd inv_head flips_odd fold_right xorb Nat.ltb Nat.leb];
    unfold rh_value3; rewrite ?unit3_vneg; alg; ring.
Qed.
Theorem rh_value2_oapply o du dv : In o A2 ->
  let ds := @oapply R NumR o [du; dv] in
  rh_value2 (nth 0 ds []) (nth 1 ds []) = @osign R NumR o * rh_value2 du dv.
Proof.
  intros Ho. enum Ho; cbv zeta; rewrite osign_R; cbn [oapply o_perm o_flip length seq map nth oparity perm_odd inv_head flips_odd fold_right xorb Nat.ltb Nat.leb];
    unfold rh_value2; rewrite ?unit2_vneg; alg; ring.
Qed.
Lemma N2_oapply3 o du dv dw : In o A3 ->
  let ds := @oapply R NumR o [du; dv; dw] in
  @dot3 R NumR (nth 0 ds []) (nth 0 ds []) * @dot3 R NumR (nth 1 ds []) (nth 1 ds []) * @dot3 R NumR (nth 2 ds []) (nth 2 ds []) =
  @dot3 R NumR du du * @dot3 R NumR dv dv * @dot3 R NumR dw dw.
Proof.
  intros Ho. enum Ho; cbv zeta; cbn [oapply o_perm o_flip length seq map nth]; rewrite ?dot3_vneg; ring.
Qed.
Lemma N2_oapply2 o du dv : In o A2 ->
  let ds := @oapply R NumR o [du; dv] in
  @dot2 R NumR (nth 0 ds []) (nth 0 ds []) * @dot2 R NumR (nth 1 ds []) (nth 1 ds []) = @dot2 R NumR du du * @dot2 R NumR dv dv.
Proof.
  intros Ho. enum Ho; cbv zeta; cbn [oapply o_perm o_flip length seq map nth]; rewrite ?dot2_vneg; ring.
Qed.

(* MAIN (normalised value, as in is_right_hand): a patch that passes with a positive tolerance keeps its value
   under every even re-orientation and gets the opposite value, hence fails, under every odd one *)
Theorem reoriented_handedness3 tol o du dv dw : 0 < tol -> signed_perm 3 o ->
  tol <= rh_value3 du dv dw ->
  let ds := @oapply R NumR o [du; dv; dw] in
  let val' := rh_value3 (nth 0 ds []) (nth 1 ds []) (nth 2 ds []) in
  (oparity o = false -> val' = rh_value3 du dv dw /\ tol <= val') /\
  (oparity o = true -> val' = - rh_value3 du dv dw /\ val' <= - tol /\ ~ tol <= val').
Proof.
  intros Ht Ho Hp ds val'. apply signed_perm_A3 in Ho.
  pose proof (rh_value3_oapply o du dv dw Ho) as E. cbv zeta in E. fold ds in E. fold val' in E. rewrite osign_R in E.
  split; intros Hpar; rewrite Hpar in E.
  - split; [lra|lra].
  - repeat split; lra.
Qed.
Theorem reoriented_handedness2 tol o du dv : 0 < tol -> signed_perm 2 o ->
  tol <= rh_value2 du dv ->
  let ds := @oapply R NumR o [du; dv] in
  let val' := rh_value2 (nth 0 ds []) (nth 1 ds []) in
  (oparity o = false -> val' = rh_value2 du dv /\ tol <= val') /\
  (oparity o = true -> val' = - rh_value2 du dv /\ val' <= - tol /\ ~ tol <= val').
Proof.
  intros Ht Ho Hp ds val'. apply signed_perm_A2 in Ho.
  pose proof (rh_value2_oapply o du dv Ho) as E. cbv zeta in E. fold ds in E. fold val' in E. rewrite osign_R in E.
  split; intros Hpar; rewrite Hpar in E.
  - split; [lra|lra].
  - repeat split; lra.
Qed.

(* the same on the executable test (no square root involved) *)
Lemma ge_scaled_neg tol t N2 : 0 < tol -> @ge_scaled R NumR tol t N2 = true -> @ge_scaled R NumR tol (- t) N2 = false.
Proof.
  intros Ht. unfold ge_scaled. cbn [nltb nleb nmul n0 NumR].
  destruct (Rltb_spec 0 N2) as [HN|]; [|discriminate]. cbn [andb].
  destruct (Rleb_spec 0 tol) as [_|]; [|lra].
  destruct (Rleb_spec 0 t) as [H0|]; [|discriminate]. destruct (Rleb_spec (tol * tol * N2) (t * t)) as [H1|]; [|discriminate].
  intros _. destruct (Rleb_spec 0 (- t)) as [H2|]; [|reflexivity]. exfalso.
  assert (t = 0) by lra. subst t. assert (0 < tol * tol * N2) by (repeat apply Rmult_lt_0_compat; assumption). lra.
Qed.
Theorem right_hand3_reoriented tol o du dv dw : 0 < tol -> signed_perm 3 o ->
  @right_hand3 R NumR tol du dv dw = true ->
  let ds := @oapply R NumR o [du; dv; dw] in
  @right_hand3 R NumR tol (nth 0 ds []) (nth 1 ds []) (nth 2 ds []) = negb (oparity o).
Proof.
  intros Ht Ho Hp ds. apply signed_perm_A3 in Ho. unfold right_hand3 in *. cbn [nmul NumR] in *.
  pose proof (triple3_oapply o du dv dw Ho) as E. pose proof (N2_oapply3 o du dv dw Ho) as EN. cbv zeta in E, EN.
  fold ds in E, EN. rewrite E, EN, osign_R.
  destruct (oparity o); cbn [negb].
  - replace (-1 * @triple3 R NumR du dv dw) with (- @triple3 R NumR du dv dw) by ring. apply ge_scaled_neg; assumption.
  - rewrite Rmult_1_l. exact Hp.
Qed.
Theorem right_hand2_reoriented tol o du dv : 0 < tol -> signed_perm 2 o ->
  @right_hand2 R NumR tol du dv = true ->
  let ds := @oapply R NumR o [du; dv] in
  @right_hand2 R NumR tol (nth 0 ds []) (nth 1 ds []) = negb (oparity o).
Proof.
  intros Ht Ho Hp ds. apply signed_perm_A2 in Ho. unfold right_hand2 in *. cbn [nmul NumR] in *.
  pose proof (cross2_oapply o du dv Ho) as E. pose proof (N2_oapply2 o du dv Ho) as EN. cbv zeta in E, EN.
  fold ds in E, EN. rewrite E, EN, osign_R.
  destruct (oparity o); cbn [negb].
  - replace (-1 * @cross2 R NumR du dv) with (- @cross2 R NumR du dv) by ring. apply ge_scaled_neg; assumption.
  - rewrite Rmult_1_l. exact Hp.
Qed.

(* ================================================================================================ *)
(* 3. chain rule: the first partial derivatives of a re-oriented map                                  *)
(*    A patch is seen as a map from parameter tuples to points, P ts c = coordinate c of the point.   *)

(* dv is the vector of the i-th first partial derivatives of P at ts (Coquelicot's is_derive, coordinate-wise) *)
Definition is_partial (dim : nat) (P : list R -> nat -> R) (i : nat) (ts : list R) (dv : list R) : Prop :=
  length dv = dim /\
  forall c, (c < dim)%nat -> is_derive (fun t : R => P (upd ts i t) c) (nth i ts 0) (nth c dv 0).

(* ts' is a tuple of the same length within delta of ts in every entry *)
Definition near (delta : R) (ts ts' : list R) : Prop :=
  length ts' = length ts /\ forall i, (i < length ts)%nat -> Rabs (nth i ts' 0 - nth i ts 0) < delta.

Lemma near_upd delta ts i t : 0 < delta -> (i < length ts)%nat -> Rabs (t - nth i ts 0) < delta -> near delta ts (upd ts i t).
Proof.
  intros Hd Hi Ht. split; [apply upd_length|]. intros j Hj. destruct (Nat.eq_dec j i) as [->|Hne].
  - rewrite upd_nth_same by exact Hi. exact Ht.
  - rewrite upd_nth_other by exact Hne. replace (nth j ts 0 - nth j ts 0) with 0 by ring. rewrite Rabs_R0. exact Hd.
Qed.

Lemma h_upd_upd {A} (l : list A) i v w : upd (upd l i v) i w = upd l i w.
Proof. revert i. induction l as [|x l IH]; intros i; [destruct i; reflexivity|]. destruct i; cbn [upd]; [reflexivity|]. f_equal. apply IH. Qed.
Lemma h_upd_comm {A} (l : list A) i j v w : i <> j -> upd (upd l i v) j w = upd (upd l j w) i v.
Proof.
  revert i j. induction l as [|x l IH]; intros i j Hne; [destruct i, j; reflexivity|].
  destruct i, j; cbn [upd]; try reflexivity; [congruence|]. f_equal. apply IH. congruence.
Qed.
Lemma h_swap_idx_upd (l : list R) d1 d2 i v : (d1 < length l)%nat -> (d2 < length l)%nat -> (i < length l)%nat ->
  upd (swap_idx 0 l d1 d2) (tr d1 d2 i) v = swap_idx 0 (upd l i v) d1 d2.
Proof.
  intros H1 H2 Hi. apply (nth_ext _ _ 0 0).
  - rewrite upd_length, !swap_idx_length, upd_length. reflexivity.
  - intros k Hk. rewrite upd_length, swap_idx_length in Hk.
    rewrite (swap_idx_nth 0 0 (upd l i v)) by (rewrite upd_length; assumption).
    destruct (Nat.eq_dec k (tr d1 d2 i)) as [->|Hne].
    + rewrite upd_nth_same by (rewrite swap_idx_length; apply tr_lt; assumption).
      rewrite tr_invol. rewrite upd_nth_same by exact Hi. reflexivity.
    + rewrite upd_nth_other by exact Hne. rewrite swap_idx_nth by assumption.
      rewrite upd_nth_other; [reflexivity|]. intros E. apply Hne. rewrite <- E. symmetry. apply tr_invol.
Qed.

Lemma locally_ball (x delta : R) (Q : R -> Prop) : 0 < delta -> (forall t, Rabs (t - x) < delta -> Q t) -> locally x Q.
Proof. intros Hd HQ. exists (mkposreal delta Hd). intros t Ht. apply HQ. exact Ht. Qed.

(* swap: if Q is P with the parameters d1 and d2 exchanged (near ts), then the partial derivative of Q in direction
   tr d1 d2 i at the exchanged point is the partial derivative of P in direction i at ts *)
Theorem partial_swap dim (P Q : list R -> nat -> R) d1 d2 ts delta :
  0 < delta -> (d1 < length ts)%nat -> (d2 < length ts)%nat ->
  (forall ts', near delta ts ts' -> forall c, (c < dim)%nat -> Q (swap_idx 0 ts' d1 d2) c = P ts' c) ->
  forall i dv, (i < length ts)%nat -> is_partial dim P i ts dv ->
    is_partial dim Q (tr d1 d2 i) (swap_idx 0 ts d1 d2) dv.
Proof.
  intros Hd H1 H2 HQ i dv Hi [Ldv HP]. split; [exact Ldv|]. intros c Hc.
  rewrite (swap_idx_nth 0 0 ts d1 d2 _ H1 H2), tr_invol.
  apply (is_derive_ext_loc (fun t : R => P (upd ts i t) c)); [|apply HP; exact Hc].
  apply (locally_ball _ delta); [exact Hd|]. intros t Ht.
  rewrite (h_swap_idx_upd ts d1 d2 i t H1 H2 Hi). symmetry. apply HQ; [|exact Hc]. apply near_upd; assumption.
Qed.

(* reverse: if Q is P with the parameter d replaced by a + e - (parameter d) (near ts), then at the reflected point
   the partial derivative of Q in direction d is minus that of P at ts, and the others are unchanged *)
Theorem partial_reverse dim (P Q : list R -> nat -> R) d a e ts delta :
  0 < delta -> (d < length ts)%nat ->
  (forall ts', near delta ts ts' -> forall c, (c < dim)%nat -> Q (upd ts' d (a + e - nth d ts' 0)) c = P ts' c) ->
  forall i dv, (i < length ts)%nat -> is_partial dim P i ts dv ->
    is_partial dim Q i (upd ts d (a + e - nth d ts 0)) (if (i =? d)%nat then @vneg R NumR dv else dv).
Proof.
  intros Hd Hdl HQ i dv Hi [Ldv HP]. split.
  - destruct (i =? d)%nat; [unfold vneg; rewrite map_length|]; exact Ldv.
  - intros c Hc. destruct (Nat.eqb_spec i d) as [->|Hne].
    + rewrite upd_nth_same by exact Hdl.
      change (nth c (@vneg R NumR dv) 0) with (@vc R NumR (@vneg R NumR dv) c). rewrite vc_vneg. unfold vc. cbn [n0 NumR].
      set (x0 := a + e - nth d ts 0).
      apply (is_derive_ext_loc (fun t : R => (fun s : R => P (upd ts d s) c) (a + e - t))).
      * apply (locally_ball _ delta); [exact Hd|]. intros t Ht. cbv beta.
        rewrite h_upd_upd.
        rewrite <- (HQ (upd ts d (a + e - t))); [|apply near_upd; [exact Hd|exact Hdl|]|exact Hc].
        -- rewrite upd_nth_same by exact Hdl. rewrite h_upd_upd. f_equal. f_equal. ring.
        -- unfold x0 in Ht. replace (a + e - t - nth d ts 0) with (- (t - (a + e - nth d ts 0))) by ring. rewrite Rabs_Ropp. exact Ht.
      * replace (- nth c dv 0) with (scal (-1) (nth c dv 0)) by (unfold scal; simpl; unfold mult; simpl; ring).
        apply (is_derive_comp (fun s : R => P (upd ts d s) c) (fun t : R => a + e - t)).
        -- replace (a + e - x0) with (nth d ts 0) by (unfold x0; ring). apply HP. exact Hc.
        -- auto_derive; [trivial|ring].
    + rewrite upd_nth_other by exact Hne.
      apply (is_derive_ext_loc (fun t : R => P (upd ts i t) c)); [|apply HP; exact Hc].
      apply (locally_ball _ delta); [exact Hd|]. intros t Ht.
      rewrite <- (HQ (upd ts i t)); [|apply near_upd; assumption|exact Hc].
      rewrite upd_nth_other by (intros E; apply Hne; symmetry; exact E).
      f_equal. apply h_upd_comm. exact Hne.
Qed.

(* the whole tuple of first partial derivatives *)
Definition is_partials (dim : nat) (P : list R -> nat -> R) (ts : list R) (ds : list (list R)) : Prop :=
  length ds = length ts /\ forall i, (i < length ts)%nat -> is_partial dim P i ts (nth i ds []).

(* SplineObject.swap(d1, d2) at the level of maps: the tuple of partial derivatives is exchanged the same way *)
Theorem partials_swap dim (P Q : list R -> nat -> R) d1 d2 ts delta ds :
  0 < delta -> (d1 < length ts)%nat -> (d2 < length ts)%nat ->
  (forall ts', near delta ts ts' -> forall c, (c < dim)%nat -> Q (swap_idx 0 ts' d1 d2) c = P ts' c) ->
  is_partials dim P ts ds ->
  is_partials dim Q (swap_idx 0 ts d1 d2) (@step_apply R NumR (RSwap d1 d2) ds).
Proof.
  intros Hd H1 H2 HQ [Lds HP]. cbn [step_apply]. split; [rewrite !swap_idx_length; exact Lds|].
  intros j Hj. rewrite swap_idx_length in Hj.
  rewrite (swap_idx_nth [] [] ds d1 d2 j) by (rewrite Lds; assumption).
  rewrite <- (tr_invol d1 d2 j) at 1.
  apply (partial_swap dim P Q d1 d2 ts delta Hd H1 H2 HQ); [apply tr_lt; assumption|].
  apply HP. apply tr_lt; assumption.
Qed.
(* SplineObject.reverse(d) at the level of maps: entry d of the tuple is negated *)
Theorem partials_reverse dim (P Q : list R -> nat -> R) d a e ts delta ds :
  0 < delta -> (d < length ts)%nat ->
  (forall ts', near delta ts ts' -> forall c, (c < dim)%nat -> Q (upd ts' d (a + e - nth d ts' 0)) c = P ts' c) ->
  is_partials dim P ts ds ->
  is_partials dim Q (upd ts d (a + e - nth d ts 0)) (@step_apply R NumR (RRev d) ds).
Proof.
  intros Hd Hdl HQ [Lds HP]. cbn [step_apply]. split; [rewrite !upd_length; exact Lds|].
  intros j Hj. rewrite upd_length in Hj.
  pose proof (partial_reverse dim P Q d a e ts delta Hd Hdl HQ j (nth j ds []) Hj (HP j Hj)) as K.
  destruct (Nat.eqb_spec j d) as [->|Hne].
  - rewrite upd_nth_same by (rewrite Lds; exact Hdl). exact K.
  - rewrite upd_nth_other by exact Hne. exact K.
Qed.

(* ---- the evaluation map of a model object, and its parametric midpoint ---- *)
Definition evc (tol : R) (o : obj R) (ts : list R) (c : nat) : R :=
  match @obj_eval R NumR tol o ts with Ok p => nth c p 0 | Err _ => 0 end.

Definition mid_of (b : basis R) : R := (@b_start R NumR b + @b_end R NumR b) / 2.
Lemma obj_midpoint_R (o : obj R) : @obj_midpoint R NumR o = map mid_of (o_bases o).
Proof. reflexivity. Qed.
Lemma midpoint_length (o : obj R) : length (@obj_midpoint R NumR o) = length (o_bases o).
Proof. rewrite obj_midpoint_R. apply map_length. Qed.
Lemma midpoint_nth (o : obj R) i : (i < length (o_bases o))%nat ->
  nth i (@obj_midpoint R NumR o) 0 = mid_of (nth i (o_bases o) dflt_basis).
Proof.
  intros Hi. rewrite obj_midpoint_R. rewrite (nth_indep _ 0 (mid_of dflt_basis)) by (rewrite map_length; exact Hi).
  apply map_nth.
Qed.

Lemma near_weaken d1 d2 ts ts' : d1 <= d2 -> near d1 ts ts' -> near d2 ts ts'.
Proof. intros Hle [L N]. split; [exact L|]. intros i Hi. specialize (N i Hi). lra. Qed.

(* tuples within tol of the midpoint are in the domain *)
Lemma near_mid_in_dom tol (o : obj R) ts' : 0 < tol -> wf_obj_R tol o -> near tol (@obj_midpoint R NumR o) ts' ->
  forall i, (i < length (o_bases o))%nat -> in_dom tol (nth i (o_bases o) dflt_basis) (nth i ts' 0).
Proof.
  intros Htol Hwf [L N] i Hi. rewrite midpoint_length in N. specialize (N i Hi). rewrite (midpoint_nth o i Hi) in N.
  destruct (bd_wf tol o Hwf i Hi) as (HK & Hp & Hlen & Hn & Hw).
  apply in_dom_of_range; [exact Htol|repeat split; assumption|].
  unfold mid_of in N. apply Rabs_def2 in N. lra.
Qed.

(* SWAP on model objects: the midpoint of the swapped object is the swapped midpoint, and the partial derivatives of
   its evaluation map there are those of the original, exchanged *)
Theorem swap_midpoint_partials tol (o : obj R) d1 d2 ds :
  0 < tol -> wf_obj_R tol o -> d1 <> d2 -> (d1 < length (o_bases o))%nat -> (d2 < length (o_bases o))%nat ->
  let o' := @obj_swap R NumR o d1 d2 in
  @obj_midpoint R NumR o' = swap_idx 0 (@obj_midpoint R NumR o) d1 d2 /\
  (is_partials (o_dim o) (evc tol o) (@obj_midpoint R NumR o) ds ->
   is_partials (o_dim o) (evc tol o') (@obj_midpoint R NumR o') (@step_apply R NumR (RSwap d1 d2) ds)).
Proof.
  intros Htol Hwf Hne H1 H2 o'.
  assert (EM : @obj_midpoint R NumR o' = swap_idx 0 (@obj_midpoint R NumR o) d1 d2).
  { rewrite !obj_midpoint_R. unfold o'. rewrite sw_obj by assumption. cbn [o_bases]. rewrite swap_idx_map.
    apply swap_idx_dflt; rewrite map_length; assumption. }
  split; [exact EM|]. intros HP. rewrite EM.
  apply (partials_swap (o_dim o) (evc tol o) (evc tol o') d1 d2 _ tol ds Htol); try (rewrite midpoint_length; assumption); [|exact HP].
  intros ts' Hn c Hc. unfold evc, o'.
  pose proof Hn as [L _]. rewrite midpoint_length in L.
  rewrite (swap_eval_idx tol o d1 d2 ts' Htol Hwf Hne H1 H2) by (try (rewrite L; assumption); apply near_mid_in_dom; assumption).
  reflexivity.
Qed.

(* knots strictly farther than tol from m stay at least tol away from every t close enough to m *)
Lemma knots_clear_near (l : list R) a e tol m :
  (forall v, In v l -> v = a \/ v = e \/ tol < Rabs (v - m)) ->
  exists delta, 0 < delta /\ forall t, Rabs (t - m) < delta -> forall v, In v l -> tol <= Rabs (v - t) \/ v = a \/ v = e.
Proof.
  induction l as [|x l IH]; intros H.
  - exists 1. split; [lra|]. intros t _ v [].
  - destruct IH as (d0 & Hd0 & K0); [intros v Hv; apply H; right; exact Hv|].
    destruct (H x (or_introl eq_refl)) as [Ea|[Ee|Hx]].
    + exists d0. split; [exact Hd0|]. intros t Ht v [<-|Hv]; [right; left; exact Ea|apply K0; assumption].
    + exists d0. split; [exact Hd0|]. intros t Ht v [<-|Hv]; [right; right; exact Ee|apply K0; assumption].
    + exists (Rmin d0 (Rabs (x - m) - tol)). split; [apply Rmin_glb_lt; lra|].
      intros t Ht v [<-|Hv].
      * left. pose proof (Rmin_r d0 (Rabs (x - m) - tol)).
        pose proof (Rabs_triang_inv (x - m) (t - m)) as Tr. replace (x - m - (t - m)) with (x - t) in Tr by ring. lra.
      * apply K0; [|exact Hv]. pose proof (Rmin_l d0 (Rabs (x - m) - tol)). lra.
Qed.

(* REVERSE on model objects (non-periodic direction d whose interior knots are farther than tol from the midpoint):
   the midpoint is unchanged and entry d of the tuple of partial derivatives of the evaluation map is negated *)
Theorem reverse_midpoint_partials tol (o : obj R) d ds :
  0 < tol -> wf_obj_R tol o -> (d < length (o_bases o))%nat ->
  let bd := nth d (o_bases o) dflt_basis in
  b_per1 bd = 0%nat ->
  (forall v, In v (b_knots bd) -> v = @b_start R NumR bd \/ v = @b_end R NumR bd \/ tol < Rabs (v - mid_of bd)) ->
  let o' := @obj_reverse R NumR o d in
  @obj_midpoint R NumR o' = @obj_midpoint R NumR o /\
  (is_partials (o_dim o) (evc tol o) (@obj_midpoint R NumR o) ds ->
   is_partials (o_dim o) (evc tol o') (@obj_midpoint R NumR o') (@step_apply R NumR (RRev d) ds)).
Proof.
  intros Htol Hwf Hd bd Hper Hkn o'.
  set (a := @b_start R NumR bd) in *. set (e := @b_end R NumR bd) in *.
  assert (EM : @obj_midpoint R NumR o' = @obj_midpoint R NumR o).
  { rewrite !obj_midpoint_R. unfold o'. rewrite (rv_obj tol Htol o Hwf d Hd Hper). cbn [o_bases]. rewrite upd_map'.
    unfold mid_of at 2. rewrite (rvk_start tol o Hwf d Hd), (rvk_end tol o Hwf d Hd).
    change ((@b_start R NumR (nth d (o_bases o) dflt_basis) + @b_end R NumR (nth d (o_bases o) dflt_basis)) / 2) with (mid_of (nth d (o_bases o) dflt_basis)).
    rewrite <- (map_nth mid_of (o_bases o) dflt_basis d). apply upd_same_id. }
  split; [exact EM|]. intros HP. rewrite EM.
  set (m := @obj_midpoint R NumR o) in *.
  assert (Lm : length m = length (o_bases o)) by apply midpoint_length.
  assert (Emd : nth d m 0 = mid_of bd) by (apply midpoint_nth; exact Hd).
  destruct (knots_clear_near (b_knots bd) a e tol (mid_of bd) Hkn) as (d0 & Hd0 & K0).
  assert (Eself : upd m d (a + e - nth d m 0) = m).
  { replace (a + e - nth d m 0) with (nth d m 0) by (rewrite Emd; unfold mid_of; fold a e; field). apply upd_same_id. }
  rewrite <- Eself at 1.
  apply (partials_reverse (o_dim o) (evc tol o) (evc tol o') d a e m (Rmin tol d0) ds); [apply Rmin_glb_lt; assumption|rewrite Lm; exact Hd| |exact HP].
  intros ts' Hn c Hc. unfold evc, o'.
  pose proof Hn as [L N]. rewrite Lm in L. unfold a, e, bd in *.
  rewrite (reverse_eval_clear tol o d ts' Htol Hwf Hd) ; [reflexivity|rewrite L; exact Hd|exact Hper| |].
  - apply near_mid_in_dom; [exact Htol|exact Hwf|]. apply (near_weaken (Rmin tol d0)); [apply Rmin_l|exact Hn].
  - apply K0. rewrite <- Emd. specialize (N d ltac:(rewrite Lm; exact Hd)). pose proof (Rmin_r tol d0). lra.
Qed.

(* ---- one re-orientation step on a model object flips the test ---- *)
Definition obj_step (o : obj R) (s : rstep) : obj R :=
  match s with RSwap d1 d2 => @obj_swap R NumR o d1 d2 | RRev d => @obj_reverse R NumR o d end.
(* what the end-to-end theorem of reverse needs: a non-periodic direction whose knots other than the two domain ends
   are farther than the knot tolerance from the midpoint (no requirement for a swap) *)
Definition step_ok (tol : R) (o : obj R) (s : rstep) : Prop :=
  match s with
  | RSwap _ _ => True
  | RRev d => let bd := nth d (o_bases o) dflt_basis in
              b_per1 bd = 0%nat /\
              forall v, In v (b_knots bd) -> v = @b_start R NumR bd \/ v = @b_end R NumR bd \/ tol < Rabs (v - mid_of bd)
  end.

Theorem step_midpoint_partials tol (o : obj R) s ds :
  0 < tol -> wf_obj_R tol o -> valid_step (length (o_bases o)) s -> step_ok tol o s ->
  is_partials (o_dim o) (evc tol o) (@obj_midpoint R NumR o) ds ->
  is_partials (o_dim o) (evc tol (obj_step o s)) (@obj_midpoint R NumR (obj_step o s)) (@step_apply R NumR s ds).
Proof.
  intros Htol Hwf Hv Hok HP. destruct s as [d1 d2|d]; cbn [valid_step step_ok obj_step] in *.
  - destruct Hv as (Hne & H1 & H2). exact (proj2 (swap_midpoint_partials tol o d1 d2 ds Htol Hwf Hne H1 H2) HP).
  - destruct Hok as [Hper Hkn]. exact (proj2 (reverse_midpoint_partials tol o d ds Htol Hwf Hv Hper Hkn) HP).
Qed.

(* volume in 3-D: if the partial derivatives of the evaluation map at the midpoint pass the test with margin htol > 0,
   then after one swap or one reverse the partial derivatives of the new evaluation map at the new midpoint give the
   opposite value, so the test fails *)
Theorem step_flips_handedness3 tol htol (o : obj R) s du dv dw :
  0 < tol -> 0 < htol -> wf_obj_R tol o -> length (o_bases o) = 3%nat -> o_dim o = 3%nat ->
  valid_step 3 s -> step_ok tol o s ->
  is_partials 3 (evc tol o) (@obj_midpoint R NumR o) [du; dv; dw] ->
  htol <= rh_value3 du dv dw ->
  let o' := obj_step o s in
  let ds' := @step_apply R NumR s [du; dv; dw] in
  is_partials 3 (evc tol o') (@obj_midpoint R NumR o') ds' /\
  rh_value3 (nth 0 ds' []) (nth 1 ds' []) (nth 2 ds' []) = - rh_value3 du dv dw /\
  ~ htol <= rh_value3 (nth 0 ds' []) (nth 1 ds' []) (nth 2 ds' []).
Proof.
  intros Htol Hh Hwf Hn Hdim Hv Hok HP Hpass o' ds'.
  split; [rewrite <- Hdim; apply step_midpoint_partials; try assumption; [rewrite Hn; exact Hv|rewrite Hdim; exact HP]|].
  destruct (step_A3 s Hv) as (S1 & S2 & S3). unfold ds'. rewrite S3.
  destruct (reoriented_handedness3 htol (step_orient 3 s) du dv dw Hh (A3_signed_perm _ S1) Hpass) as [_ K].
  destruct (K S2) as (E1 & _ & E3). split; assumption.
Qed.
(* surface in 2-D *)
Theorem step_flips_handedness2 tol htol (o : obj R) s du dv :
  0 < tol -> 0 < htol -> wf_obj_R tol o -> length (o_bases o) = 2%nat -> o_dim o = 2%nat ->
  valid_step 2 s -> step_ok tol o s ->
  is_partials 2 (evc tol o) (@obj_midpoint R NumR o) [du; dv] ->
  htol <= rh_value2 du dv ->
  let o' := obj_step o s in
  let ds' := @step_apply R NumR s [du; dv] in
  is_partials 2 (evc tol o') (@obj_midpoint R NumR o') ds' /\
  rh_value2 (nth 0 ds' []) (nth 1 ds' []) = - rh_value2 du dv /\
  ~ htol <= rh_value2 (nth 0 ds' []) (nth 1 ds' []).
Proof.
  intros Htol Hh Hwf Hn Hdim Hv Hok HP Hpass o' ds'.
  split; [rewrite <- Hdim; apply step_midpoint_partials; try assumption; [rewrite Hn; exact Hv|rewrite Hdim; exact HP]|].
  destruct (step_A2 s Hv) as (S1 & S2 & S3). unfold ds'. rewrite S3.
  destruct (reoriented_handedness2 htol (step_orient 2 s) du dv Hh (A2_signed_perm _ S1) Hpass) as [_ K].
  destruct (K S2) as (E1 & _ & E3). split; assumption.
Qed.

(* ================================================================================================ *)
(* 4. examples: the unit cube (du, dv, dw = e1, e2, e3) and the unit square                           *)

Definition e1 : list R := [1; 0; 0].  Definition e2 : list R := [0; 1; 0].  Definition e3 : list R := [0; 0; 1].
Lemma dot3_e1 : @dot3 R NumR e1 e1 = 1. Proof. unfold e1. alg. ring. Qed.
Lemma dot3_e2 : @dot3 R NumR e2 e2 = 1. Proof. unfold e2. alg. ring. Qed.
Lemma dot3_e3 : @dot3 R NumR e3 e3 = 1. Proof. unfold e3. alg. ring. Qed.
Example cube_value : rh_value3 e1 e2 e3 = 1.
Proof.
  rewrite rh_value3_eq by (rewrite ?dot3_e1, ?dot3_e2, ?dot3_e3; lra).
  unfold norm3. rewrite dot3_e1, dot3_e2, dot3_e3, sqrt_1. unfold e1, e2, e3. alg. field.
Qed.
(* the cube passes the default test (tol = 1e-3); each of its 24 even re-orientations passes with the same value 1, each
   of its 24 odd ones has value -1 and fails *)
Example cube_reorientations o : signed_perm 3 o ->
  let ds := @oapply R NumR o [e1; e2; e3] in
  let val' := rh_value3 (nth 0 ds []) (nth 1 ds []) (nth 2 ds []) in
  (oparity o = false -> val' = 1 /\ 1 / 1000 <= val') /\
  (oparity o = true -> val' = -1 /\ ~ 1 / 1000 <= val').
Proof.
  intros Ho ds val'.
  destruct (reoriented_handedness3 (1 / 1000) o e1 e2 e3 ltac:(lra) Ho ltac:(rewrite cube_value; lra)) as [K0 K1].
  fold ds in K0, K1. fold val' in K0, K1. rewrite cube_value in K0, K1. split; intros Hp.
  - destruct (K0 Hp). split; assumption.
  - destruct (K1 Hp) as (E & _ & N). split; assumption.
Qed.
Example cube_counts :
  length (filter (fun o => negb (oparity o)) A3) = 24%nat /\ length (filter oparity A3) = 24%nat /\
  length (filter (fun o => negb (oparity o)) A2) = 4%nat /\ length (filter oparity A2) = 4%nat.
Proof. vm_compute. repeat split; reflexivity. Qed.
Example cube_executable_R o : signed_perm 3 o ->
  @right_hand3 R NumR (1 / 1000) e1 e2 e3 = true /\
  let ds := @oapply R NumR o [e1; e2; e3] in
  @right_hand3 R NumR (1 / 1000) (nth 0 ds []) (nth 1 ds []) (nth 2 ds []) = negb (oparity o).
Proof.
  intros Ho.
  assert (H0 : @right_hand3 R NumR (1 / 1000) e1 e2 e3 = true).
  { apply right_hand3_spec; rewrite ?dot3_e1, ?dot3_e2, ?dot3_e3, ?cube_value; lra. }
  split; [exact H0|]. apply right_hand3_reoriented; [lra|exact Ho|exact H0].
Qed.

(* the same by computation on the executable instance Q: the test accepts exactly the even re-orientations *)
From Coq Require Import QArith.
Open Scope R_scope.
Definition q1 : list Q := [1%Q; 0%Q; 0%Q].  Definition q2 : list Q := [0%Q; 1%Q; 0%Q].  Definition q3 : list Q := [0%Q; 0%Q; 1%Q].
Example cube_executable_Q :
  @right_hand3 Q NumQ (1 # 1000)%Q q1 q2 q3 = true /\
  forallb (fun o => let ds := @oapply Q NumQ o [q1; q2; q3] in
                    Bool.eqb (@right_hand3 Q NumQ (1 # 1000)%Q (nth 0 ds []) (nth 1 ds []) (nth 2 ds [])) (negb (oparity o))) A3 = true /\
  forallb (fun o => let ds := @oapply Q NumQ o [[1%Q; 0%Q]; [0%Q; 1%Q]] in
                    Bool.eqb (@right_hand2 Q NumQ (1 # 1000)%Q (nth 0 ds []) (nth 1 ds [])) (negb (oparity o))) A2 = true.
Proof. vm_compute. repeat split; reflexivity. Qed.
(* a sheared, scaled cell (not orthonormal): triple product 3, value 3/sqrt(218) ~ 0.203; on Q the test accepts it at
   1e-3, rejects it at 1/2, and accepts exactly the even re-orientations at 1e-3 *)
Example sheared_executable_Q :
  let du := [2%Q; 0%Q; 0%Q] in let dv := [1%Q; 1%Q; 0%Q] in let dw := [3%Q; 4%Q; (3 # 2)%Q] in
  @right_hand3 Q NumQ (1 # 1000)%Q du dv dw = true /\ @right_hand3 Q NumQ (1 # 2)%Q du dv dw = false /\
  forallb (fun o => let ds := @oapply Q NumQ o [du; dv; dw] in
                    Bool.eqb (@right_hand3 Q NumQ (1 # 1000)%Q (nth 0 ds []) (nth 1 ds []) (nth 2 ds [])) (negb (oparity o))) A3 = true.
Proof. vm_compute. repeat split; reflexivity. Qed.

Print Assumptions triple3_oapply.
Print Assumptions oparity_compose.
Print Assumptions oapply_compose.
Print Assumptions steps_orient_parity3.
Print Assumptions steps_apply_oapply3.
Print Assumptions reorient_steps_apply3.
Print Assumptions rh_value3_eq.
Print Assumptions rh_value3_bound.
Print Assumptions right_hand3_spec.
Print Assumptions reoriented_handedness3.
Print Assumptions reoriented_handedness2.
Print Assumptions right_hand3_reoriented.
Print Assumptions partial_swap.
Print Assumptions partial_reverse.
Print Assumptions swap_midpoint_partials.
Print Assumptions reverse_midpoint_partials.
Print Assumptions step_flips_handedness3.
Print Assumptions step_flips_handedness2.
Print Assumptions cube_reorientations.
Print Assumptions cube_executable_Q.
