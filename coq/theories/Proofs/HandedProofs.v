(* C17: handedness.  utils.is_right_hand, its behaviour under re-orientation (swap / reverse), and the
   force_right_hand clause of SplineModel._validate.  Model: Model/Handed.v. *)
From Coq Require Import List Arith Reals Lra Lia Bool ZArith Psatz.
From Coquelicot Require Import Coquelicot.
From SplipyModel Require Import Spec.BSpline Model.Num Model.BasisDef Model.Tensor Model.Obj Model.Orient Model.KnotInsert
  Model.Reparam Model.Handed Proofs.OrientProofs.
Import ListNotations.
Open Scope R_scope.

(* ================================================================================================ *)
(* 1. algebra of the triple product and of the scalar cross product                                   *)

Lemma vc_vneg (v : list R) i : @vc R NumR (@vneg R NumR v) i = - @vc R NumR v i.
Proof.
  unfold vc, vneg. revert i. induction v as [|x v IH]; intros i.
  - destruct i; cbn; ring.
  - destruct i; cbn [map nth]; [unfold nneg; cbn; ring|apply IH].
Qed.

Ltac alg := unfold triple3, dot3, cross3, cross2, dot2; cbn [nadd nsub nmul ndiv n0 n1 NumR];
  repeat (change (@vc R NumR (?a :: ?l) 0%nat) with a; change (@vc R NumR (?a :: ?b :: ?l) 1%nat) with b;
          change (@vc R NumR (?a :: ?b :: ?c :: ?l) 2%nat) with c);
  rewrite ?vc_vneg.

(* alternating *)
Lemma triple3_swap12 du dv dw : @triple3 R NumR dv du dw = - @triple3 R NumR du dv dw.
Proof. alg. ring. Qed.
Lemma triple3_swap13 du dv dw : @triple3 R NumR dw dv du = - @triple3 R NumR du dv dw.
Proof. alg. ring. Qed.
Lemma triple3_swap23 du dv dw : @triple3 R NumR du dw dv = - @triple3 R NumR du dv dw.
Proof. alg. ring. Qed.
Lemma triple3_cycle du dv dw : @triple3 R NumR dv dw du = @triple3 R NumR du dv dw.
Proof. alg. ring. Qed.
Lemma cross2_swap du dv : @cross2 R NumR dv du = - @cross2 R NumR du dv.
Proof. alg. ring. Qed.
(* odd in each argument *)
Lemma triple3_neg1 du dv dw : @triple3 R NumR (@vneg R NumR du) dv dw = - @triple3 R NumR du dv dw.
Proof. alg. ring. Qed.
Lemma triple3_neg2 du dv dw : @triple3 R NumR du (@vneg R NumR dv) dw = - @triple3 R NumR du dv dw.
Proof. alg. ring. Qed.
Lemma triple3_neg3 du dv dw : @triple3 R NumR du dv (@vneg R NumR dw) = - @triple3 R NumR du dv dw.
Proof. alg. ring. Qed.
Lemma cross2_neg1 du dv : @cross2 R NumR (@vneg R NumR du) dv = - @cross2 R NumR du dv.
Proof. alg. ring. Qed.
Lemma cross2_neg2 du dv : @cross2 R NumR du (@vneg R NumR dv) = - @cross2 R NumR du dv.
Proof. alg. ring. Qed.
(* a repeated argument kills it *)
Lemma triple3_rep12 du dw : @triple3 R NumR du du dw = 0.
Proof. alg. ring. Qed.
Lemma cross2_rep du : @cross2 R NumR du du = 0.
Proof. alg. ring. Qed.

(* the finite sets of orientations *)
Definition A2 : list orient := Eval vm_compute in all_orients 2.
Definition A3 : list orient := Eval vm_compute in all_orients 3.
Lemma A2_eq : A2 = all_orients 2. Proof. vm_compute. reflexivity. Qed.
Lemma A3_eq : A3 = all_orients 3. Proof. vm_compute. reflexivity. Qed.

Lemma signed_perm_A3 o : signed_perm 3 o -> In o A3.
Proof. intros Ho. rewrite A3_eq. exact (all_candidates 3 o Ho). Qed.
Lemma signed_perm_A2 o : signed_perm 2 o -> In o A2.
Proof. intros Ho. rewrite A2_eq. exact (all_candidates 2 o Ho). Qed.

Lemma osign_R o : @osign R NumR o = if oparity o then -1 else 1.
Proof. unfold osign. destruct (oparity o); [unfold nneg; cbn; ring|reflexivity]. Qed.

Ltac enum H := unfold A2, A3 in H; cbn [In] in H;
  repeat (destruct H as [H|H]; [subst|]); [..|contradiction].

(* the derivative vectors of a re-oriented volume / surface have sign(o) times the triple / cross product *)
Theorem triple3_oapply o du dv dw : In o A3 ->
  let ds := @oapply R NumR o [du; dv; dw] in
  @triple3 R NumR (nth 0 ds []) (nth 1 ds []) (nth 2 ds []) = @osign R NumR o * @triple3 R NumR du dv dw.
Proof.
  intros Ho. enum Ho; cbv zeta; rewrite osign_R; cbn [oapply o_perm o_flip length seq map nth oparity perm_odd inv_head flips_odd fold_right xorb Nat.ltb Nat.leb];
    alg; ring.
Qed.

Theorem cross2_oapply o du dv : In o A2 ->
  let ds := @oapply R NumR o [du; dv] in
  @cross2 R NumR (nth 0 ds []) (nth 1 ds []) = @osign R NumR o * @cross2 R NumR du dv.
Proof.
  intros Ho. enum Ho; cbv zeta; rewrite osign_R; cbn [oapply o_perm o_flip length seq map nth oparity perm_odd inv_head flips_odd fold_right xorb Nat.ltb Nat.leb];
    alg; ring.
Qed.

(* the enumerated orientations are exactly the signed permutations (Proofs/OrientProofs.v signed_perm) *)
Lemma A3_signed_perm o : In o A3 -> signed_perm 3 o.
Proof.
  intros Ho. enum Ho; (split; [repeat constructor; cbn; intuition lia|split; [intros x; cbn; lia|reflexivity]]).
Qed.
Lemma A2_signed_perm o : In o A2 -> signed_perm 2 o.
Proof.
  intros Ho. enum Ho; (split; [repeat constructor; cbn; intuition lia|split; [intros x; cbn; lia|reflexivity]]).
Qed.
Lemma signed_perm_wf n o : signed_perm n o -> wf_orient n o.
Proof.
  intros (Hnd & Hin & Hf). split; [|split; [exact Hf|]].
  - assert (P : Permutation.Permutation (o_perm o) (seq 0 n)).
    { apply Permutation.NoDup_Permutation; [exact Hnd|apply seq_NoDup|]. intros x. rewrite Hin, in_seq. lia. }
    rewrite (Permutation.Permutation_length P). apply seq_length.
  - apply Forall_forall. intros x Hx. apply Hin. exact Hx.
Qed.

(* ---- parity is a homomorphism ---- *)
Definition orient_eq_dec (a b : orient) : {a = b} + {a <> b}.
Proof. decide equality; [apply (list_eq_dec Bool.bool_dec)|apply (list_eq_dec Nat.eq_dec)]. Defined.
Definition omem (o : orient) (l : list orient) : bool := if in_dec orient_eq_dec o l then true else false.
Lemma omem_In o l : omem o l = true -> In o l.
Proof. unfold omem. destruct (in_dec orient_eq_dec o l); [auto|discriminate]. Qed.

Lemma forallb2_lift (l : list orient) (P : orient -> orient -> bool) :
  forallb (fun a => forallb (fun b => P a b) l) l = true -> forall a b, In a l -> In b l -> P a b = true.
Proof. intros Hf a b Ha Hb. rewrite forallb_forall in Hf. specialize (Hf a Ha). rewrite forallb_forall in Hf. exact (Hf b Hb). Qed.

Lemma compose_closed3 a b : In a A3 -> In b A3 -> In (ocompose a b) A3.
Proof.
  intros Ha Hb. apply omem_In. revert a b Ha Hb. apply (forallb2_lift A3 (fun a b => omem (ocompose a b) A3)).
  vm_compute. reflexivity.
Qed.
Lemma compose_closed2 a b : In a A2 -> In b A2 -> In (ocompose a b) A2.
Proof.
  intros Ha Hb. apply omem_In. revert a b Ha Hb. apply (forallb2_lift A2 (fun a b => omem (ocompose a b) A2)).
  vm_compute. reflexivity.
Qed.

Lemma oparity_compose_A3 a b : In a A3 -> In b A3 -> oparity (ocompose a b) = xorb (oparity a) (oparity b).
Proof.
  intros Ha Hb. apply Bool.eqb_prop. revert a b Ha Hb.
  apply (forallb2_lift A3 (fun a b => Bool.eqb (oparity (ocompose a b)) (xorb (oparity a) (oparity b)))).
  vm_compute. reflexivity.
Qed.
Lemma oparity_compose_A2 a b : In a A2 -> In b A2 -> oparity (ocompose a b) = xorb (oparity a) (oparity b).
Proof.
  intros Ha Hb. apply Bool.eqb_prop. revert a b Ha Hb.
  apply (forallb2_lift A2 (fun a b => Bool.eqb (oparity (ocompose a b)) (xorb (oparity a) (oparity b)))).
  vm_compute. reflexivity.
Qed.

(* stated on the signed permutations of the development *)
Theorem oparity_compose n a b : (n = 2 \/ n = 3)%nat -> signed_perm n a -> signed_perm n b ->
  signed_perm n (ocompose a b) /\ oparity (ocompose a b) = xorb (oparity a) (oparity b).
Proof.
  intros [->| ->] Ha Hb.
  - apply signed_perm_A2 in Ha. apply signed_perm_A2 in Hb. split; [apply A2_signed_perm, compose_closed2; assumption|apply oparity_compose_A2; assumption].
  - apply signed_perm_A3 in Ha. apply signed_perm_A3 in Hb. split; [apply A3_signed_perm, compose_closed3; assumption|apply oparity_compose_A3; assumption].
Qed.
Lemma oparity_ident n : oparity (oident n) = false.
Proof.
  unfold oparity, oident. cbn [o_perm o_flip].
  assert (E1 : forall m s, perm_odd (seq s m) = false).
  { induction m as [|m IH]; intros s; [reflexivity|]. cbn [seq perm_odd]. rewrite IH.
    assert (E : forall k t, (s < t)%nat -> inv_head s (seq t k) = false).
    { induction k as [|k IHk]; intros t Ht; [reflexivity|]. cbn [seq inv_head]. rewrite IHk by lia.
      destruct (Nat.ltb_spec t s); [lia|reflexivity]. }
    rewrite E by lia. reflexivity. }
  assert (E2 : flips_odd (repeat false n) = false) by (induction n as [|m IH]; [reflexivity|unfold flips_odd in *; cbn [repeat fold_right]; rewrite IH; reflexivity]).
  rewrite E1, E2. reflexivity.
Qed.

(* ---- the action on derivative tuples is compatible with composition (any number of directions) ---- *)
Lemma vneg_invol (v : list R) : @vneg R NumR (@vneg R NumR v) = v.
Proof. unfold vneg. rewrite map_map. rewrite <- (map_id v) at 2. apply map_ext. intros x. unfold nneg; cbn; ring. Qed.

Theorem oapply_compose n l r (ds : list (list R)) : wf_orient n l -> wf_orient n r ->
  @oapply R NumR (ocompose l r) ds = @oapply R NumR l (@oapply R NumR r ds).
Proof.
  intros Hl Hr. pose proof (ocompose_wf n l r Hl Hr) as (Llr & _ & _).
  pose proof Hl as (Ll & Fl & Pl). pose proof Hr as (Lr & Fr & Pr).
  unfold oapply at 1 2. rewrite Llr, Ll. apply map_ext_in. intros d Hd. apply in_seq in Hd. cbv zeta.
  rewrite (ocompose_perm n l r d Hl) by lia. rewrite (ocompose_flip n l r d Hl) by lia.
  assert (Hld : (nth d (o_perm l) 0 < n)%nat) by (apply (wf_perm_lt n l); [exact Hl|lia]).
  unfold oapply. rewrite Lr. rewrite nth_map_seq_nat by exact Hld.
  destruct (nth d (o_flip l) false), (nth (nth d (o_perm l) 0%nat) (o_flip r) false); cbn [xorb]; try reflexivity.
  rewrite vneg_invol. reflexivity.
Qed.

(* ---- swap and reverse as orientations; sequences of them ---- *)
Definition valid_step (n : nat) (s : rstep) : Prop :=
  match s with RSwap d1 d2 => d1 <> d2 /\ (d1 < n)%nat /\ (d2 < n)%nat | RRev d => (d < n)%nat end.
Definition valid_stepb (n : nat) (s : rstep) : bool :=
  match s with RSwap d1 d2 => negb (d1 =? d2)%nat && (d1 <? n)%nat && (d2 <? n)%nat | RRev d => (d <? n)%nat end.
Lemma valid_stepb_spec n s : valid_stepb n s = true -> valid_step n s.
Proof.
  destruct s as [d1 d2|d]; cbn [valid_stepb valid_step].
  - intros Hb. apply andb_true_iff in Hb. destruct Hb as [Hb H2]. apply andb_true_iff in Hb. destruct Hb as [H0 H1].
    apply Nat.ltb_lt in H1, H2. apply negb_true_iff in H0. apply Nat.eqb_neq in H0. tauto.
  - apply Nat.ltb_lt.
Qed.

(* every swap of two different directions and every reversal is an odd orientation, and acts on the derivative
   tuple as that orientation *)
Lemma step_A3 s : valid_step 3 s ->
  In (step_orient 3 s) A3 /\ oparity (step_orient 3 s) = true /\
  forall a b c : list R, @step_apply R NumR s [a; b; c] = @oapply R NumR (step_orient 3 s) [a; b; c].
Proof.
  destruct s as [d1 d2|d]; cbn [valid_step].
  - intros (Hne & H1 & H2). destruct d1 as [|[|[|d1]]]; [| | |lia]; (destruct d2 as [|[|[|d2]]]; [| | |lia]); try congruence;
      (split; [apply omem_In; vm_compute; reflexivity|split; [reflexivity|intros a b c; reflexivity]]).
  - intros H. destruct d as [|[|[|d]]]; [| | |lia];
      (split; [apply omem_In; vm_compute; reflexivity|split; [reflexivity|intros a b c; reflexivity]]).
Qed.
Lemma step_A2 s : valid_step 2 s ->
  In (step_orient 2 s) A2 /\ oparity (step_orient 2 s) = true /\
  forall a b : list R, @step_apply R NumR s [a; b] = @oapply R NumR (step_orient 2 s) [a; b].
Proof.
  destruct s as [d1 d2|d]; cbn [valid_step].
  - intros (Hne & H1 & H2). destruct d1 as [|[|d1]]; [| |lia]; (destruct d2 as [|[|d2]]; [| |lia]); try congruence;
      (split; [apply omem_In; vm_compute; reflexivity|split; [reflexivity|intros a b; reflexivity]]).
  - intros H. destruct d as [|[|d]]; [| |lia];
      (split; [apply omem_In; vm_compute; reflexivity|split; [reflexivity|intros a b; reflexivity]]).
Qed.

Lemma odd_S_xorb k : Nat.odd (S k) = xorb (Nat.odd k) true.
Proof. rewrite Nat.odd_succ, <- Nat.negb_odd. destruct (Nat.odd k); reflexivity. Qed.

(* a sequence of k swaps / reversals is an orientation of parity k mod 2 *)
Theorem steps_orient_parity3 w : List.Forall (valid_step 3) w ->
  In (steps_orient 3 w) A3 /\ oparity (steps_orient 3 w) = Nat.odd (length w).
Proof.
  induction 1 as [|s r Hs Hr [IH1 IH2]].
  - split; [apply omem_In; vm_compute; reflexivity|reflexivity].
  - destruct (step_A3 s Hs) as (S1 & S2 & _). cbn [steps_orient length]. split; [apply compose_closed3; assumption|].
    rewrite oparity_compose_A3 by assumption. rewrite IH2, S2. symmetry. apply odd_S_xorb.
Qed.
Theorem steps_orient_parity2 w : List.Forall (valid_step 2) w ->
  In (steps_orient 2 w) A2 /\ oparity (steps_orient 2 w) = Nat.odd (length w).
Proof.
  induction 1 as [|s r Hs Hr [IH1 IH2]].
  - split; [apply omem_In; vm_compute; reflexivity|reflexivity].
  - destruct (step_A2 s Hs) as (S1 & S2 & _). cbn [steps_orient length]. split; [apply compose_closed2; assumption|].
    rewrite oparity_compose_A2 by assumption. rewrite IH2, S2. symmetry. apply odd_S_xorb.
Qed.

Lemma oapply_length o (ds : list (list R)) : length (@oapply R NumR o ds) = length (o_perm o).
Proof. unfold oapply. rewrite map_length, seq_length. reflexivity. Qed.

(* ... and acts on the derivative tuple as that orientation *)
Theorem steps_apply_oapply3 w : List.Forall (valid_step 3) w -> forall ds : list (list R), length ds = 3%nat ->
  @steps_apply R NumR w ds = @oapply R NumR (steps_orient 3 w) ds.
Proof.
  induction 1 as [|s r Hs Hr IH]; intros ds Hds.
  - destruct ds as [|a [|b [|c [|x ds]]]]; try discriminate. reflexivity.
  - destruct ds as [|a [|b [|c [|x ds]]]]; try discriminate.
    destruct (step_A3 s Hs) as (S1 & _ & S3). destruct (steps_orient_parity3 r Hr) as [R1 _].
    unfold steps_apply. cbn [fold_left steps_orient]. fold (@steps_apply R NumR r (@step_apply R NumR s [a; b; c])).
    rewrite S3. rewrite IH.
    + symmetry. apply (oapply_compose 3); apply signed_perm_wf, A3_signed_perm; assumption.
    + rewrite oapply_length. apply A3_signed_perm, signed_perm_wf in S1. apply S1.
Qed.
Theorem steps_apply_oapply2 w : List.Forall (valid_step 2) w -> forall ds : list (list R), length ds = 2%nat ->
  @steps_apply R NumR w ds = @oapply R NumR (steps_orient 2 w) ds.
Proof.
  induction 1 as [|s r Hs Hr IH]; intros ds Hds.
  - destruct ds as [|a [|b [|x ds]]]; try discriminate. reflexivity.
  - destruct ds as [|a [|b [|x ds]]]; try discriminate.
    destruct (step_A2 s Hs) as (S1 & _ & S3). destruct (steps_orient_parity2 r Hr) as [R1 _].
    unfold steps_apply. cbn [fold_left steps_orient]. fold (@steps_apply R NumR r (@step_apply R NumR s [a; b])).
    rewrite S3. rewrite IH.
    + symmetry. apply (oapply_compose 2); apply signed_perm_wf, A2_signed_perm; assumption.
    + rewrite oapply_length. apply A2_signed_perm, signed_perm_wf in S1. apply S1.
Qed.

(* the harness's reorient(obj, perm, flip) (swaps that bring perm[d] to position d, then reversals) realises
   exactly the orientation (perm, flip), for every signed permutation of 2 or 3 directions *)
Lemma forallb_lift (l : list orient) (P : orient -> bool) : forallb P l = true -> forall o, In o l -> P o = true.
Proof. intros Hf o Ho. rewrite forallb_forall in Hf. exact (Hf o Ho). Qed.
Theorem reorient_steps_ok3 o : In o A3 ->
  List.Forall (valid_step 3) (reorient_steps o) /\ steps_orient 3 (reorient_steps o) = o.
Proof.
  intros Ho.
  assert (Hb : (forallb (valid_stepb 3) (reorient_steps o) && (if orient_eq_dec (steps_orient 3 (reorient_steps o)) o then true else false))%bool = true).
  { revert o Ho. apply forallb_lift. vm_compute. reflexivity. }
  apply andb_true_iff in Hb. destruct Hb as [H1 H2]. split.
  - apply Forall_forall. intros s Hs. rewrite forallb_forall in H1. apply valid_stepb_spec, H1, Hs.
  - destruct (orient_eq_dec (steps_orient 3 (reorient_steps o)) o); [assumption|discriminate].
Qed.
Theorem reorient_steps_ok2 o : In o A2 ->
  List.Forall (valid_step 2) (reorient_steps o) /\ steps_orient 2 (reorient_steps o) = o.
Proof.
  intros Ho.
  assert (Hb : (forallb (valid_stepb 2) (reorient_steps o) && (if orient_eq_dec (steps_orient 2 (reorient_steps o)) o then true else false))%bool = true).
  { revert o Ho. apply forallb_lift. vm_compute. reflexivity. }
  apply andb_true_iff in Hb. destruct Hb as [H1 H2]. split.
  - apply Forall_forall. intros s Hs. rewrite forallb_forall in H1. apply valid_stepb_spec, H1, Hs.
  - destruct (orient_eq_dec (steps_orient 2 (reorient_steps o)) o); [assumption|discriminate].
Qed.
Corollary reorient_steps_apply3 o du dv dw : In o A3 ->
  @steps_apply R NumR (reorient_steps o) [du; dv; dw] = @oapply R NumR o [du; dv; dw] /\
  oparity o = Nat.odd (length (reorient_steps o)).
Proof.
  intros Ho. destruct (reorient_steps_ok3 o Ho) as [V E]. split.
  - rewrite (steps_apply_oapply3 _ V) by reflexivity. rewrite E. reflexivity.
  - rewrite <- E at 1. apply steps_orient_parity3, V.
Qed.
Corollary reorient_steps_apply2 o du dv : In o A2 ->
  @steps_apply R NumR (reorient_steps o) [du; dv] = @oapply R NumR o [du; dv] /\
  oparity o = Nat.odd (length (reorient_steps o)).
Proof.
  intros Ho. destruct (reorient_steps_ok2 o Ho) as [V E]. split.
  - rewrite (steps_apply_oapply2 _ V) by reflexivity. rewrite E. reflexivity.
  - rewrite <- E at 1. apply steps_orient_parity2, V.
Qed.
