(* C12: compatibility of dimension/rationality and the knot-count arithmetic of make_splines_identical. *)
From Coq Require Import List Arith Lia Bool ZArith.
From SplipyModel Require Import Model.Num Model.BasisDef Model.Tensor Model.Obj Model.Affine Model.Identical.
Import ListNotations.

Section P.
Context {F : Type} `{Num F}.

Theorem compatible_spec (o1 o2 : obj F) :
  let ab := obj_compatible o1 o2 in
  o_dim (fst ab) = o_dim (snd ab) /\ o_rat (fst ab) = o_rat (snd ab) /\
  o_dim (fst ab) = Nat.max (o_dim o1) (o_dim o2) /\ o_rat (fst ab) = (o_rat o1 || o_rat o2)%bool /\
  o_bases (fst ab) = o_bases o1 /\ o_bases (snd ab) = o_bases o2.
Proof.
  unfold obj_compatible, obj_force_rational, obj_set_dimension.
  destruct (o_rat o1) eqn:R1; destruct (o_rat o2) eqn:R2; cbn [o_dim o_rat o_bases fst snd];
  match goal with |- context[(?a <? ?b)%nat] => destruct (Nat.ltb_spec a b) end; cbn [o_dim o_rat o_bases fst snd];
  rewrite ?R1, ?R2; repeat split; try reflexivity; lia.
Qed.
End P.

(* with continuity c = p - 1 - multiplicity: the number of copies inserted into the smoother object brings its
   multiplicity up to the other's (absent knot: multiplicity 0, continuity +infinity) *)
Theorem ins_count_spec (p m1 m2 : nat) : (m2 < m1 <= p)%nat ->
  ins_count p (Some (Z.of_nat p - 1 - Z.of_nat m1)%Z) (Some (Z.of_nat p - 1 - Z.of_nat m2)%Z) = (m1 - m2)%nat /\
  ins_count p (Some (Z.of_nat p - 1 - Z.of_nat m1)%Z) None = m1 /\
  cont_gt (Some (Z.of_nat p - 1 - Z.of_nat m2)%Z) (Some (Z.of_nat p - 1 - Z.of_nat m1)%Z) = true /\
  cont_gt None (Some (Z.of_nat p - 1 - Z.of_nat m1)%Z) = true.
Proof.
  intros Hm. unfold ins_count, cont_gt. repeat split.
  - rewrite Z.min_l by lia. lia.
  - lia.
  - apply Z.ltb_lt. lia.
Qed.
