(* The 3 x 3 net of surface_factory.disc(type='square') regenerated from the current source (Gen/DiscSquare.v) is the
   net the theorems of Proofs/CompositeShapes.v are about. *)
From Coq Require Import List Reals Lra ZArith.
From SplipyModel Require Import Model.Num Gen.DiscSquare Proofs.CircleProofs Proofs.CompositeShapes.
Import ListNotations.
Open Scope R_scope.

Lemma disc_square_gen_is_net r w : @disc_square_net_gen R NumR r w = disc_square_net r w.
Proof.
  unfold disc_square_net_gen, disc_square_net. cbn [nmul nsub n0 nofZ NumR].
  repeat (f_equal; try (cbn [IZR IPR IPR_2]; ring)).
Qed.

(* the regenerated net: boundary on the circle, whole patch inside the disc *)
Theorem disc_square_gen_boundary r w b0 b1 b2 : w * w = 1 / 2 -> b1 * b1 = 4 * (b0 * b2) ->
  let net := @disc_square_net_gen R NumR r w in
  forall i0 i1 i2, In (i0, i1, i2) [(0, 1, 2); (6, 7, 8); (0, 3, 6); (2, 5, 8)]%nat ->
  let P0 := nth i0 net [] in let P1 := nth i1 net [] in let P2 := nth i2 net [] in
  blend3 hx P0 P1 P2 b0 b1 b2 * blend3 hx P0 P1 P2 b0 b1 b2 + blend3 hy P0 P1 P2 b0 b1 b2 * blend3 hy P0 P1 P2 b0 b1 b2
  = r * r * (blend3 hw P0 P1 P2 b0 b1 b2 * blend3 hw P0 P1 P2 b0 b1 b2)
  /\ hw P0 = 1 /\ hw P1 = w /\ hw P2 = 1.
Proof. intros Hw Hb. rewrite disc_square_gen_is_net. exact (disc_square_boundary r w b0 b1 b2 Hw Hb). Qed.

Theorem disc_square_gen_inside r w a0 a1 a2 b0 b1 b2 : w * w = 1 / 2 -> 0 < w ->
  0 <= a0 -> 0 <= a1 -> 0 <= a2 -> 0 <= b0 -> 0 <= b1 -> 0 <= b2 ->
  a1 * a1 = 4 * (a0 * a2) -> b1 * b1 = 4 * (b0 * b2) -> a0 + a1 + a2 = 1 -> b0 + b1 + b2 = 1 ->
  let net := @disc_square_net_gen R NumR r w in
  let X := blend33 hx net a0 a1 a2 b0 b1 b2 in
  let Y := blend33 hy net a0 a1 a2 b0 b1 b2 in
  let W := blend33 hw net a0 a1 a2 b0 b1 b2 in
  0 < W /\ X * X + Y * Y <= r * r * (W * W) /\ (X / W) * (X / W) + (Y / W) * (Y / W) <= r * r.
Proof.
  intros Hw Hwp Ha0 Ha1 Ha2 Hb0 Hb1 Hb2 Ha Hb Sa Sb. rewrite disc_square_gen_is_net.
  exact (disc_square_inside r w a0 a1 a2 b0 b1 b2 Hw Hwp Ha0 Ha1 Ha2 Hb0 Hb1 Hb2 Ha Hb Sa Sb).
Qed.
