(* C09: coordinate-wise affine maps of the control points commute with evaluation; algebraic facts
   about the regenerated rotation matrix and the mirror matrix. *)
From Coq Require Import List Arith Reals Lra Lia Bool ZArith.
From SplipyModel Require Import Spec.BSpline Model.Num Model.Tensor Model.Obj Model.Affine Gen.RotationMatrix
  Proofs.TensorLemmas Proofs.EvalConsequences Proofs.ObjEval Proofs.InsertMatrix Proofs.TensorApply.
Import ListNotations.
Open Scope R_scope.

(* contraction of a constant net: the product of the row sums *)
Lemma tsum_const rows (x : R) : Forall (fun N => rsum N = 1) rows -> tsum rows (fun _ => x) = x.
Proof.
  induction rows as [|N rest IH]; intros H; cbn [tsum]; [reflexivity|]. cbv zeta.
  inversion H as [|? ? HN HR]; subst. unfold lcf.
  rewrite (sumf_ext _ (fun i => x * nth i N 0)) by (intros i _; rewrite IH by exact HR; ring).
  rewrite sumf_scal. rewrite <- rsum_sumf. rewrite HN. ring.
Qed.

Lemma tsum_plus rows : forall f g, tsum rows (fun i => f i + g i) = tsum rows f + tsum rows g.
Proof.
  induction rows as [|N rest IH]; intros f g; cbn [tsum]; [reflexivity|]. cbv zeta. unfold lcf.
  rewrite <- sumf_plus. apply sumf_ext. intros i _. rewrite IH. ring.
Qed.

(* C09.1: if every control point P is replaced by L(P) with
       coord c' (L P) = sum_c cf[c] * coord c P + kappa            (an affine function of the coordinates)
   then the same affine function relates the evaluated points, provided the rows of basis values sum
   to one (partition of unity; not needed when kappa = 0). *)
Theorem teval_affine dim dim' c' (cf : list R) (kappa : R) (L : list R -> list R) rows cps :
  (c' < dim')%nat -> length cf = dim ->
  net_ok dim rows cps -> Forall (fun v => length (L v) = dim') cps ->
  (kappa = 0 \/ Forall (fun N => rsum N = 1) rows) ->
  (forall v, In v cps -> coord c' (L v) = sumf (fun c => nth c cf 0 * coord c v) 0 dim + kappa) ->
  (0 < prodl (map (@length R) rows))%nat ->
  coord c' (@teval R NumR dim' rows (map L cps))
  = sumf (fun c => nth c cf 0 * coord c (@teval R NumR dim rows cps)) 0 dim + kappa.
Proof.
  intros Hc' Hcf [Hv Hl] HL Hk Hco Hpos.
  assert (Hnet' : net_ok dim' rows (map L cps)).
  { split; [|rewrite map_length; exact Hl]. apply Forall_forall. intros v Hin. apply in_map_iff in Hin.
    destruct Hin as (u & <- & Hu). rewrite Forall_forall in HL. apply HL. exact Hu. }
  rewrite (teval_tsum dim' c' rows Hc' _ Hnet').
  rewrite (tsum_ext rows _ (fun idx => sumf (fun c => nth c cf 0 * cnet dim c cps idx) 0 (length cf) + kappa)).
  2:{ intros idx Hidx. unfold cnet. rewrite <- Hl in Hidx.
      rewrite (nth_indep _ _ (L (@vzero R NumR dim))) by (rewrite map_length; exact Hidx). rewrite map_nth.
      rewrite Hco by (apply nth_In; exact Hidx). rewrite Hcf. reflexivity. }
  rewrite tsum_plus, tsum_lin. rewrite Hcf. f_equal.
  - apply sumf_ext. intros c Hc. rewrite (teval_tsum dim c rows ltac:(lia) cps (conj Hv Hl)). reflexivity.
  - destruct Hk as [->|Hk]; [|apply tsum_const; exact Hk].
    clear. induction rows as [|N rest IH]; cbn [tsum]; [reflexivity|]. cbv zeta. unfold lcf.
    apply sumf_zero. intros i _. rewrite IH. ring.
Qed.

(* ---------- the regenerated rotation matrix ---------- *)
Section Rot.
Variables a b c d : R.
Local Notation Rm := (@rotmat R NumR a b c d).
Local Notation s2 := (a * a + b * b + c * c + d * d).
Definition ent (M : list (list R)) i j : R := nth j (nth i M []) 0.
Definition rowdot (M : list (list R)) i j : R := ent M i 0 * ent M j 0 + ent M i 1 * ent M j 1 + ent M i 2 * ent M j 2.

(* rows are orthogonal with squared length (a^2+b^2+c^2+d^2)^2: for a unit quaternion, R R^T = I *)
Theorem rotmat_orthogonal i j : (i < 3)%nat -> (j < 3)%nat ->
  rowdot Rm i j = if (i =? j)%nat then s2 * s2 else 0.
Proof.
  intros Hi Hj. destruct i as [|[|[|i]]]; [| | |lia]; destruct j as [|[|[|j]]]; try lia;
  unfold rowdot, ent, rotmat; cbv zeta; cbn [nth Nat.eqb nadd nsub nmul nofZ NumR]; ring.
Qed.

Theorem rotmat_det :
  ent Rm 0 0 * (ent Rm 1 1 * ent Rm 2 2 - ent Rm 1 2 * ent Rm 2 1)
  - ent Rm 0 1 * (ent Rm 1 0 * ent Rm 2 2 - ent Rm 1 2 * ent Rm 2 0)
  + ent Rm 0 2 * (ent Rm 1 0 * ent Rm 2 1 - ent Rm 1 1 * ent Rm 2 0) = s2 * s2 * s2.
Proof. unfold ent, rotmat; cbv zeta; cbn [nth nadd nsub nmul nofZ NumR]; ring. Qed.

(* the axis (b,c,d) is fixed (row vector times matrix) *)
Theorem rotmat_fixes_axis j : (j < 3)%nat ->
  b * ent Rm 0 j + c * ent Rm 1 j + d * ent Rm 2 j = s2 * nth j [b; c; d] 0.
Proof. intros Hj. destruct j as [|[|[|j]]]; [| | |lia]; unfold ent, rotmat; cbv zeta; cbn [nth nadd nsub nmul nofZ NumR]; ring. Qed.

(* trace = 1 + 2 cos(theta) for a = cos(theta/2), |(b,c,d)| = sin(theta/2) *)
Theorem rotmat_trace : ent Rm 0 0 + ent Rm 1 1 + ent Rm 2 2 = 3 * (a * a) - (b * b + c * c + d * d).
Proof. unfold ent, rotmat; cbv zeta; cbn [nth nadd nsub nmul nofZ NumR]; ring. Qed.
End Rot.

(* ---------- the mirror matrix I - 2 u u^T ---------- *)
Section Mir.
Variables u0 u1 u2 : R.
Hypothesis Hu : u0 * u0 + u1 * u1 + u2 * u2 = 1.
Definition uv (i : nat) : R := nth i [u0; u1; u2] 0.
Definition mir (i j : nat) : R := (if (i =? j)%nat then 1 else 0) - 2 * (uv i * uv j).

Lemma mirror_involution_raw i j : (i < 3)%nat -> (j < 3)%nat ->
  mir i 0 * mir 0 j + mir i 1 * mir 1 j + mir i 2 * mir 2 j
  = (if (i =? j)%nat then 1 else 0) + 4 * (u0 * u0 + u1 * u1 + u2 * u2 - 1) * (uv i * uv j).
Proof.
  intros Hi Hj. destruct i as [|[|[|i]]]; [| | |lia]; destruct j as [|[|[|j]]]; try lia;
  unfold mir, uv; cbn [nth Nat.eqb]; ring.
Qed.
Theorem mirror_involution i j : (i < 3)%nat -> (j < 3)%nat ->
  mir i 0 * mir 0 j + mir i 1 * mir 1 j + mir i 2 * mir 2 j = if (i =? j)%nat then 1 else 0.
Proof. intros Hi Hj. rewrite mirror_involution_raw by assumption. rewrite Hu. ring. Qed.
Lemma mirror_reflects_raw j : (j < 3)%nat ->
  u0 * mir 0 j + u1 * mir 1 j + u2 * mir 2 j = uv j - 2 * (u0 * u0 + u1 * u1 + u2 * u2) * uv j.
Proof. intros Hj. destruct j as [|[|[|j]]]; [| | |lia]; unfold mir, uv; cbn [nth Nat.eqb]; ring. Qed.
Theorem mirror_reflects_normal j : (j < 3)%nat ->
  u0 * mir 0 j + u1 * mir 1 j + u2 * mir 2 j = - uv j.
Proof. intros Hj. rewrite mirror_reflects_raw by assumption. rewrite Hu. ring. Qed.
Theorem mirror_fixes_plane (p0 p1 p2 : R) j : (j < 3)%nat -> p0 * u0 + p1 * u1 + p2 * u2 = 0 ->
  p0 * mir 0 j + p1 * mir 1 j + p2 * mir 2 j = nth j [p0; p1; p2] 0.
Proof.
  intros Hj Hp.
  assert (E : p0 * mir 0 j + p1 * mir 1 j + p2 * mir 2 j = nth j [p0; p1; p2] 0 - 2 * (p0 * u0 + p1 * u1 + p2 * u2) * uv j).
  { destruct j as [|[|[|j]]]; [| | |lia]; unfold mir, uv; cbn [nth Nat.eqb]; ring. }
  rewrite E, Hp. ring.
Qed.
End Mir.

(* ---------- instances for the model operations ---------- *)
Lemma coord_app_l c (a b : list R) : (c < length a)%nat -> coord c (a ++ b) = coord c a.
Proof. intros H. unfold coord. apply app_nth1. exact H. Qed.
Lemma coord_app_r c (a b : list R) : (length a <= c)%nat -> coord c (a ++ b) = coord (c - length a) b.
Proof. intros H. unfold coord. apply app_nth2. exact H. Qed.
Lemma coord_map_seq c (g : nat -> R) n : (c < n)%nat -> coord c (map g (seq 0 n)) = g c.
Proof. intros H. unfold coord. apply nth_map_seq'. exact H. Qed.
Lemma coord_skipn c m (v : list R) : coord c (skipn m v) = coord (m + c) v.
Proof. unfold coord. apply nth_skipn_add. Qed.

Lemma sumf_unit (f : nat -> R) c n : (c < n)%nat ->
  sumf (fun i => (if (i =? c)%nat then 1 else 0) * f i) 0 n = f c.
Proof.
  intros H. rewrite (sumf_ext _ (fun i => if (c =? i)%nat then f c else 0)).
  - apply sumf_indicator. lia.
  - intros i _. rewrite Nat.eqb_sym. destruct (Nat.eqb_spec c i) as [->|]; ring.
Qed.

Section Inst.
Variables (dim : nat) (rows : list (list R)) (cps : list (list R)).
Hypothesis Hnet : net_ok dim rows cps.
Hypothesis Hpos : (0 < prodl (map (@length R) rows))%nat.

(* scaling the first m coordinates by s_i (weights, stored behind them, untouched) scales the evaluated
   coordinates; holds for rational objects as well (homogeneous coordinates scale the same way) *)
Theorem scale_commutes (m : nat) (s : list R) c : (m <= dim)%nat -> (c < dim)%nat ->
  coord c (@teval R NumR dim rows
             (map (fun v => map (fun i => @nmul R NumR (nth i v 0) (nth i s 0)) (seq 0 m) ++ skipn m v) cps))
  = (if (c <? m)%nat then nth c s 0 else 1) * coord c (@teval R NumR dim rows cps).
Proof.
  intros Hm Hc.
  rewrite (teval_affine dim dim c (map (fun i => if (i =? c)%nat then (if (c <? m)%nat then nth c s 0 else 1) else 0) (seq 0 dim)) 0
             _ rows cps Hc); try assumption.
  - rewrite Rplus_0_r.
    rewrite (sumf_ext _ (fun i => (if (i =? c)%nat then 1 else 0) * ((if (c <? m)%nat then nth c s 0 else 1) * coord i (@teval R NumR dim rows cps)))).
    + rewrite (sumf_unit (fun i => (if (c <? m)%nat then nth c s 0 else 1) * coord i (@teval R NumR dim rows cps)) c dim Hc). reflexivity.
    + intros i Hi. rewrite (nth_map_seq' _ dim i) by lia. destruct (i =? c)%nat; ring.
  - rewrite map_length, seq_length. reflexivity.
  - destruct Hnet as [Hv _]. apply Forall_forall. intros v Hin. rewrite Forall_forall in Hv. specialize (Hv v Hin).
    rewrite app_length, map_length, seq_length, skipn_length. lia.
  - left. reflexivity.
  - intros v Hin. destruct Hnet as [Hv _]. rewrite Forall_forall in Hv. specialize (Hv v Hin).
    rewrite Rplus_0_r.
    rewrite (sumf_ext _ (fun i => (if (i =? c)%nat then 1 else 0) * ((if (c <? m)%nat then nth c s 0 else 1) * coord i v))).
    2:{ intros i Hi. rewrite (nth_map_seq' _ dim i) by lia. destruct (i =? c)%nat; ring. }
    rewrite (sumf_unit (fun i => (if (c <? m)%nat then nth c s 0 else 1) * coord i v) c dim Hc).
    destruct (Nat.ltb_spec c m) as [A|A].
    + rewrite coord_app_l by (rewrite map_length, seq_length; exact A).
      rewrite coord_map_seq by exact A. cbn [nmul NumR]. unfold coord. ring.
    + rewrite coord_app_r by (rewrite map_length, seq_length; exact A). rewrite map_length, seq_length.
      rewrite coord_skipn. replace (m + (c - m))%nat with c by lia. ring.
Qed.

(* translating a non-rational net by x translates every evaluated point (needs the partition of unity) *)
Theorem translate_commutes (x : list R) c : Forall (fun N => rsum N = 1) rows -> (c < dim)%nat ->
  coord c (@teval R NumR dim rows
             (map (fun v => map (fun i => @nadd R NumR (nth i v 0) (@nmul R NumR (nth i x 0) 1)) (seq 0 dim) ++ skipn dim v) cps))
  = coord c (@teval R NumR dim rows cps) + nth c x 0.
Proof.
  intros HPU Hc.
  rewrite (teval_affine dim dim c (map (fun i => if (i =? c)%nat then 1 else 0) (seq 0 dim)) (nth c x 0) _ rows cps Hc); try assumption.
  - f_equal.
    rewrite (sumf_ext _ (fun i => (if (i =? c)%nat then 1 else 0) * coord i (@teval R NumR dim rows cps))).
    + apply (sumf_unit (fun i => coord i (@teval R NumR dim rows cps)) c dim Hc).
    + intros i Hi. rewrite (nth_map_seq' _ dim i) by lia. reflexivity.
  - rewrite map_length, seq_length. reflexivity.
  - destruct Hnet as [Hv _]. apply Forall_forall. intros v Hin. rewrite Forall_forall in Hv. specialize (Hv v Hin).
    rewrite app_length, map_length, seq_length, skipn_length. lia.
  - right. exact HPU.
  - intros v Hin.
    rewrite (sumf_ext _ (fun i => (if (i =? c)%nat then 1 else 0) * coord i v)).
    2:{ intros i Hi. rewrite (nth_map_seq' _ dim i) by lia. reflexivity. }
    rewrite (sumf_unit (fun i => coord i v) c dim Hc).
    rewrite coord_app_l by (rewrite map_length, seq_length; exact Hc).
    rewrite coord_map_seq by exact Hc. cbn [nadd nmul NumR]. unfold coord. ring.
Qed.
End Inst.
