(* C18, mesh export across an interface between two structured trilinear patches (Model/Faces2.v, transcribed from the
   `bdnode.nhigher == 2` branch of TopologicalNode.faces): the neighbour of every interface face is the cell of the
   other patch that is geometrically adjacent, every interface pair is exported exactly once and only by the owner
   patch, every cell of both patches is still bounded by exactly six faces, owner < neighbour holds exactly when the
   owner patch was numbered first, and the vertex order gives a normal pointing from the owner cell to the neighbour. *)
From Coq Require Import List Arith Lia Bool ZArith.
From SplipyModel Require Import Model.Faces Model.Orient Model.Faces2 Proofs.FacesProofs.
Import ListNotations.

(* ================= the index maps of an orientation of a face ================= *)

Definition flipn (f : bool) (m x : nat) : nat := if f then m - 1 - x else x.

Lemma flipn_lt f m x : x < m -> flipn f m x < m.
Proof. destruct f; cbn [flipn]; lia. Qed.
Lemma flipn_invol f m x : x < m -> flipn f m (flipn f m x) = x.
Proof. destruct f; cbn [flipn]; lia. Qed.

Lemma osrc_face g m0 m1 p0 p1 : osrc (face_orient g) [m0; m1] [p0; p1] =
  if g_swap g then [flipn (g_flip1 g) m0 p1; flipn (g_flip0 g) m1 p0] else [flipn (g_flip0 g) m0 p0; flipn (g_flip1 g) m1 p1].
Proof. unfold face_orient. destruct (g_swap g); reflexivity. Qed.
Lemma odst_face g m0 m1 q0 q1 : odst (face_orient g) [m0; m1] [q0; q1] =
  if g_swap g then [flipn (g_flip0 g) m1 q1; flipn (g_flip1 g) m0 q0] else [flipn (g_flip0 g) m0 q0; flipn (g_flip1 g) m1 q1].
Proof. unfold face_orient. destruct (g_swap g); reflexivity. Qed.
Lemma oshape_face g m0 m1 : oshape (face_orient g) [m0; m1] = if g_swap g then [m1; m0] else [m0; m1].
Proof. unfold face_orient. destruct (g_swap g); reflexivity. Qed.

(* osrc and odst are inverse bijections between the index sets of the result (shape oshape) and of the argument *)
Lemma osrc_odst g m0 m1 q0 q1 : q0 < m0 -> q1 < m1 ->
  osrc (face_orient g) [m0; m1] (odst (face_orient g) [m0; m1] [q0; q1]) = [q0; q1].
Proof.
  intros H0 H1. rewrite odst_face. destruct (g_swap g) eqn:E; rewrite osrc_face, E, !flipn_invol by assumption; reflexivity.
Qed.
Lemma odst_osrc g m0 m1 p0 p1 :
  p0 < nth 0 (oshape (face_orient g) [m0; m1]) 0 -> p1 < nth 1 (oshape (face_orient g) [m0; m1]) 0 ->
  odst (face_orient g) [m0; m1] (osrc (face_orient g) [m0; m1] [p0; p1]) = [p0; p1].
Proof.
  rewrite oshape_face, osrc_face. destruct (g_swap g) eqn:E; cbn [nth]; intros H0 H1; rewrite odst_face, E, !flipn_invol by lia; reflexivity.
Qed.

Lemma list_eq_dec_b_2 a b c d : list_eq_dec_b [a; b] [c; d] = true -> a = c /\ b = d.
Proof.
  unfold list_eq_dec_b. cbn. rewrite !andb_true_iff, !Nat.eqb_eq. tauto.
Qed.

(* ================= faces as 2-d arrays ================= *)

Lemma inface_put d z i j : d < 3 -> inface d (put d z [i; j]) = [i; j].
Proof. intros Hd. destruct d as [|[|[|d]]]; [| | |lia]; reflexivity. Qed.
Lemma get_put d z p : d < 3 -> get d (put d z p) = z.
Proof. intros Hd. destruct d as [|[|[|d]]]; [| | |lia]; reflexivity. Qed.
Lemma put_inface d c : d < 3 -> put d (get d c) (inface d c) = c.
Proof. intros Hd. destruct c as [[i j] k]. destruct d as [|[|[|d]]]; [| | |lia]; reflexivity. Qed.

Lemma in_grid2 shape p : In p (grid2 shape) <-> exists i j, p = [i; j] /\ i < nth 0 shape 0 /\ j < nth 1 shape 0.
Proof.
  unfold grid2. rewrite in_flat_map. split.
  - intros (i & Hi & H). apply in_map_iff in H. destruct H as (j & <- & Hj). apply in_seq in Hi, Hj. exists i, j. repeat split; lia.
  - intros (i & j & -> & Hi & Hj). exists i. split; [apply in_seq; lia|]. apply in_map_iff. exists j. split; [reflexivity|apply in_seq; lia].
Qed.

Lemma flat_map_single {A B} (f : A -> B) l : flat_map (fun x => [f x]) l = map f l.
Proof. induction l as [|x r IH]; cbn; [reflexivity|]. rewrite IH. reflexivity. Qed.

(* the layer of cells touching face (d, side), as the code enumerates it: cell[mkindex(d, bdindex, :, :)].flatten() *)
Definition layer_cells (sh : idx3) (d : nat) (side : bool) : list idx3 := if side then last_cells sh d else first_cells sh d.

(* mkindex's exchange for dim = 1 does not affect the order of .flatten(): it is the C order of the 2-d array *)
Lemma layer_cells_grid2 sh d side : d < 3 ->
  layer_cells sh d side = map (put d (layer sh d side)) (grid2 (face_shape sh d)).
Proof.
  intros Hd. destruct sh as [[nx ny] nz].
  assert (E : layer_cells (nx, ny, nz) d side = take_idx (nx, ny, nz) (mkindex d (fun _ => [layer (nx, ny, nz) d side]) s_all s_all)).
  { destruct side; destruct d as [|[|[|d]]]; try lia; reflexivity. }
  rewrite E. generalize (layer (nx, ny, nz) d side). intros z.
  destruct d as [|[|[|d]]]; [| | |lia]; unfold mkindex, take_idx, s_all, grid3, grid2, face_shape, inface, lo_ax, hi_ax, get; cbn [nth flat_map].
  - rewrite app_nil_r, map_flat_map. apply flat_map_ext_in. intros i _. rewrite map_map. reflexivity.
  - rewrite map_flat_map. apply flat_map_ext_in. intros i _. rewrite app_nil_r, map_map. reflexivity.
  - rewrite map_flat_map. apply flat_map_ext_in. intros i _. cbn [map]. rewrite flat_map_single, map_map. reflexivity.
Qed.

Lemma in_layer_cells sh d side c : d < 3 -> pos_shape sh ->
  (In c (layer_cells sh d side) <-> in_cells sh c /\ on_layer sh d side c = true).
Proof.
  intros Hd Hp. unfold layer_cells, on_layer. destruct side.
  - rewrite in_last_cells by assumption. rewrite Nat.eqb_eq. reflexivity.
  - rewrite in_first_cells by assumption. rewrite Nat.eqb_eq. reflexivity.
Qed.
Lemma NoDup_layer_cells sh d side : NoDup (layer_cells sh d side).
Proof. destruct side; [apply NoDup_last_cells|apply NoDup_first_cells]. Qed.

Lemma on_layer_get sh d side c : on_layer sh d side c = true -> in_cells sh c -> d < 3 -> get d c = layer sh d side.
Proof.
  unfold on_layer, layer, side_index. intros H Hc Hd. destruct side; apply Nat.eqb_eq in H; lia.
Qed.

(* ================= closed form of the interface faces ================= *)

Lemma boundary_faces_nb_none start sh d side :
  boundary_faces start sh d side =
  boundary_faces_nb start sh d side (map (fun _ => None) (map (cell_number start sh) (layer_cells sh d side))).
Proof. destruct side; reflexivity. Qed.

Lemma boundary_nb_lower_closed start sh d (fn : idx3 -> option nat) : d < 3 ->
  boundary_faces_nb start sh d false (map fn (first_cells sh d)) =
  map (fun q => low_face d q (cell_number start sh q) (fn q)) (first_cells sh d).
Proof.
  intros Hd. destruct sh as [[nx ny] nz]. destruct d as [|[|[|d]]]; [| | |lia];
    unfold boundary_faces_nb, first_cells, cpshape, mkindex, take_idx, s_first, s_init, s_tail, s_all; norm_sub; shift_grids;
    rewrite zip_faces_map_id; apply map_ext; intros [[i j] k]; reflexivity.
Qed.

Lemma boundary_nb_upper_closed start sh d (fn : idx3 -> option nat) : d < 3 -> pos_shape sh ->
  boundary_faces_nb start sh d true (map fn (last_cells sh d)) =
  map (fun q => up_face d q (cell_number start sh q) (fn q)) (last_cells sh d).
Proof.
  intros Hd. destruct sh as [[nx ny] nz]. intros (Hx & Hy & Hz).
  destruct nx as [|nx]; [lia|]. destruct ny as [|ny]; [lia|]. destruct nz as [|nz]; [lia|].
  destruct d as [|[|[|d]]]; [| | |lia];
    unfold boundary_faces_nb, last_cells, cpshape, mkindex, take_idx, s_last, s_init, s_tail, s_all; norm_sub.
  - change [S nx] with (map S [nx]). shift_grids. rewrite zip_faces_map; apply map_ext; intros [[i j] k]; reflexivity.
  - change [S ny] with (map S [ny]). shift_grids. rewrite zip_faces_map; apply map_ext; intros [[i j] k]; reflexivity.
  - change [S nz] with (map S [nz]). shift_grids. rewrite zip_faces_map; apply map_ext; intros [[i j] k]; reflexivity.
Qed.

(* the face of cell q on side `side` of direction d, in the vertex order the code exports *)
Definition side_face (side : bool) (d : nat) (q : idx3) (ow : nat) (nb : option nat) : face :=
  if side then up_face d q ow nb else low_face d q ow nb.

Lemma boundary_nb_closed start sh d side (fn : idx3 -> option nat) : d < 3 -> pos_shape sh ->
  boundary_faces_nb start sh d side (map fn (layer_cells sh d side)) =
  map (fun q => side_face side d q (cell_number start sh q) (fn q)) (layer_cells sh d side).
Proof.
  intros Hd Hp. destruct side; cbn [layer_cells side_face].
  - apply boundary_nb_upper_closed; assumption.
  - apply boundary_nb_lower_closed; assumption.
Qed.

Lemma boundary_closed start sh d side : d < 3 -> pos_shape sh ->
  boundary_faces start sh d side = map (fun q => side_face side d q (cell_number start sh q) None) (layer_cells sh d side).
Proof.
  intros Hd Hp. destruct side; cbn [layer_cells side_face].
  - apply boundary_faces_upper_closed; assumption.
  - apply boundary_faces_lower_closed; assumption.
Qed.

Lemma in_cells_put sh d z i j : d < 3 ->
  (in_cells sh (put d z [i; j]) <-> z < get d sh /\ i < nth 0 (face_shape sh d) 0 /\ j < nth 1 (face_shape sh d) 0).
Proof.
  intros Hd. destruct sh as [[nx ny] nz]. destruct d as [|[|[|d]]]; [| | |lia];
    cbn [put nth in_cells get face_shape inface lo_ax hi_ax]; lia.
Qed.
Lemma in_cells_inface sh d c : d < 3 -> in_cells sh c ->
  get d c < get d sh /\ nth 0 (inface d c) 0 < nth 0 (face_shape sh d) 0 /\ nth 1 (inface d c) 0 < nth 1 (face_shape sh d) 0.
Proof.
  intros Hd. destruct sh as [[nx ny] nz], c as [[i j] k]. destruct d as [|[|[|d]]]; [| | |lia];
    cbn [nth in_cells get face_shape inface lo_ax hi_ax]; lia.
Qed.
Lemma layer_lt sh d side : d < 3 -> pos_shape sh -> layer sh d side < get d sh.
Proof.
  intros Hd. destruct sh as [[nx ny] nz]. intros (Hx & Hy & Hz). unfold layer, side_index.
  destruct d as [|[|[|d]]]; [| | |lia]; destruct side; cbn [get]; lia.
Qed.
Lemma on_layer_put sh d side p : d < 3 -> pos_shape sh -> on_layer sh d side (put d (layer sh d side) p) = true.
Proof.
  intros Hd Hp. pose proof (layer_lt sh d side Hd Hp) as L. unfold on_layer. rewrite get_put by exact Hd.
  unfold layer, side_index in *. destruct side; apply Nat.eqb_eq; lia.
Qed.
Lemma inface_eta d c : inface d c = [nth 0 (inface d c) 0; nth 1 (inface d c) 0].
Proof. reflexivity. Qed.

Lemma flipn_inj f m x y : x < m -> y < m -> flipn f m x = flipn f m y -> x = y.
Proof. destruct f; cbn [flipn]; lia. Qed.
(* cells and their corner control points under a reversal: the corners x, x+1 of cell flipn m p are sent to p+1, p *)
Lemma flipn_corner f m p x : p < m -> flipn f m p <= x <= S (flipn f m p) -> p <= flipn f (S m) x <= S p.
Proof. destruct f; cbn [flipn]; lia. Qed.

Lemma face_shape_cpshape sh d : d < 3 ->
  face_shape (cpshape sh) d = [S (nth 0 (face_shape sh d) 0); S (nth 1 (face_shape sh d) 0)].
Proof. intros Hd. destruct sh as [[nx ny] nz]. destruct d as [|[|[|d]]]; [| | |lia]; reflexivity. Qed.
Lemma get_cpshape sh d : d < 3 -> get d (cpshape sh) = S (get d sh).
Proof. intros Hd. destruct sh as [[nx ny] nz]. destruct d as [|[|[|d]]]; [| | |lia]; reflexivity. Qed.

Lemma in_corners_put d P c : d < 3 ->
  (In P (corners c) <-> get d c <= get d P <= S (get d c) /\
     nth 0 (inface d c) 0 <= nth 0 (inface d P) 0 <= S (nth 0 (inface d c) 0) /\
     nth 1 (inface d c) 0 <= nth 1 (inface d P) 0 <= S (nth 1 (inface d c) 0)).
Proof.
  intros Hd. destruct P as [[x y] z], c as [[i j] k]. rewrite in_corners_le.
  destruct d as [|[|[|d]]]; [| | |lia]; cbn [get inface lo_ax hi_ax nth]; lia.
Qed.

Lemma in_zcorners (x y z a b c : Z) :
  In (x, y, z) (zcorners (a, b, c)) <-> (a <= x <= a + 1 /\ b <= y <= b + 1 /\ c <= z <= c + 1)%Z.
Proof.
  unfold zcorners. cbn [flat_map map app In]. split.
  - intros H. repeat (destruct H as [H|H]; [injection H as <- <- <-; lia|]). destruct H.
  - intros (Hx & Hy & Hz).
    assert (Ex : x = a \/ x = (a + 1)%Z) by lia. assert (Ey : y = b \/ y = (b + 1)%Z) by lia. assert (Ez : z = c \/ z = (c + 1)%Z) by lia.
    destruct Ex as [-> | ->], Ey as [-> | ->], Ez as [-> | ->]; tauto.
Qed.
Lemma in_zcorners_zput d (z u v z0 u0 v0 : Z) : d < 3 ->
  (In (zput d z u v) (zcorners (zput d z0 u0 v0)) <-> (z0 <= z <= z0 + 1 /\ u0 <= u <= u0 + 1 /\ v0 <= v <= v0 + 1)%Z).
Proof. intros Hd. destruct d as [|[|[|d]]]; [| | |lia]; cbn [zput]; rewrite in_zcorners; lia. Qed.
Lemma zput_inj d (z u v z' u' v' : Z) : zput d z u v = zput d z' u' v' -> z = z' /\ u = u' /\ v = v'.
Proof. destruct d as [|[|d]]; cbn [zput]; intros [= -> -> ->]; auto. Qed.
Lemma zpt_zput d a : d < 3 ->
  zpt a = zput d (Z.of_nat (get d a)) (Z.of_nat (nth 0 (inface d a) 0)) (Z.of_nat (nth 1 (inface d a) 0)).
Proof. intros Hd. destruct a as [[i j] k]. destruct d as [|[|[|d]]]; [| | |lia]; reflexivity. Qed.
Lemma across_zput g a : g_dA g < 3 ->
  across g a = zput (g_dA g) (Z.of_nat (get (g_dA g) a) + (if g_sideA g then 1 else -1))%Z
                    (Z.of_nat (nth 0 (inface (g_dA g) a) 0)) (Z.of_nat (nth 1 (inface (g_dA g) a) 0)).
Proof. intros Hd. destruct a as [[i j] k]. unfold across. destruct (g_dA g) as [|[|[|d]]]; [| | |lia]; reflexivity. Qed.

(* ---------- a patch with one boundary exported differently ---------- *)

Lemma patch_faces_as_repl start sh dX sideX : dX < 3 ->
  patch_faces start sh = patch_faces_repl start sh dX sideX (boundary_faces start sh dX sideX).
Proof. intros Hd. destruct dX as [|[|[|d]]]; [| | |lia]; destruct sideX; reflexivity. Qed.

Lemma filter_repl_length (p : face -> bool) start sh dX sideX repl : dX < 3 ->
  length (filter p (patch_faces_repl start sh dX sideX repl)) =
  length (filter p repl) + length (filter p (patch_faces_repl start sh dX sideX [])).
Proof.
  intros Hd. unfold patch_faces_repl, dir_faces_repl.
  destruct dX as [|[|[|d]]]; [| | |lia]; destruct sideX; cbn [flat_map Nat.eqb andb negb];
    rewrite !filter_app, !app_length; cbn [filter length]; lia.
Qed.

Lemma in_repl f start sh dX sideX repl : dX < 3 ->
  (In f (patch_faces_repl start sh dX sideX repl) <-> In f repl \/ In f (patch_faces_repl start sh dX sideX [])).
Proof.
  intros Hd. unfold patch_faces_repl, dir_faces_repl.
  destruct dX as [|[|[|d]]]; [| | |lia]; destruct sideX; cbn [flat_map Nat.eqb andb negb];
    rewrite !in_app_iff; cbn [In]; tauto.
Qed.

Lemma in_repl_nil_patch f start sh dX sideX : dX < 3 -> In f (patch_faces_repl start sh dX sideX []) -> In f (patch_faces start sh).
Proof. intros Hd H. rewrite (patch_faces_as_repl start sh dX sideX Hd). apply in_repl; [exact Hd|]. right. exact H. Qed.

Lemma filter_pos_ex {A} (p : A -> bool) l : 0 < length (filter p l) -> exists x, In x l /\ p x = true.
Proof.
  intros H. destruct (filter p l) as [|x r] eqn:E; [cbn in H; lia|].
  assert (I : In x (filter p l)) by (rewrite E; left; reflexivity). apply filter_In in I. exists x. exact I.
Qed.

Lemma filter_ext_in_length {A} (p q : A -> bool) l : (forall x, In x l -> p x = q x) -> length (filter p l) = length (filter q l).
Proof. intros H. rewrite (filter_ext_in p q l H). reflexivity. Qed.

(* a face of a patch touches only cells of that patch *)
Lemma touches_patch_range start sh f n : pos_shape sh -> In f (patch_faces start sh) -> touches n f = true ->
  start <= n < start + ncells sh.
Proof.
  intros Hp Hf Ht. destruct (face_cells_in_range start sh f Hp Hf) as [Ho Hn]. unfold touches in Ht.
  apply orb_true_iff in Ht. destruct Ht as [Ht|Ht].
  - apply Nat.eqb_eq in Ht. lia.
  - destruct (neighbor f) as [m|]; [|discriminate]. apply Nat.eqb_eq in Ht. subst m. apply Hn. reflexivity.
Qed.

Lemma vsub_across g a : g_dA g < 3 ->
  vsub (across g a) (zpt a) = if g_sideA g then zunit (g_dA g) else vneg (zunit (g_dA g)).
Proof.
  intros Hd. destruct a as [[i j] k]. unfold across. destruct (g_dA g) as [|[|[|d]]]; [| | |lia]; destruct (g_sideA g);
    cbn [zpt vsub zunit vneg]; apply vec_eq; lia.
Qed.

Section Gluing.
  Variable g : gluing.
  Hypothesis Hwf : wf_gluing g.
  Notation shA := (g_shA g). Notation startA := (g_startA g). Notation dA := (g_dA g). Notation sideA := (g_sideA g).
  Notation shB := (g_shB g). Notation startB := (g_startB g). Notation dB := (g_dB g). Notation sideB := (g_sideB g).
  Notation ori := (face_orient g).

  Let HdA : dA < 3. Proof. apply Hwf. Qed.
  Let HdB : dB < 3. Proof. apply Hwf. Qed.
  Let HpA : pos_shape shA. Proof. apply Hwf. Qed.
  Let HpB : pos_shape shB. Proof. apply Hwf. Qed.

  Lemma conform_eq : oshape ori (face_shape shB dB) = face_shape shA dA.
  Proof.
    destruct Hwf as (_ & _ & _ & _ & H). unfold conform in H. unfold face_shape, inface in *.
    rewrite oshape_face in *. destruct (g_swap g); apply list_eq_dec_b_2 in H; destruct H as [-> ->]; reflexivity.
  Qed.

  (* the cell of B the code looks up for A's boundary cell a: in-face position osrc (in-face position of a), in B's
     layer at the interface *)
  Definition nbr_cell (a : idx3) : idx3 := put dB (layer shB dB sideB) (osrc ori (face_shape shB dB) (inface dA a)).
  Definition iface2 (a : idx3) : face :=
    side_face sideA dA a (cell_number startA shA a) (Some (cell_number startB shB (nbr_cell a))).

  Theorem interface_closed : interface_faces g = map iface2 (layer_cells shA dA sideA).
  Proof.
    unfold interface_faces, mapped_neighbors. cbv zeta. rewrite conform_eq.
    assert (E : map (@Some nat) (map (fun p => section_cell g (osrc ori (face_shape shB dB) p)) (grid2 (face_shape shA dA)))
                = map (fun a => Some (cell_number startB shB (nbr_cell a))) (layer_cells shA dA sideA)).
    { rewrite layer_cells_grid2 by exact HdA. rewrite !map_map. apply map_ext_in. intros p Hp.
      apply in_grid2 in Hp. destruct Hp as (i & j & -> & _ & _). unfold nbr_cell, section_cell.
      rewrite inface_put by exact HdA. reflexivity. }
    rewrite E. apply boundary_nb_closed; assumption.
  Qed.

  Lemma osrc_range m0 m1 p0 p1 : p0 < nth 0 (oshape ori [m0; m1]) 0 -> p1 < nth 1 (oshape ori [m0; m1]) 0 ->
    exists q0 q1, osrc ori [m0; m1] [p0; p1] = [q0; q1] /\ q0 < m0 /\ q1 < m1.
  Proof.
    rewrite oshape_face, osrc_face. destruct (g_swap g); cbn [nth]; intros H0 H1; eexists _, _;
      (split; [reflexivity|]); split; apply flipn_lt; assumption.
  Qed.
  Lemma odst_range m0 m1 q0 q1 : q0 < m0 -> q1 < m1 ->
    exists p0 p1, odst ori [m0; m1] [q0; q1] = [p0; p1] /\ p0 < nth 0 (oshape ori [m0; m1]) 0 /\ p1 < nth 1 (oshape ori [m0; m1]) 0.
  Proof.
    rewrite oshape_face, odst_face. destruct (g_swap g); cbn [nth]; intros H0 H1; eexists _, _;
      (split; [reflexivity|]); split; apply flipn_lt; assumption.
  Qed.

  (* the neighbour looked up by the code is a cell of B, in B's layer at the interface *)
  Lemma nbr_cell_spec a : in_cells shA a ->
    in_cells shB (nbr_cell a) /\ on_layer shB dB sideB (nbr_cell a) = true /\
    inface dB (nbr_cell a) = osrc ori (face_shape shB dB) (inface dA a).
  Proof.
    intros Ha. destruct (in_cells_inface shA dA a HdA Ha) as (_ & I0 & I1). rewrite <- conform_eq in I0, I1.
    unfold nbr_cell. unfold face_shape, inface in I0, I1 |- *. cbn [nth] in I0, I1.
    destruct (osrc_range _ _ _ _ I0 I1) as (q0 & q1 & -> & Q0 & Q1).
    split; [|split].
    - apply in_cells_put; [exact HdB|]. split; [apply layer_lt; assumption|]. split; assumption.
    - apply on_layer_put; assumption.
    - apply (inface_put dB _ q0 q1 HdB).
  Qed.

  (* conversely, the cell of A's layer whose neighbour is c *)
  Definition pre_cell (c : idx3) : idx3 := put dA (layer shA dA sideA) (odst ori (face_shape shB dB) (inface dB c)).

  Lemma pre_cell_spec c : in_cells shB c ->
    in_cells shA (pre_cell c) /\ on_layer shA dA sideA (pre_cell c) = true /\
    inface dA (pre_cell c) = odst ori (face_shape shB dB) (inface dB c).
  Proof.
    intros Hc. destruct (in_cells_inface shB dB c HdB Hc) as (_ & I0 & I1).
    unfold pre_cell. pose proof conform_eq as CE. unfold face_shape, inface in I0, I1, CE |- *. cbn [nth] in I0, I1.
    destruct (odst_range _ _ _ _ I0 I1) as (p0 & p1 & -> & P0 & P1). rewrite CE in P0, P1.
    split; [|split].
    - apply in_cells_put; [exact HdA|]. split; [apply layer_lt; assumption|]. split; assumption.
    - apply on_layer_put; assumption.
    - apply (inface_put dA _ p0 p1 HdA).
  Qed.

  Lemma nbr_pre c : in_cells shB c -> on_layer shB dB sideB c = true -> nbr_cell (pre_cell c) = c.
  Proof.
    intros Hc Hl. destruct (pre_cell_spec c Hc) as (_ & _ & E). unfold nbr_cell. rewrite E.
    destruct (in_cells_inface shB dB c HdB Hc) as (_ & I0 & I1).
    rewrite <- (put_inface dB c HdB) at 2. rewrite (on_layer_get shB dB sideB c Hl Hc HdB). f_equal.
    unfold face_shape, inface in I0, I1 |- *. cbn [nth] in I0, I1. apply osrc_odst; assumption.
  Qed.

  Lemma pre_nbr a : in_cells shA a -> on_layer shA dA sideA a = true -> pre_cell (nbr_cell a) = a.
  Proof.
    intros Ha Hl. destruct (nbr_cell_spec a Ha) as (_ & _ & E). unfold pre_cell. rewrite E.
    destruct (in_cells_inface shA dA a HdA Ha) as (_ & I0 & I1). rewrite <- conform_eq in I0, I1.
    rewrite <- (put_inface dA a HdA) at 2. rewrite (on_layer_get shA dA sideA a Hl Ha HdA). f_equal.
    unfold face_shape, inface in I0, I1 |- *. cbn [nth] in I0, I1. apply odst_osrc; assumption.
  Qed.

  (* ================= 1. the neighbour is the geometrically adjacent cell ================= *)

  (* the embedding of B's control net restricted to the interface is the identification Orientation.compute
     established: A's face control point R is B's face control point osrc R (control point shapes) *)
  Lemma embB_interface R0 R1 : R0 < S (nth 0 (face_shape shA dA) 0) -> R1 < S (nth 1 (face_shape shA dA) 0) ->
    embB g (put dB (side_index (get dB (cpshape shB)) sideB) (osrc ori (face_shape (cpshape shB) dB) [R0; R1]))
    = zpt (put dA (side_index (get dA (cpshape shA)) sideA) [R0; R1]).
  Proof.
    intros H0 H1. rewrite <- conform_eq in H0, H1. rewrite (zpt_zput dA) by exact HdA.
    rewrite get_put, (inface_put dA) by exact HdA. cbn [nth]. rewrite !get_cpshape by assumption.
    rewrite face_shape_cpshape by exact HdB. unfold face_shape, inface in H0, H1 |- *. cbn [nth] in H0, H1 |- *.
    rewrite oshape_face in H0, H1.
    assert (LA := layer_lt shA dA sideA HdA HpA). assert (LB := layer_lt shB dB sideB HdB HpB). unfold layer in LA, LB.
    unfold embB. rewrite face_shape_cpshape by exact HdB. unfold face_shape. rewrite get_put by exact HdB.
    rewrite osrc_face. destruct (g_swap g) eqn:E; cbn [nth] in H0, H1;
      rewrite (inface_put dB) by exact HdB; unfold inface; cbn [nth]; rewrite odst_face, E, !flipn_invol by lia; cbn [nth];
      f_equal; unfold side_index in *; destruct sideA, sideB; lia.
  Qed.

  (* every corner control point of the looked-up cell of B sits at a corner of the lattice cube across A's face *)
  Lemma embB_corner a P : in_cells shA a -> on_layer shA dA sideA a = true -> In P (corners (nbr_cell a)) ->
    In (embB g P) (zcorners (across g a)).
  Proof.
    intros Ha Hl HP. destruct (nbr_cell_spec a Ha) as (Hc & Hlc & E).
    apply (in_corners_put dB) in HP; [|exact HdB]. destruct HP as (G & F0 & F1). rewrite E in F0, F1.
    rewrite (on_layer_get shB dB sideB _ Hlc Hc HdB) in G.
    destruct (in_cells_inface shA dA a HdA Ha) as (_ & I0 & I1). rewrite <- conform_eq in I0, I1.
    assert (LA := layer_lt shA dA sideA HdA HpA). assert (LB := layer_lt shB dB sideB HdB HpB).
    rewrite across_zput by exact HdA. rewrite (on_layer_get shA dA sideA a Hl Ha HdA).
    unfold embB. rewrite face_shape_cpshape by exact HdB. apply in_zcorners_zput; [exact HdA|]. split.
    - unfold layer, side_index in *. destruct sideA, sideB; lia.
    - unfold face_shape, inface in I0, I1, F0, F1 |- *. cbn [nth] in I0, I1 |- *.
      rewrite oshape_face in I0, I1. rewrite osrc_face in F0, F1. rewrite odst_face.
      destruct (g_swap g); cbn [nth] in I0, I1, F0, F1 |- *.
      + pose proof (flipn_corner _ _ _ _ I1 F0). pose proof (flipn_corner _ _ _ _ I0 F1). lia.
      + pose proof (flipn_corner _ _ _ _ I0 F0). pose proof (flipn_corner _ _ _ _ I1 F1). lia.
  Qed.

  (* the embedding is injective on B's control net *)
  Lemma embB_inj P P' : in_cps shB P -> in_cps shB P' -> embB g P = embB g P' -> P = P'.
  Proof.
    unfold in_cps. intros HP HP' E.
    destruct (in_cells_inface _ dB P HdB HP) as (G & I0 & I1). destruct (in_cells_inface _ dB P' HdB HP') as (G' & I0' & I1').
    rewrite get_cpshape in G, G' by exact HdB. rewrite face_shape_cpshape in I0, I1, I0', I1' by exact HdB. cbn [nth] in I0, I1, I0', I1'.
    unfold embB in E. apply zput_inj in E. destruct E as (Ez & E0 & E1). apply Nat2Z.inj in E0, E1.
    rewrite <- (put_inface dB P HdB), <- (put_inface dB P' HdB). f_equal.
    - destruct sideA, sideB; lia.
    - rewrite face_shape_cpshape in E0, E1 by exact HdB. unfold inface in E0, E1, I0, I1, I0', I1' |- *. cbn [nth] in I0, I1, I0', I1'.
      rewrite !odst_face in E0, E1. destruct (g_swap g); cbn [nth] in E0, E1.
      + apply flipn_inj in E0, E1; try assumption. congruence.
      + apply flipn_inj in E0, E1; try assumption. congruence.
  Qed.

  Lemma NoDup_corners c : NoDup (corners c).
  Proof.
    destruct c as [[i j] k]. unfold corners.
    apply NoDup_grid3; (constructor; [cbn [In]; intros [H|[]]; lia|apply NoDup_one]).
  Qed.
  Lemma length_corners c : length (corners c) = 8.
  Proof. destruct c as [[i j] k]. reflexivity. Qed.

  (* hence the eight corners of the looked-up cell are exactly the eight corners of the cube across the face *)
  Lemma embB_cell a : in_cells shA a -> on_layer shA dA sideA a = true ->
    forall v, In v (map (embB g) (corners (nbr_cell a))) <-> In v (zcorners (across g a)).
  Proof.
    intros Ha Hl. destruct (nbr_cell_spec a Ha) as (Hc & _ & _).
    assert (Hincl : incl (map (embB g) (corners (nbr_cell a))) (zcorners (across g a))).
    { intros v Hv. apply in_map_iff in Hv. destruct Hv as (P & <- & HP). apply embB_corner; assumption. }
    assert (Hnd : NoDup (map (embB g) (corners (nbr_cell a)))).
    { apply NoDup_map_inj_in; [apply NoDup_corners|]. intros P P' HP HP'. apply embB_inj; eapply corners_in_cps; eassumption. }
    intros v. split; [apply Hincl|]. apply (NoDup_length_incl Hnd); [|exact Hincl].
    rewrite map_length, length_corners. destruct (across g a) as [[x y] z]. cbn. lia.
  Qed.

  Lemma in_interface f : In f (interface_faces g) <->
    exists a, in_cells shA a /\ on_layer shA dA sideA a = true /\ f = iface2 a.
  Proof.
    rewrite interface_closed, in_map_iff. split.
    - intros (a & <- & Ha). apply in_layer_cells in Ha; [|assumption|assumption]. exists a. destruct Ha. repeat split; assumption.
    - intros (a & H1 & H2 & ->). exists a. split; [reflexivity|]. apply in_layer_cells; [assumption|assumption|]. split; assumption.
  Qed.

  (* Theorem 1.  Every face exported for the interface: the owner is a cell a of A's layer at the interface, the
     neighbour is the number of a cell c of B's layer at the interface, at the in-face position osrc (position of a);
     and c is the cell of B that geometrically lies across the face from a: its eight corner control points are the
     eight lattice points of the unit cube adjacent to a across A's face. *)
  Theorem interface_neighbor_adjacent f : In f (interface_faces g) ->
    exists a c, in_cells shA a /\ on_layer shA dA sideA a = true /\ in_cells shB c /\ on_layer shB dB sideB c = true /\
      owner f = cell_number startA shA a /\ neighbor f = Some (cell_number startB shB c) /\
      inface dB c = osrc ori (face_shape shB dB) (inface dA a) /\
      (forall v, In v (map (embB g) (corners c)) <-> In v (zcorners (across g a))).
  Proof.
    intros Hf. apply in_interface in Hf. destruct Hf as (a & Ha & Hl & ->). destruct (nbr_cell_spec a Ha) as (Hc & Hlc & E).
    exists a, (nbr_cell a). repeat (split; [assumption|]). split; [unfold iface2, side_face; destruct sideA; reflexivity|]. split; [unfold iface2, side_face; destruct sideA; reflexivity|].
    split; [exact E|]. apply embB_cell; assumption.
  Qed.

  Notation numA := (cell_number startA shA).
  Notation numB := (cell_number startB shB).

  Lemma touches_iface2 n x : touches n (iface2 x) = (numA x =? n) || (numB (nbr_cell x) =? n).
  Proof. unfold iface2, side_face. destruct sideA; reflexivity. Qed.
  Lemma joins_iface2 n m x : joins n m (iface2 x) =
    ((numA x =? n) && (numB (nbr_cell x) =? m)) || ((numA x =? m) && (numB (nbr_cell x) =? n)).
  Proof. unfold iface2, side_face. destruct sideA; reflexivity. Qed.
  Lemma touches_side_face n side d x k : touches n (side_face side d x k None) = (k =? n) || false.
  Proof. destruct side; reflexivity. Qed.

  (* ================= 5. orientation of the interface faces ================= *)

  (* the vertex order exported for an interface face gives the normal +e_dA at A's upper boundary, -e_dA at A's lower
     boundary; that is the vector from the owner cell a to the cube across the face, which is (Theorem 1) where the
     neighbour cell lies *)
  Theorem interface_face_orientation f : In f (interface_faces g) ->
    exists a, in_cells shA a /\ on_layer shA dA sideA a = true /\ owner f = numA a /\ neighbor f = Some (numB (nbr_cell a)) /\
      normal f = (if sideA then zunit dA else vneg (zunit dA)) /\ normal012 f = normal f /\
      normal f = vsub (across g a) (zpt a) /\
      (if sideA then (0 < zget dA (normal f))%Z else (zget dA (normal f) < 0)%Z).
  Proof.
    intros Hf. apply in_interface in Hf. destruct Hf as (a & Ha & Hl & ->). exists a.
    split; [exact Ha|]. split; [exact Hl|]. rewrite vsub_across by exact HdA. unfold iface2, side_face.
    destruct (zget_zunit dA HdA) as [Z1 Z2]. destruct sideA.
    - destruct (up_face_normal dA a (numA a) (Some (numB (nbr_cell a))) HdA) as [N1 N2]. rewrite N1, N2, Z1.
      repeat split; lia.
    - destruct (low_face_normal dA a (numA a) (Some (numB (nbr_cell a))) HdA) as [N1 N2]. rewrite N1, N2, Z2.
      repeat split; lia.
  Qed.

  (* the nodes of an interface face are the four corners of the owner cell on the interface plane, i.e. (through
     embB_interface) the control points shared with B *)
  Theorem interface_face_nodes f : In f (interface_faces g) ->
    exists a, in_cells shA a /\ on_layer shA dA sideA a = true /\ owner f = numA a /\ NoDup (nodes f) /\
      forall p, In p (nodes f) <-> In p (corners a) /\ get dA p = side_index (get dA (cpshape shA)) sideA.
  Proof.
    intros Hf. apply in_interface in Hf. destruct Hf as (a & Ha & Hl & ->). exists a.
    split; [exact Ha|]. split; [exact Hl|]. pose proof (on_layer_get shA dA sideA a Hl Ha HdA) as G.
    assert (LA := layer_lt shA dA sideA HdA HpA). rewrite get_cpshape by exact HdA.
    unfold iface2, side_face, layer, side_index in *. destruct sideA.
    - split; [reflexivity|]. split; [apply up_face_nodes_NoDup|]. intros p.
      destruct (up_face_nodes dA a (numA a) (Some (numB (nbr_cell a))) p HdA) as [_ ->].
      replace (S (get dA shA) - 1) with (S (get dA a)) by lia. reflexivity.
    - split; [reflexivity|]. split; [apply low_face_nodes_NoDup|]. intros p.
      rewrite (low_face_nodes dA a (numA a) (Some (numB (nbr_cell a))) p HdA). rewrite G. reflexivity.
  Qed.

  (* ================= 4. owner < neighbour ================= *)

  Lemma rangeA a : in_cells shA a -> startA <= numA a < startA + ncells shA.
  Proof. apply cell_number_range. Qed.
  Lemma rangeB c : in_cells shB c -> startB <= numB c < startB + ncells shB.
  Proof. apply cell_number_range. Qed.

  (* if the owner patch A was numbered first, every interface face satisfies the assertion at the end of
     TopologicalNode.faces; if B was numbered first, every interface face violates it *)
  Theorem interface_owner_lt f : In f (interface_faces g) -> startA + ncells shA <= startB ->
    exists m, neighbor f = Some m /\ owner f < m.
  Proof.
    intros Hf Hd. apply in_interface in Hf. destruct Hf as (a & Ha & Hl & ->). destruct (nbr_cell_spec a Ha) as (Hc & _ & _).
    exists (numB (nbr_cell a)). pose proof (rangeA a Ha). pose proof (rangeB _ Hc).
    unfold iface2, side_face. destruct sideA; cbn [up_face low_face owner neighbor]; split; try reflexivity; lia.
  Qed.
  Theorem interface_owner_gt f : In f (interface_faces g) -> startB + ncells shB <= startA ->
    exists m, neighbor f = Some m /\ m < owner f.
  Proof.
    intros Hf Hd. apply in_interface in Hf. destruct Hf as (a & Ha & Hl & ->). destruct (nbr_cell_spec a Ha) as (Hc & _ & _).
    exists (numB (nbr_cell a)). pose proof (rangeA a Ha). pose proof (rangeB _ Hc).
    unfold iface2, side_face. destruct sideA; cbn [up_face low_face owner neighbor]; split; try reflexivity; lia.
  Qed.

  (* there are interface faces: one per cell of A's layer, nperslice of them *)
  Theorem interface_count : length (interface_faces g) = nperslice shA dA /\ 1 <= nperslice shA dA.
  Proof.
    rewrite interface_closed, map_length. unfold layer_cells. split.
    - destruct sideA; [apply length_last_cells|apply length_first_cells]; exact HdA.
    - destruct shA as [[nx ny] nz]. destruct HpA as (Hx & Hy & Hz). destruct dA as [|[|d]]; cbn [nperslice]; nia.
  Qed.

  Section Numbers.
  Hypothesis Hdis : disjoint_numbers g.

  (* precisely: for blocks of cell numbers that do not overlap, the assertion holds on an interface face iff the
     owner patch has the lower block *)
  Theorem interface_assert_iff f m : In f (interface_faces g) -> neighbor f = Some m -> (owner f < m <-> startA < startB).
  Proof.
    intros Hf Hm. pose proof HpA as PA. pose proof HpB as PB.
    assert (NA : 1 <= ncells shA) by (destruct shA as [[nx ny] nz]; cbn in PA |- *; nia).
    assert (NB : 1 <= ncells shB) by (destruct shB as [[nx ny] nz]; cbn in PB |- *; nia).
    destruct Hdis as [Hd|Hd].
    - destruct (interface_owner_lt f Hf Hd) as (m' & E & L). rewrite Hm in E. injection E as <-. split; intros _; lia.
    - destruct (interface_owner_gt f Hf Hd) as (m' & E & L). rewrite Hm in E. injection E as <-. split; intros ?; lia.
  Qed.

  Lemma not_both n : startA <= n < startA + ncells shA -> startB <= n < startB + ncells shB -> False.
  Proof. unfold disjoint_numbers in Hdis. lia. Qed.

  (* faces exported by B join cells of B only; faces of A other than the interface join cells of A only *)
  Lemma facesB_range f n : In f (facesB g) -> touches n f = true -> startB <= n < startB + ncells shB.
  Proof. intros Hf. apply in_repl_nil_patch in Hf; [|exact HdB]. apply touches_patch_range; assumption. Qed.
  Lemma restA_range f n : In f (patch_faces_repl startA shA dA sideA []) -> touches n f = true -> startA <= n < startA + ncells shA.
  Proof. intros Hf. apply in_repl_nil_patch in Hf; [|exact HdA]. apply touches_patch_range; assumption. Qed.

  Lemma joins_touches n m f : joins n m f = true -> touches n f = true /\ touches m f = true.
  Proof.
    unfold joins, touches. destruct (neighbor f) as [k|]; [|discriminate]. intros H.
    apply orb_true_iff in H. destruct H as [H|H]; apply andb_true_iff in H; destruct H as [H1 H2]; rewrite H1, H2;
      split; rewrite ?orb_true_r; reflexivity.
  Qed.

  (* ================= 2. every interface pair exactly once, exported by the owner only ================= *)

  (* 2a. no face exported by B touches a cell of A; a face exported by A that touches a cell of B is an interface face *)
  Theorem facesB_not_A f n : In f (facesB g) -> startA <= n < startA + ncells shA -> touches n f = false.
  Proof.
    intros Hf Hn. destruct (touches n f) eqn:E; [|reflexivity]. exfalso. apply (not_both n Hn). apply (facesB_range f n Hf E).
  Qed.
  Theorem facesA_touching_B f n : In f (facesA g) -> startB <= n < startB + ncells shB -> touches n f = true ->
    In f (interface_faces g).
  Proof.
    intros Hf Hn Ht. apply in_repl in Hf; [|exact HdA]. destruct Hf as [Hf|Hf]; [exact Hf|].
    exfalso. apply (not_both n); [|exact Hn]. apply (restA_range f n Hf Ht).
  Qed.

  (* 2b. the pair (cell a of A's layer, its neighbour) is joined by exactly one face of the exported list *)
  Theorem interface_pair_once a : in_cells shA a -> on_layer shA dA sideA a = true ->
    length (filter (joins (numA a) (numB (nbr_cell a))) (model_faces g)) = 1.
  Proof.
    intros Ha Hl. destruct (nbr_cell_spec a Ha) as (Hc & _ & _). pose proof (rangeA a Ha) as RA. pose proof (rangeB _ Hc) as RB.
    unfold model_faces. rewrite filter_app, app_length. unfold facesA. rewrite filter_repl_length by exact HdA.
    rewrite (filter_none_length _ (patch_faces_repl startA shA dA sideA [])).
    2:{ intros f Hf. destruct (joins _ _ f) eqn:E; [|reflexivity]. exfalso. apply joins_touches in E. destruct E as [_ E].
        apply (not_both _ (restA_range f _ Hf E) RB). }
    rewrite (filter_none_length _ (facesB g)).
    2:{ intros f Hf. destruct (joins _ _ f) eqn:E; [|reflexivity]. exfalso. apply joins_touches in E. destruct E as [E _].
        apply (not_both _ RA (facesB_range f _ Hf E)). }
    rewrite interface_closed, filter_map_length. rewrite !Nat.add_0_r.
    apply (filter_one_length _ _ a (NoDup_layer_cells shA dA sideA)).
    - apply in_layer_cells; [assumption|assumption|]. split; assumption.
    - intros x Hx. apply in_layer_cells in Hx; [|assumption|assumption]. destruct Hx as [Hx Hlx]. rewrite joins_iface2. split.
      + intros H. apply orb_true_iff in H. destruct H as [H|H]; apply andb_true_iff in H; destruct H as [H1 H2].
        * apply Nat.eqb_eq in H1. apply (cell_number_inj startA shA x a Hx Ha H1).
        * apply Nat.eqb_eq in H1. exfalso. apply (not_both (numA x)); [apply rangeA; exact Hx|rewrite H1; exact RB].
      + intros ->. rewrite !Nat.eqb_refl. reflexivity.
  Qed.

  (* 2c. and no face of the exported list joins a cell of A with a cell of B unless they are such a pair *)
  Theorem cross_pair_is_interface a c : in_cells shA a -> in_cells shB c ->
    0 < length (filter (joins (numA a) (numB c)) (model_faces g)) ->
    on_layer shA dA sideA a = true /\ c = nbr_cell a /\ on_layer shB dB sideB c = true.
  Proof.
    intros Ha Hc H. apply filter_pos_ex in H. destruct H as (f & Hf & J). pose proof (joins_touches _ _ _ J) as [T1 T2].
    pose proof (rangeA a Ha) as RA. pose proof (rangeB c Hc) as RB.
    unfold model_faces in Hf. apply in_app_or in Hf. destruct Hf as [Hf|Hf].
    2:{ exfalso. apply (not_both _ RA (facesB_range f _ Hf T1)). }
    apply (facesA_touching_B f _ Hf RB) in T2. apply in_interface in T2. destruct T2 as (x & Hx & Hlx & ->).
    destruct (nbr_cell_spec x Hx) as (Hcx & Hlcx & _).
    rewrite joins_iface2 in J. apply orb_true_iff in J. destruct J as [J|J]; apply andb_true_iff in J; destruct J as [J1 J2];
      apply Nat.eqb_eq in J1, J2.
    - apply (cell_number_inj startA shA x a Hx Ha) in J1. subst x.
      apply (cell_number_inj startB shB _ c Hcx Hc) in J2. subst c. repeat split; assumption.
    - exfalso. apply (not_both (numA x)); [apply rangeA; exact Hx|rewrite J1; exact RB].
  Qed.

  (* 2d. the interface faces pair the cells of the two layers bijectively: no owner twice, no neighbour twice, every
     cell of B's layer is the neighbour of one face *)
  Theorem interface_owners_NoDup : NoDup (map owner (interface_faces g)).
  Proof.
    rewrite interface_closed, map_map. apply NoDup_map_inj_in; [apply NoDup_layer_cells|].
    intros x y Hx Hy. apply in_layer_cells in Hx, Hy; try assumption. destruct Hx as [Hx _], Hy as [Hy _].
    unfold iface2, side_face. destruct sideA; cbn [up_face low_face owner]; apply cell_number_inj; assumption.
  Qed.
  Theorem interface_neighbors_NoDup : NoDup (map neighbor (interface_faces g)).
  Proof.
    rewrite interface_closed, map_map. apply NoDup_map_inj_in; [apply NoDup_layer_cells|].
    intros x y Hx Hy. apply in_layer_cells in Hx, Hy; try assumption. destruct Hx as [Hx Hlx], Hy as [Hy Hly].
    destruct (nbr_cell_spec x Hx) as (Hcx & _ & _). destruct (nbr_cell_spec y Hy) as (Hcy & _ & _).
    unfold iface2, side_face. intros E.
    assert (E' : numB (nbr_cell x) = numB (nbr_cell y)) by (destruct sideA; cbn [up_face low_face neighbor] in E; congruence).
    apply (cell_number_inj startB shB _ _ Hcx Hcy) in E'. rewrite <- (pre_nbr x Hx Hlx), <- (pre_nbr y Hy Hly), E'. reflexivity.
  Qed.
  Theorem interface_neighbors_onto c : in_cells shB c -> on_layer shB dB sideB c = true ->
    exists f, In f (interface_faces g) /\ neighbor f = Some (numB c) /\ owner f = numA (pre_cell c).
  Proof.
    intros Hc Hl. destruct (pre_cell_spec c Hc) as (Ha & Hla & _). exists (iface2 (pre_cell c)). split.
    - apply in_interface. exists (pre_cell c). repeat split; assumption.
    - unfold iface2, side_face. rewrite (nbr_pre c Hc Hl). destruct sideA; split; reflexivity.
  Qed.

  (* ================= 3. every cell of A and of B is bounded by exactly six faces ================= *)

  Theorem cellA_six_faces a : in_cells shA a -> length (filter (touches (numA a)) (model_faces g)) = 6.
  Proof.
    intros Ha. pose proof (rangeA a Ha) as RA.
    unfold model_faces. rewrite filter_app, app_length.
    rewrite (filter_none_length _ (facesB g)) by (intros f Hf; apply facesB_not_A; assumption).
    unfold facesA. rewrite filter_repl_length by exact HdA.
    pose proof (cell_six_faces startA shA a HpA Ha) as H6.
    rewrite (patch_faces_as_repl startA shA dA sideA HdA) in H6. rewrite filter_repl_length in H6 by exact HdA.
    assert (E : length (filter (touches (numA a)) (interface_faces g)) = length (filter (touches (numA a)) (boundary_faces startA shA dA sideA))).
    { rewrite interface_closed, boundary_closed by assumption. rewrite !filter_map_length. apply filter_ext_in_length.
      intros x Hx. apply in_layer_cells in Hx; [|assumption|assumption]. destruct Hx as [Hx _].
      rewrite touches_iface2, touches_side_face. f_equal. apply Nat.eqb_neq. intros E.
      destruct (nbr_cell_spec x Hx) as (Hcx & _ & _). apply (not_both (numA a) RA). rewrite <- E. apply rangeB. exact Hcx. }
    lia.
  Qed.

  Theorem cellB_six_faces c : in_cells shB c -> length (filter (touches (numB c)) (model_faces g)) = 6.
  Proof.
    intros Hc. pose proof (rangeB c Hc) as RB.
    unfold model_faces. rewrite filter_app, app_length.
    (* B's own list: six minus the face on the interface, if c touches it *)
    pose proof (cell_six_faces startB shB c HpB Hc) as H6.
    rewrite (patch_faces_as_repl startB shB dB sideB HdB) in H6. rewrite filter_repl_length in H6 by exact HdB.
    assert (EB : length (filter (touches (numB c)) (boundary_faces startB shB dB sideB)) = Nat.b2n (on_layer shB dB sideB c)).
    { unfold on_layer. destruct sideB; [apply count_upper_dir|apply count_lower_dir]; assumption. }
    fold (facesB g) in H6.
    (* A's list: nothing but the interface face whose neighbour is c *)
    unfold facesA. rewrite filter_repl_length by exact HdA.
    rewrite (filter_none_length _ (patch_faces_repl startA shA dA sideA [])).
    2:{ intros f Hf. destruct (touches (numB c) f) eqn:E; [|reflexivity]. exfalso. apply (not_both _ (restA_range f _ Hf E) RB). }
    assert (EA : length (filter (touches (numB c)) (interface_faces g)) = Nat.b2n (on_layer shB dB sideB c)).
    { rewrite interface_closed, filter_map_length.
      apply (filter_b2n_length _ _ _ (pre_cell c) (NoDup_layer_cells shA dA sideA)).
      - intros Hl. destruct (pre_cell_spec c Hc) as (Ha & Hla & _). split.
        + apply in_layer_cells; [assumption|assumption|]. split; assumption.
        + intros x Hx. apply in_layer_cells in Hx; [|assumption|assumption]. destruct Hx as [Hx Hlx].
          destruct (nbr_cell_spec x Hx) as (Hcx & _ & _). rewrite touches_iface2. split.
          * intros H. apply orb_true_iff in H. destruct H as [H|H]; apply Nat.eqb_eq in H.
            -- exfalso. apply (not_both (numA x)); [apply rangeA; exact Hx|rewrite H; exact RB].
            -- apply (cell_number_inj startB shB _ c Hcx Hc) in H. rewrite <- H. symmetry. apply pre_nbr; assumption.
          * intros ->. rewrite (nbr_pre c Hc Hl), Nat.eqb_refl. apply orb_true_r.
      - intros Hl x Hx. apply in_layer_cells in Hx; [|assumption|assumption]. destruct Hx as [Hx Hlx].
        destruct (nbr_cell_spec x Hx) as (Hcx & Hlcx & _). rewrite touches_iface2. apply orb_false_iff. split; apply Nat.eqb_neq; intros E.
        + apply (not_both (numA x)); [apply rangeA; exact Hx|rewrite E; exact RB].
        + apply (cell_number_inj startB shB _ c Hcx Hc) in E. rewrite E in Hlcx. congruence. }
    lia.
  Qed.

  (* the same for every cell number of the two blocks *)
  Theorem cell_number_six_faces2 n :
    startA <= n < startA + ncells shA \/ startB <= n < startB + ncells shB ->
    length (filter (touches n) (model_faces g)) = 6.
  Proof.
    intros [Hn|Hn].
    - assert (I : In n (map numA (cells shA))) by (rewrite cell_numbers_patch; apply in_seq; lia).
      apply in_map_iff in I. destruct I as (a & <- & Ha). apply in_cells_iff in Ha. apply cellA_six_faces. exact Ha.
    - assert (I : In n (map numB (cells shB))) by (rewrite cell_numbers_patch; apply in_seq; lia).
      apply in_map_iff in I. destruct I as (c & <- & Hc). apply in_cells_iff in Hc. apply cellB_six_faces. exact Hc.
  Qed.

  (* the assertion at the end of faces() on the whole exported list, when A has the lower block *)
  Theorem model_faces_final_assert f : startA + ncells shA <= startB -> In f (model_faces g) ->
    match neighbor f with Some m => owner f < m | None => True end.
  Proof.
    intros Hd Hf. unfold model_faces in Hf. apply in_app_or in Hf. destruct Hf as [Hf|Hf].
    - apply in_repl in Hf; [|exact HdA]. destruct Hf as [Hf|Hf].
      + destruct (interface_owner_lt f Hf Hd) as (m & -> & L). exact L.
      + apply in_repl_nil_patch in Hf; [|exact HdA]. apply (faces_final_assert startA shA f HpA Hf).
    - apply in_repl_nil_patch in Hf; [|exact HdB]. apply (faces_final_assert startB shB f HpB Hf).
  Qed.
  End Numbers.
End Gluing.

(* ================= number of exported faces ================= *)

Lemma length_repl start sh dX sideX repl : dX < 3 ->
  length (patch_faces_repl start sh dX sideX repl) = length repl + length (patch_faces_repl start sh dX sideX []).
Proof.
  intros Hd. unfold patch_faces_repl, dir_faces_repl.
  destruct dX as [|[|[|d]]]; [| | |lia]; destruct sideX; cbn [flat_map Nat.eqb andb negb]; rewrite !app_length; cbn [length]; lia.
Qed.

(* the two faces glued have the same number of cells, and the interface is exported once instead of twice *)
Theorem model_face_count g : wf_gluing g ->
  nperslice (g_shB g) (g_dB g) = nperslice (g_shA g) (g_dA g) /\
  length (model_faces g) + nperslice (g_shA g) (g_dA g) =
  length (patch_faces (g_startA g) (g_shA g)) + length (patch_faces (g_startB g) (g_shB g)).
Proof.
  intros Hwf. pose proof Hwf as (HdA & HdB & HpA & HpB & _).
  assert (E : nperslice (g_shB g) (g_dB g) = nperslice (g_shA g) (g_dA g)).
  { pose proof (conform_eq g Hwf) as CE. unfold face_shape, inface in CE. rewrite oshape_face in CE.
    destruct (g_shA g) as [[ax ay] az], (g_shB g) as [[bx b_y] bz].
    destruct (g_dA g) as [|[|[|d]]]; try lia; destruct (g_dB g) as [|[|[|d']]]; try lia; destruct (g_swap g);
      cbn [get lo_ax hi_ax nperslice] in CE |- *; injection CE as -> ->; lia. }
  split; [exact E|].
  unfold model_faces, facesA, facesB. rewrite app_length.
  rewrite (patch_faces_as_repl (g_startA g) (g_shA g) (g_dA g) (g_sideA g) HdA).
  rewrite (patch_faces_as_repl (g_startB g) (g_shB g) (g_dB g) (g_sideB g) HdB).
  rewrite (length_repl _ _ _ _ (interface_faces g) HdA).
  rewrite (length_repl _ _ _ _ (boundary_faces (g_startA g) (g_shA g) (g_dA g) (g_sideA g)) HdA).
  rewrite (length_repl _ _ _ _ (boundary_faces (g_startB g) (g_shB g) (g_dB g) (g_sideB g)) HdB).
  destruct (interface_count g Hwf) as [-> _].
  destruct (face_count_dir (g_startA g) (g_shA g) (g_dA g) HdA HpA) as (_ & L1 & L2).
  destruct (face_count_dir (g_startB g) (g_shB g) (g_dB g) HdB HpB) as (_ & L3 & L4).
  assert (LA : length (boundary_faces (g_startA g) (g_shA g) (g_dA g) (g_sideA g)) = nperslice (g_shA g) (g_dA g)) by (destruct (g_sideA g); assumption).
  assert (LB : length (boundary_faces (g_startB g) (g_shB g) (g_dB g) (g_sideB g)) = nperslice (g_shB g) (g_dB g)) by (destruct (g_sideB g); assumption).
  cbn [length]. lia.
Qed.

(* ================= non-vacuity: the model against the real code ================= *)

(* Two refined trilinear Volumes sharing a face, added with m = SplineModel(3, 3); m.add([a, b]);
   m.generate_cp_numbers(); m.generate_cell_numbers(); f = m.faces().  a = Volume() refined to the cell shape shA,
   b = the unit cube on the other side of a's face (dA, sideA), refined conformingly (2 cells deep), then re-oriented
   by the listed swap/reverse operations.  dB, sideB, swap, flip are the values the real code computed (nb_sec and
   Orientation.compute(bdnode.obj, nb_obj)); the lists are copied from the output of faces() (nodes through a's
   cp_numbers, which is the C-order numbering of its control net since a is numbered first; neighbor -1 = None). *)
(* glue1: ops on B = [('swap', 1, 2), ('rev', 1)]; real code: nb_sec/orientation = (0, False, True, (False, True)) *)
Definition glue1 : gluing := (mkGluing (2,3,2) 0 0 true (2,2,3) 12 0 false true false true).
Example glue1_interface :
  map (fun f => (face_cp (cp_corder (g_shA glue1)) f, owner f, neighbor f)) (interface_faces glue1) =
  [([24; 27; 28; 25], 6, Some 15); ([25; 28; 29; 26], 7, Some 12); ([27; 30; 31; 28], 8, Some 16); ([28; 31; 32; 29], 9, Some 13); ([30; 33; 34; 31], 10, Some 17); ([31; 34; 35; 32], 11, Some 14)].
Proof. vm_compute. reflexivity. Qed.
Example glue1_model_faces :
  map (fun f => (owner f, neighbor f)) (model_faces glue1) =
  [(0, Some 6); (1, Some 7); (2, Some 8); (3, Some 9); (4, Some 10); (5, Some 11); (0, None); (1, None); (2, None); (3, None); (4, None); (5, None); (6, Some 15); (7, Some 12); (8, Some 16); (9, Some 13); (10, Some 17); (11, Some 14); (0, Some 2); (1, Some 3); (2, Some 4); (3, Some 5); (6, Some 8); (7, Some 9); (8, Some 10); (9, Some 11); (0, None); (1, None); (6, None); (7, None); (4, None); (5, None); (10, None); (11, None); (0, Some 1); (2, Some 3); (4, Some 5); (6, Some 7); (8, Some 9); (10, Some 11); (0, None); (2, None); (4, None); (6, None); (8, None); (10, None); (1, None); (3, None); (5, None); (7, None); (9, None); (11, None); (12, Some 18); (13, Some 19); (14, Some 20); (15, Some 21); (16, Some 22); (17, Some 23); (18, None); (19, None); (20, None); (21, None); (22, None); (23, None); (12, Some 15); (13, Some 16); (14, Some 17); (18, Some 21); (19, Some 22); (20, Some 23); (12, None); (13, None); (14, None); (18, None); (19, None); (20, None); (15, None); (16, None); (17, None); (21, None); (22, None); (23, None); (12, Some 13); (13, Some 14); (15, Some 16); (16, Some 17); (18, Some 19); (19, Some 20); (21, Some 22); (22, Some 23); (12, None); (15, None); (18, None); (21, None); (14, None); (17, None); (20, None); (23, None)].
Proof. vm_compute. reflexivity. Qed.
(* ncells = 24, nfaces = 98 *)
(* glue2: ops on B = [('swap', 0, 1), ('swap', 0, 2), ('rev', 1)]; real code: nb_sec/orientation = (2, True, True, (True, False)) *)
Definition glue2 : gluing := (mkGluing (2,1,3) 0 1 false (3,2,2) 6 2 true true true false).
Example glue2_interface :
  map (fun f => (face_cp (cp_corder (g_shA glue2)) f, owner f, neighbor f)) (interface_faces glue2) =
  [([0; 8; 9; 1], 0, Some 9); ([1; 9; 10; 2], 1, Some 13); ([2; 10; 11; 3], 2, Some 17); ([8; 16; 17; 9], 3, Some 7); ([9; 17; 18; 10], 4, Some 11); ([10; 18; 19; 11], 5, Some 15)].
Proof. vm_compute. reflexivity. Qed.
Example glue2_model_faces :
  map (fun f => (owner f, neighbor f)) (model_faces glue2) =
  [(0, Some 3); (1, Some 4); (2, Some 5); (0, None); (1, None); (2, None); (3, None); (4, None); (5, None); (0, Some 9); (1, Some 13); (2, Some 17); (3, Some 7); (4, Some 11); (5, Some 15); (0, None); (1, None); (2, None); (3, None); (4, None); (5, None); (0, Some 1); (1, Some 2); (3, Some 4); (4, Some 5); (0, None); (3, None); (2, None); (5, None); (6, Some 10); (7, Some 11); (8, Some 12); (9, Some 13); (10, Some 14); (11, Some 15); (12, Some 16); (13, Some 17); (6, None); (7, None); (8, None); (9, None); (14, None); (15, None); (16, None); (17, None); (6, Some 8); (7, Some 9); (10, Some 12); (11, Some 13); (14, Some 16); (15, Some 17); (6, None); (7, None); (10, None); (11, None); (14, None); (15, None); (8, None); (9, None); (12, None); (13, None); (16, None); (17, None); (6, Some 7); (8, Some 9); (10, Some 11); (12, Some 13); (14, Some 15); (16, Some 17); (6, None); (8, None); (10, None); (12, None); (14, None); (16, None)].
Proof. vm_compute. reflexivity. Qed.
(* ncells = 18, nfaces = 75 *)

Lemma glue1_wf : wf_gluing glue1 /\ disjoint_numbers glue1.
Proof. unfold wf_gluing, disjoint_numbers. cbn. repeat split; lia. Qed.
Lemma glue2_wf : wf_gluing glue2 /\ disjoint_numbers glue2.
Proof. unfold wf_gluing, disjoint_numbers. cbn. repeat split; lia. Qed.

(* the theorems executed on the examples: six faces around every cell of both patches, normals of the interface faces *)
Example glue1_executed :
  map (fun n => length (filter (touches n) (model_faces glue1))) (seq 0 24) = repeat 6 24 /\
  map (fun f => zget 0 (normal f)) (interface_faces glue1) = [1; 1; 1; 1; 1; 1]%Z /\
  length (model_faces glue1) = 98.
Proof. vm_compute. repeat split; reflexivity. Qed.
Example glue2_executed :
  map (fun n => length (filter (touches n) (model_faces glue2))) (seq 0 18) = repeat 6 18 /\
  map (fun f => zget 1 (normal f)) (interface_faces glue2) = [-1; -1; -1; -1; -1; -1]%Z.
Proof. vm_compute. repeat split; reflexivity. Qed.

(* the complete owner/neighbour list of model_faces and the node lists of patch A against m.faces() of the real code,
   for a = Volume() refined to (1,2,3) and every combination of A's face (6) and relative in-face orientation (8) *)
Fixpoint list_eqb {A} (e : A -> A -> bool) (x y : list A) : bool :=
  match x, y with [], [] => true | a :: x', b :: y' => e a b && list_eqb e x' y' | _, _ => false end.
Definition opt_eqb (a b : option nat) : bool := match a, b with Some x, Some y => x =? y | None, None => true | _, _ => false end.
Definition pr_eqb (a b : nat * option nat) : bool := (fst a =? fst b) && opt_eqb (snd a) (snd b).
Definition chk (g : gluing) (pairs : list (nat * option nat)) (nodesA : list (list nat)) : bool :=
  list_eqb pr_eqb (map (fun f => (owner f, neighbor f)) (model_faces g)) pairs &&
  list_eqb (list_eqb Nat.eqb) (map (face_cp (cp_corder (g_shA g))) (facesA g)) nodesA && conform g.
(* batch: 48 *)
Example crosscheck_48 : forallb (fun x => x) [
chk (mkGluing (1,2,3) 0 0 false (2,2,3) 6 0 true false false false) [(0, Some 12); (1, Some 13); (2, Some 14); (3, Some 15); (4, Some 16); (5, Some 17); (0, None); (1, None); (2, None); (3, None); (4, None); (5, None); (0, Some 3); (1, Some 4); (2, Some 5); (0, None); (1, None); (2, None); (3, None); (4, None); (5, None); (0, Some 1); (1, Some 2); (3, Some 4); (4, Some 5); (0, None); (3, None); (2, None); (5, None); (6, Some 12); (7, Some 13); (8, Some 14); (9, Some 15); (10, Some 16); (11, Some 17); (6, None); (7, None); (8, None); (9, None); (10, None); (11, None); (6, Some 9); (7, Some 10); (8, Some 11); (12, Some 15); (13, Some 16); (14, Some 17); (6, None); (7, None); (8, None); (12, None); (13, None); (14, None); (9, None); (10, None); (11, None); (15, None); (16, None); (17, None); (6, Some 7); (7, Some 8); (9, Some 10); (10, Some 11); (12, Some 13); (13, Some 14); (15, Some 16); (16, Some 17); (6, None); (9, None); (12, None); (15, None); (8, None); (11, None); (14, None); (17, None)] [[0; 1; 5; 4]; [1; 2; 6; 5]; [2; 3; 7; 6]; [4; 5; 9; 8]; [5; 6; 10; 9]; [6; 7; 11; 10]; [12; 16; 17; 13]; [13; 17; 18; 14]; [14; 18; 19; 15]; [16; 20; 21; 17]; [17; 21; 22; 18]; [18; 22; 23; 19]; [4; 5; 17; 16]; [5; 6; 18; 17]; [6; 7; 19; 18]; [0; 12; 13; 1]; [1; 13; 14; 2]; [2; 14; 15; 3]; [8; 9; 21; 20]; [9; 10; 22; 21]; [10; 11; 23; 22]; [1; 13; 17; 5]; [2; 14; 18; 6]; [5; 17; 21; 9]; [6; 18; 22; 10]; [0; 4; 16; 12]; [4; 8; 20; 16]; [3; 15; 19; 7]; [7; 19; 23; 11]];
chk (mkGluing (1,2,3) 0 0 false (2,2,3) 6 0 true false false true) [(0, Some 14); (1, Some 13); (2, Some 12); (3, Some 17); (4, Some 16); (5, Some 15); (0, None); (1, None); (2, None); (3, None); (4, None); (5, None); (0, Some 3); (1, Some 4); (2, Some 5); (0, None); (1, None); (2, None); (3, None); (4, None); (5, None); (0, Some 1); (1, Some 2); (3, Some 4); (4, Some 5); (0, None); (3, None); (2, None); (5, None); (6, Some 12); (7, Some 13); (8, Some 14); (9, Some 15); (10, Some 16); (11, Some 17); (6, None); (7, None); (8, None); (9, None); (10, None); (11, None); (6, Some 9); (7, Some 10); (8, Some 11); (12, Some 15); (13, Some 16); (14, Some 17); (6, None); (7, None); (8, None); (12, None); (13, None); (14, None); (9, None); (10, None); (11, None); (15, None); (16, None); (17, None); (6, Some 7); (7, Some 8); (9, Some 10); (10, Some 11); (12, Some 13); (13, Some 14); (15, Some 16); (16, Some 17); (6, None); (9, None); (12, None); (15, None); (8, None); (11, None); (14, None); (17, None)] [[0; 1; 5; 4]; [1; 2; 6; 5]; [2; 3; 7; 6]; [4; 5; 9; 8]; [5; 6; 10; 9]; [6; 7; 11; 10]; [12; 16; 17; 13]; [13; 17; 18; 14]; [14; 18; 19; 15]; [16; 20; 21; 17]; [17; 21; 22; 18]; [18; 22; 23; 19]; [4; 5; 17; 16]; [5; 6; 18; 17]; [6; 7; 19; 18]; [0; 12; 13; 1]; [1; 13; 14; 2]; [2; 14; 15; 3]; [8; 9; 21; 20]; [9; 10; 22; 21]; [10; 11; 23; 22]; [1; 13; 17; 5]; [2; 14; 18; 6]; [5; 17; 21; 9]; [6; 18; 22; 10]; [0; 4; 16; 12]; [4; 8; 20; 16]; [3; 15; 19; 7]; [7; 19; 23; 11]];
chk (mkGluing (1,2,3) 0 0 false (2,2,3) 6 0 true false true false) [(0, Some 15); (1, Some 16); (2, Some 17); (3, Some 12); (4, Some 13); (5, Some 14); (0, None); (1, None); (2, None); (3, None); (4, None); (5, None); (0, Some 3); (1, Some 4); (2, Some 5); (0, None); (1, None); (2, None); (3, None); (4, None); (5, None); (0, Some 1); (1, Some 2); (3, Some 4); (4, Some 5); (0, None); (3, None); (2, None); (5, None); (6, Some 12); (7, Some 13); (8, Some 14); (9, Some 15); (10, Some 16); (11, Some 17); (6, None); (7, None); (8, None); (9, None); (10, None); (11, None); (6, Some 9); (7, Some 10); (8, Some 11); (12, Some 15); (13, Some 16); (14, Some 17); (6, None); (7, None); (8, None); (12, None); (13, None); (14, None); (9, None); (10, None); (11, None); (15, None); (16, None); (17, None); (6, Some 7); (7, Some 8); (9, Some 10); (10, Some 11); (12, Some 13); (13, Some 14); (15, Some 16); (16, Some 17); (6, None); (9, None); (12, None); (15, None); (8, None); (11, None); (14, None); (17, None)] [[0; 1; 5; 4]; [1; 2; 6; 5]; [2; 3; 7; 6]; [4; 5; 9; 8]; [5; 6; 10; 9]; [6; 7; 11; 10]; [12; 16; 17; 13]; [13; 17; 18; 14]; [14; 18; 19; 15]; [16; 20; 21; 17]; [17; 21; 22; 18]; [18; 22; 23; 19]; [4; 5; 17; 16]; [5; 6; 18; 17]; [6; 7; 19; 18]; [0; 12; 13; 1]; [1; 13; 14; 2]; [2; 14; 15; 3]; [8; 9; 21; 20]; [9; 10; 22; 21]; [10; 11; 23; 22]; [1; 13; 17; 5]; [2; 14; 18; 6]; [5; 17; 21; 9]; [6; 18; 22; 10]; [0; 4; 16; 12]; [4; 8; 20; 16]; [3; 15; 19; 7]; [7; 19; 23; 11]];
chk (mkGluing (1,2,3) 0 0 false (2,2,3) 6 0 true false true true) [(0, Some 17); (1, Some 16); (2, Some 15); (3, Some 14); (4, Some 13); (5, Some 12); (0, None); (1, None); (2, None); (3, None); (4, None); (5, None); (0, Some 3); (1, Some 4); (2, Some 5); (0, None); (1, None); (2, None); (3, None); (4, None); (5, None); (0, Some 1); (1, Some 2); (3, Some 4); (4, Some 5); (0, None); (3, None); (2, None); (5, None); (6, Some 12); (7, Some 13); (8, Some 14); (9, Some 15); (10, Some 16); (11, Some 17); (6, None); (7, None); (8, None); (9, None); (10, None); (11, None); (6, Some 9); (7, Some 10); (8, Some 11); (12, Some 15); (13, Some 16); (14, Some 17); (6, None); (7, None); (8, None); (12, None); (13, None); (14, None); (9, None); (10, None); (11, None); (15, None); (16, None); (17, None); (6, Some 7); (7, Some 8); (9, Some 10); (10, Some 11); (12, Some 13); (13, Some 14); (15, Some 16); (16, Some 17); (6, None); (9, None); (12, None); (15, None); (8, None); (11, None); (14, None); (17, None)] [[0; 1; 5; 4]; [1; 2; 6; 5]; [2; 3; 7; 6]; [4; 5; 9; 8]; [5; 6; 10; 9]; [6; 7; 11; 10]; [12; 16; 17; 13]; [13; 17; 18; 14]; [14; 18; 19; 15]; [16; 20; 21; 17]; [17; 21; 22; 18]; [18; 22; 23; 19]; [4; 5; 17; 16]; [5; 6; 18; 17]; [6; 7; 19; 18]; [0; 12; 13; 1]; [1; 13; 14; 2]; [2; 14; 15; 3]; [8; 9; 21; 20]; [9; 10; 22; 21]; [10; 11; 23; 22]; [1; 13; 17; 5]; [2; 14; 18; 6]; [5; 17; 21; 9]; [6; 18; 22; 10]; [0; 4; 16; 12]; [4; 8; 20; 16]; [3; 15; 19; 7]; [7; 19; 23; 11]];
chk (mkGluing (1,2,3) 0 0 false (3,2,2) 6 2 true true false false) [(0, Some 7); (1, Some 11); (2, Some 15); (3, Some 9); (4, Some 13); (5, Some 17); (0, None); (1, None); (2, None); (3, None); (4, None); (5, None); (0, Some 3); (1, Some 4); (2, Some 5); (0, None); (1, None); (2, None); (3, None); (4, None); (5, None); (0, Some 1); (1, Some 2); (3, Some 4); (4, Some 5); (0, None); (3, None); (2, None); (5, None); (6, Some 10); (7, Some 11); (8, Some 12); (9, Some 13); (10, Some 14); (11, Some 15); (12, Some 16); (13, Some 17); (6, None); (7, None); (8, None); (9, None); (14, None); (15, None); (16, None); (17, None); (6, Some 8); (7, Some 9); (10, Some 12); (11, Some 13); (14, Some 16); (15, Some 17); (6, None); (7, None); (10, None); (11, None); (14, None); (15, None); (8, None); (9, None); (12, None); (13, None); (16, None); (17, None); (6, Some 7); (8, Some 9); (10, Some 11); (12, Some 13); (14, Some 15); (16, Some 17); (6, None); (8, None); (10, None); (12, None); (14, None); (16, None)] [[0; 1; 5; 4]; [1; 2; 6; 5]; [2; 3; 7; 6]; [4; 5; 9; 8]; [5; 6; 10; 9]; [6; 7; 11; 10]; [12; 16; 17; 13]; [13; 17; 18; 14]; [14; 18; 19; 15]; [16; 20; 21; 17]; [17; 21; 22; 18]; [18; 22; 23; 19]; [4; 5; 17; 16]; [5; 6; 18; 17]; [6; 7; 19; 18]; [0; 12; 13; 1]; [1; 13; 14; 2]; [2; 14; 15; 3]; [8; 9; 21; 20]; [9; 10; 22; 21]; [10; 11; 23; 22]; [1; 13; 17; 5]; [2; 14; 18; 6]; [5; 17; 21; 9]; [6; 18; 22; 10]; [0; 4; 16; 12]; [4; 8; 20; 16]; [3; 15; 19; 7]; [7; 19; 23; 11]];
chk (mkGluing (1,2,3) 0 0 false (3,2,2) 6 2 true true true false) [(0, Some 9); (1, Some 13); (2, Some 17); (3, Some 7); (4, Some 11); (5, Some 15); (0, None); (1, None); (2, None); (3, None); (4, None); (5, None); (0, Some 3); (1, Some 4); (2, Some 5); (0, None); (1, None); (2, None); (3, None); (4, None); (5, None); (0, Some 1); (1, Some 2); (3, Some 4); (4, Some 5); (0, None); (3, None); (2, None); (5, None); (6, Some 10); (7, Some 11); (8, Some 12); (9, Some 13); (10, Some 14); (11, Some 15); (12, Some 16); (13, Some 17); (6, None); (7, None); (8, None); (9, None); (14, None); (15, None); (16, None); (17, None); (6, Some 8); (7, Some 9); (10, Some 12); (11, Some 13); (14, Some 16); (15, Some 17); (6, None); (7, None); (10, None); (11, None); (14, None); (15, None); (8, None); (9, None); (12, None); (13, None); (16, None); (17, None); (6, Some 7); (8, Some 9); (10, Some 11); (12, Some 13); (14, Some 15); (16, Some 17); (6, None); (8, None); (10, None); (12, None); (14, None); (16, None)] [[0; 1; 5; 4]; [1; 2; 6; 5]; [2; 3; 7; 6]; [4; 5; 9; 8]; [5; 6; 10; 9]; [6; 7; 11; 10]; [12; 16; 17; 13]; [13; 17; 18; 14]; [14; 18; 19; 15]; [16; 20; 21; 17]; [17; 21; 22; 18]; [18; 22; 23; 19]; [4; 5; 17; 16]; [5; 6; 18; 17]; [6; 7; 19; 18]; [0; 12; 13; 1]; [1; 13; 14; 2]; [2; 14; 15; 3]; [8; 9; 21; 20]; [9; 10; 22; 21]; [10; 11; 23; 22]; [1; 13; 17; 5]; [2; 14; 18; 6]; [5; 17; 21; 9]; [6; 18; 22; 10]; [0; 4; 16; 12]; [4; 8; 20; 16]; [3; 15; 19; 7]; [7; 19; 23; 11]];
chk (mkGluing (1,2,3) 0 0 false (3,2,2) 6 2 true true false true) [(0, Some 15); (1, Some 11); (2, Some 7); (3, Some 17); (4, Some 13); (5, Some 9); (0, None); (1, None); (2, None); (3, None); (4, None); (5, None); (0, Some 3); (1, Some 4); (2, Some 5); (0, None); (1, None); (2, None); (3, None); (4, None); (5, None); (0, Some 1); (1, Some 2); (3, Some 4); (4, Some 5); (0, None); (3, None); (2, None); (5, None); (6, Some 10); (7, Some 11); (8, Some 12); (9, Some 13); (10, Some 14); (11, Some 15); (12, Some 16); (13, Some 17); (6, None); (7, None); (8, None); (9, None); (14, None); (15, None); (16, None); (17, None); (6, Some 8); (7, Some 9); (10, Some 12); (11, Some 13); (14, Some 16); (15, Some 17); (6, None); (7, None); (10, None); (11, None); (14, None); (15, None); (8, None); (9, None); (12, None); (13, None); (16, None); (17, None); (6, Some 7); (8, Some 9); (10, Some 11); (12, Some 13); (14, Some 15); (16, Some 17); (6, None); (8, None); (10, None); (12, None); (14, None); (16, None)] [[0; 1; 5; 4]; [1; 2; 6; 5]; [2; 3; 7; 6]; [4; 5; 9; 8]; [5; 6; 10; 9]; [6; 7; 11; 10]; [12; 16; 17; 13]; [13; 17; 18; 14]; [14; 18; 19; 15]; [16; 20; 21; 17]; [17; 21; 22; 18]; [18; 22; 23; 19]; [4; 5; 17; 16]; [5; 6; 18; 17]; [6; 7; 19; 18]; [0; 12; 13; 1]; [1; 13; 14; 2]; [2; 14; 15; 3]; [8; 9; 21; 20]; [9; 10; 22; 21]; [10; 11; 23; 22]; [1; 13; 17; 5]; [2; 14; 18; 6]; [5; 17; 21; 9]; [6; 18; 22; 10]; [0; 4; 16; 12]; [4; 8; 20; 16]; [3; 15; 19; 7]; [7; 19; 23; 11]];
chk (mkGluing (1,2,3) 0 0 false (3,2,2) 6 2 true true true true) [(0, Some 17); (1, Some 13); (2, Some 9); (3, Some 15); (4, Some 11); (5, Some 7); (0, None); (1, None); (2, None); (3, None); (4, None); (5, None); (0, Some 3); (1, Some 4); (2, Some 5); (0, None); (1, None); (2, None); (3, None); (4, None); (5, None); (0, Some 1); (1, Some 2); (3, Some 4); (4, Some 5); (0, None); (3, None); (2, None); (5, None); (6, Some 10); (7, Some 11); (8, Some 12); (9, Some 13); (10, Some 14); (11, Some 15); (12, Some 16); (13, Some 17); (6, None); (7, None); (8, None); (9, None); (14, None); (15, None); (16, None); (17, None); (6, Some 8); (7, Some 9); (10, Some 12); (11, Some 13); (14, Some 16); (15, Some 17); (6, None); (7, None); (10, None); (11, None); (14, None); (15, None); (8, None); (9, None); (12, None); (13, None); (16, None); (17, None); (6, Some 7); (8, Some 9); (10, Some 11); (12, Some 13); (14, Some 15); (16, Some 17); (6, None); (8, None); (10, None); (12, None); (14, None); (16, None)] [[0; 1; 5; 4]; [1; 2; 6; 5]; [2; 3; 7; 6]; [4; 5; 9; 8]; [5; 6; 10; 9]; [6; 7; 11; 10]; [12; 16; 17; 13]; [13; 17; 18; 14]; [14; 18; 19; 15]; [16; 20; 21; 17]; [17; 21; 22; 18]; [18; 22; 23; 19]; [4; 5; 17; 16]; [5; 6; 18; 17]; [6; 7; 19; 18]; [0; 12; 13; 1]; [1; 13; 14; 2]; [2; 14; 15; 3]; [8; 9; 21; 20]; [9; 10; 22; 21]; [10; 11; 23; 22]; [1; 13; 17; 5]; [2; 14; 18; 6]; [5; 17; 21; 9]; [6; 18; 22; 10]; [0; 4; 16; 12]; [4; 8; 20; 16]; [3; 15; 19; 7]; [7; 19; 23; 11]];
chk (mkGluing (1,2,3) 0 0 true (2,2,3) 6 0 false false false false) [(0, None); (1, None); (2, None); (3, None); (4, None); (5, None); (0, Some 6); (1, Some 7); (2, Some 8); (3, Some 9); (4, Some 10); (5, Some 11); (0, Some 3); (1, Some 4); (2, Some 5); (0, None); (1, None); (2, None); (3, None); (4, None); (5, None); (0, Some 1); (1, Some 2); (3, Some 4); (4, Some 5); (0, None); (3, None); (2, None); (5, None); (6, Some 12); (7, Some 13); (8, Some 14); (9, Some 15); (10, Some 16); (11, Some 17); (12, None); (13, None); (14, None); (15, None); (16, None); (17, None); (6, Some 9); (7, Some 10); (8, Some 11); (12, Some 15); (13, Some 16); (14, Some 17); (6, None); (7, None); (8, None); (12, None); (13, None); (14, None); (9, None); (10, None); (11, None); (15, None); (16, None); (17, None); (6, Some 7); (7, Some 8); (9, Some 10); (10, Some 11); (12, Some 13); (13, Some 14); (15, Some 16); (16, Some 17); (6, None); (9, None); (12, None); (15, None); (8, None); (11, None); (14, None); (17, None)] [[0; 1; 5; 4]; [1; 2; 6; 5]; [2; 3; 7; 6]; [4; 5; 9; 8]; [5; 6; 10; 9]; [6; 7; 11; 10]; [12; 16; 17; 13]; [13; 17; 18; 14]; [14; 18; 19; 15]; [16; 20; 21; 17]; [17; 21; 22; 18]; [18; 22; 23; 19]; [4; 5; 17; 16]; [5; 6; 18; 17]; [6; 7; 19; 18]; [0; 12; 13; 1]; [1; 13; 14; 2]; [2; 14; 15; 3]; [8; 9; 21; 20]; [9; 10; 22; 21]; [10; 11; 23; 22]; [1; 13; 17; 5]; [2; 14; 18; 6]; [5; 17; 21; 9]; [6; 18; 22; 10]; [0; 4; 16; 12]; [4; 8; 20; 16]; [3; 15; 19; 7]; [7; 19; 23; 11]];
chk (mkGluing (1,2,3) 0 0 true (2,2,3) 6 0 false false false true) [(0, None); (1, None); (2, None); (3, None); (4, None); (5, None); (0, Some 8); (1, Some 7); (2, Some 6); (3, Some 11); (4, Some 10); (5, Some 9); (0, Some 3); (1, Some 4); (2, Some 5); (0, None); (1, None); (2, None); (3, None); (4, None); (5, None); (0, Some 1); (1, Some 2); (3, Some 4); (4, Some 5); (0, None); (3, None); (2, None); (5, None); (6, Some 12); (7, Some 13); (8, Some 14); (9, Some 15); (10, Some 16); (11, Some 17); (12, None); (13, None); (14, None); (15, None); (16, None); (17, None); (6, Some 9); (7, Some 10); (8, Some 11); (12, Some 15); (13, Some 16); (14, Some 17); (6, None); (7, None); (8, None); (12, None); (13, None); (14, None); (9, None); (10, None); (11, None); (15, None); (16, None); (17, None); (6, Some 7); (7, Some 8); (9, Some 10); (10, Some 11); (12, Some 13); (13, Some 14); (15, Some 16); (16, Some 17); (6, None); (9, None); (12, None); (15, None); (8, None); (11, None); (14, None); (17, None)] [[0; 1; 5; 4]; [1; 2; 6; 5]; [2; 3; 7; 6]; [4; 5; 9; 8]; [5; 6; 10; 9]; [6; 7; 11; 10]; [12; 16; 17; 13]; [13; 17; 18; 14]; [14; 18; 19; 15]; [16; 20; 21; 17]; [17; 21; 22; 18]; [18; 22; 23; 19]; [4; 5; 17; 16]; [5; 6; 18; 17]; [6; 7; 19; 18]; [0; 12; 13; 1]; [1; 13; 14; 2]; [2; 14; 15; 3]; [8; 9; 21; 20]; [9; 10; 22; 21]; [10; 11; 23; 22]; [1; 13; 17; 5]; [2; 14; 18; 6]; [5; 17; 21; 9]; [6; 18; 22; 10]; [0; 4; 16; 12]; [4; 8; 20; 16]; [3; 15; 19; 7]; [7; 19; 23; 11]];
chk (mkGluing (1,2,3) 0 0 true (2,2,3) 6 0 false false true false) [(0, None); (1, None); (2, None); (3, None); (4, None); (5, None); (0, Some 9); (1, Some 10); (2, Some 11); (3, Some 6); (4, Some 7); (5, Some 8); (0, Some 3); (1, Some 4); (2, Some 5); (0, None); (1, None); (2, None); (3, None); (4, None); (5, None); (0, Some 1); (1, Some 2); (3, Some 4); (4, Some 5); (0, None); (3, None); (2, None); (5, None); (6, Some 12); (7, Some 13); (8, Some 14); (9, Some 15); (10, Some 16); (11, Some 17); (12, None); (13, None); (14, None); (15, None); (16, None); (17, None); (6, Some 9); (7, Some 10); (8, Some 11); (12, Some 15); (13, Some 16); (14, Some 17); (6, None); (7, None); (8, None); (12, None); (13, None); (14, None); (9, None); (10, None); (11, None); (15, None); (16, None); (17, None); (6, Some 7); (7, Some 8); (9, Some 10); (10, Some 11); (12, Some 13); (13, Some 14); (15, Some 16); (16, Some 17); (6, None); (9, None); (12, None); (15, None); (8, None); (11, None); (14, None); (17, None)] [[0; 1; 5; 4]; [1; 2; 6; 5]; [2; 3; 7; 6]; [4; 5; 9; 8]; [5; 6; 10; 9]; [6; 7; 11; 10]; [12; 16; 17; 13]; [13; 17; 18; 14]; [14; 18; 19; 15]; [16; 20; 21; 17]; [17; 21; 22; 18]; [18; 22; 23; 19]; [4; 5; 17; 16]; [5; 6; 18; 17]; [6; 7; 19; 18]; [0; 12; 13; 1]; [1; 13; 14; 2]; [2; 14; 15; 3]; [8; 9; 21; 20]; [9; 10; 22; 21]; [10; 11; 23; 22]; [1; 13; 17; 5]; [2; 14; 18; 6]; [5; 17; 21; 9]; [6; 18; 22; 10]; [0; 4; 16; 12]; [4; 8; 20; 16]; [3; 15; 19; 7]; [7; 19; 23; 11]];
chk (mkGluing (1,2,3) 0 0 true (2,2,3) 6 0 false false true true) [(0, None); (1, None); (2, None); (3, None); (4, None); (5, None); (0, Some 11); (1, Some 10); (2, Some 9); (3, Some 8); (4, Some 7); (5, Some 6); (0, Some 3); (1, Some 4); (2, Some 5); (0, None); (1, None); (2, None); (3, None); (4, None); (5, None); (0, Some 1); (1, Some 2); (3, Some 4); (4, Some 5); (0, None); (3, None); (2, None); (5, None); (6, Some 12); (7, Some 13); (8, Some 14); (9, Some 15); (10, Some 16); (11, Some 17); (12, None); (13, None); (14, None); (15, None); (16, None); (17, None); (6, Some 9); (7, Some 10); (8, Some 11); (12, Some 15); (13, Some 16); (14, Some 17); (6, None); (7, None); (8, None); (12, None); (13, None); (14, None); (9, None); (10, None); (11, None); (15, None); (16, None); (17, None); (6, Some 7); (7, Some 8); (9, Some 10); (10, Some 11); (12, Some 13); (13, Some 14); (15, Some 16); (16, Some 17); (6, None); (9, None); (12, None); (15, None); (8, None); (11, None); (14, None); (17, None)] [[0; 1; 5; 4]; [1; 2; 6; 5]; [2; 3; 7; 6]; [4; 5; 9; 8]; [5; 6; 10; 9]; [6; 7; 11; 10]; [12; 16; 17; 13]; [13; 17; 18; 14]; [14; 18; 19; 15]; [16; 20; 21; 17]; [17; 21; 22; 18]; [18; 22; 23; 19]; [4; 5; 17; 16]; [5; 6; 18; 17]; [6; 7; 19; 18]; [0; 12; 13; 1]; [1; 13; 14; 2]; [2; 14; 15; 3]; [8; 9; 21; 20]; [9; 10; 22; 21]; [10; 11; 23; 22]; [1; 13; 17; 5]; [2; 14; 18; 6]; [5; 17; 21; 9]; [6; 18; 22; 10]; [0; 4; 16; 12]; [4; 8; 20; 16]; [3; 15; 19; 7]; [7; 19; 23; 11]];
chk (mkGluing (1,2,3) 0 0 true (3,2,2) 6 2 false true false false) [(0, None); (1, None); (2, None); (3, None); (4, None); (5, None); (0, Some 6); (1, Some 10); (2, Some 14); (3, Some 8); (4, Some 12); (5, Some 16); (0, Some 3); (1, Some 4); (2, Some 5); (0, None); (1, None); (2, None); (3, None); (4, None); (5, None); (0, Some 1); (1, Some 2); (3, Some 4); (4, Some 5); (0, None); (3, None); (2, None); (5, None); (6, Some 10); (7, Some 11); (8, Some 12); (9, Some 13); (10, Some 14); (11, Some 15); (12, Some 16); (13, Some 17); (6, None); (7, None); (8, None); (9, None); (14, None); (15, None); (16, None); (17, None); (6, Some 8); (7, Some 9); (10, Some 12); (11, Some 13); (14, Some 16); (15, Some 17); (6, None); (7, None); (10, None); (11, None); (14, None); (15, None); (8, None); (9, None); (12, None); (13, None); (16, None); (17, None); (6, Some 7); (8, Some 9); (10, Some 11); (12, Some 13); (14, Some 15); (16, Some 17); (7, None); (9, None); (11, None); (13, None); (15, None); (17, None)] [[0; 1; 5; 4]; [1; 2; 6; 5]; [2; 3; 7; 6]; [4; 5; 9; 8]; [5; 6; 10; 9]; [6; 7; 11; 10]; [12; 16; 17; 13]; [13; 17; 18; 14]; [14; 18; 19; 15]; [16; 20; 21; 17]; [17; 21; 22; 18]; [18; 22; 23; 19]; [4; 5; 17; 16]; [5; 6; 18; 17]; [6; 7; 19; 18]; [0; 12; 13; 1]; [1; 13; 14; 2]; [2; 14; 15; 3]; [8; 9; 21; 20]; [9; 10; 22; 21]; [10; 11; 23; 22]; [1; 13; 17; 5]; [2; 14; 18; 6]; [5; 17; 21; 9]; [6; 18; 22; 10]; [0; 4; 16; 12]; [4; 8; 20; 16]; [3; 15; 19; 7]; [7; 19; 23; 11]];
chk (mkGluing (1,2,3) 0 0 true (3,2,2) 6 2 false true true false) [(0, None); (1, None); (2, None); (3, None); (4, None); (5, None); (0, Some 8); (1, Some 12); (2, Some 16); (3, Some 6); (4, Some 10); (5, Some 14); (0, Some 3); (1, Some 4); (2, Some 5); (0, None); (1, None); (2, None); (3, None); (4, None); (5, None); (0, Some 1); (1, Some 2); (3, Some 4); (4, Some 5); (0, None); (3, None); (2, None); (5, None); (6, Some 10); (7, Some 11); (8, Some 12); (9, Some 13); (10, Some 14); (11, Some 15); (12, Some 16); (13, Some 17); (6, None); (7, None); (8, None); (9, None); (14, None); (15, None); (16, None); (17, None); (6, Some 8); (7, Some 9); (10, Some 12); (11, Some 13); (14, Some 16); (15, Some 17); (6, None); (7, None); (10, None); (11, None); (14, None); (15, None); (8, None); (9, None); (12, None); (13, None); (16, None); (17, None); (6, Some 7); (8, Some 9); (10, Some 11); (12, Some 13); (14, Some 15); (16, Some 17); (7, None); (9, None); (11, None); (13, None); (15, None); (17, None)] [[0; 1; 5; 4]; [1; 2; 6; 5]; [2; 3; 7; 6]; [4; 5; 9; 8]; [5; 6; 10; 9]; [6; 7; 11; 10]; [12; 16; 17; 13]; [13; 17; 18; 14]; [14; 18; 19; 15]; [16; 20; 21; 17]; [17; 21; 22; 18]; [18; 22; 23; 19]; [4; 5; 17; 16]; [5; 6; 18; 17]; [6; 7; 19; 18]; [0; 12; 13; 1]; [1; 13; 14; 2]; [2; 14; 15; 3]; [8; 9; 21; 20]; [9; 10; 22; 21]; [10; 11; 23; 22]; [1; 13; 17; 5]; [2; 14; 18; 6]; [5; 17; 21; 9]; [6; 18; 22; 10]; [0; 4; 16; 12]; [4; 8; 20; 16]; [3; 15; 19; 7]; [7; 19; 23; 11]];
chk (mkGluing (1,2,3) 0 0 true (3,2,2) 6 2 false true false true) [(0, None); (1, None); (2, None); (3, None); (4, None); (5, None); (0, Some 14); (1, Some 10); (2, Some 6); (3, Some 16); (4, Some 12); (5, Some 8); (0, Some 3); (1, Some 4); (2, Some 5); (0, None); (1, None); (2, None); (3, None); (4, None); (5, None); (0, Some 1); (1, Some 2); (3, Some 4); (4, Some 5); (0, None); (3, None); (2, None); (5, None); (6, Some 10); (7, Some 11); (8, Some 12); (9, Some 13); (10, Some 14); (11, Some 15); (12, Some 16); (13, Some 17); (6, None); (7, None); (8, None); (9, None); (14, None); (15, None); (16, None); (17, None); (6, Some 8); (7, Some 9); (10, Some 12); (11, Some 13); (14, Some 16); (15, Some 17); (6, None); (7, None); (10, None); (11, None); (14, None); (15, None); (8, None); (9, None); (12, None); (13, None); (16, None); (17, None); (6, Some 7); (8, Some 9); (10, Some 11); (12, Some 13); (14, Some 15); (16, Some 17); (7, None); (9, None); (11, None); (13, None); (15, None); (17, None)] [[0; 1; 5; 4]; [1; 2; 6; 5]; [2; 3; 7; 6]; [4; 5; 9; 8]; [5; 6; 10; 9]; [6; 7; 11; 10]; [12; 16; 17; 13]; [13; 17; 18; 14]; [14; 18; 19; 15]; [16; 20; 21; 17]; [17; 21; 22; 18]; [18; 22; 23; 19]; [4; 5; 17; 16]; [5; 6; 18; 17]; [6; 7; 19; 18]; [0; 12; 13; 1]; [1; 13; 14; 2]; [2; 14; 15; 3]; [8; 9; 21; 20]; [9; 10; 22; 21]; [10; 11; 23; 22]; [1; 13; 17; 5]; [2; 14; 18; 6]; [5; 17; 21; 9]; [6; 18; 22; 10]; [0; 4; 16; 12]; [4; 8; 20; 16]; [3; 15; 19; 7]; [7; 19; 23; 11]];
chk (mkGluing (1,2,3) 0 0 true (3,2,2) 6 2 false true true true) [(0, None); (1, None); (2, None); (3, None); (4, None); (5, None); (0, Some 16); (1, Some 12); (2, Some 8); (3, Some 14); (4, Some 10); (5, Some 6); (0, Some 3); (1, Some 4); (2, Some 5); (0, None); (1, None); (2, None); (3, None); (4, None); (5, None); (0, Some 1); (1, Some 2); (3, Some 4); (4, Some 5); (0, None); (3, None); (2, None); (5, None); (6, Some 10); (7, Some 11); (8, Some 12); (9, Some 13); (10, Some 14); (11, Some 15); (12, Some 16); (13, Some 17); (6, None); (7, None); (8, None); (9, None); (14, None); (15, None); (16, None); (17, None); (6, Some 8); (7, Some 9); (10, Some 12); (11, Some 13); (14, Some 16); (15, Some 17); (6, None); (7, None); (10, None); (11, None); (14, None); (15, None); (8, None); (9, None); (12, None); (13, None); (16, None); (17, None); (6, Some 7); (8, Some 9); (10, Some 11); (12, Some 13); (14, Some 15); (16, Some 17); (7, None); (9, None); (11, None); (13, None); (15, None); (17, None)] [[0; 1; 5; 4]; [1; 2; 6; 5]; [2; 3; 7; 6]; [4; 5; 9; 8]; [5; 6; 10; 9]; [6; 7; 11; 10]; [12; 16; 17; 13]; [13; 17; 18; 14]; [14; 18; 19; 15]; [16; 20; 21; 17]; [17; 21; 22; 18]; [18; 22; 23; 19]; [4; 5; 17; 16]; [5; 6; 18; 17]; [6; 7; 19; 18]; [0; 12; 13; 1]; [1; 13; 14; 2]; [2; 14; 15; 3]; [8; 9; 21; 20]; [9; 10; 22; 21]; [10; 11; 23; 22]; [1; 13; 17; 5]; [2; 14; 18; 6]; [5; 17; 21; 9]; [6; 18; 22; 10]; [0; 4; 16; 12]; [4; 8; 20; 16]; [3; 15; 19; 7]; [7; 19; 23; 11]];
chk (mkGluing (1,2,3) 0 1 false (1,2,3) 6 1 true false false false) [(0, None); (1, None); (2, None); (3, None); (4, None); (5, None); (0, None); (1, None); (2, None); (3, None); (4, None); (5, None); (0, Some 3); (1, Some 4); (2, Some 5); (0, Some 9); (1, Some 10); (2, Some 11); (3, None); (4, None); (5, None); (0, Some 1); (1, Some 2); (3, Some 4); (4, Some 5); (0, None); (3, None); (2, None); (5, None); (6, None); (7, None); (8, None); (9, None); (10, None); (11, None); (6, None); (7, None); (8, None); (9, None); (10, None); (11, None); (6, Some 9); (7, Some 10); (8, Some 11); (6, None); (7, None); (8, None); (6, Some 7); (7, Some 8); (9, Some 10); (10, Some 11); (6, None); (9, None); (8, None); (11, None)] [[0; 1; 5; 4]; [1; 2; 6; 5]; [2; 3; 7; 6]; [4; 5; 9; 8]; [5; 6; 10; 9]; [6; 7; 11; 10]; [12; 16; 17; 13]; [13; 17; 18; 14]; [14; 18; 19; 15]; [16; 20; 21; 17]; [17; 21; 22; 18]; [18; 22; 23; 19]; [4; 5; 17; 16]; [5; 6; 18; 17]; [6; 7; 19; 18]; [0; 12; 13; 1]; [1; 13; 14; 2]; [2; 14; 15; 3]; [8; 9; 21; 20]; [9; 10; 22; 21]; [10; 11; 23; 22]; [1; 13; 17; 5]; [2; 14; 18; 6]; [5; 17; 21; 9]; [6; 18; 22; 10]; [0; 4; 16; 12]; [4; 8; 20; 16]; [3; 15; 19; 7]; [7; 19; 23; 11]];
chk (mkGluing (1,2,3) 0 1 false (1,2,3) 6 1 true false false true) [(0, None); (1, None); (2, None); (3, None); (4, None); (5, None); (0, None); (1, None); (2, None); (3, None); (4, None); (5, None); (0, Some 3); (1, Some 4); (2, Some 5); (0, Some 11); (1, Some 10); (2, Some 9); (3, None); (4, None); (5, None); (0, Some 1); (1, Some 2); (3, Some 4); (4, Some 5); (0, None); (3, None); (2, None); (5, None); (6, None); (7, None); (8, None); (9, None); (10, None); (11, None); (6, None); (7, None); (8, None); (9, None); (10, None); (11, None); (6, Some 9); (7, Some 10); (8, Some 11); (6, None); (7, None); (8, None); (6, Some 7); (7, Some 8); (9, Some 10); (10, Some 11); (6, None); (9, None); (8, None); (11, None)] [[0; 1; 5; 4]; [1; 2; 6; 5]; [2; 3; 7; 6]; [4; 5; 9; 8]; [5; 6; 10; 9]; [6; 7; 11; 10]; [12; 16; 17; 13]; [13; 17; 18; 14]; [14; 18; 19; 15]; [16; 20; 21; 17]; [17; 21; 22; 18]; [18; 22; 23; 19]; [4; 5; 17; 16]; [5; 6; 18; 17]; [6; 7; 19; 18]; [0; 12; 13; 1]; [1; 13; 14; 2]; [2; 14; 15; 3]; [8; 9; 21; 20]; [9; 10; 22; 21]; [10; 11; 23; 22]; [1; 13; 17; 5]; [2; 14; 18; 6]; [5; 17; 21; 9]; [6; 18; 22; 10]; [0; 4; 16; 12]; [4; 8; 20; 16]; [3; 15; 19; 7]; [7; 19; 23; 11]];
chk (mkGluing (1,2,3) 0 1 false (1,2,3) 6 1 true false true false) [(0, None); (1, None); (2, None); (3, None); (4, None); (5, None); (0, None); (1, None); (2, None); (3, None); (4, None); (5, None); (0, Some 3); (1, Some 4); (2, Some 5); (0, Some 9); (1, Some 10); (2, Some 11); (3, None); (4, None); (5, None); (0, Some 1); (1, Some 2); (3, Some 4); (4, Some 5); (0, None); (3, None); (2, None); (5, None); (6, None); (7, None); (8, None); (9, None); (10, None); (11, None); (6, None); (7, None); (8, None); (9, None); (10, None); (11, None); (6, Some 9); (7, Some 10); (8, Some 11); (6, None); (7, None); (8, None); (6, Some 7); (7, Some 8); (9, Some 10); (10, Some 11); (6, None); (9, None); (8, None); (11, None)] [[0; 1; 5; 4]; [1; 2; 6; 5]; [2; 3; 7; 6]; [4; 5; 9; 8]; [5; 6; 10; 9]; [6; 7; 11; 10]; [12; 16; 17; 13]; [13; 17; 18; 14]; [14; 18; 19; 15]; [16; 20; 21; 17]; [17; 21; 22; 18]; [18; 22; 23; 19]; [4; 5; 17; 16]; [5; 6; 18; 17]; [6; 7; 19; 18]; [0; 12; 13; 1]; [1; 13; 14; 2]; [2; 14; 15; 3]; [8; 9; 21; 20]; [9; 10; 22; 21]; [10; 11; 23; 22]; [1; 13; 17; 5]; [2; 14; 18; 6]; [5; 17; 21; 9]; [6; 18; 22; 10]; [0; 4; 16; 12]; [4; 8; 20; 16]; [3; 15; 19; 7]; [7; 19; 23; 11]];
chk (mkGluing (1,2,3) 0 1 false (1,2,3) 6 1 true false true true) [(0, None); (1, None); (2, None); (3, None); (4, None); (5, None); (0, None); (1, None); (2, None); (3, None); (4, None); (5, None); (0, Some 3); (1, Some 4); (2, Some 5); (0, Some 11); (1, Some 10); (2, Some 9); (3, None); (4, None); (5, None); (0, Some 1); (1, Some 2); (3, Some 4); (4, Some 5); (0, None); (3, None); (2, None); (5, None); (6, None); (7, None); (8, None); (9, None); (10, None); (11, None); (6, None); (7, None); (8, None); (9, None); (10, None); (11, None); (6, Some 9); (7, Some 10); (8, Some 11); (6, None); (7, None); (8, None); (6, Some 7); (7, Some 8); (9, Some 10); (10, Some 11); (6, None); (9, None); (8, None); (11, None)] [[0; 1; 5; 4]; [1; 2; 6; 5]; [2; 3; 7; 6]; [4; 5; 9; 8]; [5; 6; 10; 9]; [6; 7; 11; 10]; [12; 16; 17; 13]; [13; 17; 18; 14]; [14; 18; 19; 15]; [16; 20; 21; 17]; [17; 21; 22; 18]; [18; 22; 23; 19]; [4; 5; 17; 16]; [5; 6; 18; 17]; [6; 7; 19; 18]; [0; 12; 13; 1]; [1; 13; 14; 2]; [2; 14; 15; 3]; [8; 9; 21; 20]; [9; 10; 22; 21]; [10; 11; 23; 22]; [1; 13; 17; 5]; [2; 14; 18; 6]; [5; 17; 21; 9]; [6; 18; 22; 10]; [0; 4; 16; 12]; [4; 8; 20; 16]; [3; 15; 19; 7]; [7; 19; 23; 11]];
chk (mkGluing (1,2,3) 0 1 false (3,2,1) 6 1 true true false false) [(0, None); (1, None); (2, None); (3, None); (4, None); (5, None); (0, None); (1, None); (2, None); (3, None); (4, None); (5, None); (0, Some 3); (1, Some 4); (2, Some 5); (0, Some 7); (1, Some 9); (2, Some 11); (3, None); (4, None); (5, None); (0, Some 1); (1, Some 2); (3, Some 4); (4, Some 5); (0, None); (3, None); (2, None); (5, None); (6, Some 8); (7, Some 9); (8, Some 10); (9, Some 11); (6, None); (7, None); (10, None); (11, None); (6, Some 7); (8, Some 9); (10, Some 11); (6, None); (8, None); (10, None); (6, None); (7, None); (8, None); (9, None); (10, None); (11, None); (6, None); (7, None); (8, None); (9, None); (10, None); (11, None)] [[0; 1; 5; 4]; [1; 2; 6; 5]; [2; 3; 7; 6]; [4; 5; 9; 8]; [5; 6; 10; 9]; [6; 7; 11; 10]; [12; 16; 17; 13]; [13; 17; 18; 14]; [14; 18; 19; 15]; [16; 20; 21; 17]; [17; 21; 22; 18]; [18; 22; 23; 19]; [4; 5; 17; 16]; [5; 6; 18; 17]; [6; 7; 19; 18]; [0; 12; 13; 1]; [1; 13; 14; 2]; [2; 14; 15; 3]; [8; 9; 21; 20]; [9; 10; 22; 21]; [10; 11; 23; 22]; [1; 13; 17; 5]; [2; 14; 18; 6]; [5; 17; 21; 9]; [6; 18; 22; 10]; [0; 4; 16; 12]; [4; 8; 20; 16]; [3; 15; 19; 7]; [7; 19; 23; 11]];
chk (mkGluing (1,2,3) 0 1 false (3,2,1) 6 1 true true true false) [(0, None); (1, None); (2, None); (3, None); (4, None); (5, None); (0, None); (1, None); (2, None); (3, None); (4, None); (5, None); (0, Some 3); (1, Some 4); (2, Some 5); (0, Some 7); (1, Some 9); (2, Some 11); (3, None); (4, None); (5, None); (0, Some 1); (1, Some 2); (3, Some 4); (4, Some 5); (0, None); (3, None); (2, None); (5, None); (6, Some 8); (7, Some 9); (8, Some 10); (9, Some 11); (6, None); (7, None); (10, None); (11, None); (6, Some 7); (8, Some 9); (10, Some 11); (6, None); (8, None); (10, None); (6, None); (7, None); (8, None); (9, None); (10, None); (11, None); (6, None); (7, None); (8, None); (9, None); (10, None); (11, None)] [[0; 1; 5; 4]; [1; 2; 6; 5]; [2; 3; 7; 6]; [4; 5; 9; 8]; [5; 6; 10; 9]; [6; 7; 11; 10]; [12; 16; 17; 13]; [13; 17; 18; 14]; [14; 18; 19; 15]; [16; 20; 21; 17]; [17; 21; 22; 18]; [18; 22; 23; 19]; [4; 5; 17; 16]; [5; 6; 18; 17]; [6; 7; 19; 18]; [0; 12; 13; 1]; [1; 13; 14; 2]; [2; 14; 15; 3]; [8; 9; 21; 20]; [9; 10; 22; 21]; [10; 11; 23; 22]; [1; 13; 17; 5]; [2; 14; 18; 6]; [5; 17; 21; 9]; [6; 18; 22; 10]; [0; 4; 16; 12]; [4; 8; 20; 16]; [3; 15; 19; 7]; [7; 19; 23; 11]];
chk (mkGluing (1,2,3) 0 1 false (3,2,1) 6 1 true true false true) [(0, None); (1, None); (2, None); (3, None); (4, None); (5, None); (0, None); (1, None); (2, None); (3, None); (4, None); (5, None); (0, Some 3); (1, Some 4); (2, Some 5); (0, Some 11); (1, Some 9); (2, Some 7); (3, None); (4, None); (5, None); (0, Some 1); (1, Some 2); (3, Some 4); (4, Some 5); (0, None); (3, None); (2, None); (5, None); (6, Some 8); (7, Some 9); (8, Some 10); (9, Some 11); (6, None); (7, None); (10, None); (11, None); (6, Some 7); (8, Some 9); (10, Some 11); (6, None); (8, None); (10, None); (6, None); (7, None); (8, None); (9, None); (10, None); (11, None); (6, None); (7, None); (8, None); (9, None); (10, None); (11, None)] [[0; 1; 5; 4]; [1; 2; 6; 5]; [2; 3; 7; 6]; [4; 5; 9; 8]; [5; 6; 10; 9]; [6; 7; 11; 10]; [12; 16; 17; 13]; [13; 17; 18; 14]; [14; 18; 19; 15]; [16; 20; 21; 17]; [17; 21; 22; 18]; [18; 22; 23; 19]; [4; 5; 17; 16]; [5; 6; 18; 17]; [6; 7; 19; 18]; [0; 12; 13; 1]; [1; 13; 14; 2]; [2; 14; 15; 3]; [8; 9; 21; 20]; [9; 10; 22; 21]; [10; 11; 23; 22]; [1; 13; 17; 5]; [2; 14; 18; 6]; [5; 17; 21; 9]; [6; 18; 22; 10]; [0; 4; 16; 12]; [4; 8; 20; 16]; [3; 15; 19; 7]; [7; 19; 23; 11]];
chk (mkGluing (1,2,3) 0 1 false (3,2,1) 6 1 true true true true) [(0, None); (1, None); (2, None); (3, None); (4, None); (5, None); (0, None); (1, None); (2, None); (3, None); (4, None); (5, None); (0, Some 3); (1, Some 4); (2, Some 5); (0, Some 11); (1, Some 9); (2, Some 7); (3, None); (4, None); (5, None); (0, Some 1); (1, Some 2); (3, Some 4); (4, Some 5); (0, None); (3, None); (2, None); (5, None); (6, Some 8); (7, Some 9); (8, Some 10); (9, Some 11); (6, None); (7, None); (10, None); (11, None); (6, Some 7); (8, Some 9); (10, Some 11); (6, None); (8, None); (10, None); (6, None); (7, None); (8, None); (9, None); (10, None); (11, None); (6, None); (7, None); (8, None); (9, None); (10, None); (11, None)] [[0; 1; 5; 4]; [1; 2; 6; 5]; [2; 3; 7; 6]; [4; 5; 9; 8]; [5; 6; 10; 9]; [6; 7; 11; 10]; [12; 16; 17; 13]; [13; 17; 18; 14]; [14; 18; 19; 15]; [16; 20; 21; 17]; [17; 21; 22; 18]; [18; 22; 23; 19]; [4; 5; 17; 16]; [5; 6; 18; 17]; [6; 7; 19; 18]; [0; 12; 13; 1]; [1; 13; 14; 2]; [2; 14; 15; 3]; [8; 9; 21; 20]; [9; 10; 22; 21]; [10; 11; 23; 22]; [1; 13; 17; 5]; [2; 14; 18; 6]; [5; 17; 21; 9]; [6; 18; 22; 10]; [0; 4; 16; 12]; [4; 8; 20; 16]; [3; 15; 19; 7]; [7; 19; 23; 11]];
chk (mkGluing (1,2,3) 0 1 true (1,2,3) 6 1 false false false false) [(0, None); (1, None); (2, None); (3, None); (4, None); (5, None); (0, None); (1, None); (2, None); (3, None); (4, None); (5, None); (0, Some 3); (1, Some 4); (2, Some 5); (0, None); (1, None); (2, None); (3, Some 6); (4, Some 7); (5, Some 8); (0, Some 1); (1, Some 2); (3, Some 4); (4, Some 5); (0, None); (3, None); (2, None); (5, None); (6, None); (7, None); (8, None); (9, None); (10, None); (11, None); (6, None); (7, None); (8, None); (9, None); (10, None); (11, None); (6, Some 9); (7, Some 10); (8, Some 11); (9, None); (10, None); (11, None); (6, Some 7); (7, Some 8); (9, Some 10); (10, Some 11); (6, None); (9, None); (8, None); (11, None)] [[0; 1; 5; 4]; [1; 2; 6; 5]; [2; 3; 7; 6]; [4; 5; 9; 8]; [5; 6; 10; 9]; [6; 7; 11; 10]; [12; 16; 17; 13]; [13; 17; 18; 14]; [14; 18; 19; 15]; [16; 20; 21; 17]; [17; 21; 22; 18]; [18; 22; 23; 19]; [4; 5; 17; 16]; [5; 6; 18; 17]; [6; 7; 19; 18]; [0; 12; 13; 1]; [1; 13; 14; 2]; [2; 14; 15; 3]; [8; 9; 21; 20]; [9; 10; 22; 21]; [10; 11; 23; 22]; [1; 13; 17; 5]; [2; 14; 18; 6]; [5; 17; 21; 9]; [6; 18; 22; 10]; [0; 4; 16; 12]; [4; 8; 20; 16]; [3; 15; 19; 7]; [7; 19; 23; 11]];
chk (mkGluing (1,2,3) 0 1 true (1,2,3) 6 1 false false false true) [(0, None); (1, None); (2, None); (3, None); (4, None); (5, None); (0, None); (1, None); (2, None); (3, None); (4, None); (5, None); (0, Some 3); (1, Some 4); (2, Some 5); (0, None); (1, None); (2, None); (3, Some 8); (4, Some 7); (5, Some 6); (0, Some 1); (1, Some 2); (3, Some 4); (4, Some 5); (0, None); (3, None); (2, None); (5, None); (6, None); (7, None); (8, None); (9, None); (10, None); (11, None); (6, None); (7, None); (8, None); (9, None); (10, None); (11, None); (6, Some 9); (7, Some 10); (8, Some 11); (9, None); (10, None); (11, None); (6, Some 7); (7, Some 8); (9, Some 10); (10, Some 11); (6, None); (9, None); (8, None); (11, None)] [[0; 1; 5; 4]; [1; 2; 6; 5]; [2; 3; 7; 6]; [4; 5; 9; 8]; [5; 6; 10; 9]; [6; 7; 11; 10]; [12; 16; 17; 13]; [13; 17; 18; 14]; [14; 18; 19; 15]; [16; 20; 21; 17]; [17; 21; 22; 18]; [18; 22; 23; 19]; [4; 5; 17; 16]; [5; 6; 18; 17]; [6; 7; 19; 18]; [0; 12; 13; 1]; [1; 13; 14; 2]; [2; 14; 15; 3]; [8; 9; 21; 20]; [9; 10; 22; 21]; [10; 11; 23; 22]; [1; 13; 17; 5]; [2; 14; 18; 6]; [5; 17; 21; 9]; [6; 18; 22; 10]; [0; 4; 16; 12]; [4; 8; 20; 16]; [3; 15; 19; 7]; [7; 19; 23; 11]];
chk (mkGluing (1,2,3) 0 1 true (1,2,3) 6 1 false false true false) [(0, None); (1, None); (2, None); (3, None); (4, None); (5, None); (0, None); (1, None); (2, None); (3, None); (4, None); (5, None); (0, Some 3); (1, Some 4); (2, Some 5); (0, None); (1, None); (2, None); (3, Some 6); (4, Some 7); (5, Some 8); (0, Some 1); (1, Some 2); (3, Some 4); (4, Some 5); (0, None); (3, None); (2, None); (5, None); (6, None); (7, None); (8, None); (9, None); (10, None); (11, None); (6, None); (7, None); (8, None); (9, None); (10, None); (11, None); (6, Some 9); (7, Some 10); (8, Some 11); (9, None); (10, None); (11, None); (6, Some 7); (7, Some 8); (9, Some 10); (10, Some 11); (6, None); (9, None); (8, None); (11, None)] [[0; 1; 5; 4]; [1; 2; 6; 5]; [2; 3; 7; 6]; [4; 5; 9; 8]; [5; 6; 10; 9]; [6; 7; 11; 10]; [12; 16; 17; 13]; [13; 17; 18; 14]; [14; 18; 19; 15]; [16; 20; 21; 17]; [17; 21; 22; 18]; [18; 22; 23; 19]; [4; 5; 17; 16]; [5; 6; 18; 17]; [6; 7; 19; 18]; [0; 12; 13; 1]; [1; 13; 14; 2]; [2; 14; 15; 3]; [8; 9; 21; 20]; [9; 10; 22; 21]; [10; 11; 23; 22]; [1; 13; 17; 5]; [2; 14; 18; 6]; [5; 17; 21; 9]; [6; 18; 22; 10]; [0; 4; 16; 12]; [4; 8; 20; 16]; [3; 15; 19; 7]; [7; 19; 23; 11]];
chk (mkGluing (1,2,3) 0 1 true (1,2,3) 6 1 false false true true) [(0, None); (1, None); (2, None); (3, None); (4, None); (5, None); (0, None); (1, None); (2, None); (3, None); (4, None); (5, None); (0, Some 3); (1, Some 4); (2, Some 5); (0, None); (1, None); (2, None); (3, Some 8); (4, Some 7); (5, Some 6); (0, Some 1); (1, Some 2); (3, Some 4); (4, Some 5); (0, None); (3, None); (2, None); (5, None); (6, None); (7, None); (8, None); (9, None); (10, None); (11, None); (6, None); (7, None); (8, None); (9, None); (10, None); (11, None); (6, Some 9); (7, Some 10); (8, Some 11); (9, None); (10, None); (11, None); (6, Some 7); (7, Some 8); (9, Some 10); (10, Some 11); (6, None); (9, None); (8, None); (11, None)] [[0; 1; 5; 4]; [1; 2; 6; 5]; [2; 3; 7; 6]; [4; 5; 9; 8]; [5; 6; 10; 9]; [6; 7; 11; 10]; [12; 16; 17; 13]; [13; 17; 18; 14]; [14; 18; 19; 15]; [16; 20; 21; 17]; [17; 21; 22; 18]; [18; 22; 23; 19]; [4; 5; 17; 16]; [5; 6; 18; 17]; [6; 7; 19; 18]; [0; 12; 13; 1]; [1; 13; 14; 2]; [2; 14; 15; 3]; [8; 9; 21; 20]; [9; 10; 22; 21]; [10; 11; 23; 22]; [1; 13; 17; 5]; [2; 14; 18; 6]; [5; 17; 21; 9]; [6; 18; 22; 10]; [0; 4; 16; 12]; [4; 8; 20; 16]; [3; 15; 19; 7]; [7; 19; 23; 11]];
chk (mkGluing (1,2,3) 0 1 true (3,2,1) 6 1 false true false false) [(0, None); (1, None); (2, None); (3, None); (4, None); (5, None); (0, None); (1, None); (2, None); (3, None); (4, None); (5, None); (0, Some 3); (1, Some 4); (2, Some 5); (0, None); (1, None); (2, None); (3, Some 6); (4, Some 8); (5, Some 10); (0, Some 1); (1, Some 2); (3, Some 4); (4, Some 5); (0, None); (3, None); (2, None); (5, None); (6, Some 8); (7, Some 9); (8, Some 10); (9, Some 11); (6, None); (7, None); (10, None); (11, None); (6, Some 7); (8, Some 9); (10, Some 11); (7, None); (9, None); (11, None); (6, None); (7, None); (8, None); (9, None); (10, None); (11, None); (6, None); (7, None); (8, None); (9, None); (10, None); (11, None)] [[0; 1; 5; 4]; [1; 2; 6; 5]; [2; 3; 7; 6]; [4; 5; 9; 8]; [5; 6; 10; 9]; [6; 7; 11; 10]; [12; 16; 17; 13]; [13; 17; 18; 14]; [14; 18; 19; 15]; [16; 20; 21; 17]; [17; 21; 22; 18]; [18; 22; 23; 19]; [4; 5; 17; 16]; [5; 6; 18; 17]; [6; 7; 19; 18]; [0; 12; 13; 1]; [1; 13; 14; 2]; [2; 14; 15; 3]; [8; 9; 21; 20]; [9; 10; 22; 21]; [10; 11; 23; 22]; [1; 13; 17; 5]; [2; 14; 18; 6]; [5; 17; 21; 9]; [6; 18; 22; 10]; [0; 4; 16; 12]; [4; 8; 20; 16]; [3; 15; 19; 7]; [7; 19; 23; 11]];
chk (mkGluing (1,2,3) 0 1 true (3,2,1) 6 1 false true true false) [(0, None); (1, None); (2, None); (3, None); (4, None); (5, None); (0, None); (1, None); (2, None); (3, None); (4, None); (5, None); (0, Some 3); (1, Some 4); (2, Some 5); (0, None); (1, None); (2, None); (3, Some 6); (4, Some 8); (5, Some 10); (0, Some 1); (1, Some 2); (3, Some 4); (4, Some 5); (0, None); (3, None); (2, None); (5, None); (6, Some 8); (7, Some 9); (8, Some 10); (9, Some 11); (6, None); (7, None); (10, None); (11, None); (6, Some 7); (8, Some 9); (10, Some 11); (7, None); (9, None); (11, None); (6, None); (7, None); (8, None); (9, None); (10, None); (11, None); (6, None); (7, None); (8, None); (9, None); (10, None); (11, None)] [[0; 1; 5; 4]; [1; 2; 6; 5]; [2; 3; 7; 6]; [4; 5; 9; 8]; [5; 6; 10; 9]; [6; 7; 11; 10]; [12; 16; 17; 13]; [13; 17; 18; 14]; [14; 18; 19; 15]; [16; 20; 21; 17]; [17; 21; 22; 18]; [18; 22; 23; 19]; [4; 5; 17; 16]; [5; 6; 18; 17]; [6; 7; 19; 18]; [0; 12; 13; 1]; [1; 13; 14; 2]; [2; 14; 15; 3]; [8; 9; 21; 20]; [9; 10; 22; 21]; [10; 11; 23; 22]; [1; 13; 17; 5]; [2; 14; 18; 6]; [5; 17; 21; 9]; [6; 18; 22; 10]; [0; 4; 16; 12]; [4; 8; 20; 16]; [3; 15; 19; 7]; [7; 19; 23; 11]];
chk (mkGluing (1,2,3) 0 1 true (3,2,1) 6 1 false true false true) [(0, None); (1, None); (2, None); (3, None); (4, None); (5, None); (0, None); (1, None); (2, None); (3, None); (4, None); (5, None); (0, Some 3); (1, Some 4); (2, Some 5); (0, None); (1, None); (2, None); (3, Some 10); (4, Some 8); (5, Some 6); (0, Some 1); (1, Some 2); (3, Some 4); (4, Some 5); (0, None); (3, None); (2, None); (5, None); (6, Some 8); (7, Some 9); (8, Some 10); (9, Some 11); (6, None); (7, None); (10, None); (11, None); (6, Some 7); (8, Some 9); (10, Some 11); (7, None); (9, None); (11, None); (6, None); (7, None); (8, None); (9, None); (10, None); (11, None); (6, None); (7, None); (8, None); (9, None); (10, None); (11, None)] [[0; 1; 5; 4]; [1; 2; 6; 5]; [2; 3; 7; 6]; [4; 5; 9; 8]; [5; 6; 10; 9]; [6; 7; 11; 10]; [12; 16; 17; 13]; [13; 17; 18; 14]; [14; 18; 19; 15]; [16; 20; 21; 17]; [17; 21; 22; 18]; [18; 22; 23; 19]; [4; 5; 17; 16]; [5; 6; 18; 17]; [6; 7; 19; 18]; [0; 12; 13; 1]; [1; 13; 14; 2]; [2; 14; 15; 3]; [8; 9; 21; 20]; [9; 10; 22; 21]; [10; 11; 23; 22]; [1; 13; 17; 5]; [2; 14; 18; 6]; [5; 17; 21; 9]; [6; 18; 22; 10]; [0; 4; 16; 12]; [4; 8; 20; 16]; [3; 15; 19; 7]; [7; 19; 23; 11]];
chk (mkGluing (1,2,3) 0 1 true (3,2,1) 6 1 false true true true) [(0, None); (1, None); (2, None); (3, None); (4, None); (5, None); (0, None); (1, None); (2, None); (3, None); (4, None); (5, None); (0, Some 3); (1, Some 4); (2, Some 5); (0, None); (1, None); (2, None); (3, Some 10); (4, Some 8); (5, Some 6); (0, Some 1); (1, Some 2); (3, Some 4); (4, Some 5); (0, None); (3, None); (2, None); (5, None); (6, Some 8); (7, Some 9); (8, Some 10); (9, Some 11); (6, None); (7, None); (10, None); (11, None); (6, Some 7); (8, Some 9); (10, Some 11); (7, None); (9, None); (11, None); (6, None); (7, None); (8, None); (9, None); (10, None); (11, None); (6, None); (7, None); (8, None); (9, None); (10, None); (11, None)] [[0; 1; 5; 4]; [1; 2; 6; 5]; [2; 3; 7; 6]; [4; 5; 9; 8]; [5; 6; 10; 9]; [6; 7; 11; 10]; [12; 16; 17; 13]; [13; 17; 18; 14]; [14; 18; 19; 15]; [16; 20; 21; 17]; [17; 21; 22; 18]; [18; 22; 23; 19]; [4; 5; 17; 16]; [5; 6; 18; 17]; [6; 7; 19; 18]; [0; 12; 13; 1]; [1; 13; 14; 2]; [2; 14; 15; 3]; [8; 9; 21; 20]; [9; 10; 22; 21]; [10; 11; 23; 22]; [1; 13; 17; 5]; [2; 14; 18; 6]; [5; 17; 21; 9]; [6; 18; 22; 10]; [0; 4; 16; 12]; [4; 8; 20; 16]; [3; 15; 19; 7]; [7; 19; 23; 11]];
chk (mkGluing (1,2,3) 0 2 false (1,2,2) 6 2 true false false false) [(0, None); (1, None); (2, None); (3, None); (4, None); (5, None); (0, None); (1, None); (2, None); (3, None); (4, None); (5, None); (0, Some 3); (1, Some 4); (2, Some 5); (0, None); (1, None); (2, None); (3, None); (4, None); (5, None); (0, Some 1); (1, Some 2); (3, Some 4); (4, Some 5); (0, Some 7); (3, Some 9); (2, None); (5, None); (6, None); (7, None); (8, None); (9, None); (6, None); (7, None); (8, None); (9, None); (6, Some 8); (7, Some 9); (6, None); (7, None); (8, None); (9, None); (6, Some 7); (8, Some 9); (6, None); (8, None)] [[0; 1; 5; 4]; [1; 2; 6; 5]; [2; 3; 7; 6]; [4; 5; 9; 8]; [5; 6; 10; 9]; [6; 7; 11; 10]; [12; 16; 17; 13]; [13; 17; 18; 14]; [14; 18; 19; 15]; [16; 20; 21; 17]; [17; 21; 22; 18]; [18; 22; 23; 19]; [4; 5; 17; 16]; [5; 6; 18; 17]; [6; 7; 19; 18]; [0; 12; 13; 1]; [1; 13; 14; 2]; [2; 14; 15; 3]; [8; 9; 21; 20]; [9; 10; 22; 21]; [10; 11; 23; 22]; [1; 13; 17; 5]; [2; 14; 18; 6]; [5; 17; 21; 9]; [6; 18; 22; 10]; [0; 4; 16; 12]; [4; 8; 20; 16]; [3; 15; 19; 7]; [7; 19; 23; 11]];
chk (mkGluing (1,2,3) 0 2 false (1,2,2) 6 2 true false false true) [(0, None); (1, None); (2, None); (3, None); (4, None); (5, None); (0, None); (1, None); (2, None); (3, None); (4, None); (5, None); (0, Some 3); (1, Some 4); (2, Some 5); (0, None); (1, None); (2, None); (3, None); (4, None); (5, None); (0, Some 1); (1, Some 2); (3, Some 4); (4, Some 5); (0, Some 9); (3, Some 7); (2, None); (5, None); (6, None); (7, None); (8, None); (9, None); (6, None); (7, None); (8, None); (9, None); (6, Some 8); (7, Some 9); (6, None); (7, None); (8, None); (9, None); (6, Some 7); (8, Some 9); (6, None); (8, None)] [[0; 1; 5; 4]; [1; 2; 6; 5]; [2; 3; 7; 6]; [4; 5; 9; 8]; [5; 6; 10; 9]; [6; 7; 11; 10]; [12; 16; 17; 13]; [13; 17; 18; 14]; [14; 18; 19; 15]; [16; 20; 21; 17]; [17; 21; 22; 18]; [18; 22; 23; 19]; [4; 5; 17; 16]; [5; 6; 18; 17]; [6; 7; 19; 18]; [0; 12; 13; 1]; [1; 13; 14; 2]; [2; 14; 15; 3]; [8; 9; 21; 20]; [9; 10; 22; 21]; [10; 11; 23; 22]; [1; 13; 17; 5]; [2; 14; 18; 6]; [5; 17; 21; 9]; [6; 18; 22; 10]; [0; 4; 16; 12]; [4; 8; 20; 16]; [3; 15; 19; 7]; [7; 19; 23; 11]];
chk (mkGluing (1,2,3) 0 2 false (1,2,2) 6 2 true false true false) [(0, None); (1, None); (2, None); (3, None); (4, None); (5, None); (0, None); (1, None); (2, None); (3, None); (4, None); (5, None); (0, Some 3); (1, Some 4); (2, Some 5); (0, None); (1, None); (2, None); (3, None); (4, None); (5, None); (0, Some 1); (1, Some 2); (3, Some 4); (4, Some 5); (0, Some 7); (3, Some 9); (2, None); (5, None); (6, None); (7, None); (8, None); (9, None); (6, None); (7, None); (8, None); (9, None); (6, Some 8); (7, Some 9); (6, None); (7, None); (8, None); (9, None); (6, Some 7); (8, Some 9); (6, None); (8, None)] [[0; 1; 5; 4]; [1; 2; 6; 5]; [2; 3; 7; 6]; [4; 5; 9; 8]; [5; 6; 10; 9]; [6; 7; 11; 10]; [12; 16; 17; 13]; [13; 17; 18; 14]; [14; 18; 19; 15]; [16; 20; 21; 17]; [17; 21; 22; 18]; [18; 22; 23; 19]; [4; 5; 17; 16]; [5; 6; 18; 17]; [6; 7; 19; 18]; [0; 12; 13; 1]; [1; 13; 14; 2]; [2; 14; 15; 3]; [8; 9; 21; 20]; [9; 10; 22; 21]; [10; 11; 23; 22]; [1; 13; 17; 5]; [2; 14; 18; 6]; [5; 17; 21; 9]; [6; 18; 22; 10]; [0; 4; 16; 12]; [4; 8; 20; 16]; [3; 15; 19; 7]; [7; 19; 23; 11]];
chk (mkGluing (1,2,3) 0 2 false (1,2,2) 6 2 true false true true) [(0, None); (1, None); (2, None); (3, None); (4, None); (5, None); (0, None); (1, None); (2, None); (3, None); (4, None); (5, None); (0, Some 3); (1, Some 4); (2, Some 5); (0, None); (1, None); (2, None); (3, None); (4, None); (5, None); (0, Some 1); (1, Some 2); (3, Some 4); (4, Some 5); (0, Some 9); (3, Some 7); (2, None); (5, None); (6, None); (7, None); (8, None); (9, None); (6, None); (7, None); (8, None); (9, None); (6, Some 8); (7, Some 9); (6, None); (7, None); (8, None); (9, None); (6, Some 7); (8, Some 9); (6, None); (8, None)] [[0; 1; 5; 4]; [1; 2; 6; 5]; [2; 3; 7; 6]; [4; 5; 9; 8]; [5; 6; 10; 9]; [6; 7; 11; 10]; [12; 16; 17; 13]; [13; 17; 18; 14]; [14; 18; 19; 15]; [16; 20; 21; 17]; [17; 21; 22; 18]; [18; 22; 23; 19]; [4; 5; 17; 16]; [5; 6; 18; 17]; [6; 7; 19; 18]; [0; 12; 13; 1]; [1; 13; 14; 2]; [2; 14; 15; 3]; [8; 9; 21; 20]; [9; 10; 22; 21]; [10; 11; 23; 22]; [1; 13; 17; 5]; [2; 14; 18; 6]; [5; 17; 21; 9]; [6; 18; 22; 10]; [0; 4; 16; 12]; [4; 8; 20; 16]; [3; 15; 19; 7]; [7; 19; 23; 11]];
chk (mkGluing (1,2,3) 0 2 false (2,1,2) 6 2 true true false false) [(0, None); (1, None); (2, None); (3, None); (4, None); (5, None); (0, None); (1, None); (2, None); (3, None); (4, None); (5, None); (0, Some 3); (1, Some 4); (2, Some 5); (0, None); (1, None); (2, None); (3, None); (4, None); (5, None); (0, Some 1); (1, Some 2); (3, Some 4); (4, Some 5); (0, Some 7); (3, Some 9); (2, None); (5, None); (6, Some 8); (7, Some 9); (6, None); (7, None); (8, None); (9, None); (6, None); (7, None); (8, None); (9, None); (6, None); (7, None); (8, None); (9, None); (6, Some 7); (8, Some 9); (6, None); (8, None)] [[0; 1; 5; 4]; [1; 2; 6; 5]; [2; 3; 7; 6]; [4; 5; 9; 8]; [5; 6; 10; 9]; [6; 7; 11; 10]; [12; 16; 17; 13]; [13; 17; 18; 14]; [14; 18; 19; 15]; [16; 20; 21; 17]; [17; 21; 22; 18]; [18; 22; 23; 19]; [4; 5; 17; 16]; [5; 6; 18; 17]; [6; 7; 19; 18]; [0; 12; 13; 1]; [1; 13; 14; 2]; [2; 14; 15; 3]; [8; 9; 21; 20]; [9; 10; 22; 21]; [10; 11; 23; 22]; [1; 13; 17; 5]; [2; 14; 18; 6]; [5; 17; 21; 9]; [6; 18; 22; 10]; [0; 4; 16; 12]; [4; 8; 20; 16]; [3; 15; 19; 7]; [7; 19; 23; 11]];
chk (mkGluing (1,2,3) 0 2 false (2,1,2) 6 2 true true true false) [(0, None); (1, None); (2, None); (3, None); (4, None); (5, None); (0, None); (1, None); (2, None); (3, None); (4, None); (5, None); (0, Some 3); (1, Some 4); (2, Some 5); (0, None); (1, None); (2, None); (3, None); (4, None); (5, None); (0, Some 1); (1, Some 2); (3, Some 4); (4, Some 5); (0, Some 7); (3, Some 9); (2, None); (5, None); (6, Some 8); (7, Some 9); (6, None); (7, None); (8, None); (9, None); (6, None); (7, None); (8, None); (9, None); (6, None); (7, None); (8, None); (9, None); (6, Some 7); (8, Some 9); (6, None); (8, None)] [[0; 1; 5; 4]; [1; 2; 6; 5]; [2; 3; 7; 6]; [4; 5; 9; 8]; [5; 6; 10; 9]; [6; 7; 11; 10]; [12; 16; 17; 13]; [13; 17; 18; 14]; [14; 18; 19; 15]; [16; 20; 21; 17]; [17; 21; 22; 18]; [18; 22; 23; 19]; [4; 5; 17; 16]; [5; 6; 18; 17]; [6; 7; 19; 18]; [0; 12; 13; 1]; [1; 13; 14; 2]; [2; 14; 15; 3]; [8; 9; 21; 20]; [9; 10; 22; 21]; [10; 11; 23; 22]; [1; 13; 17; 5]; [2; 14; 18; 6]; [5; 17; 21; 9]; [6; 18; 22; 10]; [0; 4; 16; 12]; [4; 8; 20; 16]; [3; 15; 19; 7]; [7; 19; 23; 11]];
chk (mkGluing (1,2,3) 0 2 false (2,1,2) 6 2 true true false true) [(0, None); (1, None); (2, None); (3, None); (4, None); (5, None); (0, None); (1, None); (2, None); (3, None); (4, None); (5, None); (0, Some 3); (1, Some 4); (2, Some 5); (0, None); (1, None); (2, None); (3, None); (4, None); (5, None); (0, Some 1); (1, Some 2); (3, Some 4); (4, Some 5); (0, Some 9); (3, Some 7); (2, None); (5, None); (6, Some 8); (7, Some 9); (6, None); (7, None); (8, None); (9, None); (6, None); (7, None); (8, None); (9, None); (6, None); (7, None); (8, None); (9, None); (6, Some 7); (8, Some 9); (6, None); (8, None)] [[0; 1; 5; 4]; [1; 2; 6; 5]; [2; 3; 7; 6]; [4; 5; 9; 8]; [5; 6; 10; 9]; [6; 7; 11; 10]; [12; 16; 17; 13]; [13; 17; 18; 14]; [14; 18; 19; 15]; [16; 20; 21; 17]; [17; 21; 22; 18]; [18; 22; 23; 19]; [4; 5; 17; 16]; [5; 6; 18; 17]; [6; 7; 19; 18]; [0; 12; 13; 1]; [1; 13; 14; 2]; [2; 14; 15; 3]; [8; 9; 21; 20]; [9; 10; 22; 21]; [10; 11; 23; 22]; [1; 13; 17; 5]; [2; 14; 18; 6]; [5; 17; 21; 9]; [6; 18; 22; 10]; [0; 4; 16; 12]; [4; 8; 20; 16]; [3; 15; 19; 7]; [7; 19; 23; 11]];
chk (mkGluing (1,2,3) 0 2 false (2,1,2) 6 2 true true true true) [(0, None); (1, None); (2, None); (3, None); (4, None); (5, None); (0, None); (1, None); (2, None); (3, None); (4, None); (5, None); (0, Some 3); (1, Some 4); (2, Some 5); (0, None); (1, None); (2, None); (3, None); (4, None); (5, None); (0, Some 1); (1, Some 2); (3, Some 4); (4, Some 5); (0, Some 9); (3, Some 7); (2, None); (5, None); (6, Some 8); (7, Some 9); (6, None); (7, None); (8, None); (9, None); (6, None); (7, None); (8, None); (9, None); (6, None); (7, None); (8, None); (9, None); (6, Some 7); (8, Some 9); (6, None); (8, None)] [[0; 1; 5; 4]; [1; 2; 6; 5]; [2; 3; 7; 6]; [4; 5; 9; 8]; [5; 6; 10; 9]; [6; 7; 11; 10]; [12; 16; 17; 13]; [13; 17; 18; 14]; [14; 18; 19; 15]; [16; 20; 21; 17]; [17; 21; 22; 18]; [18; 22; 23; 19]; [4; 5; 17; 16]; [5; 6; 18; 17]; [6; 7; 19; 18]; [0; 12; 13; 1]; [1; 13; 14; 2]; [2; 14; 15; 3]; [8; 9; 21; 20]; [9; 10; 22; 21]; [10; 11; 23; 22]; [1; 13; 17; 5]; [2; 14; 18; 6]; [5; 17; 21; 9]; [6; 18; 22; 10]; [0; 4; 16; 12]; [4; 8; 20; 16]; [3; 15; 19; 7]; [7; 19; 23; 11]];
chk (mkGluing (1,2,3) 0 2 true (1,2,2) 6 2 false false false false) [(0, None); (1, None); (2, None); (3, None); (4, None); (5, None); (0, None); (1, None); (2, None); (3, None); (4, None); (5, None); (0, Some 3); (1, Some 4); (2, Some 5); (0, None); (1, None); (2, None); (3, None); (4, None); (5, None); (0, Some 1); (1, Some 2); (3, Some 4); (4, Some 5); (0, None); (3, None); (2, Some 6); (5, Some 8); (6, None); (7, None); (8, None); (9, None); (6, None); (7, None); (8, None); (9, None); (6, Some 8); (7, Some 9); (6, None); (7, None); (8, None); (9, None); (6, Some 7); (8, Some 9); (7, None); (9, None)] [[0; 1; 5; 4]; [1; 2; 6; 5]; [2; 3; 7; 6]; [4; 5; 9; 8]; [5; 6; 10; 9]; [6; 7; 11; 10]; [12; 16; 17; 13]; [13; 17; 18; 14]; [14; 18; 19; 15]; [16; 20; 21; 17]; [17; 21; 22; 18]; [18; 22; 23; 19]; [4; 5; 17; 16]; [5; 6; 18; 17]; [6; 7; 19; 18]; [0; 12; 13; 1]; [1; 13; 14; 2]; [2; 14; 15; 3]; [8; 9; 21; 20]; [9; 10; 22; 21]; [10; 11; 23; 22]; [1; 13; 17; 5]; [2; 14; 18; 6]; [5; 17; 21; 9]; [6; 18; 22; 10]; [0; 4; 16; 12]; [4; 8; 20; 16]; [3; 15; 19; 7]; [7; 19; 23; 11]];
chk (mkGluing (1,2,3) 0 2 true (1,2,2) 6 2 false false false true) [(0, None); (1, None); (2, None); (3, None); (4, None); (5, None); (0, None); (1, None); (2, None); (3, None); (4, None); (5, None); (0, Some 3); (1, Some 4); (2, Some 5); (0, None); (1, None); (2, None); (3, None); (4, None); (5, None); (0, Some 1); (1, Some 2); (3, Some 4); (4, Some 5); (0, None); (3, None); (2, Some 8); (5, Some 6); (6, None); (7, None); (8, None); (9, None); (6, None); (7, None); (8, None); (9, None); (6, Some 8); (7, Some 9); (6, None); (7, None); (8, None); (9, None); (6, Some 7); (8, Some 9); (7, None); (9, None)] [[0; 1; 5; 4]; [1; 2; 6; 5]; [2; 3; 7; 6]; [4; 5; 9; 8]; [5; 6; 10; 9]; [6; 7; 11; 10]; [12; 16; 17; 13]; [13; 17; 18; 14]; [14; 18; 19; 15]; [16; 20; 21; 17]; [17; 21; 22; 18]; [18; 22; 23; 19]; [4; 5; 17; 16]; [5; 6; 18; 17]; [6; 7; 19; 18]; [0; 12; 13; 1]; [1; 13; 14; 2]; [2; 14; 15; 3]; [8; 9; 21; 20]; [9; 10; 22; 21]; [10; 11; 23; 22]; [1; 13; 17; 5]; [2; 14; 18; 6]; [5; 17; 21; 9]; [6; 18; 22; 10]; [0; 4; 16; 12]; [4; 8; 20; 16]; [3; 15; 19; 7]; [7; 19; 23; 11]];
chk (mkGluing (1,2,3) 0 2 true (1,2,2) 6 2 false false true false) [(0, None); (1, None); (2, None); (3, None); (4, None); (5, None); (0, None); (1, None); (2, None); (3, None); (4, None); (5, None); (0, Some 3); (1, Some 4); (2, Some 5); (0, None); (1, None); (2, None); (3, None); (4, None); (5, None); (0, Some 1); (1, Some 2); (3, Some 4); (4, Some 5); (0, None); (3, None); (2, Some 6); (5, Some 8); (6, None); (7, None); (8, None); (9, None); (6, None); (7, None); (8, None); (9, None); (6, Some 8); (7, Some 9); (6, None); (7, None); (8, None); (9, None); (6, Some 7); (8, Some 9); (7, None); (9, None)] [[0; 1; 5; 4]; [1; 2; 6; 5]; [2; 3; 7; 6]; [4; 5; 9; 8]; [5; 6; 10; 9]; [6; 7; 11; 10]; [12; 16; 17; 13]; [13; 17; 18; 14]; [14; 18; 19; 15]; [16; 20; 21; 17]; [17; 21; 22; 18]; [18; 22; 23; 19]; [4; 5; 17; 16]; [5; 6; 18; 17]; [6; 7; 19; 18]; [0; 12; 13; 1]; [1; 13; 14; 2]; [2; 14; 15; 3]; [8; 9; 21; 20]; [9; 10; 22; 21]; [10; 11; 23; 22]; [1; 13; 17; 5]; [2; 14; 18; 6]; [5; 17; 21; 9]; [6; 18; 22; 10]; [0; 4; 16; 12]; [4; 8; 20; 16]; [3; 15; 19; 7]; [7; 19; 23; 11]];
chk (mkGluing (1,2,3) 0 2 true (1,2,2) 6 2 false false true true) [(0, None); (1, None); (2, None); (3, None); (4, None); (5, None); (0, None); (1, None); (2, None); (3, None); (4, None); (5, None); (0, Some 3); (1, Some 4); (2, Some 5); (0, None); (1, None); (2, None); (3, None); (4, None); (5, None); (0, Some 1); (1, Some 2); (3, Some 4); (4, Some 5); (0, None); (3, None); (2, Some 8); (5, Some 6); (6, None); (7, None); (8, None); (9, None); (6, None); (7, None); (8, None); (9, None); (6, Some 8); (7, Some 9); (6, None); (7, None); (8, None); (9, None); (6, Some 7); (8, Some 9); (7, None); (9, None)] [[0; 1; 5; 4]; [1; 2; 6; 5]; [2; 3; 7; 6]; [4; 5; 9; 8]; [5; 6; 10; 9]; [6; 7; 11; 10]; [12; 16; 17; 13]; [13; 17; 18; 14]; [14; 18; 19; 15]; [16; 20; 21; 17]; [17; 21; 22; 18]; [18; 22; 23; 19]; [4; 5; 17; 16]; [5; 6; 18; 17]; [6; 7; 19; 18]; [0; 12; 13; 1]; [1; 13; 14; 2]; [2; 14; 15; 3]; [8; 9; 21; 20]; [9; 10; 22; 21]; [10; 11; 23; 22]; [1; 13; 17; 5]; [2; 14; 18; 6]; [5; 17; 21; 9]; [6; 18; 22; 10]; [0; 4; 16; 12]; [4; 8; 20; 16]; [3; 15; 19; 7]; [7; 19; 23; 11]];
chk (mkGluing (1,2,3) 0 2 true (2,1,2) 6 2 false true false false) [(0, None); (1, None); (2, None); (3, None); (4, None); (5, None); (0, None); (1, None); (2, None); (3, None); (4, None); (5, None); (0, Some 3); (1, Some 4); (2, Some 5); (0, None); (1, None); (2, None); (3, None); (4, None); (5, None); (0, Some 1); (1, Some 2); (3, Some 4); (4, Some 5); (0, None); (3, None); (2, Some 6); (5, Some 8); (6, Some 8); (7, Some 9); (6, None); (7, None); (8, None); (9, None); (6, None); (7, None); (8, None); (9, None); (6, None); (7, None); (8, None); (9, None); (6, Some 7); (8, Some 9); (7, None); (9, None)] [[0; 1; 5; 4]; [1; 2; 6; 5]; [2; 3; 7; 6]; [4; 5; 9; 8]; [5; 6; 10; 9]; [6; 7; 11; 10]; [12; 16; 17; 13]; [13; 17; 18; 14]; [14; 18; 19; 15]; [16; 20; 21; 17]; [17; 21; 22; 18]; [18; 22; 23; 19]; [4; 5; 17; 16]; [5; 6; 18; 17]; [6; 7; 19; 18]; [0; 12; 13; 1]; [1; 13; 14; 2]; [2; 14; 15; 3]; [8; 9; 21; 20]; [9; 10; 22; 21]; [10; 11; 23; 22]; [1; 13; 17; 5]; [2; 14; 18; 6]; [5; 17; 21; 9]; [6; 18; 22; 10]; [0; 4; 16; 12]; [4; 8; 20; 16]; [3; 15; 19; 7]; [7; 19; 23; 11]];
chk (mkGluing (1,2,3) 0 2 true (2,1,2) 6 2 false true true false) [(0, None); (1, None); (2, None); (3, None); (4, None); (5, None); (0, None); (1, None); (2, None); (3, None); (4, None); (5, None); (0, Some 3); (1, Some 4); (2, Some 5); (0, None); (1, None); (2, None); (3, None); (4, None); (5, None); (0, Some 1); (1, Some 2); (3, Some 4); (4, Some 5); (0, None); (3, None); (2, Some 6); (5, Some 8); (6, Some 8); (7, Some 9); (6, None); (7, None); (8, None); (9, None); (6, None); (7, None); (8, None); (9, None); (6, None); (7, None); (8, None); (9, None); (6, Some 7); (8, Some 9); (7, None); (9, None)] [[0; 1; 5; 4]; [1; 2; 6; 5]; [2; 3; 7; 6]; [4; 5; 9; 8]; [5; 6; 10; 9]; [6; 7; 11; 10]; [12; 16; 17; 13]; [13; 17; 18; 14]; [14; 18; 19; 15]; [16; 20; 21; 17]; [17; 21; 22; 18]; [18; 22; 23; 19]; [4; 5; 17; 16]; [5; 6; 18; 17]; [6; 7; 19; 18]; [0; 12; 13; 1]; [1; 13; 14; 2]; [2; 14; 15; 3]; [8; 9; 21; 20]; [9; 10; 22; 21]; [10; 11; 23; 22]; [1; 13; 17; 5]; [2; 14; 18; 6]; [5; 17; 21; 9]; [6; 18; 22; 10]; [0; 4; 16; 12]; [4; 8; 20; 16]; [3; 15; 19; 7]; [7; 19; 23; 11]];
chk (mkGluing (1,2,3) 0 2 true (2,1,2) 6 2 false true false true) [(0, None); (1, None); (2, None); (3, None); (4, None); (5, None); (0, None); (1, None); (2, None); (3, None); (4, None); (5, None); (0, Some 3); (1, Some 4); (2, Some 5); (0, None); (1, None); (2, None); (3, None); (4, None); (5, None); (0, Some 1); (1, Some 2); (3, Some 4); (4, Some 5); (0, None); (3, None); (2, Some 8); (5, Some 6); (6, Some 8); (7, Some 9); (6, None); (7, None); (8, None); (9, None); (6, None); (7, None); (8, None); (9, None); (6, None); (7, None); (8, None); (9, None); (6, Some 7); (8, Some 9); (7, None); (9, None)] [[0; 1; 5; 4]; [1; 2; 6; 5]; [2; 3; 7; 6]; [4; 5; 9; 8]; [5; 6; 10; 9]; [6; 7; 11; 10]; [12; 16; 17; 13]; [13; 17; 18; 14]; [14; 18; 19; 15]; [16; 20; 21; 17]; [17; 21; 22; 18]; [18; 22; 23; 19]; [4; 5; 17; 16]; [5; 6; 18; 17]; [6; 7; 19; 18]; [0; 12; 13; 1]; [1; 13; 14; 2]; [2; 14; 15; 3]; [8; 9; 21; 20]; [9; 10; 22; 21]; [10; 11; 23; 22]; [1; 13; 17; 5]; [2; 14; 18; 6]; [5; 17; 21; 9]; [6; 18; 22; 10]; [0; 4; 16; 12]; [4; 8; 20; 16]; [3; 15; 19; 7]; [7; 19; 23; 11]];
chk (mkGluing (1,2,3) 0 2 true (2,1,2) 6 2 false true true true) [(0, None); (1, None); (2, None); (3, None); (4, None); (5, None); (0, None); (1, None); (2, None); (3, None); (4, None); (5, None); (0, Some 3); (1, Some 4); (2, Some 5); (0, None); (1, None); (2, None); (3, None); (4, None); (5, None); (0, Some 1); (1, Some 2); (3, Some 4); (4, Some 5); (0, None); (3, None); (2, Some 8); (5, Some 6); (6, Some 8); (7, Some 9); (6, None); (7, None); (8, None); (9, None); (6, None); (7, None); (8, None); (9, None); (6, None); (7, None); (8, None); (9, None); (6, Some 7); (8, Some 9); (7, None); (9, None)] [[0; 1; 5; 4]; [1; 2; 6; 5]; [2; 3; 7; 6]; [4; 5; 9; 8]; [5; 6; 10; 9]; [6; 7; 11; 10]; [12; 16; 17; 13]; [13; 17; 18; 14]; [14; 18; 19; 15]; [16; 20; 21; 17]; [17; 21; 22; 18]; [18; 22; 23; 19]; [4; 5; 17; 16]; [5; 6; 18; 17]; [6; 7; 19; 18]; [0; 12; 13; 1]; [1; 13; 14; 2]; [2; 14; 15; 3]; [8; 9; 21; 20]; [9; 10; 22; 21]; [10; 11; 23; 22]; [1; 13; 17; 5]; [2; 14; 18; 6]; [5; 17; 21; 9]; [6; 18; 22; 10]; [0; 4; 16; 12]; [4; 8; 20; 16]; [3; 15; 19; 7]; [7; 19; 23; 11]]
] = true.
Proof. vm_compute. reflexivity. Qed.

