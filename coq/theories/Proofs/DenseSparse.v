(* C01, "the dense and sparse result forms agree".

   BSplineBasis.evaluate (basis.py:109-136) builds N = csr_matrix((data, indices, indptr), (m, n)) from the output of
   basis_eval.evaluate and returns N itself (sparse=True) or N.toarray() (sparse=False).  The model has
   [basis_evaluate_sparse] (per point: the p column indices (mu+j-p) mod n and the data row M) and
   [basis_evaluate] (dense rows through [dense_row], which sums duplicates like toarray()).

   Here: the dense row is the scatter-add of the sparse entry, for every Num instance (no ring law is needed,
   both sides perform the same additions in the same order); on R, when the p column indices are pairwise
   distinct (n >= p; automatic for a non-periodic basis) the dense row holds datum_j at column index_j and 0
   elsewhere. *)
From Coq Require Import List Arith Reals Lra Lia Bool ZArith.
From SplipyModel Require Import Spec.BSpline Model.Num Model.BasisDef Model.BasisEval
  Proofs.Bridge Proofs.EvalCorrect Proofs.SpanCorrect Proofs.EvaluateSpec.
Import ListNotations.

(* ------------------------------------------------------------------ *)
(* Polymorphic part                                                    *)
(* ------------------------------------------------------------------ *)
Section Poly.
Context {F : Type} `{Num F}.

(* value of column c of the matrix described by one sparse row (indices, data): toarray() adds duplicates,
   in storage order, starting from zero *)
Definition scatter (c : nat) (e : list nat * list F) : F :=
  fold_left (fun acc ix => if (fst ix =? c)%nat then nadd acc (snd ix) else acc) (combine (fst e) (snd e)) n0.

(* the whole dense row of width n described by one sparse row; a skipped point stores nothing *)
Definition scatter_row (n : nat) (e : option (list nat * list F)) : list F :=
  match e with
  | None => repeat n0 n
  | Some e => map (fun c => scatter c e) (seq 0 n)
  end.

Lemma nth_map_lt {A B} (f : A -> B) l i d d' : (i < length l)%nat -> nth i (map f l) d = f (nth i l d').
Proof.
  revert i; induction l as [|a l IH]; intros i Hi; cbn [length] in Hi; [lia|].
  destruct i; cbn [map nth]; [reflexivity|]. apply IH. lia.
Qed.

(* ---- the data row has exactly p entries ---- *)
Lemma raise_step_length K p mu t q M : length (raise_step K p mu t q M) = p.
Proof. unfold raise_step. rewrite map_length, seq_length. reflexivity. Qed.
Lemma deriv_step_length K p mu q M : length (deriv_step K p mu q M) = p.
Proof. unfold deriv_step. rewrite map_length, seq_length. reflexivity. Qed.
Lemma raise_loop_length K p mu t n : forall q M, length M = p -> length (raise_loop K p mu t n q M) = p.
Proof.
  induction n as [|n IH]; intros q M HM; cbn [raise_loop]; [exact HM|].
  apply IH. apply raise_step_length.
Qed.
Lemma deriv_loop_length K p mu n : forall q M, length M = p -> length (deriv_loop K p mu n q M) = p.
Proof.
  induction n as [|n IH]; intros q M HM; cbn [deriv_loop]; [exact HM|].
  apply IH. apply deriv_step_length.
Qed.
Lemma eval_row_length k p mu d t : (1 <= p)%nat -> length (eval_row k p mu d t) = p.
Proof.
  intros Hp. unfold eval_row. cbv zeta.
  apply deriv_loop_length. apply raise_loop_length.
  rewrite app_length, repeat_length. cbn [length]. lia.
Qed.

Lemma eval_point_length k p per1 tol d fr t mu M : (1 <= p)%nat ->
  eval_point k p per1 tol d fr t = Some (mu, M) -> length M = p.
Proof.
  intros Hp. unfold eval_point.
  destruct (normalise k p per1 tol fr t) as [[t' rgt]|]; [|discriminate].
  intros [= _ <-]. apply eval_row_length. exact Hp.
Qed.

(* ---- the two folds perform the same additions ---- *)
Lemma fold_combine_seq (c : nat) (f : nat -> nat) : forall (M : list F) (g : nat -> F) a z,
  (forall j, (j < length M)%nat -> nth j M n0 = g (a + j)%nat) ->
  fold_left (fun acc ix => if (fst ix =? c)%nat then nadd acc (snd ix) else acc)
            (combine (map f (seq a (length M))) M) z
  = fold_left (fun acc j => if (f j =? c)%nat then nadd acc (g j) else acc) (seq a (length M)) z.
Proof.
  induction M as [|x M IH]; intros g a z Hg; cbn [length seq map combine fold_left]; [reflexivity|].
  cbn [fst snd].
  assert (Hx : x = g a).
  { specialize (Hg 0%nat ltac:(cbn [length]; lia)). cbn [nth] in Hg. rewrite Nat.add_0_r in Hg. exact Hg. }
  rewrite <- Hx. apply IH. intros j Hj.
  specialize (Hg (S j) ltac:(cbn [length]; lia)). cbn [nth] in Hg. rewrite Hg. f_equal. lia.
Qed.

(* the sparse entry stored for one point *)
Definition sparse_entry (n p : nat) (pt : option (nat * list F)) : option (list nat * list F) :=
  match pt with
  | None => None
  | Some (mu, M) => Some (map (fun j => ((mu + j - p) mod n)%nat) (seq 0 p), M)
  end.

Lemma dense_row_scatter n p (pt : option (nat * list F)) :
  (forall mu M, pt = Some (mu, M) -> length M = p) ->
  dense_row n p pt = scatter_row n (sparse_entry n p pt).
Proof.
  intros HL. destruct pt as [[mu M]|]; cbn [dense_row sparse_entry scatter_row]; [|reflexivity].
  specialize (HL mu M eq_refl). apply map_ext. intros c. unfold scatter. cbn [fst snd].
  subst p. rewrite (fold_combine_seq c (fun j => ((mu + j - length M) mod n)%nat) M (fun j => Mget M j) 0 n0).
  - reflexivity.
  - intros j _. reflexivity.
Qed.

Section Basis.
Variables (k : list F) (p per1 : nat) (tol : F).
Let n := (length k - p - per1)%nat.

(* both forms have one row per evaluation point (any d) *)
Theorem dense_sparse_rows d fr ts :
  length (basis_evaluate k p per1 tol d fr ts) = length ts /\
  length (basis_evaluate_sparse k p per1 tol d fr ts) = length ts.
Proof.
  unfold basis_evaluate, basis_evaluate_sparse. cbv zeta. split.
  - destruct (p <=? d)%nat; rewrite !map_length; reflexivity.
  - rewrite map_length. reflexivity.
Qed.

Lemma sparse_nth d fr ts i : (i < length ts)%nat ->
  nth i (basis_evaluate_sparse k p per1 tol d fr ts) None
  = sparse_entry n p (eval_point k p per1 tol d fr (snap1 k tol (nth i ts n0))).
Proof.
  intros Hi. unfold basis_evaluate_sparse. cbv zeta. fold n.
  rewrite (nth_map_lt _ ts i None n0) by exact Hi. reflexivity.
Qed.

Lemma dense_nth d fr ts i : (d < p)%nat -> (i < length ts)%nat ->
  nth i (basis_evaluate k p per1 tol d fr ts) []
  = dense_row n p (eval_point k p per1 tol d fr (snap1 k tol (nth i ts n0))).
Proof.
  intros Hd Hi. unfold basis_evaluate. cbv zeta. fold n.
  destruct (Nat.leb_spec p d) as [L|L]; [lia|].
  rewrite map_map. rewrite (nth_map_lt _ ts i [] n0) by exact Hi. reflexivity.
Qed.

(* C01 (result forms), row form: the dense row is the scatter-add of the sparse row;
   a skipped point (nothing stored) is the zero row *)
Theorem dense_sparse_agree d fr ts i : (d < p)%nat -> (i < length ts)%nat ->
  nth i (basis_evaluate k p per1 tol d fr ts) []
  = scatter_row n (nth i (basis_evaluate_sparse k p per1 tol d fr ts) None).
Proof.
  intros Hd Hi. rewrite dense_nth, sparse_nth by assumption.
  assert (Hp : (1 <= p)%nat) by lia.
  apply dense_row_scatter. intros mu M E. apply (eval_point_length _ _ _ _ _ _ _ _ _ Hp E).
Qed.

(* entry form *)
Theorem dense_sparse_entry d fr ts i c : (d < p)%nat -> (i < length ts)%nat -> (c < n)%nat ->
  nth c (nth i (basis_evaluate k p per1 tol d fr ts) []) n0
  = match nth i (basis_evaluate_sparse k p per1 tol d fr ts) None with
    | None => n0
    | Some e => scatter c e
    end.
Proof.
  intros Hd Hi Hc. rewrite dense_sparse_agree by assumption.
  destruct (nth i (basis_evaluate_sparse k p per1 tol d fr ts) None) as [e|]; cbn [scatter_row].
  - rewrite (nth_map_lt _ (seq 0 n) c n0 0%nat) by (rewrite seq_length; exact Hc).
    rewrite seq_nth by exact Hc. reflexivity.
  - apply nth_repeat.
Qed.

(* the whole matrices *)
Corollary dense_sparse_matrix d fr ts : (d < p)%nat ->
  basis_evaluate k p per1 tol d fr ts = map (scatter_row n) (basis_evaluate_sparse k p per1 tol d fr ts).
Proof.
  intros Hd. apply (nth_ext _ _ [] (scatter_row n None)).
  - rewrite map_length. destruct (dense_sparse_rows d fr ts) as [A B]. rewrite A, B. reflexivity.
  - intros i Hi. destruct (dense_sparse_rows d fr ts) as [A B]. rewrite A in Hi.
    rewrite (nth_map_lt _ _ i _ None) by (rewrite B; exact Hi).
    apply dense_sparse_agree; assumption.
Qed.

(* shape of a stored sparse row: p indices, p data, every index a valid column *)
Theorem sparse_row_shape d fr ts i idx dat : (1 <= p)%nat -> (i < length ts)%nat ->
  nth i (basis_evaluate_sparse k p per1 tol d fr ts) None = Some (idx, dat) ->
  length idx = p /\ length dat = p /\ ((0 < n)%nat -> Forall (fun ix => (ix < n)%nat) idx).
Proof.
  intros Hp Hi. rewrite sparse_nth by exact Hi.
  destruct (eval_point k p per1 tol d fr (snap1 k tol (nth i ts n0))) as [[mu M]|] eqn:E; cbn [sparse_entry]; [|discriminate].
  intros [= <- <-]. split; [rewrite map_length, seq_length; reflexivity|].
  split; [apply (eval_point_length _ _ _ _ _ _ _ _ _ Hp E)|].
  intros Hn. apply Forall_forall. intros ix Hin. apply in_map_iff in Hin. destruct Hin as (j & <- & _).
  apply Nat.mod_upper_bound. lia.
Qed.

(* d >= order: the dense form is the zero matrix.  (basis.py:128-129 returns this dense zero array also for
   sparse=True; [basis_evaluate_sparse] does not model that branch, hence d < p above.) *)
Theorem dense_high_derivative d fr ts i : (p <= d)%nat -> (i < length ts)%nat ->
  nth i (basis_evaluate k p per1 tol d fr ts) [] = repeat n0 n.
Proof.
  intros Hd Hi. unfold basis_evaluate. cbv zeta. fold n.
  destruct (Nat.leb_spec p d) as [L|L]; [|lia].
  rewrite map_map. rewrite (nth_map_lt _ ts i [] n0) by exact Hi. reflexivity.
Qed.
End Basis.
End Poly.

(* ------------------------------------------------------------------ *)
(* Distinct indices (on R)                                             *)
(* ------------------------------------------------------------------ *)
Open Scope R_scope.

Lemma mod_inj_window n a b : (0 < n)%nat -> (a <= b)%nat -> (b - a < n)%nat -> a mod n = b mod n -> a = b.
Proof.
  intros Hn Hab Hd E.
  pose proof (Nat.div_mod a n ltac:(lia)) as Da. pose proof (Nat.div_mod b n ltac:(lia)) as Db.
  rewrite E in Da.
  assert (a / n <= b / n)%nat by (apply Nat.div_le_mono; lia).
  assert (b / n = a / n)%nat by nia.
  nia.
Qed.

Lemma NoDup_map_inj_in {A B} (f : A -> B) l :
  (forall x y, In x l -> In y l -> f x = f y -> x = y) -> NoDup l -> NoDup (map f l).
Proof.
  intros Hinj Hnd. induction Hnd as [|a l Hna Hnd IH]; cbn [map]; constructor.
  - intros Hin. apply in_map_iff in Hin. destruct Hin as (y & Ey & Hy).
    assert (y = a) by (apply Hinj; [right; exact Hy|left; reflexivity|exact Ey]). subst y. contradiction.
  - apply IH. intros x y Hx Hy. apply Hinj; right; assumption.
Qed.

(* p consecutive column numbers stay distinct modulo n >= p *)
Lemma indices_nodup n p mu : (p <= mu)%nat -> (1 <= p <= n)%nat ->
  NoDup (map (fun j => ((mu + j - p) mod n)%nat) (seq 0 p)).
Proof.
  intros Hmu Hn. apply NoDup_map_inj_in; [|apply seq_NoDup].
  intros x y Hx Hy E. apply in_seq in Hx. apply in_seq in Hy.
  destruct (Nat.le_gt_cases x y) as [L|L].
  - assert (mu + x - p = mu + y - p)%nat by (apply (mod_inj_window n); [lia|lia|lia|exact E]). lia.
  - assert (mu + y - p = mu + x - p)%nat by (apply (mod_inj_window n); [lia|lia|lia|symmetry; exact E]). lia.
Qed.

Definition scatR := @scatter R NumR.

Lemma fold_scatter_miss c : forall (idx : list nat) (dat : list R) z, ~ In c idx ->
  fold_left (fun acc ix => if (fst ix =? c)%nat then acc + snd ix else acc) (combine idx dat) z = z.
Proof.
  induction idx as [|a idx IH]; intros dat z Hn; cbn [combine fold_left]; [reflexivity|].
  destruct dat as [|x dat]; cbn [combine fold_left]; [reflexivity|]. cbn [fst snd].
  destruct (Nat.eqb_spec a c) as [E|E]; [exfalso; apply Hn; left; exact E|].
  apply IH. intros Hin. apply Hn. right. exact Hin.
Qed.

Lemma fold_scatter_hit : forall (idx : list nat) (dat : list R) j z,
  NoDup idx -> length idx = length dat -> (j < length idx)%nat ->
  fold_left (fun acc ix => if (fst ix =? nth j idx 0%nat)%nat then acc + snd ix else acc) (combine idx dat) z
  = z + nth j dat 0.
Proof.
  induction idx as [|a idx IH]; intros dat j z Hnd HL Hj; cbn [length] in Hj; [lia|].
  destruct dat as [|x dat]; [discriminate|]. cbn [length] in HL. inversion Hnd as [|? ? Hna Hnd']; subst.
  cbn [combine fold_left fst snd]. destruct j as [|j]; cbn [nth].
  - rewrite Nat.eqb_refl. apply fold_scatter_miss. exact Hna.
  - destruct (Nat.eqb_spec a (nth j idx 0%nat)) as [E|E].
    + exfalso. apply Hna. rewrite E. apply nth_In. lia.
    + apply IH; [exact Hnd'|lia|lia].
Qed.

Lemma scatter_hit idx dat j : NoDup idx -> length idx = length dat -> (j < length idx)%nat ->
  scatR (nth j idx 0%nat) (idx, dat) = nth j dat 0.
Proof.
  intros A B C. unfold scatR, scatter. cbn [fst snd nadd n0 NumR].
  rewrite (fold_scatter_hit idx dat j 0 A B C). ring.
Qed.
Lemma scatter_miss idx dat c : ~ In c idx -> scatR c (idx, dat) = 0.
Proof.
  intros A. unfold scatR, scatter. cbn [fst snd nadd n0 NumR]. apply fold_scatter_miss. exact A.
Qed.

(* what basis_eval.evaluate really stores for a skipped point (the `continue`): the zero-initialised slots, i.e. p
   explicit zeros in column 0; the model writes None for it, and both describe the zero row *)
Lemma scatter_skipped_storage p c : scatR c (repeat 0%nat p, repeat 0 p) = 0.
Proof.
  unfold scatR, scatter. cbn [fst snd nadd n0 NumR].
  assert (G : forall z, fold_left (fun acc ix => if (fst ix =? c)%nat then acc + snd ix else acc)
                          (combine (repeat 0%nat p) (repeat 0 p)) z = z).
  { induction p as [|p IH]; intros z; cbn [repeat combine fold_left fst snd]; [reflexivity|].
    rewrite IH. destruct (0 =? c)%nat; ring. }
  apply G.
Qed.

Section Distinct.
Variable k : list R.
Variables (p per1 : nat) (tol : R).
Hypothesis HK : sorted (kn k).
Hypothesis Hp : (1 <= p)%nat.
Hypothesis Hlen : (2 * p <= length k)%nat.
Hypothesis Htol : 0 < tol.
Let n_all := (length k - p)%nat.
Let n := (length k - p - per1)%nat.

(* every stored sparse row is the image of p consecutive columns mu-p .. mu-1 with p <= mu <= n_all *)
Lemma sparse_row_mu d fr ts i idx dat : (d < p)%nat -> (i < length ts)%nat ->
  nth i (@basis_evaluate_sparse R NumR k p per1 tol d fr ts) None = Some (idx, dat) ->
  exists mu, (p <= mu <= n_all)%nat /\ idx = map (fun j => ((mu + j - p) mod n)%nat) (seq 0 p) /\ length dat = p.
Proof.
  intros Hd Hi. rewrite sparse_nth by exact Hi. fold n.
  set (t0 := @snap1 R NumR k tol (nth i ts (@n0 R NumR))).
  pose proof (evaluate_spec k p per1 tol HK Hp Hlen Htol d fr t0 Hd) as S.
  destruct (@normalise R NumR k p per1 tol fr t0) as [[t side]|].
  - destruct S as (mu & M & E & Hmu & _ & HM & _). rewrite E. cbn [sparse_entry].
    intros [= <- <-]. exists mu. split; [exact Hmu|]. split; [reflexivity|exact HM].
  - rewrite S. cbn [sparse_entry]. discriminate.
Qed.

(* C01 (result forms), distinct indices: with n >= p the p stored columns are pairwise distinct, the dense row
   holds datum_j at column index_j and zero in every other column *)
Theorem dense_sparse_distinct d fr ts i idx dat : (d < p)%nat -> (i < length ts)%nat -> (p <= n)%nat ->
  nth i (@basis_evaluate_sparse R NumR k p per1 tol d fr ts) None = Some (idx, dat) ->
  let row := nth i (@basis_evaluate R NumR k p per1 tol d fr ts) [] in
  NoDup idx /\
  (forall j, (j < p)%nat -> (nth j idx 0%nat < n)%nat /\ nth (nth j idx 0%nat) row 0 = nth j dat 0) /\
  (forall c, (c < n)%nat -> ~ In c idx -> nth c row 0 = 0).
Proof.
  intros Hd Hi Hn E. cbv zeta.
  destruct (sparse_row_mu d fr ts i idx dat Hd Hi E) as (mu & Hmu & Eidx & Hdat).
  assert (Hnd : NoDup idx) by (rewrite Eidx; apply indices_nodup; lia).
  assert (Hli : length idx = p) by (rewrite Eidx, map_length, seq_length; reflexivity).
  split; [exact Hnd|]. split.
  - intros j Hj.
    assert (Hb : (nth j idx 0%nat < n)%nat).
    { rewrite Eidx. rewrite (nth_map_lt _ (seq 0 p) j 0%nat 0%nat) by (rewrite seq_length; exact Hj).
      apply Nat.mod_upper_bound. lia. }
    split; [exact Hb|].
    pose proof (@dense_sparse_entry R NumR k p per1 tol d fr ts i (nth j idx 0%nat) Hd Hi Hb) as D.
    cbn [n0 NumR] in D. rewrite D. fold n in E. rewrite E.
    apply (scatter_hit idx dat j Hnd); lia.
  - intros c Hc Hnin.
    pose proof (@dense_sparse_entry R NumR k p per1 tol d fr ts i c Hd Hi Hc) as D.
    cbn [n0 NumR] in D. rewrite D. rewrite E. apply (scatter_miss idx dat c Hnin).
Qed.

(* a non-periodic basis always has n >= p, and its columns are not wrapped at all: index_j = mu - p + j *)
Theorem dense_sparse_nonperiodic d fr ts i idx dat : per1 = 0%nat -> (d < p)%nat -> (i < length ts)%nat ->
  nth i (@basis_evaluate_sparse R NumR k p per1 tol d fr ts) None = Some (idx, dat) ->
  let row := nth i (@basis_evaluate R NumR k p per1 tol d fr ts) [] in
  exists mu, (p <= mu <= n)%nat /\ idx = seq (mu - p) p /\
    (forall j, (j < p)%nat -> nth (mu - p + j) row 0 = nth j dat 0) /\
    (forall c, (c < n)%nat -> (c < mu - p \/ mu <= c)%nat -> nth c row 0 = 0).
Proof.
  intros Hper Hd Hi E. cbv zeta.
  assert (Hn : (p <= n)%nat) by (unfold n; lia).
  destruct (dense_sparse_distinct d fr ts i idx dat Hd Hi Hn E) as (Hnd & Hhit & Hmiss).
  destruct (sparse_row_mu d fr ts i idx dat Hd Hi E) as (mu & Hmu & Eidx & Hdat).
  assert (Enn : n = n_all) by (unfold n, n_all; lia).
  assert (Eseq : idx = seq (mu - p) p).
  { rewrite Eidx. apply (nth_ext _ _ 0%nat 0%nat); [rewrite map_length, !seq_length; reflexivity|].
    intros j Hj. rewrite map_length, seq_length in Hj.
    rewrite (nth_map_lt _ (seq 0 p) j 0%nat 0%nat) by (rewrite seq_length; exact Hj).
    rewrite !seq_nth by exact Hj. rewrite Nat.mod_small by lia. lia. }
  exists mu. split; [lia|]. split; [exact Eseq|]. split.
  - intros j Hj. destruct (Hhit j Hj) as [_ Hv]. rewrite Eseq in Hv. rewrite seq_nth in Hv by exact Hj. exact Hv.
  - intros c Hc Hout. apply Hmiss; [exact Hc|]. rewrite Eseq. intros Hin. apply in_seq in Hin. lia.
Qed.
End Distinct.

(* ------------------------------------------------------------------ *)
(* Executable sanity check on Q: a periodic quadratic basis with n = 2 < p = 3, where two of the three
   stored columns coincide and the dense form must add them *)
(* ------------------------------------------------------------------ *)
Close Scope R_scope.
From Coq Require Import QArith.
Open Scope Q_scope.
Definition ex_knots : list Q := [-2#1; -1#1; 0; 1; 2; 3; 4].
Example dense_sparse_periodic_dup :
  let sp := @basis_evaluate_sparse Q NumQ ex_knots 3 2 (1#1000) 0 true [1#2] in
  let de := @basis_evaluate Q NumQ ex_knots 3 2 (1#1000) 0 true [1#2] in
  (map (option_map fst) sp = [Some [0; 1; 0]%nat]) /\
  forallb (fun r => forallb (fun xy => Qeq_bool (fst xy) (snd xy)) (combine (fst r) (snd r)))
          (combine de (map (@scatter_row Q NumQ 2) sp)) = true /\
  map (map Qred) de = [[1#4; 3#4]].
Proof. vm_compute. repeat split. Qed.

