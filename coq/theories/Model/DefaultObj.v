(* SplineObject.__init__ with controlpoints=None, and SplineObject.bounding_box (splineobject.py).  Definitions only.

   Constructor (controlpoints is None):
       controlpoints = [c[::-1] for c in product( * (b.greville() for b in bases[::-1]))]
       if len(controlpoints[0]) == 1: controlpoints = [tuple(list(c) + [0.0]) for c in controlpoints]
       if rational:                   controlpoints = [tuple(list(c) + [1.0]) for c in controlpoints]
       dimension = controlpoints.shape[-1] - rational
       controlpoints = reshape(controlpoints, shape, order='F')
   i.e. the list enumerates the tensor grid of Greville abscissae with the FIRST direction running fastest and is then
   reshaped in Fortran order, so the stored array satisfies  controlpoints[i_0, .., i_{n-1}] = (xi^0_{i_0}, .., xi^{n-1}_{i_{n-1}})
   (checked against the implementation: Surface(BSplineBasis(3,[0,0,0,1,2,2,2]), BSplineBasis(2,[1,1,3,3])).controlpoints[i,j]
   = (g0[i], g1[j])).  The model stores nets flat in C order (direction 0 slowest), hence the entry at flat index f is the point of
   the multi-index [unravel shape f].  A curve gets a zero second coordinate (physical dimension 2); otherwise the physical
   dimension is the parametric dimension.  A rational object gets the weight 1 as an extra last component. *)
From Coq Require Import List ZArith Bool Arith.
From SplipyModel Require Import Model.Num Model.BasisDef Model.Tensor Model.Obj.
Import ListNotations.

Section Model.
  Context {F : Type} `{Num F}.

  (* BSplineBasis.greville(i) *)
  Definition b_greville (b : basis F) (i : nat) : F := greville (b_knots b) (b_order b) i.

  (* physical dimension chosen by the constructor: "minimum two dimensions" is applied to one-component points only *)
  Definition default_dim (bases : list (basis F)) : nat :=
    if (length bases =? 1)%nat then 2%nat else length bases.

  (* the point at multi-index idx, with [dim] components: Greville abscissa of direction c for c < pardim, 0 for padded ones *)
  Definition default_point (bases : list (basis F)) (dim : nat) (idx : list nat) : list F :=
    map (fun c => if (c <? length bases)%nat then b_greville (nth c bases (mkBasis 0 [] 0)) (nth c idx 0%nat) else n0)
        (seq 0 dim).

  (* the control net built when no control points are given (flat, C order) *)
  Definition default_cps (bases : list (basis F)) (dim : nat) : list (list F) :=
    let shape := map b_nfun bases in
    map (fun flat => default_point bases dim (unravel shape flat)) (seq 0 (fold_right Nat.mul 1%nat shape)).

  (* SplineObject(bases) *)
  Definition default_obj (bases : list (basis F)) : obj F :=
    mkObj bases (default_cps bases (default_dim bases)) (default_dim bases) false.

  (* SplineObject(bases, rational=True): the weight 1 is appended to every point *)
  Definition default_cps_rat (bases : list (basis F)) (dim : nat) : list (list F) :=
    map (fun P => P ++ [n1]) (default_cps bases dim).
  Definition default_obj_rat (bases : list (basis F)) : obj F :=
    mkObj bases (default_cps_rat bases (default_dim bases)) (default_dim bases) true.

  (* SplineObject.bounding_box(): for i in range(dimension): (np.min(controlpoints[..., i]), np.max(controlpoints[..., i])).
     The rational flag is not consulted: for a rational object these are the extrema of the first [dimension] stored
     (weight-premultiplied) components, the weights themselves are ignored ("could be inaccurate for rational splines").
     np.min of an empty array raises; the model returns (0,0) for an empty net (no well-formed object has one). *)
  Definition list_min (l : list F) : F := match l with [] => n0 | x :: r => fold_left nmin r x end.
  Definition list_max (l : list F) : F := match l with [] => n0 | x :: r => fold_left nmax r x end.
  Definition obj_bounding_box (o : obj F) : list (F * F) :=
    map (fun c => let col := map (fun P => nth c P n0) (o_cps o) in (list_min col, list_max col)) (seq 0 (o_dim o)).
End Model.
