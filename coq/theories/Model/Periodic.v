(* BSplineBasis.make_periodic, SplineObject.make_periodic and lower_periodic (basis.py, splineobject.py).
   Definitions only. *)
From Coq Require Import List ZArith Bool Arith.
From SplipyModel Require Import Model.Num Model.BasisDef Model.BasisEval Model.Tensor Model.Obj Model.KnotInsert Model.Split.
Import ListNotations.

Section Model.
  Context {F : Type} `{Num F}.

  (* basis.make_periodic(continuity) on an (open) basis *)
  Definition basis_make_periodic (b : basis F) (cont : nat) : basis F :=
    let p := b_order b in let k := b_knots b in
    let deg := (p - 1)%nat in
    let nk := slice_list k deg (length k - deg) in
    let diff := nsub (b_end b) (b_start b) in
    let n_reps := (deg - cont - 1)%nat in
    let n_copy := (deg - n_reps)%nat in
    let L := length nk in
    let head := map (fun x => nsub x diff) (slice_list nk (L - n_copy - 1) (L - 1)) in
    let tail := map (fun x => nadd x diff) (slice_list nk 1 (n_copy + 1)) in
    mkBasis p (head ++ repeat (b_start b) n_reps ++ nk ++ repeat (b_end b) n_reps ++ tail) (cont + 1).

  Definition unit_row (n i : nat) : list F := map (fun j => if (j =? i)%nat then n1 else n0) (seq 0 n).
  (* the merging loop: for i = 0..cont: cps[i] = t cps[i] + (1-t) cps[n-cont-1+i], sequentially, then drop
     the last cont+1 control points; t = i/cont (0.5 when cont = 0) *)
  Definition periodic_merge_matrix (n cont : nat) : list (list F) :=
    let rows0 := map (unit_row n) (seq 0 n) in
    let step := fun (rows : list (list F)) (i : nat) =>
      let t := if (cont =? 0)%nat then ndiv n1 (nofZ 2%Z) else ndiv (nofnat i) (nofnat cont) in
      let ri := nth i rows [] in let rj := nth (n - cont - 1 + i) rows [] in
      upd rows i (vadd (vscale t ri) (vscale (nsub n1 t) rj)) in
    firstn (n - cont - 1) (fold_left step (seq 0 (cont + 1)) rows0).

  (* SplineObject.make_periodic(continuity, direction); cont = None is resolved by the caller to order-2 *)
  Definition obj_make_periodic (o : obj F) (cont : Z) (d : nat) : res (obj F) :=
    let b := nth d (o_bases o) (mkBasis 0 [] 0) in
    if (cont <? -1)%Z || (Z.of_nat (b_order b) - 2 <? cont)%Z then Err ValueError
    else if (cont =? -1)%Z then Err ValueError
    else if negb (b_per1 b =? 0)%nat then Err ValueError
    else
      let c := Z.to_nat cont in
      Ok (obj_along o d (basis_make_periodic b c) (periodic_merge_matrix (b_nfun b) c)).

  (* lower_periodic(periodic, direction): one step = insert the start knot, roll net and knots by one,
     drop the last knot, periodicity minus one *)
  Fixpoint obj_lower_periodic (fuel : nat) (o : obj F) (per1_target : nat) (d : nat) : res (obj F) :=
    let b := nth d (o_bases o) (mkBasis 0 [] 0) in
    if (per1_target <? b_per1 b)%nat then
      match fuel with
      | O => Err Fuel
      | S f =>
        match obj_insert_knots o d [b_start b] with
        | Err e => Err e
        | Ok o1 =>
          let b1 := nth d (o_bases o1) (mkBasis 0 [] 0) in
          let br := basis_roll b1 1 in
          let kk := b_knots br in
          let b2 := mkBasis (b_order b1) (firstn (length kk - 1) kk) (b_per1 b1 - 1) in
          obj_lower_periodic f (obj_along o1 d b2 (roll_matrix (b_nfun b1) 1)) per1_target d
        end
      end
    else if (b_per1 b <? per1_target)%nat then Err ValueError
    else Ok o.
End Model.
