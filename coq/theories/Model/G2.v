(* GoTools (.g2) spline records as lines of numbers: header, dimension/rationality, per basis (count, order) and the
   knots, then one control point per line with the first parametric index running fastest.  Definitions only. *)
From Coq Require Import List Arith ZArith Bool.
From SplipyModel Require Import Model.Num Model.BasisDef Model.Tensor Model.Obj.
Import ListNotations.

Section Model.
  Context {F : Type} `{Num F}.

  Definition g2_type (pd : nat) : Z := match pd with 1%nat => 100%Z | 2%nat => 200%Z | _ => 700%Z end.
  Definition g2_pardim (t : Z) : option nat :=
    if (t =? 100)%Z then Some 1%nat else if (t =? 200)%Z then Some 2%nat else if (t =? 700)%Z then Some 3%nat else None.

  (* C order (last index fastest, the model's storage) <-> Fortran order (first index fastest, the file's) *)
  Definition c2f {A} (dflt : A) (shape : list nat) (cps : list A) : list A := reindex dflt shape (rev shape) (@rev nat) cps.
  Definition f2c {A} (dflt : A) (shape : list nat) (cps : list A) : list A := reindex dflt (rev shape) shape (@rev nat) cps.

  Definition g2_encode_obj (o : obj F) : list (list F) :=
    [nofZ (g2_type (length (o_bases o))); n1; n0; n0] ::
    [nofnat (o_dim o); if o_rat o then n1 else n0] ::
    flat_map (fun b => [[nofnat (b_nfun b); nofnat (b_order b)]; b_knots b]) (o_bases o)
    ++ c2f [] (o_shape o) (o_cps o).
  Definition g2_encode (os : list (obj F)) : list (list F) := flat_map g2_encode_obj os.

  Definition to_nat (x : F) : option nat :=
    let z := nfloor x in if neqb (nofZ z) x && (0 <=? z)%Z then Some (Z.to_nat z) else None.

  Fixpoint read_bases (pd : nat) (lines : list (list F)) : option (list (basis F) * list (list F)) :=
    match pd with
    | O => Some ([], lines)
    | S pd' =>
      match lines with
      | [n; p] :: kn :: rest =>
        match to_nat n, to_nat p with
        | Some n', Some p' =>
          if (length kn =? n' + p')%nat then
            match read_bases pd' rest with
            | Some (bs, rest') => Some (mkBasis p' kn 0 :: bs, rest')
            | None => None
            end
          else None
        | _, _ => None
        end
      | _ => None
      end
    end.

  Definition g2_decode_obj (lines : list (list F)) : option (obj F * list (list F)) :=
    match lines with
    | [t; a; b; c] :: [d; r] :: rest =>
      if neqb a n1 && neqb b n0 && neqb c n0 then
        match g2_pardim (nfloor t), to_nat d with
        | Some pd, Some dim =>
          if neqb (nofZ (nfloor t)) t then
            match read_bases pd rest with
            | Some (bs, rest') =>
              let shape := map b_nfun bs in
              let n := fold_right Nat.mul 1%nat shape in
              let rat := neqb r n1 in
              if (n <=? length rest')%nat && (rat || neqb r n0) then
                Some (mkObj bs (f2c [] shape (firstn n rest')) dim rat, skipn n rest')
              else None
            | None => None
            end
          else None
        | _, _ => None
        end
      else None
    | _ => None
    end.

  Fixpoint g2_decode (fuel : nat) (lines : list (list F)) : option (list (obj F)) :=
    match lines with
    | [] => Some []
    | _ =>
      match fuel with
      | O => None
      | S f =>
        match g2_decode_obj lines with
        | Some (o, rest) => match g2_decode f rest with Some os => Some (o :: os) | None => None end
        | None => None
        end
      end
    end.
End Model.
