(* Global control point numbering of a multipatch model (SplineModel.generate_cp_numbers), abstractly: patches are
   visited in insertion order; a control point that no earlier patch contains gets the next free number, in the
   patch's own (C-order) enumeration; the others carry the number given by the first patch containing them.
   Points are identified by a key (their geometric identity).  Definitions only. *)
From Coq Require Import List Arith Bool.
Import ListNotations.

Fixpoint lookup_key (k : nat) (tbl : list (nat * nat)) : option nat :=
  match tbl with
  | [] => None
  | (k', v) :: r => if (k =? k')%nat then Some v else lookup_key k r
  end.

(* number one patch: returns the numbers of its points, the extended table and the next free number *)
Fixpoint number_patch (pts : list nat) (tbl : list (nat * nat)) (next : nat) : list nat * list (nat * nat) * nat :=
  match pts with
  | [] => ([], tbl, next)
  | p :: r =>
    match lookup_key p tbl with
    | Some v => let '(ns, t, nx) := number_patch r tbl next in (v :: ns, t, nx)
    | None => let '(ns, t, nx) := number_patch r ((p, next) :: tbl) (S next) in (next :: ns, t, nx)
    end
  end.

Fixpoint number_patches (ps : list (list nat)) (tbl : list (nat * nat)) (next : nat) : list (list nat) * list (nat * nat) * nat :=
  match ps with
  | [] => ([], tbl, next)
  | p :: r =>
    let '(ns, t, nx) := number_patch p tbl next in
    let '(rest, t', nx') := number_patches r t nx in
    (ns :: rest, t', nx')
  end.

Definition number_model (ps : list (list nat)) : list (list nat) * nat :=
  let '(ns, _, nx) := number_patches ps [] 0 in (ns, nx).
