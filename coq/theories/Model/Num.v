(* Arithmetic interface of the executable model: operations only, no laws.
   Instances: Q (executed, extracted) and R (proved).  Division is total on both
   (x/0 = 0) so that the two instances are related unconditionally. *)
From Coq Require Import List ZArith QArith Qround Reals Lra Bool.
From SplipyModel Require Import Spec.BSpline.
Import ListNotations.

Class Num (F : Type) := {
  n0 : F; n1 : F;
  nadd : F -> F -> F; nsub : F -> F -> F; nmul : F -> F -> F; ndiv : F -> F -> F;
  nltb : F -> F -> bool; nleb : F -> F -> bool; neqb : F -> F -> bool;
  nofZ : Z -> F;
  nfloor : F -> Z;
  nnorm : F -> F   (* value-preserving normalisation of the representation (identity on R) *)
}.

(* Self-checking normalisation of a rational: Euclid with fuel; the candidate divisor is used only
   if it is positive and divides both parts, so correctness does not depend on the fuel. *)
Fixpoint zgcd_f (fuel : nat) (a b : Z) : Z :=
  match fuel with
  | O => a
  | S f => if (b =? 0)%Z then a else zgcd_f f b (a mod b)%Z
  end.
Definition qnorm (q : Q) : Q :=
  let n := Qnum q in let d := Zpos (Qden q) in
  let g := Z.abs (zgcd_f (S (S (Pos.size_nat (Qden q))) * 2) n d) in
  if (1 <? g)%Z && (n mod g =? 0)%Z && (d mod g =? 0)%Z
  then Qmake (n / g) (Z.to_pos (d / g)) else q.

(* Representation guard of the executable instance: a result whose denominator has grown beyond 2^256 is normalised (value
   unchanged, Transfer/ParamBase.v qguard_Qeq), so that unnormalised chains (ghost knots repaired from repaired ghost knots,
   products of insertion coefficients) cannot square their denominators step after step. *)
Definition qbig : Z := Eval vm_compute in (2 ^ 256)%Z.
Definition qguard (q : Q) : Q := if (Zpos (Qden q) <? qbig)%Z then q else qnorm q.

#[global] Instance NumQ : Num Q := {
  n0 := 0%Q; n1 := 1%Q;
  nadd a b := qguard (Qplus a b); nsub a b := qguard (Qminus a b);
  nmul a b := qguard (Qmult a b); ndiv a b := qguard (Qdiv a b);
  nltb a b := negb (Qle_bool b a); nleb := Qle_bool; neqb := Qeq_bool;
  nofZ z := inject_Z z;
  nfloor := Qfloor;
  nnorm := qnorm
}.

Definition Rfloor (r : R) : Z := (up r - 1)%Z.

#[global] Instance NumR : Num R := {
  n0 := 0%R; n1 := 1%R;
  nadd := Rplus; nsub := Rminus; nmul := Rmult; ndiv := Rdiv;
  nltb := Rltb; nleb := Rleb; neqb := Reqb;
  nofZ := IZR;
  nfloor := Rfloor;
  nnorm := fun x => x
}.

Section Generic.
  Context {F : Type} `{Num F}.
  Definition nofnat (n : nat) : F := nofZ (Z.of_nat n).
  Definition nabs (x : F) : F := if nltb x n0 then nsub n0 x else x.
  Definition nneg (x : F) : F := nsub n0 x.
  Definition nmax (a b : F) : F := if nltb a b then b else a.
  Definition nmin (a b : F) : F := if nltb b a then b else a.
  (* Python's float % for a positive modulus, in exact arithmetic *)
  Definition nfmod (x y : F) : F := nsub x (nmul y (nofZ (nfloor (ndiv x y)))).
  Definition nsum (l : list F) : F := fold_left nadd l n0.
End Generic.

(* Result type: the model returns the exception class the code raises. *)
Inductive err := ValueError | RuntimeError | TypeError | IndexError | NotSupported | Singular | Fuel | KeyError | NameError.
Inductive res (A : Type) := Ok (a : A) | Err (e : err).
Arguments Ok {A} a.
Arguments Err {A} e.
Definition bind {A B} (r : res A) (f : A -> res B) : res B :=
  match r with Ok a => f a | Err e => Err e end.
Notation "'do' x <- r ; k" := (bind r (fun x => k)) (at level 200, x name, r at level 100, k at level 200).
