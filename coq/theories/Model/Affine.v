(* translate / scale / rotate / mirror / project / set_dimension / force_rational (splineobject.py).
   Every operation acts on each control point separately (row vector times a homogeneous matrix).
   Trigonometry enters as inputs ("trig oracle"): cos and sin of the half angle, and the inverse norm
   of the axis / normal.  rotation_matrix is the kernel regenerated from the source (Gen/RotationMatrix.v).
   Definitions only. *)
From Coq Require Import List ZArith Bool Arith.
From SplipyModel Require Import Model.Num Model.BasisDef Model.Tensor Model.Obj Gen.RotationMatrix.
Import ListNotations.

Section Model.
  Context {F : Type} `{Num F}.

  (* row vector times matrix (list of rows): (v M)_j = sum_i v_i M_ij *)
  Definition vecmat (v : list F) (M : list (list F)) (ncols : nat) : list F :=
    map (fun j => fold_left (fun acc iv => nadd acc (nmul (snd iv) (nth j (nth (fst iv) M []) n0)))
                            (combine (seq 0 (length v)) v) n0) (seq 0 ncols).

  Definition map_cps (o : obj F) (f : list F -> list F) : obj F :=
    mkObj (o_bases o) (map f (o_cps o)) (o_dim o) (o_rat o).

  (* set_dimension(new_dim): pad with zeros / drop the last physical coordinates *)
  Definition pt_set_dim (dim newdim : nat) (rat : bool) (v : list F) : list F :=
    let phys := firstn dim v in
    let w := skipn dim v in
    (if (dim <=? newdim)%nat then phys ++ repeat n0 (newdim - dim) else firstn newdim phys) ++ w.
  Definition obj_set_dimension (o : obj F) (newdim : nat) : obj F :=
    mkObj (o_bases o) (map (pt_set_dim (o_dim o) newdim (o_rat o)) (o_cps o)) newdim (o_rat o).

  Definition obj_force_rational (o : obj F) : obj F :=
    if o_rat o then o else mkObj (o_bases o) (map (fun v => v ++ [n1]) (o_cps o)) (o_dim o) true.

  (* translate(x) *)
  Definition obj_translate (o : obj F) (x : list F) : res (obj F) :=
    let o1 := if (o_dim o <? length x)%nat then obj_set_dimension o (length x) else o in
    let dim := o_dim o1 in
    if (length x <? dim)%nat then Err IndexError
    else Ok (map_cps o1 (fun v =>
               let w := if o_rat o1 then nth dim v n0 else n1 in
               map (fun i => nadd (nth i v n0) (nmul (nth i x n0) w)) (seq 0 dim) ++ skipn dim v)).

  (* scale(args...) after ensure_flatlist / ensure_listlike(dups=3): s has at least 3 entries *)
  Definition pad3 (s : list F) : list F :=
    match s with
    | [] => []
    | _ => s ++ repeat (last s n0) (3 - length s)
    end.
  Definition obj_scale (o : obj F) (s0 : list F) : res (obj F) :=
    let s := pad3 s0 in
    if (length s <? o_dim o)%nat then Err IndexError
    else Ok (map_cps o (fun v => map (fun i => nmul (nth i v n0) (nth i s n0)) (seq 0 (o_dim o)) ++ skipn (o_dim o) v)).

  (* rotate(theta, normal): ch, sh = cos, sin of theta/2; inv = 1/|normal| *)
  Definition obj_rotate (o : obj F) (ch sh : F) (normal : list F) (inv : F) : res (obj F) :=
    let nz := neqb (nth 0 normal n0) n0 && neqb (nth 1 normal n0) n0 in
    let o1 := if nz then o else obj_set_dimension o 3 in
    let dim := o_dim o1 in
    if (dim =? 2)%nat then
      let c := nsub (nmul ch ch) (nmul sh sh) in
      let s0 := nmul (nmul (nofZ 2%Z) sh) ch in
      let s := if nltb (nth 2 normal n0) n0 then nsub n0 s0 else s0 in
      Ok (map_cps o1 (fun v => [nsub (nmul (nth 0 v n0) c) (nmul (nth 1 v n0) s);
                                 nadd (nmul (nth 0 v n0) s) (nmul (nth 1 v n0) c)] ++ skipn 2 v))
    else if (dim =? 3)%nat then
      let u := map (fun a => nmul a inv) normal in
      let Rm := rotmat ch (nsub n0 (nmul (nth 0 u n0) sh)) (nsub n0 (nmul (nth 1 u n0) sh)) (nsub n0 (nmul (nth 2 u n0) sh)) in
      Ok (map_cps o1 (fun v => vecmat (firstn 3 v) Rm 3 ++ skipn 3 v))
    else Err RuntimeError.

  (* mirror(normal): I - 2 n n^T with n = normal * inv *)
  Definition obj_mirror (o : obj F) (normal : list F) (inv : F) : res (obj F) :=
    if negb (o_dim o =? 3)%nat then Err RuntimeError
    else
      let u := map (fun a => nmul a inv) normal in
      let M := map (fun i => map (fun j => nsub (if (i =? j)%nat then n1 else n0)
                                             (nmul (nofZ 2%Z) (nmul (nth i u n0) (nth j u n0)))) (seq 0 3)) (seq 0 3) in
      Ok (map_cps o (fun v => vecmat (firstn 3 v) M 3 ++ skipn 3 v)).

  (* project(plane): keep.(i) says whether coordinate i survives *)
  Definition obj_project (o : obj F) (keep : list bool) : obj F :=
    map_cps o (fun v => map (fun i => if nth i keep false then nth i v n0 else n0) (seq 0 (o_dim o)) ++ skipn (o_dim o) v).
End Model.
