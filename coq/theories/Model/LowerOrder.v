(* C05, basis level.  BSplineBasis.raise_order / lower_order / continuity / knot_spans (basis.py) are ALREADY transcribed:
     knot_spans        Model/KnotInsert.v  (knot_spans, uniq_tol)          basis.py 303-321
     continuity        Model/Tol.v         (basis_continuity)              basis.py 265-286
     raise_order       Model/Order.v       (basis_raise_order; both the non-periodic and the periodic slice
                                            knots[n0*amount : -n1*amount], empty when n1*amount = 0)   basis.py 338-351
     lower_order       Model/Order.v       (basis_lower_order; multiplicity max(p_new-1-continuity, 1) per distinct knot incl.
                                            ghosts; the periodic branch reads the undefined name `knot_spans` -> NameError)
                                                                                                        basis.py 368-381
     BSplineBasis.__init__ checks   Model/WF.v (basis_ctor)                basis.py 52-67
   What those transcriptions leave out, and what this file adds (definitions only):
     * the argument checks of lines 334-337 / 364-367 on a possibly negative amount (the TypeError for a non-int is not
       representable: amount : Z);
     * the call of the constructor `BSplineBasis(order, knots, periodic)` on the last line of both routines (lines 351, 381),
       i.e. the ValueError of __init__ on the produced knot vector ("too few elements", periodic mismatch, decreasing).
   Hence [basis_raise_order_c] / [basis_lower_order_c] = the complete methods as the caller observes them.
   Also: the list of continuities at all distinct knots (what the property "continuity is preserved at every knot" reads),
   and the knot vector written as runs (value, multiplicity), used to state the closed forms. *)
From Coq Require Import List ZArith Bool Arith.
From SplipyModel Require Import Model.Num Model.BasisDef Model.BasisEval Model.Tensor Model.Obj Model.KnotInsert Model.Tol Model.WF Model.Order.
Import ListNotations.

Section Model.
  Context {F : Type} `{Num F}.

  (* raise_order(amount), lines 334-351: amount < 0 -> ValueError; amount == 0 -> self.clone() (no constructor check: clone
     copies the fields); otherwise the new knots go through BSplineBasis.__init__ *)
  Definition basis_raise_order_c (tol : F) (b : basis F) (amount : Z) : res (basis F) :=
    if (amount <? 0)%Z then Err ValueError
    else if (amount =? 0)%Z then Ok b
    else
      let b' := basis_raise_order tol b (Z.to_nat amount) in
      basis_ctor tol (Z.of_nat (b_order b')) (b_knots b') (b_per1 b').

  (* lower_order(amount), lines 364-381: amount < 0 -> ValueError; order - amount < 2 -> ValueError; then the knots (errors of
     continuity() propagate), NameError on a periodic basis, and finally the constructor.  amount = 0 is NOT special-cased
     by the code. *)
  Definition basis_lower_order_c (tol : F) (b : basis F) (amount : Z) : res (basis F) :=
    if (amount <? 0)%Z then Err ValueError
    else
      match basis_lower_order tol b (Z.to_nat amount) with
      | Err e => Err e
      | Ok b' => basis_ctor tol (Z.of_nat (b_order b')) (b_knots b') (b_per1 b')
      end.

  (* [self.continuity(k) for k in self.knot_spans(True)] *)
  Definition basis_continuities (tol : F) (b : basis F) : list (res (option Z)) :=
    map (basis_continuity tol b) (knot_spans tol b true).

  (* a knot vector from its runs (value, multiplicity) *)
  Definition expand_runs (rs : list (F * nat)) : list F := flat_map (fun r => repeat (fst r) (snd r)) rs.
  (* every multiplicity + a (what raise_order is meant to do) *)
  Definition runs_raise (a : nat) (rs : list (F * nat)) : list (F * nat) := map (fun r => (fst r, (snd r + a)%nat)) rs.
  (* every multiplicity max(m - a, 1) (what lower_order does: the floor is 1, never 0) *)
  Definition runs_lower (a : nat) (rs : list (F * nat)) : list (F * nat) := map (fun r => (fst r, Nat.max (snd r - a) 1)) rs.
  (* run-length encoding with exact equality *)
  Fixpoint runs_of (l : list F) : list (F * nat) :=
    match l with
    | [] => []
    | x :: l' =>
      match runs_of l' with
      | (y, m) :: rs => if neqb x y then (y, S m) :: rs else (x, 1%nat) :: (y, m) :: rs
      | [] => [(x, 1%nat)]
      end
    end.

  (* lower_order once more, differing from Model/Order.v basis_lower_order in ONE branch: when continuity() returns inf
     (np.inf; possible for a knot only when state.knot_tolerance <= 0, since then hi == lo) the Python expression
     max(p-1-inf, 1) is the int 1, so the knot is kept once; Model/Order.v returns Err TypeError there. *)
  Definition basis_lower_order_inf (tol : F) (b : basis F) (amount : nat) : res (basis F) :=
    if (b_order b - amount <? 2)%nat then Err ValueError
    else
      let p := (b_order b - amount)%nat in
      let spans := knot_spans tol b true in
      let step := fun (acc : res (list F)) (x : F) =>
        match acc with
        | Err e => Err e
        | Ok l =>
          match basis_continuity tol b x with
          | Err e => Err e
          | Ok None => Ok (l ++ [x])
          | Ok (Some c) => Ok (l ++ repeat x (Z.to_nat (Z.max (Z.of_nat p - 1 - c) 1)))
          end
        end in
      match fold_left step spans (Ok []) with
      | Err e => Err e
      | Ok knots => if (b_per1 b =? 0)%nat then Ok (mkBasis p knots 0) else Err NameError
      end.
End Model.
