(* Curve.derivative / Surface.derivative dispatch (curve.py, surface.py): rational objects of
   total order 2-3 go to the closed forms, which are the kernels regenerated from the source
   (Gen/RatDerivCurve.v, Gen/RatDerivSurface.v); everything else goes to SplineObject.derivative.
   The closed-form paths do not validate the domain (as in the code).  Definitions only. *)
From Coq Require Import List ZArith Bool Arith.
From SplipyModel Require Import Model.Num Model.BasisDef Model.BasisEval Model.Tensor Model.Obj
  Gen.RatDerivCurve Gen.RatDerivSurface.
Import ListNotations.

Section Model.
  Context {F : Type} `{Num F}.

  Definition curve_deriv (tol : F) (o : obj F) (d : nat) (above : bool) (t : F) : res (list F) :=
    if negb (o_rat o) || (d <? 2)%nat || (3 <? d)%nat then obj_deriv tol o [d] [above] [t]
    else
      let h := fun a => eval_h tol o [a] [if (a =? 0)%nat then true else above] [t] in
      let Wf := fun a => nth (o_dim o) (h a) n0 in
      Ok (map (fun i => let nf := fun a => nth i (h a) n0 in
                        if (d =? 2)%nat then curve_d2 nf Wf else curve_d3 nf Wf)
              (seq 0 (o_dim o))).

  (* ab: [above] after ensure_listlike(above, pardim) *)
  Definition surface_deriv (tol : F) (o : obj F) (d1 d2 : nat) (ab : list bool) (ts : list F)
    : res (list F) :=
    let s := (d1 + d2)%nat in
    if negb (o_rat o) || (s <? 2)%nat || (3 <? s)%nat then obj_deriv tol o [d1; d2] ab ts
    else
      let h := fun a b => eval_h tol o [a; b] [nth 0 ab true; nth 1 ab true] ts in
      let Wf := fun a b => nth (o_dim o) (h a b) n0 in
      Ok (map (fun i => let nf := fun a b => nth i (h a b) n0 in
                match d1, d2 with
                | 1, 1 => surf_d11 nf Wf
                | 2, 0 => surf_d20 nf Wf
                | 0, 2 => surf_d02 nf Wf
                | 3, 0 => surf_d30 nf Wf
                | 0, 3 => surf_d03 nf Wf
                | 2, 1 => surf_d21 nf Wf
                | 1, 2 => surf_d12 nf Wf
                | _, _ => n0
                end) (seq 0 (o_dim o))).
End Model.
