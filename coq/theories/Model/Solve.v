(* Exact linear solves over the field F, self-checking: the candidate produced by Gauss-Jordan elimination
   is returned only if A * X = B holds (translation-validation style), so [solve A B = Ok X -> A X = B]
   needs no proof about the elimination itself.  Models np.linalg.inv / spsolve / lstsq on square,
   well-conditioned systems.  Definitions only. *)
From Coq Require Import List ZArith Bool Arith.
From SplipyModel Require Import Model.Num Model.Tensor.
Import ListNotations.

Section Model.
  Context {F : Type} `{Num F}.

  Definition row := list F.
  Definition rscale (c : F) (r : row) : row := map (fun x => nnorm (nmul c x)) r.
  Definition raxpy (c : F) (r s : row) : row := map (fun xy => nnorm (nsub (snd xy) (nmul c (fst xy)))) (combine r s). (* s - c r *)

  (* find the first row at index >= 0 of [rows] whose entry in column c is non-zero *)
  Fixpoint find_pivot (c : nat) (rows : list row) : option (row * list row) :=
    match rows with
    | [] => None
    | r :: rest =>
      if neqb (nth c r n0) n0 then
        match find_pivot c rest with
        | None => None
        | Some (pv, others) => Some (pv, r :: others)
        end
      else Some (r, rest)
    end.

  (* Gauss-Jordan on the augmented rows; [done] are the finished pivot rows (in order) *)
  Fixpoint gj (fuel c : nat) (done todo : list row) : option (list row) :=
    match fuel with
    | O => Some (done ++ todo)
    | S f =>
      match find_pivot c todo with
      | None => None                                   (* singular *)
      | Some (pv, others) =>
        let pv' := rscale (ndiv n1 (nth c pv n0)) pv in
        let elim := fun r => raxpy (nth c r n0) pv' r in
        gj f (S c) (map elim done ++ [pv']) (map elim others)
      end
    end.

  Definition matmul (A B : list (list F)) : list (list F) :=
    let ncol := length (hd [] B) in
    map (fun ra => map (fun j => fold_left (fun acc ib => nnorm (nadd acc (nmul (fst ib) (nth j (snd ib) n0))))
                                          (combine ra B) n0) (seq 0 ncol)) A.

  Definition mat_eqb (A B : list (list F)) : bool :=
    (length A =? length B)%nat &&
    forallb (fun ab => (length (fst ab) =? length (snd ab))%nat &&
                       forallb (fun xy => neqb (fst xy) (snd xy)) (combine (fst ab) (snd ab))) (combine A B).

  (* solve A X = B for square A (n x n), B (n x m) *)
  Definition solve (A B : list (list F)) : res (list (list F)) :=
    let n := length A in
    let aug := map (fun ab => fst ab ++ snd ab) (combine A B) in
    match gj n 0 [] aug with
    | None => Err Singular
    | Some rows =>
      let X := map (skipn n) rows in
      if mat_eqb (matmul A X) B then Ok X else Err Singular
    end.
End Model.
