(* reverse / swap / reparam (basis.py, splineobject.py).  Definitions only.
   reverse acts on the control net as the reversal permutation followed (periodic directions, after the
   fix in /repo) by a roll of periodic+1; it is written with apply_dir and a 0/1 matrix so that the
   lifting lemma applies.  swap is a transposition of the flat net. *)
From Coq Require Import List ZArith Bool Arith.
From SplipyModel Require Import Model.Num Model.BasisDef Model.BasisEval Model.Tensor Model.Obj Model.KnotInsert.
Import ListNotations.

Section Model.
  Context {F : Type} `{Num F}.

  Definition basis_shift (b : basis F) (f : F -> F) : basis F :=
    mkBasis (b_order b) (map f (b_knots b)) (b_per1 b).

  (* BSplineBasis.reparam(start, end): normalize (subtract start, divide by the new end), scale, shift *)
  Definition basis_reparam (b : basis F) (s e : F) : res (basis F) :=
    if nleb e s then Err ValueError
    else
      let b1 := basis_shift b (fun x => nsub x (b_start b)) in
      let b2 := basis_shift b1 (fun x => ndiv x (b_end b1)) in
      let b3 := basis_shift b2 (fun x => nmul x (nsub e s)) in
      Ok (basis_shift b3 (fun x => nadd x s)).

  (* BSplineBasis.reverse(): (knots[::-1] - a) / (b - a) * (a - b) + b *)
  Definition basis_reverse (b : basis F) : basis F :=
    let a := b_start b in let e := b_end b in
    mkBasis (b_order b)
            (map (fun x => nadd (nmul (ndiv (nsub x a) (nsub e a)) (nsub a e)) e) (rev (b_knots b)))
            (b_per1 b).

  (* new[r] = old[n-1-((r - per1) mod n)] *)
  Definition rev_matrix (n per1 : nat) : list (list F) :=
    map (fun r => map (fun j => if (j =? n - 1 - ((r + n - per1 mod n) mod n))%nat then n1 else n0) (seq 0 n))
        (seq 0 n).

  Definition obj_reverse (o : obj F) (d : nat) : obj F :=
    let b := nth d (o_bases o) (mkBasis 0 [] 0) in
    mkObj (upd (o_bases o) d (basis_reverse b))
          (apply_dir (o_ncomp o) (o_shape o) d (rev_matrix (b_nfun b) (b_per1 b)) (o_cps o))
          (o_dim o) (o_rat o).

  Definition swap_idx {A} (dflt : A) (l : list A) (d1 d2 : nat) : list A :=
    upd (upd l d1 (nth d2 l dflt)) d2 (nth d1 l dflt).

  Definition obj_swap (o : obj F) (d1 d2 : nat) : obj F :=
    if (o_pardim o =? 1)%nat then o
    else
      let sh := o_shape o in
      let sh' := swap_idx 0%nat sh d1 d2 in
      mkObj (swap_idx (mkBasis 0 [] 0) (o_bases o) d1 d2)
            (reindex (vzero (o_ncomp o)) sh sh' (fun idx => swap_idx 0%nat idx d1 d2) (o_cps o))
            (o_dim o) (o_rat o).

  Definition obj_reparam_dir (o : obj F) (d : nat) (s e : F) : res (obj F) :=
    match basis_reparam (nth d (o_bases o) (mkBasis 0 [] 0)) s e with
    | Err er => Err er
    | Ok b' => Ok (mkObj (upd (o_bases o) d b') (o_cps o) (o_dim o) (o_rat o))
    end.

  (* reparam(u, v, ...) without 'direction': missing ranges default to (0,1) *)
  Fixpoint obj_reparam_from (o : obj F) (d : nat) (n : nat) (ranges : list (F * F)) : res (obj F) :=
    match n with
    | O => Ok o
    | S n' =>
      let se := match ranges with [] => (n0, n1) | r :: _ => r end in
      match obj_reparam_dir o d (fst se) (snd se) with
      | Err er => Err er
      | Ok o' => obj_reparam_from o' (S d) n' (tl ranges)
      end
    end.
  Definition obj_reparam_all (o : obj F) (ranges : list (F * F)) : res (obj F) :=
    obj_reparam_from o 0 (o_pardim o) ranges.
End Model.
