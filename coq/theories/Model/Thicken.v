(* surface_factory.thicken(curve, amount), branch curve.dimension == 2 (surface_factory.py lines 566-618), together with
   the pieces of other routines it runs through:

     curve = curve.clone()
     t = curve.bases[0].greville()                                   greville_all (Model/Loft.v)
     n = len(curve)                                                  number of control points
     x = curve.evaluate(t);  v = curve.derivative(t)                 thk_eval / thk_deriv (obj_eval, obj_deriv d=1 above=True)
     l = np.sqrt(v[:,0]**2 + v[:,1]**2)                              thk_len  (sqrt is the Section parameter sqrtF), computed
                                                                     ONCE from the raw velocities, before the loop
     for i in range(n):                                              thk_normals: sequential, v is updated IN PLACE, so
         if l[i] < 1e-13:                                            v[i-1] is the already normalised neighbour while
             if i>0: v[i,:] = v[i-1,:]                               v[i+1] (taken only for i = 0) is the RAW velocity;
             else:   v[i,:] = v[i+1,:]                               n = 1: v[1,:] raises IndexError
         else: v[i,:] /= l[i]
     right_points = (x0 - v1*dist, x1 + v0*dist)                     thk_right   ("x at bottom", first argument of edge_curves)
     left_points  = (x0 + v1*dist, x1 - v0*dist)                     thk_left
          dist = amount (constant)  or  amount(x, y, t) per point    the argument [dist] of thicken_gen
     right = curve_factory.interpolate(right_points, curve.bases[0]) curve_interpolate at the Greville points (Model/Interp.v)
     left  = curve_factory.interpolate(left_points,  curve.bases[0])
     return edge_curves(right, left)                                 edge_curves2

   edge_curves, branch len(curves) == 2 (lines 208-219): clone, Curve.make_splines_identical(crv1, crv2), then
     Surface(crv1.bases[0], BSplineBasis(2), [crv1.controlpoints; crv2.controlpoints])   (stacked rows, read by the
   Surface constructor in Fortran order: the FIRST curve is the line v = 0, the second the line v = 1; in the C order of this
   model the net is  cp[i][0] = crv1[i], cp[i][1] = crv2[i]).
   make_splines_identical FIRST REPARAMETRISES BOTH CURVES TO (0,1) (spline.reparam(direction=i)); all of its other steps
   (make_splines_compatible, lower_periodic, raise_order(0), the two knot insertion lists) do nothing when the two curves are
   a pair of non-rational curves on the same basis, which is what thicken passes.  edge_curves2 therefore transcribes the
   reparam step only; edge_curves2_full calls the full model obj_make_identical2 (Model/IdenticalFix.v) instead and
   thicken_full is thicken with that variant (Proofs/ThickenProofs.v runs both on Q and finds the same surface).

   Left out: the branch dimension == 3 (sweep of a circle) returns NotSupported; inspect.signature plumbing of a callable
   amount (the callable is taken as a function of the point x_i = [x; y] and of t_i; z = 0.0 is a constant).
   Definitions only. *)
From Coq Require Import List Arith ZArith Bool.
From SplipyModel Require Import Model.Num Model.BasisDef Model.BasisEval Model.Tensor Model.Obj Model.KnotInsert Model.Solve Model.Interp
  Model.Loft Model.Reparam Model.IdenticalFix.
Import ListNotations.

Section Model.
  Context {F : Type} `{Num F}.
  Variable sqrtF : F -> F.          (* np.sqrt *)

  Fixpoint res_map {A B} (f : A -> res B) (l : list A) : res (list B) :=
    match l with
    | [] => Ok []
    | a :: l' => match f a with
                 | Err e => Err e
                 | Ok b => match res_map f l' with Err e => Err e | Ok r => Ok (b :: r) end
                 end
    end.

  (* x = curve.evaluate(t), v = curve.derivative(t) *)
  Definition thk_eval (tol : F) (o : obj F) (ts : list F) : res (list (list F)) :=
    res_map (fun t => obj_eval tol o [t]) ts.
  Definition thk_deriv (tol : F) (o : obj F) (ts : list F) : res (list (list F)) :=
    res_map (fun t => obj_deriv tol o [1%nat] [true] [t]) ts.

  (* np.sqrt(v[:,0]**2 + v[:,1]**2) *)
  Definition thk_len (vi : list F) : F :=
    sqrtF (nadd (nmul (nth 0 vi n0) (nth 0 vi n0)) (nmul (nth 1 vi n0) (nth 1 vi n0))).

  (* one pass of the loop body; l is the list of lengths of the RAW velocities *)
  Definition thk_norm_step (eps : F) (l : list F) (acc : res (list (list F))) (i : nat) : res (list (list F)) :=
    match acc with
    | Err e => Err e
    | Ok v =>
      if nltb (nth i l n0) eps then
        if (0 <? i)%nat then Ok (upd v i (nth (i - 1) v []))
        else if (i + 1 <? length v)%nat then Ok (upd v i (nth (i + 1) v [])) else Err IndexError
      else Ok (upd v i (map (fun c => ndiv c (nth i l n0)) (nth i v [])))
    end.
  Definition thk_normals (eps : F) (n : nat) (v : list (list F)) : res (list (list F)) :=
    fold_left (thk_norm_step eps (map thk_len v)) (seq 0 n) (Ok v).

  Definition thk_right (xi vi : list F) (d : F) : list F :=
    [nsub (nth 0 xi n0) (nmul (nth 1 vi n0) d); nadd (nth 1 xi n0) (nmul (nth 0 vi n0) d)].
  Definition thk_left (xi vi : list F) (d : F) : list F :=
    [nadd (nth 0 xi n0) (nmul (nth 1 vi n0) d); nsub (nth 1 xi n0) (nmul (nth 0 vi n0) d)].

  (* controlpoints[:n] = crv1, controlpoints[n:] = crv2, order='F'  ==>  C order: (i, 0) = crv1[i], (i, 1) = crv2[i] *)
  Definition interleave (A B : list (list F)) : list (list F) :=
    concat (map (fun i => [nth i A []; nth i B []]) (seq 0 (length A))).
  Definition linear01 : basis F := mkBasis 2 [n0; n0; n1; n1] 0.      (* BSplineBasis(2) *)
  Definition ruled (c1 c2 : obj F) : obj F :=
    mkObj [hd dflt_bas (o_bases c1); linear01] (interleave (o_cps c1) (o_cps c2)) (o_dim c1) (o_rat c1).

  (* edge_curves(c1, c2) for two curves on the same basis *)
  Definition edge_curves2 (c1 c2 : obj F) : res (obj F) :=
    match obj_reparam_dir c1 0 n0 n1, obj_reparam_dir c2 0 n0 n1 with
    | Ok a, Ok b => Ok (ruled a b)
    | Err e, _ => Err e
    | _, Err e => Err e
    end.
  (* edge_curves(c1, c2) in general *)
  Definition edge_curves2_full (tol : F) (c1 c2 : obj F) : res (obj F) :=
    match obj_make_identical2 tol c1 c2 None with
    | Ok (a, b) => Ok (ruled a b)
    | Err e => Err e
    end.

  Definition thicken_gen (ec : obj F -> obj F -> res (obj F)) (tol eps : F) (curve : obj F) (dist : list F -> F -> F) : res (obj F) :=
    if negb (o_dim curve =? 2)%nat then Err NotSupported
    else
      let b := hd dflt_bas (o_bases curve) in
      let t := greville_all b in
      let n := length (o_cps curve) in
      match thk_eval tol curve t with
      | Err e => Err e
      | Ok x =>
        match thk_deriv tol curve t with
        | Err e => Err e
        | Ok v =>
          match thk_normals eps n v with
          | Err e => Err e
          | Ok nv =>
            let pts side := map (fun i => side (nth i x []) (nth i nv []) (dist (nth i x []) (nth i t n0))) (seq 0 n) in
            match curve_interpolate tol b t (pts thk_right) with
            | Err e => Err e
            | Ok crv_r =>
              match curve_interpolate tol b t (pts thk_left) with
              | Err e => Err e
              | Ok crv_l => ec crv_r crv_l
              end
            end
          end
        end
      end.

  (* thicken(curve, amount) with a number / with a callable amount(x, y, t) *)
  Definition thicken (tol eps : F) (curve : obj F) (amount : F) : res (obj F) :=
    thicken_gen edge_curves2 tol eps curve (fun _ _ => amount).
  Definition thicken_fun (tol eps : F) (curve : obj F) (amount : F -> F -> F -> F) : res (obj F) :=
    thicken_gen edge_curves2 tol eps curve (fun xi t => amount (nth 0 xi n0) (nth 1 xi n0) t).
  Definition thicken_full (tol eps : F) (curve : obj F) (amount : F) : res (obj F) :=
    thicken_gen (edge_curves2_full tol) tol eps curve (fun _ _ => amount).
End Model.
