(* ------------------------------------------------------------------------- *)
(*  Model of the face ordering of splipy/io/ofoam.py, OpenFOAM.write           *)
(*  (property C18, mesh export).  Definitions only, executable, axiom free.    *)
(*                                                                             *)
(*  Modelling choices                                                          *)
(*   * node / cell ids: nat.  owner: nat.                                      *)
(*   * neighbor: Z  (the code stores -1 for "no neighbour"; the sort on the    *)
(*     neighbour is the plain integer order, -1 included).                     *)
(*   * name: option nat, None = internal face (Python None); Some n = the      *)
(*     n-th string in the (total) order of Python strings.  Only that the      *)
(*     names are totally ordered is used.                                      *)
(*   * Python's sorted is stable and compares with < only; for a total         *)
(*     preorder on the keys the result of a stable sort is unique, therefore   *)
(*     a stable insertion sort is a faithful model of sorted(..., key=...).    *)
(*   * The key of the last sort is the tuple (name is not None, name):         *)
(*     (False, None) for internal faces, (True, s) otherwise.  Tuple           *)
(*     comparison never compares None with a string; name_leb is that order.   *)
(* ------------------------------------------------------------------------- *)
From Coq Require Import List Arith ZArith Bool.
Import ListNotations.

Record face := mkFace {
  f_nodes    : list nat;
  f_owner    : nat;
  f_neighbor : Z;
  f_name     : option nat
}.

(* Generic stable insertion sort: the result is sorted by [leb] on the keys,
   elements with equivalent keys keep their input order. *)
Section StableSort.
  Context {A K : Type} (key : A -> K) (leb : K -> K -> bool).

  (* insert x in front of the first element whose key is >= key x; x comes
     from the left of everything in s, so it has to stay in front of its equals *)
  Fixpoint sinsert (x : A) (s : list A) : list A :=
    match s with
    | [] => [x]
    | y :: t => if leb (key x) (key y) then x :: y :: t else y :: sinsert x t
    end.

  Fixpoint ssort (l : list A) : list A :=
    match l with
    | [] => []
    | x :: t => sinsert x (ssort t)
    end.
End StableSort.

(* order of the keys (name is not None, name) *)
Definition name_leb (a b : option nat) : bool :=
  match a, b with
  | None, _ => true
  | Some _, None => false
  | Some x, Some y => Nat.leb x y
  end.

Definition name_eqb (a b : option nat) : bool :=
  match a, b with
  | None, None => true
  | Some x, Some y => Nat.eqb x y
  | _, _ => false
  end.

(* faces = sorted(faces, key=neighbor); sorted(.., key=owner); sorted(.., key=(name is not None, name)) *)
Definition ofoam_order (faces : list face) : list face :=
  ssort f_name name_leb (ssort f_owner Nat.leb (ssort f_neighbor Z.leb faces)).

Definition is_internal (f : face) : bool :=
  match f_name f with None => true | Some _ => false end.
Definition is_boundary (f : face) : bool := negb (is_internal f).

(* ninternal = sum(faces['name'] == None) *)
Definition n_internal (faces : list face) : nat := length (filter is_internal faces).

(* itertools.groupby(faces, key=name): left to right, a new group is opened
   whenever the key differs from the key of the running group; [cur] is the
   running group in reverse. *)
Fixpoint groupby_run (k : option nat) (cur : list face) (l : list face)
  : list (option nat * list face) :=
  match l with
  | [] => [(k, rev cur)]
  | x :: t => if name_eqb (f_name x) k
              then groupby_run k (x :: cur) t
              else (k, rev cur) :: groupby_run (f_name x) [x] t
  end.

Definition groupby_name (l : list face) : list (option nat * list face) :=
  match l with
  | [] => []
  | x :: t => groupby_run (f_name x) [x] t
  end.

(* one block of the boundary file *)
Record block := mkBlock { b_name : nat; b_nfaces : nat; b_start : nat }.

(* the loop  start = 0; for name, it in groupby(...): ...  *)
Fixpoint blocks_from (start : nat) (gs : list (option nat * list face)) : list block :=
  match gs with
  | [] => []
  | (None, g) :: r => blocks_from (start + length g) r
  | (Some n, g) :: r => mkBlock n (length g) start :: blocks_from (start + length g) r
  end.

Definition boundary_blocks (faces : list face) : list block :=
  blocks_from 0 (groupby_name faces).

(* len(set(faces['name']) - {None}) *)
Definition face_names (faces : list face) : list nat :=
  flat_map (fun f => match f_name f with Some n => [n] | None => [] end) faces.

Definition declared_blocks (faces : list face) : nat :=
  length (nodup Nat.eq_dec (face_names faces)).
