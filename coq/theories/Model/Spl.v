(* SPL files (io/spl.py, SPL.read) as lines of numbers.  Header 'C pardim physdim 0' (the letter is modelled by its
   character code 67), one order per line, one coefficient count per line, the accuracy line (skipped), the knots of each
   direction one per line, then physdim * prod(ncoeffs) coefficients one per line, which the reader turns into the control
   net with  cpts.reshape(physdim, *ncoeffs[::-1]).transpose().  Text parsing (int(), float(), comments) is outside the
   model.  Definitions only. *)
From Coq Require Import List Arith ZArith Bool.
From SplipyModel Require Import Model.Num Model.BasisDef Model.Tensor Model.Obj Model.WF Model.G2.
Import ListNotations.

Section Model.
  Context {F : Type} `{Num F}.

  Definition spl_letter_C : nat := 67.   (* ord('C') *)
  Definition spl_prod (l : list nat) : nat := fold_right Nat.mul 1%nat l.

  (* ---------- the control net ---------- *)
  (* numpy: C-order reshape of the flat data to (physdim, n_{pd-1}, ..., n_0) followed by the full transpose, is the
     array of shape (n_0, ..., n_{pd-1}, physdim) whose entry at a multi-index is the flat entry at the reversed
     multi-index: this is [f2c] on the extended shape.  The model's control net is that array cut into points. *)
  Definition spl_cps {A} (dflt : A) (physdim : nat) (shape : list nat) (vals : list A) : list (list A) :=
    let arr := f2c dflt (shape ++ [physdim]) vals in
    map (fun g => chunk physdim g arr) (seq 0 (spl_prod shape)).

  (* the same map written out: component c of the control point with C-order flat index g (multi-index
     unravel shape g = (i_0, ..., i_{pd-1})) is the coefficient number  c*N + ravel (n_{pd-1},...,n_0) (i_{pd-1},...,i_0) *)
  Definition spl_index (shape : list nat) (g c : nat) : nat :=
    (c * spl_prod shape + ravel (rev shape) (rev (unravel shape g)))%nat.
  (* and its inverse: which (control point, component) the k-th coefficient of the file is *)
  Definition spl_point_of (shape : list nat) (k : nat) : nat :=
    ravel shape (rev (unravel (rev shape) (k mod spl_prod shape))).
  Definition spl_comp_of (shape : list nat) (k : nat) : nat := (k / spl_prod shape)%nat.

  (* an independent writer of the coefficient block *)
  Definition spl_coeffs {A} (dflt : A) (physdim : nat) (shape : list nat) (cps : list (list A)) : list A :=
    map (fun k => nth (spl_comp_of shape k) (nth (spl_point_of shape k) cps []) dflt) (seq 0 (physdim * spl_prod shape)).

  (* ---------- writer ---------- *)
  Definition spl_lines (acc : F) (o : obj F) : list (list F) :=
    [nofnat spl_letter_C; nofnat (length (o_bases o)); nofnat (o_dim o); n0] ::
    map (fun b => [nofnat (b_order b)]) (o_bases o) ++
    map (fun b => [nofnat (b_nfun b)]) (o_bases o) ++
    [[acc]] ++
    flat_map (fun b => map (fun k => [k]) (b_knots b)) (o_bases o) ++
    map (fun v => [v]) (spl_coeffs n0 (o_dim o) (o_shape o) (o_cps o)).

  (* the format has no rational and no periodic objects *)
  Definition spl_encode (acc : F) (o : obj F) : option (list (list F)) :=
    if o_rat o || existsb (fun b => negb (b_per1 b =? 0)%nat) (o_bases o) then None else Some (spl_lines acc o).

  (* ---------- reader ---------- *)
  (* islice(lines, n) with one number per line; running out of lines is an error in the model *)
  Fixpoint spl_take (n : nat) (lines : list (list F)) : option (list F * list (list F)) :=
    match n with
    | O => Some ([], lines)
    | S n' =>
      match lines with
      | [x] :: rest => match spl_take n' rest with Some (xs, r) => Some (x :: xs, r) | None => None end
      | _ => None
      end
    end.
  Fixpoint spl_nats (l : list F) : option (list nat) :=
    match l with
    | [] => Some []
    | x :: l' => match to_nat x, spl_nats l' with Some n, Some ns => Some (n :: ns) | _, _ => None end
    end.
  Fixpoint spl_take_knots (nk : list nat) (lines : list (list F)) : option (list (list F) * list (list F)) :=
    match nk with
    | [] => Some ([], lines)
    | n :: nk' =>
      match spl_take n lines with
      | Some (k, rest) => match spl_take_knots nk' rest with Some (ks, r) => Some (k :: ks, r) | None => None end
      | None => None
      end
    end.
  (* [BSplineBasis(p, kts, -1) for p, kts in zip(orders, knots)] *)
  Fixpoint spl_bases (tol : F) (orders : list nat) (knots : list (list F)) : option (list (basis F)) :=
    match orders, knots with
    | p :: ps, k :: ks =>
      match basis_ctor tol (Z.of_nat p) k 0, spl_bases tol ps ks with
      | Ok b, Some bs => Some (b :: bs)
      | _, _ => None
      end
    | _, _ => Some []
    end.

  Definition obind {A B} (x : option A) (f : A -> option B) : option B := match x with Some a => f a | None => None end.

  Definition spl_decode (tol : F) (lines : list (list F)) : option (obj F) :=
    match lines with
    | (t :: pd :: dm :: r :: _) :: rest =>
      if neqb t (nofnat spl_letter_C) && neqb r n0 then
        obind (to_nat pd) (fun pardim =>
        obind (to_nat dm) (fun physdim =>
        obind (spl_take pardim rest) (fun '(os, rest1) =>
        obind (spl_nats os) (fun orders =>
        obind (spl_take pardim rest1) (fun '(ns, rest2) =>
        obind (spl_nats ns) (fun ncoeffs =>
        match rest2 with
        | _accuracy :: rest3 =>
          obind (spl_take_knots (map (fun ab => (fst ab + snd ab)%nat) (combine orders ncoeffs)) rest3) (fun '(knots, rest4) =>
          obind (spl_bases tol orders knots) (fun bases =>
          obind (spl_take (spl_prod ncoeffs * physdim) rest4) (fun '(vals, _) =>
          Some (mkObj bases (spl_cps n0 physdim ncoeffs vals) physdim false))))
        | [] => None
        end))))))
      else None
    | _ => None
    end.

  (* the objects the format can hold and the reader's basis constructor accepts *)
  Definition spl_ok (tol : F) (o : obj F) : bool :=
    negb (o_rat o) &&
    forallb (fun b => (b_per1 b =? 0)%nat && (1 <=? b_order b)%nat && (2 * b_order b <=? length (b_knots b))%nat &&
                      ctor_monotone_ok tol (b_knots b)) (o_bases o) &&
    (length (o_cps o) =? spl_prod (o_shape o))%nat &&
    forallb (fun v => (length v =? o_dim o)%nat) (o_cps o).
End Model.
