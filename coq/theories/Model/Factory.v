(* Primitive factories (curve_factory / surface_factory): control-net constructions around the regenerated
   kernels Gen/CircleNets.v, Gen/CircleSegment.v.  Definitions only. *)
From Coq Require Import List Arith ZArith Bool.
From SplipyModel Require Import Model.Num Gen.CircleSegment.
Import ListNotations.

Section Model.
  Context {F : Type} `{Num F}.

  (* circle_segment's loop: for i in range(n): cp += [row(i, t)]; t += dt.
     fc, fs stand for libm's cos and sin; cdt = fc dt *)
  Fixpoint cs_loop (r cdt dt : F) (fc fs : F -> F) (i n : nat) (t : F) : list (list F) :=
    match n with
    | O => []
    | S n' => cs_row r cdt (fc t) (fs t) i :: cs_loop r cdt dt fc fs (S i) n' (cs_next_t t dt)
    end.

  (* the same loop with the cos/sin values supplied as a table (executable correspondence) *)
  Fixpoint cs_loop_tab (r cdt : F) (tab : list (F * F)) (i : nat) : list (list F) :=
    match tab with
    | [] => []
    | (c, s) :: tab' => cs_row r cdt c s i :: cs_loop_tab r cdt tab' (S i)
    end.

  (* surface_factory.revolve about z: profile point P = (X, Y, Z, W) (homogeneous, 3-D), sweep control point
     s = (cx, cy, cw) of the unit circle segment; the profile is rotated by the angle of (cx, cy) and its
     z and weight components are multiplied by cw *)
  Definition revolve_row (s P : list F) : list F :=
    let cx := nth 0 s n0 in let cy := nth 1 s n0 in let cw := nth 2 s n0 in
    [nsub (nmul (nth 0 P n0) cx) (nmul (nth 1 P n0) cy);
     nadd (nmul (nth 0 P n0) cy) (nmul (nth 1 P n0) cx);
     nmul (nth 2 P n0) cw; nmul (nth 3 P n0) cw].
  (* cp[i*n + j]: sweep index i slow, profile index j fast *)
  Definition revolve_cps (prof seg : list (list F)) : list (list F) :=
    flat_map (fun s => map (revolve_row s) prof) seg.

  (* surface_factory.extrude: bottom = profile, top = profile + amount (times the weight when rational) *)
  Definition extrude_pt (dim : nat) (rat : bool) (amount P : list F) : list F :=
    let w := if rat then nth dim P n0 else n1 in
    map (fun c => nadd (nth c P n0) (nmul (nth c amount n0) w)) (seq 0 dim) ++ skipn dim P.
  Definition extrude_cps (dim : nat) (rat : bool) (amount : list F) (prof : list (list F)) : list (list F) :=
    prof ++ map (extrude_pt dim rat amount) prof.
End Model.
