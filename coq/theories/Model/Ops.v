(* A small operation language over objects and its step function (the modelled public operations), so that
   "every reachable object" can be stated as a fold.  Definitions only. *)
From Coq Require Import List ZArith Bool Arith.
From SplipyModel Require Import Model.Num Model.BasisDef Model.Tensor Model.Obj Model.KnotInsert Model.Reparam Model.Affine.
Import ListNotations.

Section Model.
  Context {F : Type} `{Num F}.

  Inductive op :=
  | OpInsert (d : nat) (xs : list F)
  | OpReverse (d : nat)
  | OpSwap (d1 d2 : nat)
  | OpReparam (d : nat) (s e : F)
  | OpTranslate (x : list F)
  | OpScale (s : list F)
  | OpProject (keep : list bool)
  | OpSetDimension (n : nat)
  | OpForceRational.

  Definition step (o : obj F) (a : op) : res (obj F) :=
    match a with
    | OpInsert d xs => if (d <? o_pardim o)%nat then obj_insert_knots o d xs else Err ValueError
    | OpReverse d => if (d <? o_pardim o)%nat then Ok (obj_reverse o d) else Err ValueError
    | OpSwap d1 d2 => if (d1 <? o_pardim o)%nat && (d2 <? o_pardim o)%nat then Ok (obj_swap o d1 d2) else Err ValueError
    | OpReparam d s e => if (d <? o_pardim o)%nat then obj_reparam_dir o d s e else Err ValueError
    | OpTranslate x => obj_translate o x
    | OpScale s => obj_scale o s
    | OpProject keep => Ok (obj_project o keep)
    | OpSetDimension n => Ok (obj_set_dimension o n)
    | OpForceRational => Ok (obj_force_rational o)
    end.

  Fixpoint run (o : obj F) (ops : list op) : res (obj F) :=
    match ops with
    | [] => Ok o
    | a :: rest => match step o a with Err e => Err e | Ok o' => run o' rest end
    end.

  (* shape consistency: one basis per direction is built in; the net has prod(nfun) points of ncomp entries *)
  Definition shape_ok (o : obj F) : Prop :=
    length (o_cps o) = fold_right Nat.mul 1%nat (o_shape o) /\
    Forall (fun v => length v = o_ncomp o) (o_cps o) /\
    (0 < fold_right Nat.mul 1%nat (o_shape o))%nat.
End Model.
