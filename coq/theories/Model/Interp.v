(* Interpolating and fitting factories (curve_factory.interpolate / least_square_fit / cubic_curve,
   surface_factory.interpolate): collocation matrices from the basis evaluation model, exact
   self-checked linear algebra (Model/Solve.v).  Definitions only. *)
From Coq Require Import List Arith ZArith Bool.
From SplipyModel Require Import Model.Num Model.BasisDef Model.BasisEval Model.Tensor Model.Obj Model.Solve.
Import ListNotations.

Section Model.
  Context {F : Type} `{Num F}.

  Definition ident (n : nat) : list (list F) :=
    map (fun i => map (fun j => if (i =? j)%nat then n1 else n0) (seq 0 n)) (seq 0 n).
  Definition transpose (ncol : nat) (A : list (list F)) : list (list F) :=
    map (fun j => map (fun r => nth j r n0) A) (seq 0 ncol).

  Definition shape_b (r c : nat) (A : list (list F)) : bool :=
    (length A =? r)%nat && forallb (fun row => (length row =? c)%nat) A.

  (* np.linalg.inv / spsolve on a square matrix: the candidate is accepted only as a well-shaped two-sided inverse *)
  Definition inverse (A : list (list F)) : res (list (list F)) :=
    let n := length A in
    match solve A (ident n) with
    | Err e => Err e
    | Ok X => if mat_eqb (matmul X A) (ident n) && shape_b n n X then Ok X else Err Singular
    end.
  (* spsolve(A, B): accepted only when well shaped (and A X = B, checked inside solve) *)
  Definition solve_shaped (A B : list (list F)) : res (list (list F)) :=
    match solve A B with
    | Err e => Err e
    | Ok X => if shape_b (length A) (length (hd [] B)) X then Ok X else Err Singular
    end.

  Definition colloc (tol : F) (b : basis F) (d : nat) (ts : list F) : list (list F) :=
    basis_evaluate (b_knots b) (b_order b) (b_per1 b) tol d true ts.

  (* curve_factory.interpolate(x, basis, t) *)
  Definition curve_interpolate (tol : F) (b : basis F) (ts : list F) (x : list (list F)) : res (obj F) :=
    match inverse (colloc tol b 0 ts) with
    | Err e => Err e
    | Ok Ni => Ok (mkObj [b] (matmul Ni x) (length (hd [] x)) false)
    end.

  (* curve_factory.least_square_fit(x, basis, t): normal equations *)
  Definition curve_lsq (tol : F) (b : basis F) (ts : list F) (x : list (list F)) : res (obj F) :=
    let N := colloc tol b 0 ts in
    let Nt := transpose (b_nfun b) N in
    match inverse (matmul Nt N) with
    | Err e => Err e
    | Ok G => Ok (mkObj [b] (matmul G (matmul Nt x)) (length (hd [] x)) false)
    end.

  (* cubic_curve: knot vector and collocation rows per boundary type
     (0 FREE, 1 NATURAL, 2 HERMITE, 4 TANGENT, 5 TANGENTNATURAL; PERIODIC is not modelled) *)
  Fixpoint remove_at {A} (i : nat) (l : list A) : list A :=
    match l, i with
    | [], _ => []
    | _ :: r, O => r
    | a :: r, S i' => a :: remove_at i' r
    end.
  Definition cubic_knots (bt : nat) (t : list F) : list F :=
    let t0 := hd n0 t in let tn := last t n0 in
    let base := repeat t0 3 ++ t ++ repeat tn 3 in
    if (bt =? 0)%nat then remove_at 4 (remove_at (length base - 5) base)
    else if (bt =? 2)%nat then
      repeat t0 4 ++ flat_map (fun x => [x; x]) (removelast (tl t)) ++ repeat tn 4
    else base.
  Definition cubic_system (tol : F) (bt : nat) (t : list F) (x tang : list (list F)) : basis F * list (list F) * list (list F) :=
    let b := mkBasis 4 (cubic_knots bt t) 0 in
    let t0 := hd n0 t in let tn := last t n0 in
    let dimz := repeat n0 (length (hd [] x)) in
    let N := colloc tol b 0 t in
    let D1 := if (bt =? 4)%nat then colloc tol b 1 [t0; tn]
              else if (bt =? 5)%nat then colloc tol b 1 [t0]
              else if (bt =? 2)%nat then colloc tol b 1 t else [] in
    let R1 := if (bt =? 4)%nat || (bt =? 5)%nat || (bt =? 2)%nat then tang else [] in
    let D2 := if (bt =? 1)%nat then colloc tol b 2 [t0; tn]
              else if (bt =? 5)%nat then colloc tol b 2 [tn] else [] in
    let R2 := if (bt =? 1)%nat then [dimz; dimz] else if (bt =? 5)%nat then [dimz] else [] in
    (b, N ++ D1 ++ D2, x ++ R1 ++ R2).
  Definition cubic_curve (tol : F) (bt : nat) (t : list F) (x tang : list (list F)) : res (obj F) :=
    let '(b, A, rhs) := cubic_system tol bt t x tang in
    match solve_shaped A rhs with
    | Err e => Err e
    | Ok cp => Ok (mkObj [b] cp (length (hd [] x)) false)
    end.

  (* surface_factory.interpolate(x, bases, u): x is the flat C-order grid (u slow) *)
  Definition surface_interpolate (tol : F) (bu bv : basis F) (us vs : list F) (x : list (list F)) : res (obj F) :=
    match inverse (colloc tol bu 0 us), inverse (colloc tol bv 0 vs) with
    | Ok Iu, Ok Iv =>
      let dim := length (hd [] x) in
      let shape := [length us; length vs] in
      Ok (mkObj [bu; bv] (apply_dir dim shape 0 Iu (apply_dir dim shape 1 Iv x)) dim false)
    | Err e, _ => Err e
    | _, Err e => Err e
    end.
End Model.
