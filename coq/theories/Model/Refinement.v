(* Transcription of the refinement helpers: splipy/utils/refinement.py  knot_exists (l.12-13), geometric_refine (l.16-66),
   center_refine (l.68-105), edge_refine (l.108-144), and SplineObject.refine (splineobject.py l.695-733).  Definitions only.

   Conventions / what is left out
   * obj.knots()[direction] = BSplineBasis.knot_spans() = [knot_spans tol b false] of Model/KnotInsert.v ([dir_knots]).
   * The two tolerances of np.isclose in knot_exists (atol = 1e-7, rtol = 1e-10) are parameters [atol rtol].
   * [direction] is a nat index; check_direction's other spellings ('u', -1, ...) are not modelled; an index >= pardim is the
     ValueError of check_direction.  [n] is a nat: n <= 0 is n = 0 (negative ints raise the same ValueError).
   * Python float division by 0.0 raises ZeroDivisionError; [err] has no such constructor: it is written [Err Singular].
   * tan / atan of center_refine / edge_refine: a Section variable [phi : F -> F]; the two routines are the same code up to
     phi (phi = tan, S the slope, resp. phi = atan); center_refine's `assert 0 < S < pi/2` (AssertionError) is not modelled, it
     is the hypothesis under which tan is strictly increasing on [-S, S] (Proofs/RefinementProofs.v).
   * All routines mutate obj in place and return it; the model returns the final object.  When an exception is raised half
     way (insert_knot out of range for alpha < 0) Python leaves the object mutated (reversed, or with a basis that already
     holds the knots inserted so far but the old control points): the model returns only the error. *)
From Coq Require Import List ZArith Bool Arith.
From SplipyModel Require Import Model.Num Model.BasisDef Model.BasisEval Model.Tensor Model.Obj Model.KnotInsert Model.Reparam.
Import ListNotations.

Section Model.
  Context {F : Type} `{Num F}.

  (* np.isclose(a, b, atol, rtol) = |a - b| <= atol + rtol * |b|   (a = an existing knot, b = the new knot) *)
  Definition isclose (atol rtol a b : F) : bool := nleb (nabs (nsub a b)) (nadd atol (nmul rtol (nabs b))).
  (* refinement.py l.12-13 *)
  Definition knot_exists (atol rtol : F) (existing : list F) (x : F) : bool :=
    existsb (fun a => isclose atol rtol a x) existing.
  (* `if not knot_exists(knots[direction], k): new_knots.append(k)` over a list of candidates *)
  Definition keep_new (atol rtol : F) (existing cand : list F) : list F :=
    filter (fun x => negb (knot_exists atol rtol existing x)) cand.

  Definition dir_knots (tol : F) (o : obj F) (d : nat) : list F :=
    knot_spans tol (nth d (o_bases o) (mkBasis 0 [] 0)) false.

  (* ---------------- geometric_refine ---------------- *)
  (* l.44-48: for i in range(m): totSum += totProd; totProd *= alpha *)
  Fixpoint geo_sum (alpha : F) (m : nat) (totSum totProd : F) : F :=
    match m with
    | O => totSum
    | S m' => geo_sum alpha m' (nadd totSum totProd) (nmul totProd alpha)
    end.
  (* l.54-59: for i in range(m): k = knot_start + knot*dk; (append); knot += alpha*d1; d1 *= alpha *)
  Fixpoint geo_knots (alpha ks dk : F) (m : nat) (knot d1 : F) : list F :=
    match m with
    | O => []
    | S m' => nadd ks (nmul knot dk) :: geo_knots alpha ks dk m' (nadd knot (nmul alpha d1)) (nmul d1 alpha)
    end.
  (* l.40-59 without the knot_exists filter; n is the user's n (the code redefines n := n+1: n+1 rounds of the first loop, n
     rounds of the second) *)
  Definition geo_candidates (alpha ks ke : F) (n : nat) : res (list F) :=
    let dk := nsub ke ks in
    let totSum := geo_sum alpha (n + 1) n0 n1 in
    if neqb totSum n0 then Err Singular          (* d1 = 1.0 / totSum : ZeroDivisionError *)
    else let d1 := ndiv n1 totSum in Ok (geo_knots alpha ks dk n d1 d1).

  Definition geometric_refine (tol atol rtol : F) (o : obj F) (alpha : F) (n : nat) (d : nat) (reverse : bool) : res (obj F) :=
    if (n =? 0)%nat then Err ValueError                                   (* l.29-30 *)
    else if negb (d <? o_pardim o)%nat then Err ValueError                (* l.32 check_direction *)
    else
      let o1 := if reverse then obj_reverse o d else o in                 (* l.33-34 *)
      let knots := dir_knots tol o1 d in                                  (* l.37 *)
      let ks := hd n0 knots in let ke := last knots n0 in                 (* l.38-39 *)
      match geo_candidates alpha ks ke n with
      | Err e => Err e
      | Ok cand =>
        match obj_insert_knots o1 d (keep_new atol rtol knots cand) with  (* l.56-57, 62 *)
        | Err e => Err e
        | Ok o2 => Ok (if reverse then obj_reverse o2 d else o2)          (* l.64-66 *)
        end
      end.

  (* ---------------- center_refine / edge_refine ---------------- *)
  Section Graded.
    Variable phi : F -> F.      (* math.tan (center_refine) or math.atan (edge_refine) *)
    (* l.95-99 / l.134-138, i = 1..n:  xi = -1.0 + 2.0*i/(n+1); xi *= S; k = knot_start + (phi(xi)+phi(S))/2/phi(S)*dk *)
    Definition graded_knot (S ks dk : F) (n i : nat) : F :=
      let two := nadd n1 n1 in
      let xi := nmul (nadd (nsub n0 n1) (ndiv (nmul two (nofnat i)) (nofnat (n + 1)))) S in
      nadd ks (nmul (ndiv (ndiv (nadd (phi xi) (phi S)) two) (phi S)) dk).
    Definition graded_candidates (S ks ke : F) (n : nat) : list F :=
      map (graded_knot S ks (nsub ke ks) n) (seq 1 n).
    Definition graded_refine (tol atol rtol : F) (o : obj F) (S : F) (n : nat) (d : nat) : res (obj F) :=
      if (n =? 0)%nat then Err ValueError
      else if negb (d <? o_pardim o)%nat then Err ValueError
      else
        let knots := dir_knots tol o d in
        let ks := hd n0 knots in let ke := last knots n0 in
        if neqb (phi S) n0 then Err Singular      (* .../2/max_tan with max_tan = 0.0: ZeroDivisionError (edge_refine, S = 0) *)
        else obj_insert_knots o d (keep_new atol rtol knots (graded_candidates S ks ke n)).
  End Graded.

  (* ---------------- SplineObject.refine ---------------- *)
  (* np.linspace(k0, k1, n+2)[1:-1]: step = (k1-k0)/(n+1); y = arange(n+2)*step + k0 (the overwritten last entry is dropped) *)
  Definition lin_inner (k0 k1 : F) (n : nat) : list F :=
    let step := ndiv (nsub k1 k0) (nofnat (n + 1)) in
    map (fun j => nadd (nmul (nofnat j) step) k0) (seq 1 n).
  (* l.728-730: for (k0,k1) in zip(knots[:-1], knots[1:]): new_knots.extend(...) *)
  Definition refine_new (knots : list F) (n : nat) : list F :=
    flat_map (fun ab => lin_inner (fst ab) (snd ab) n) (combine (removelast knots) (tl knots)).
  (* one round of the loop l.726-731 *)
  Definition obj_refine_dir (tol : F) (o : obj F) (d n : nat) : res (obj F) :=
    obj_insert_knots o d (refine_new (dir_knots tol o d) n).
  Fixpoint obj_refine_zip (tol : F) (o : obj F) (nds : list (nat * nat)) : res (obj F) :=
    match nds with
    | [] => Ok o
    | (n, d) :: rest =>
      match obj_refine_dir tol o d n with
      | Err e => Err e
      | Ok o' => obj_refine_zip tol o' rest
      end
    end.
  (* refine(ns..., direction=None): l.716-726; zip truncates to the shorter of ns / directions; with two or more ns a given
     direction is ignored *)
  Definition obj_refine (tol : F) (o : obj F) (ns : list nat) (direction : option nat) : res (obj F) :=
    let pd := o_pardim o in
    match ns, direction with
    | [n], Some d => if (d <? pd)%nat then obj_refine_zip tol o [(n, d)] else Err ValueError
    | [n], None => obj_refine_zip tol o (combine (repeat n pd) (seq 0 pd))
    | _, _ => obj_refine_zip tol o (combine ns (seq 0 pd))
    end.
End Model.
