(* Spline objects (curves, surfaces, volumes, any pardim): bases + flat control net.
   Transcription of SplineObject._validate_domain / evaluate / derivative (splineobject.py)
   with the tensordot loop read as the tensor-product contraction [teval] (numpy is
   modelled, not verified).  Definitions only. *)
From Coq Require Import List ZArith Bool Arith.
From SplipyModel Require Import Model.Num Model.BasisDef Model.BasisEval Model.Tensor Gen.RatDerivGeneric.
Import ListNotations.

Section Model.
  Context {F : Type} `{Num F}.

  Record basis := mkBasis { b_order : nat; b_knots : list F; b_per1 : nat }.
  Record obj := mkObj { o_bases : list basis; o_cps : list (list F); o_dim : nat; o_rat : bool }.

  Definition b_nfun (b : basis) : nat := (length (b_knots b) - b_order b - b_per1 b)%nat.
  Definition b_start (b : basis) : F := kn (b_knots b) (b_order b - 1).
  Definition b_end (b : basis) : F := kn (b_knots b) (length (b_knots b) - b_order b).
  Definition o_pardim (o : obj) : nat := length (o_bases o).
  Definition o_shape (o : obj) : list nat := map b_nfun (o_bases o).
  Definition o_ncomp (o : obj) : nat := (o_dim o + if o_rat o then 1 else 0)%nat.

  (* _validate_domain for one direction and one parameter: snapped value or ValueError *)
  Definition validate1 (tol : F) (b : basis) (t : F) : res F :=
    let t' := snap1 (b_knots b) tol t in
    if (b_per1 b =? 0)%nat && (nltb t' (b_start b) || nltb (b_end b) t') then Err ValueError else Ok t'.

  Fixpoint validate (tol : F) (bs : list basis) (ts : list F) : res (list F) :=
    match bs with
    | [] => Ok []
    | b :: bs' =>
      match validate1 tol b (hd n0 ts) with
      | Err e => Err e
      | Ok t' => match validate tol bs' (tl ts) with Err e => Err e | Ok r => Ok (t' :: r) end
      end
    end.

  Definition basis_row (tol : F) (b : basis) (d : nat) (from_right : bool) (t : F) : list F :=
    hd [] (basis_evaluate (b_knots b) (b_order b) (b_per1 b) tol d from_right [t]).

  (* rows of basis values/derivatives, one per direction, at one parameter tuple *)
  Definition rows_at (tol : F) (bs : list basis) (ds : list nat) (above : list bool) (ts : list F) : list (list F) :=
    map (fun i => basis_row tol (nth i bs (mkBasis 0 [] 0)) (nth i ds 0%nat) (nth i above true) (nth i ts n0))
        (seq 0 (length bs)).

  (* homogeneous evaluation (before dividing by the weight) *)
  Definition eval_h (tol : F) (o : obj) (ds : list nat) (above : list bool) (ts : list F) : list F :=
    teval (o_ncomp o) (rows_at tol (o_bases o) ds above ts) (o_cps o).

  Definition project_rat (dim : nat) (r : list F) : list F :=
    let w := nth dim r n0 in map (fun x => ndiv x w) (firstn dim r).

  (* SplineObject.evaluate at one parameter tuple *)
  Definition obj_eval (tol : F) (o : obj) (ts : list F) : res (list F) :=
    match validate tol (o_bases o) ts with
    | Err e => Err e
    | Ok ts' =>
      let r := eval_h tol o [] [] ts' in
      Ok (if o_rat o then project_rat (o_dim o) r else r)
    end.

  (* SplineObject.derivative (generic routine): per-direction orders ds, sides above.
     Rational: quotient rule (the generated kernel quot1) for total order 1, plain projection
     for total order 0, RuntimeError above. *)
  Definition obj_deriv (tol : F) (o : obj) (ds : list nat) (above : list bool) (ts : list F) : res (list F) :=
    match validate tol (o_bases o) ts with
    | Err e => Err e
    | Ok ts' =>
      let r := eval_h tol o ds above ts' in
      if o_rat o then
        if (1 <? fold_right Nat.add 0%nat ds)%nat then Err RuntimeError
        else
        if (fold_right Nat.add 0%nat ds =? 0)%nat then Ok (project_rat (o_dim o) r)
        else
          let nd := eval_h tol o [] [] ts' in
          let W := nth (o_dim o) nd n0 in
          let Wd := nth (o_dim o) r n0 in
          Ok (map (fun i => quot1 (nth i r n0) (nth i nd n0) Wd W) (seq 0 (o_dim o)))
      else Ok r
    end.
End Model.
Arguments basis F : clear implicits.
Arguments obj F : clear implicits.
