(* SplineObject.make_splines_identical as repaired: in a periodic direction the end of the domain is the image of its
   start, so the list of knots whose continuity is compared visits the seam once (knot1 = knot1[:-1]); otherwise the seam
   knot was inserted twice into the smoother operand.  Same text as Model/Identical.v with that one change.
   Definitions only. *)
From Coq Require Import List ZArith Bool Arith.
From SplipyModel Require Import Model.Num Model.BasisDef Model.BasisEval Model.Tensor Model.Obj Model.KnotInsert Model.Tol
  Model.Reparam Model.Affine Model.Solve Model.Order Model.Split Model.Periodic Model.Identical.
Import ListNotations.

Section Model.
  Context {F : Type} `{Num F}.

  (* if b1.periodic > -1: knot1 = knot1[:-1] *)
  Definition seam_once (b : basis F) (ks : list F) : list F :=
    if (b_per1 b =? 0)%nat then ks else removelast ks.

  Definition missing_knots2 (tol : F) (p : nat) (b_from b_into : basis F) : res (list F) :=
    fold_left (fun acc k =>
      match acc with
      | Err e => Err e
      | Ok l =>
        match basis_continuity tol b_from k, basis_continuity tol b_into k with
        | Ok c1, Ok c2 => if cont_gt c2 c1 then Ok (l ++ repeat k (ins_count p c1 c2)) else Ok l
        | Err e, _ => Err e
        | _, Err e => Err e
        end
      end) (seam_once b_from (knot_spans tol b_from false)) (Ok []).

  Definition identical_dir2 (tol : F) (o1 o2 : obj F) (i : nat) : res (obj F * obj F) :=
    let '(a0, b0) := obj_compatible o1 o2 in
    match obj_reparam_dir a0 i n0 n1, obj_reparam_dir b0 i n0 n1 with
    | Ok a1, Ok b1 =>
      let dflt := mkBasis 0 [] 0 in
      let pa := b_per1 (nth i (o_bases a1) dflt) in let pb := b_per1 (nth i (o_bases b1) dflt) in
      match (if (pa <? pb)%nat then obj_lower_periodic 64 b1 pa i else Ok b1),
            (if (pb <? pa)%nat then obj_lower_periodic 64 a1 pb i else Ok a1) with
      | Ok b2, Ok a2 =>
        let p1 := b_order (nth i (o_bases a2) dflt) in let p2 := b_order (nth i (o_bases b2) dflt) in
        let p := Nat.max p1 p2 in
        match obj_raise_order tol a2 (unit_vec (o_pardim a2) i (p - p1)), obj_raise_order tol b2 (unit_vec (o_pardim b2) i (p - p2)) with
        | Ok a3, Ok b3 =>
          match missing_knots2 tol p (nth i (o_bases a3) dflt) (nth i (o_bases b3) dflt) with
          | Err e => Err e
          | Ok ins2 =>
            match obj_insert_knots b3 i ins2 with
            | Err e => Err e
            | Ok b4 =>
              match missing_knots2 tol p (nth i (o_bases b4) dflt) (nth i (o_bases a3) dflt) with
              | Err e => Err e
              | Ok ins1 =>
                match obj_insert_knots a3 i ins1 with
                | Err e => Err e
                | Ok a4 => Ok (a4, b4)
                end
              end
            end
          end
        | Err e, _ => Err e
        | _, Err e => Err e
        end
      | Err e, _ => Err e
      | _, Err e => Err e
      end
    | Err e, _ => Err e
    | _, Err e => Err e
    end.

  Fixpoint identical_dirs2 (tol : F) (o1 o2 : obj F) (dirs : list nat) : res (obj F * obj F) :=
    match dirs with
    | [] => Ok (o1, o2)
    | i :: rest =>
      match identical_dir2 tol o1 o2 i with
      | Err e => Err e
      | Ok (a, b) => identical_dirs2 tol a b rest
      end
    end.

  (* direction = None: all directions of the first object *)
  Definition obj_make_identical2 (tol : F) (o1 o2 : obj F) (direction : option nat) : res (obj F * obj F) :=
    let '(a, b) := obj_compatible o1 o2 in
    match direction with
    | Some i => identical_dir2 tol a b i
    | None => identical_dirs2 tol a b (seq 0 (o_pardim a))
    end.
End Model.
