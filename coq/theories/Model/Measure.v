(* BSplineBasis.integrate and SplineObject.center (exact, polynomial).  Definitions only. *)
From Coq Require Import List Arith ZArith Bool.
From SplipyModel Require Import Model.Num Model.BasisDef Model.BasisEval Model.Tensor Model.Obj.
Import ListNotations.

Section Model.
  Context {F : Type} `{Num F}.

  (* integrate(t0, t1): through the basis of one order higher on the knot vector extended by one knot at each end *)
  Definition basis_integrate (tol : F) (b : basis F) (t0 t1 : F) : list F :=
    let k := b_knots b in
    let p := b_order b in
    let t0' := if nltb t0 (b_start b) then b_start b else t0 in
    let t1' := if nltb (b_end b) t1 then b_end b else t1 in
    let kx := hd n0 k :: k ++ [last k n0] in
    let N0 := hd [] (basis_evaluate kx (S p) 0 tol 0 true [t0']) in
    let N1 := hd [] (basis_evaluate kx (S p) 0 tol 0 true [t1']) in
    let m := length N0 in
    let diffs := map (fun j => nsub (nth j N1 n0) (nth j N0 n0)) (seq 0 m) in
    let tail_sum := fun i => fold_left nadd (skipn i diffs) n0 in
    let N := map (fun i => nmul (ndiv (nsub (kn kx (i + p)) (kn kx i)) (nofnat p)) (tail_sum i)) (seq 1 (m - 1)) in
    let per1 := b_per1 b in
    if (per1 =? 0)%nat then N
    else map (fun j => if (j <? per1)%nat then nadd (nth j N n0) (nth (length N - per1 + j) N n0) else nth j N n0)
             (seq 0 (length N - per1)).

  (* center(): contraction with the integrals of the basis functions over the whole domain, divided by the
     parametric size; rational objects are integrated in projective coordinates and projected afterwards *)
  Definition obj_center (tol : F) (o : obj F) : list F :=
    let rows := map (fun b => basis_integrate tol b (b_start b) (b_end b)) (o_bases o) in
    let size := fold_left nmul (map (fun b => nsub (b_end b) (b_start b)) (o_bases o)) n1 in
    let r := map (fun x => ndiv x size) (teval (o_ncomp o) rows (o_cps o)) in
    if o_rat o then project_rat (o_dim o) r else r.
End Model.
