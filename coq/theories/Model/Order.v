(* BSplineBasis.raise_order / lower_order (basis.py) and SplineObject.raise_order (always the implicit,
   Greville-interpolation path: the test that would select raise_order_1D is never true) / lower_order /
   Curve.raise_order (curve.py).  The interpolation is modelled by the exact, self-checking solve of
   Model/Solve.v and applied along one direction at a time.  Definitions only. *)
From Coq Require Import List ZArith Bool Arith.
From SplipyModel Require Import Model.Num Model.BasisDef Model.BasisEval Model.Tensor Model.Obj Model.KnotInsert Model.Tol Model.Solve Model.Interp.
Import ListNotations.

Section Model.
  Context {F : Type} `{Num F}.

  Fixpoint insert_sorted (x : F) (l : list F) : list F :=
    match l with
    | [] => [x]
    | y :: r => if nleb x y then x :: l else y :: insert_sorted x r
    end.
  Definition sort_list (l : list F) : list F := fold_right insert_sorted [] l.

  Fixpoint repeat_list {A} (l : list A) (n : nat) : list A :=
    match n with O => [] | S n' => l ++ repeat_list l n' end.

  Definition basis_raise_order (tol : F) (b : basis F) (amount : nat) : basis F :=
    if (amount =? 0)%nat then b
    else
      let spans := knot_spans tol b true in
      let knots := sort_list (b_knots b ++ repeat_list spans amount) in
      let knots' :=
        if (b_per1 b =? 0)%nat then knots
        else
          let n0' := bisect_left (kn spans) (b_start b) (length spans) in
          let n1' := (length spans - bisect_left (kn spans) (b_end b) (length spans) - 1)%nat in
          (* knots[n0*amount : -n1*amount]; a zero upper offset gives the empty slice *)
          if (n1' * amount =? 0)%nat then []
          else firstn (length knots - n1' * amount - n0' * amount) (skipn (n0' * amount) knots) in
      mkBasis (b_order b + amount) knots' (b_per1 b).

  (* lower_order: multiplicity max(p_new - 1 - continuity, 1) for every distinct knot incl. ghosts;
     periodic bases hit an undefined name (NameError) in the code *)
  Definition basis_lower_order (tol : F) (b : basis F) (amount : nat) : res (basis F) :=
    if (b_order b - amount <? 2)%nat then Err ValueError
    else
      let p := (b_order b - amount)%nat in
      let spans := knot_spans tol b true in
      let step := fun (acc : res (list F)) (x : F) =>
        match acc with
        | Err e => Err e
        | Ok l =>
          match basis_continuity tol b x with
          | Err e => Err e
          | Ok None => Err TypeError                      (* [k] * max(-inf, 1): cannot happen for a knot *)
          | Ok (Some c) => Ok (l ++ repeat x (Z.to_nat (Z.max (Z.of_nat p - 1 - c) 1)))
          end
        end in
      match fold_left step spans (Ok []) with
      | Err e => Err e
      | Ok knots => if (b_per1 b =? 0)%nat then Ok (mkBasis p knots 0) else Err NameError
      end.

  (* the Greville points of a basis and the collocation matrices used by the order-changing routines *)
  Definition greville_pts (b : basis F) : list F := map (greville (b_knots b) (b_order b)) (seq 0 (b_nfun b)).
  (* M = N_new(pts)^-1 N_old(pts), pts the Greville points of the new basis.  The code calls np.linalg.inv
     (SplineObject.raise_order_implicit / lower_order) or spsolve (Curve.raise_order); the model's [inverse]
     accepts its candidate only as a well-shaped two-sided inverse, which is what makes the solution unique. *)
  Definition order_change_matrix (tol : F) (b_old b_new : basis F) : res (list (list F)) :=
    let pts := greville_pts b_new in
    match inverse (colloc tol b_new 0 pts) with
    | Err e => Err e
    | Ok Ai => Ok (matmul Ai (colloc tol b_old 0 pts))
    end.

  Fixpoint obj_change_bases (tol : F) (o : obj F) (d : nat) (news : list (basis F)) : res (obj F) :=
    match news with
    | [] => Ok o
    | bn :: rest =>
      let bo := nth d (o_bases o) (mkBasis 0 [] 0) in
      match order_change_matrix tol bo bn with
      | Err e => Err e
      | Ok M =>
        let cps' := apply_dir (o_ncomp o) (o_shape o) d M (o_cps o) in
        obj_change_bases tol (mkObj (upd (o_bases o) d bn) cps' (o_dim o) (o_rat o)) (S d) rest
      end
    end.

  (* SplineObject.raise_order(raises...) with one amount per direction (Curve.raise_order for pardim 1) *)
  Definition obj_raise_order (tol : F) (o : obj F) (raises : list nat) : res (obj F) :=
    if forallb (fun r => (r =? 0)%nat) raises then Ok o
    else
      (* SplineObject.raise_order (pardim >= 2) first evaluates bases[0].continuity(bases[0].knots[0]), which
         raises ValueError when that knot lies outside a non-periodic domain; the any() stops there *)
      let b0 := nth 0 (o_bases o) (mkBasis 0 [] 0) in
      if negb (o_pardim o =? 1)%nat && (b_per1 b0 =? 0)%nat && nltb (kn (b_knots b0) 0) (b_start b0) then Err ValueError
      else obj_change_bases tol o 0 (map (fun br => basis_raise_order tol (fst br) (snd br)) (combine (o_bases o) raises)).

  Fixpoint all_ok {A} (l : list (res A)) : res (list A) :=
    match l with
    | [] => Ok []
    | Err e :: _ => Err e
    | Ok a :: r => match all_ok r with Err e => Err e | Ok l' => Ok (a :: l') end
    end.

  Definition obj_lower_order (tol : F) (o : obj F) (lowers : list nat) : res (obj F) :=
    if forallb (fun r => (r =? 0)%nat) lowers then Ok o
    else
      match all_ok (map (fun br => basis_lower_order tol (fst br) (snd br)) (combine (o_bases o) lowers)) with
      | Err e => Err e
      | Ok news => obj_change_bases tol o 0 news
      end.
End Model.
