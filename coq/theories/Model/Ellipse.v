(* curve_factory.circle / ellipse / n_gon and the two placement helpers of utils/__init__.py
   (rotate_local_x_axis, flip_and_move_plane_geometry), on top of the existing models of
   SplineObject.scale / rotate / translate (Model/Affine.v), the regenerated circle nets
   (Gen/CircleNets.v) and the regenerated rotation_matrix kernel (Gen/RotationMatrix.v).
   Definitions only.

   Trigonometric oracle (inputs, exactly like Model/Affine.v `obj_rotate`):
     s2            sqrt(2)                                   (circle nets)
     pi            math.pi                                   (knot vectors, n_gon's dt)
     fc fs         libm cos / sin                            (n_gon's vertices)
     cp sp         cos, sin of phi/2,   phi   = atan2(sqrt(normal[0]**2+normal[1]**2), normal[2])
     ct st         cos, sin of theta/2, theta = atan2(normal[1], normal[0])
     ca sa         cos, sin of alpha/2, alpha = rotate_local_x_axis(xaxis, normal) = atan2(x'[1], x'[0]),
                   x' = `local_xaxis` below.
   np.allclose(a, b) is transcribed with its default tolerances as parameters rtol, atol
   (numpy: rtol = 1e-5, atol = 1e-8): all |a_i - b_i| <= atol + rtol * |b_i|.

   Left out: the Curve / BSplineBasis constructors' own validation (the nets built here have the right
   shape by construction), numpy broadcasting errors other than the length test of `normal`, floats. *)
From Coq Require Import List ZArith Bool Arith.
From SplipyModel Require Import Model.Num Model.BasisDef Model.Tensor Model.Obj Model.Affine
  Gen.RotationMatrix Gen.CircleNets.
Import ListNotations.

Section Model.
  Context {F : Type} `{Num F}.

  (* np.allclose(a, b), b already broadcast to the length of a *)
  Definition allclose (rtol atol : F) (a b : list F) : bool :=
    forallb (fun ab => nleb (nabs (nsub (fst ab) (snd ab))) (nadd atol (nmul rtol (nabs (snd ab)))))
            (combine a b).

  Definition zaxis : list F := [n0; n0; n1].
  Definition yaxis : list F := [n0; n1; n0].

  (* utils/__init__.py:131-143 rotate_local_x_axis: the vector x' = xaxis . R1 . R2 with
     R1 = rotation_matrix(-theta, (0,0,1)), R2 = rotation_matrix(-phi, (0,1,0)); (the angle of -theta/2 has
     cosine ct and sine -st; axis / sqrt(axis.axis) = axis for the two coordinate axes).
     The function returns atan2(x'[1], x'[0]); the atan2 is the oracle (ca, sa). Line 137-138: a 2-component
     xaxis is padded with 0. *)
  Definition local_xaxis (xaxis : list F) (cp sp ct st : F) : list F :=
    let xa := if (length xaxis =? 3)%nat then xaxis else [nth 0 xaxis n0; nth 1 xaxis n0; n0] in
    let R1 := rotmat ct (nsub n0 (nmul n0 (nsub n0 st))) (nsub n0 (nmul n0 (nsub n0 st))) (nsub n0 (nmul n1 (nsub n0 st))) in
    let R2 := rotmat cp (nsub n0 (nmul n0 (nsub n0 sp))) (nsub n0 (nmul n1 (nsub n0 sp))) (nsub n0 (nmul n0 (nsub n0 sp))) in
    vecmat (vecmat xa R1 3) R2 3.

  (* utils/__init__.py:145-157 flip_and_move_plane_geometry(obj, center, normal) *)
  Definition flip_and_move (rtol atol : F) (o : obj F) (center normal : list F) (cp sp ct st : F) : res (obj F) :=
    if negb (length normal =? 3)%nat then Err ValueError            (* np.allclose cannot broadcast *)
    else
      do o1 <- (if negb (allclose rtol atol normal zaxis) then
                  do oa <- obj_rotate o cp sp yaxis n1 ;            (* obj.rotate(phi,   (0,1,0)) *)
                  obj_rotate oa ct st zaxis n1                      (* obj.rotate(theta, (0,0,1)) *)
                else Ok o) ;
      if negb (allclose rtol atol center (repeat n0 (length center))) then obj_translate o1 center
      else Ok o1.

  (* knot = np.array([...]) / 4.0 * 2 * pi *)
  Definition circ_knots (pi : F) (ks : list Z) : list F :=
    map (fun z => nmul (nmul (ndiv (nofZ z) (nofZ 4%Z)) (nofZ 2%Z)) pi) ks.

  Inductive ctype := P2C0 | P4C1 | Unknown.

  (* curve_factory.py:140-172: the unplaced unit circle of the requested type *)
  Definition unit_circle (s2 pi : F) (ty : ctype) : res (obj F) :=
    match ty with
    | P2C0 => Ok (mkObj [mkBasis 3 (circ_knots pi [-1; 0; 0; 1; 1; 2; 2; 3; 3; 4; 4; 5]%Z) 1]
                        (circle_net_p2C0 s2) 2 true)
    | P4C1 => Ok (mkObj [mkBasis 5 (circ_knots pi [-1; -1; 0; 0; 0; 1; 1; 1; 2; 2; 2; 3; 3; 3; 4; 4; 4; 5; 5]%Z) 2]
                        (circle_net_p4C1 s2) 2 true)
    | Unknown => Err ValueError
    end.

  (* curve_factory.py:125-176 circle(r, center, normal, type, xaxis) *)
  Definition circle_obj (rtol atol s2 pi : F) (r : F) (center normal : list F) (ty : ctype)
      (ca sa cp sp ct st : F) : res (obj F) :=
    if nleb r n0 then Err ValueError                                  (* 137-138 *)
    else if (length normal <? 3)%nat then Err IndexError              (* rotate_local_x_axis reads normal[2] *)
    else
      do c0 <- unit_circle s2 pi ty ;                                 (* 140-172 *)
      do c1 <- obj_scale c0 [r] ;                                     (* 174  result *= r *)
      do c2 <- obj_rotate c1 ca sa zaxis n1 ;                         (* 175  result.rotate(alpha) *)
      flip_and_move rtol atol c2 center normal cp sp ct st.           (* 176 *)

  (* curve_factory.py:178-194 ellipse(r1, r2, center, normal, type, xaxis).
     Line 191 calls circle(type=type) with all other arguments at their defaults: r = 1, center = (0,0,0),
     normal = (0,0,1), xaxis = (1,0,0); for these arguments every angle is exactly 0 in floating point too
     (atan2(0,0) = atan2(0,1) = 0, cos 0 = 1, sin 0 = 0), so the inner oracle values are the constants 1, 0.
     NOTE: no test on r1, r2 (the docstring promises ValueError for non-positive radii; the code has none). *)
  Definition ellipse_obj (rtol atol s2 pi : F) (r1 r2 : F) (center normal : list F) (ty : ctype)
      (ca sa cp sp ct st : F) : res (obj F) :=
    do c0 <- circle_obj rtol atol s2 pi n1 [n0; n0; n0] zaxis ty n1 n0 n1 n0 n1 n0 ;   (* 191 *)
    if (length normal <? 3)%nat then Err IndexError                   (* rotate_local_x_axis reads normal[2] *)
    else
      do c1 <- obj_scale c0 [r1; r2; n1] ;                            (* 192  result *= [r1,r2,1] *)
      do c2 <- obj_rotate c1 ca sa zaxis n1 ;                         (* 193  result.rotate(alpha) *)
      flip_and_move rtol atol c2 center normal cp sp ct st.           (* 194 *)

  (* curve_factory.py:96-123 n_gon(n, r, center, normal) *)
  Definition ngon_dt (pi : F) (n : nat) : F := ndiv (nmul (nofZ 2%Z) pi) (nofnat n).        (* 114 *)
  Definition ngon_net (pi : F) (fc fs : F -> F) (n : nat) (r : F) : list (list F) :=
    map (fun i => [nmul r (fc (nmul (nofnat i) (ngon_dt pi n))); nmul r (fs (nmul (nofnat i) (ngon_dt pi n)))])
        (seq 0 n).                                                                          (* 116-117 *)
  Definition ngon_knot (n : nat) : list F :=
    [nofZ (-1)%Z] ++ map nofnat (seq 0 n) ++ [nofnat n; nofnat (n + 1)].                    (* 115, 118, 119 *)
  Definition ngon_obj (rtol atol pi : F) (fc fs : F -> F) (n : nat) (r : F) (center normal : list F)
      (cp sp ct st : F) : res (obj F) :=
    if nleb r n0 then Err ValueError                                                        (* 108-109 *)
    else if (n <? 3)%nat then Err ValueError                                                (* 110-111 *)
    else flip_and_move rtol atol (mkObj [mkBasis 2 (ngon_knot n) 1] (ngon_net pi fc fs n r) 2 false)
                       center normal cp sp ct st.                                           (* 120-123 *)
End Model.
