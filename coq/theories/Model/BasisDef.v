(* Polymorphic reference definitions (executable on Q): Cox-de Boor in both
   one-sided variants and the derivative recurrence.  Knots are accessed through a
   knot function nat -> F; [kn] turns a list into such a function (constant
   continuation by the last knot, so a sorted list gives a globally sorted
   function). *)
From Coq Require Import List ZArith Bool Arith.
From SplipyModel Require Import Model.Num.
Import ListNotations.

Section Model.
  Context {F : Type} `{Num F}.

  Definition kn (k : list F) (i : nat) : F := nth i k (last k n0).

  Definition wq (a b t : F) : F := if nltb a b then ndiv (nsub t a) (nsub b a) else n0.
  Definition Bq0 (side : bool) (a b t : F) : F :=
    if side then (if nleb a t && nltb t b then n1 else n0)
    else (if nltb a t && nleb t b then n1 else n0).
  Fixpoint Bq (side : bool) (k : nat -> F) (q i : nat) (t : F) : F :=
    match q with
    | O => Bq0 side (k i) (k (S i)) t
    | S q' => nadd (nmul (wq (k i) (k (i + q' + 1)) t) (Bq side k q' i t))
                   (nmul (nsub n1 (wq (k (i+1)) (k (i + q' + 2)) t)) (Bq side k q' (i+1) t))
    end.

  (* guarded division by a knot difference: x / (b - a), 0 on an empty interval *)
  Definition dq (a b x : F) : F := if nltb a b then ndiv x (nsub b a) else n0.
  (* r-th derivative of the degree-q B-spline i: the standard recurrence *)
  Fixpoint dBq (side : bool) (k : nat -> F) (r q i : nat) (t : F) : F :=
    match r with
    | O => Bq side k q i t
    | S r' =>
      match q with
      | O => n0
      | S q' => nmul (nofnat q)
                  (nsub (dq (k i) (k (i + q)) (dBq side k r' q' i t))
                        (dq (k (i+1)) (k (i + q + 1)) (dBq side k r' q' (i+1) t)))
      end
    end.

  (* finite sum over i in [a, a+n) *)
  Fixpoint sumn (f : nat -> F) (a n : nat) : F :=
    match n with O => n0 | S n' => nadd (f a) (sumn f (S a) n') end.

  (* BSplineBasis.greville(i): knot average *)
  Definition greville (k : list F) (p i : nat) : F :=
    ndiv (sumn (kn k) (S i) (p - 1)) (nofnat (p - 1)).

  (* The property's own reading of a dense evaluation row: column c is the sum of
     all (wrapped) images i = c (mod n) of the r-th derivative of B-spline i. *)
  Definition ref_row (side : bool) (k : list F) (p per1 d : nat) (t : F) : list F :=
    let n_all := (length k - p)%nat in
    let n := (n_all - per1)%nat in
    map (fun c => fold_left (fun acc i => if (i mod n =? c)%nat
                                          then nadd acc (dBq side (kn k) d (p - 1) i t) else acc)
                            (seq 0 n_all) n0) (seq 0 n).
End Model.
