(* Transcription of Surface.const_par_curve (surface.py), after the fix 0e97141 (the interpolating index is wrapped
   in a periodic direction).  Definitions only.

     def const_par_curve(self, knot, direction):
         direction = check_direction(direction, 2)
         b    = self.bases[direction].clone()
         mult = min(b.continuity(knot), b.order-1)
         C    = np.identity(self.shape[direction])
         for i in range(mult):
             C = b.insert_knot(knot) @ C
         i  = max(bisect_left(b.knots, knot) - 1,0)
         if b.periodic > -1:
             i %= b.num_functions()
         cp = np.tensordot(C[i,:], self.controlpoints, axes=(0, direction))
         return Curve(self.bases[1-direction], cp, self.rational)

   numpy is modelled, not verified: [@] is Model/Solve.v matmul, np.identity is Model/Interp.v ident, the tensordot of
   the row C[i,:] with the net along [direction] is apply_dir with the 1 x n matrix [C[i,:]] (the contracted direction
   then has extent 1, which leaves the flat C-order list of the remaining direction). *)
From Coq Require Import List ZArith Bool Arith.
From SplipyModel Require Import Model.Num Model.BasisDef Model.BasisEval Model.Tensor Model.Obj Model.KnotInsert Model.Tol Model.Solve Model.Interp.
Import ListNotations.

Section Model.
  Context {F : Type} `{Num F}.

  (* for i in range(mult): C = b.insert_knot(knot) @ C        (b is the clone, updated in place by insert_knot) *)
  Fixpoint cpc_insert (mult : nat) (b : basis F) (knot : F) (C : list (list F)) : res (basis F * list (list F)) :=
    match mult with
    | O => Ok (b, C)
    | S m =>
      match basis_insert_knot b knot with
      | Err e => Err e
      | Ok (b', Ci) => cpc_insert m b' knot (matmul Ci C)
      end
    end.

  (* mult = min(b.continuity(knot), b.order-1) as the number of loop iterations: np.inf (None) gives order-1,
     range(mult) is empty for mult <= 0 *)
  Definition cpc_mult (b : basis F) (c : option Z) : nat :=
    match c with
    | None => (b_order b - 1)%nat
    | Some z => Z.to_nat (Z.min z (Z.of_nat (b_order b) - 1))
    end.

  Definition const_par_curve (tol : F) (o : obj F) (knot : F) (direction : nat) : res (obj F) :=
    if (2 <=? direction)%nat then Err ValueError                     (* check_direction(direction, 2) *)
    else
      let dflt := mkBasis 0 [] 0 in
      let b := nth direction (o_bases o) dflt in
      match basis_continuity tol b knot with
      | Err e => Err e
      | Ok c =>
        match cpc_insert (cpc_mult b c) b knot (ident (nth direction (o_shape o) 0%nat)) with
        | Err e => Err e
        | Ok (b', C) =>
          (* max(bisect_left(..) - 1, 0): truncated subtraction on nat *)
          let i0 := (py_bisect_left (b_knots b') knot - 1)%nat in
          let i := if (b_per1 b' =? 0)%nat then i0 else (i0 mod b_nfun b')%nat in
          if (length C <=? i)%nat then Err IndexError                 (* C[i,:] *)
          else
            let cp := apply_dir (o_ncomp o) (o_shape o) direction [nth i C []] (o_cps o) in
            Ok (mkObj [nth (1 - direction) (o_bases o) dflt] cp (o_dim o) (o_rat o))
        end
      end.
End Model.
