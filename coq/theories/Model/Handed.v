(* utils.is_right_hand and SplineModel._validate(force_right_hand).  Definitions only.

   is_right_hand(patch, tol = 1e-3):
     param = midpoint of the parametric domain
     volume in 3-D : du, dv, dw first partial derivatives there, each divided by its Euclidean norm,
                     result  dot(dw, cross(du, dv)) >= tol
     surface in 2-D: result  cross(du, dv) >= tol  (scalar cross product) of the normalised du, dv.

   The normalisation needs a square root, which the arithmetic interface [Num] does not have.  The executable
   part is therefore the un-normalised triple product [triple3] (scalar cross product [cross2]) and the test in
   its square-root-free form [right_hand3] / [right_hand2] (compare squares, case distinction on the sign of the
   tolerance); Proofs/HandedProofs.v relates both to the normalised value on R.

   An orientation (Model/Orient.v: direction d of the re-oriented object is direction perm[d] of the original,
   reversed when flip[d]) acts on the tuple of first partial derivatives by [oapply]; its parity [oparity] is the
   number of inversions of perm plus the number of flips, modulo 2 (the formula of harness/complexes.py). *)
From Coq Require Import List Arith ZArith Bool.
From SplipyModel Require Import Model.Num Model.BasisDef Model.Tensor Model.Obj Model.Orient Model.KnotInsert Model.Reparam.
Import ListNotations.

(* ---- parity of a signed permutation (true = odd) ---- *)
Fixpoint inv_head (x : nat) (l : list nat) : bool :=
  match l with [] => false | y :: r => xorb (y <? x)%nat (inv_head x r) end.
Fixpoint perm_odd (p : list nat) : bool :=
  match p with [] => false | x :: r => xorb (inv_head x r) (perm_odd r) end.
Definition flips_odd (f : list bool) : bool := fold_right xorb false f.
Definition oparity (o : orient) : bool := xorb (perm_odd (o_perm o)) (flips_odd (o_flip o)).

(* the two kinds of elementary re-orientation the library offers, as orientations of n directions *)
Definition o_swap (n d1 d2 : nat) : orient := mkOrient (swap_idx 0%nat (seq 0 n) d1 d2) (repeat false n).
Definition o_rev (n d : nat) : orient := mkOrient (seq 0 n) (upd (repeat false n) d true).

(* re-orientation steps: SplineObject.swap(d1, d2) and SplineObject.reverse(d) *)
Inductive rstep := RSwap (d1 d2 : nat) | RRev (d : nat).
Definition step_orient (n : nat) (s : rstep) : orient :=
  match s with RSwap d1 d2 => o_swap n d1 d2 | RRev d => o_rev n d end.
(* the orientation of the object obtained by performing the steps in the given order (the head of the list first):
   a later step acts on the directions of the already re-oriented object, so it composes on the left
   ((l * r).perm[d] = r.perm[l.perm[d]]) *)
Fixpoint steps_orient (n : nat) (w : list rstep) : orient :=
  match w with [] => oident n | s :: r => ocompose (steps_orient n r) (step_orient n s) end.

(* harness/complexes.py reorient(obj, perm, flip): bring direction perm[d] to position d by swaps, for d = 0, 1, ...,
   then reverse the flipped directions *)
Fixpoint reorient_swaps (perm : list nat) (d : nat) (cur : list nat) : list rstep :=
  match perm with
  | [] => []
  | p :: rest =>
    let j := index_of p cur in
    if (j =? d)%nat then reorient_swaps rest (S d) cur
    else RSwap d j :: reorient_swaps rest (S d) (swap_idx 0%nat cur d j)
  end.
Definition reorient_steps (o : orient) : list rstep :=
  reorient_swaps (o_perm o) 0 (seq 0 (length (o_perm o))) ++
  flat_map (fun d => if nth d (o_flip o) false then [RRev d] else []) (seq 0 (length (o_perm o))).

Section Model.
  Context {F : Type} `{Num F}.

  Definition vneg (v : list F) : list F := map nneg v.
  Definition vc (v : list F) (i : nat) : F := nth i v n0.

  Definition dot2 (a b : list F) : F := nadd (nmul (vc a 0) (vc b 0)) (nmul (vc a 1) (vc b 1)).
  Definition dot3 (a b : list F) : F :=
    nadd (nadd (nmul (vc a 0) (vc b 0)) (nmul (vc a 1) (vc b 1))) (nmul (vc a 2) (vc b 2)).
  (* np.cross of two 2-vectors: the scalar a0 b1 - a1 b0 *)
  Definition cross2 (a b : list F) : F := nsub (nmul (vc a 0) (vc b 1)) (nmul (vc a 1) (vc b 0)).
  Definition cross3 (a b : list F) : list F :=
    [ nsub (nmul (vc a 1) (vc b 2)) (nmul (vc a 2) (vc b 1));
      nsub (nmul (vc a 2) (vc b 0)) (nmul (vc a 0) (vc b 2));
      nsub (nmul (vc a 0) (vc b 1)) (nmul (vc a 1) (vc b 0)) ].
  (* np.dot(dw, np.cross(du, dv)) *)
  Definition triple3 (du dv dw : list F) : F := dot3 dw (cross3 du dv).

  Definition osign (o : orient) : F := if oparity o then nneg n1 else n1.

  (* the first partial derivatives of the re-oriented object, from those of the original: entry d is entry
     perm[d], negated when flip[d] *)
  Definition oapply (o : orient) (ds : list (list F)) : list (list F) :=
    map (fun d => let v := nth (nth d (o_perm o) 0%nat) ds [] in if nth d (o_flip o) false then vneg v else v)
        (seq 0 (length (o_perm o))).
  Definition step_apply (s : rstep) (ds : list (list F)) : list (list F) :=
    match s with
    | RSwap d1 d2 => swap_idx [] ds d1 d2
    | RRev d => upd ds d (vneg (nth d ds []))
    end.
  Definition steps_apply (w : list rstep) (ds : list (list F)) : list (list F) :=
    fold_left (fun acc s => step_apply s acc) w ds.

  (* value >= tol for value = t / sqrt N2 with N2 > 0, without the square root; a zero derivative vector makes
     numpy's value nan and the comparison False *)
  Definition ge_scaled (tol t N2 : F) : bool :=
    nltb n0 N2 &&
    (if nleb n0 tol then nleb n0 t && nleb (nmul (nmul tol tol) N2) (nmul t t)
     else nleb n0 t || nleb (nmul t t) (nmul (nmul tol tol) N2)).
  Definition right_hand3 (tol : F) (du dv dw : list F) : bool :=
    ge_scaled tol (triple3 du dv dw) (nmul (nmul (dot3 du du) (dot3 dv dv)) (dot3 dw dw)).
  Definition right_hand2 (tol : F) (du dv : list F) : bool :=
    ge_scaled tol (cross2 du dv) (nmul (dot2 du du) (dot2 dv dv)).

  (* param = tuple((a+b)/2 for a, b in zip(patch.start(), patch.end())) *)
  Definition obj_midpoint (o : obj F) : list F :=
    map (fun b => ndiv (nadd (b_start b) (b_end b)) (nofZ 2)) (o_bases o).

  (* is_right_hand(patch, htol); tol is the knot tolerance of the evaluation *)
  Definition obj_right_hand (tol htol : F) (o : obj F) : res bool :=
    let m := obj_midpoint o in
    if (o_pardim o =? 3)%nat && (o_dim o =? 3)%nat then
      do du <- obj_deriv tol o [1; 0; 0]%nat [] m;
      do dv <- obj_deriv tol o [0; 1; 0]%nat [] m;
      do dw <- obj_deriv tol o [0; 0; 1]%nat [] m;
      Ok (right_hand3 htol du dv dw)
    else if (o_pardim o =? 2)%nat && (o_dim o =? 2)%nat then
      do du <- obj_deriv tol o [1; 0]%nat [] m;
      do dv <- obj_deriv tol o [0; 1]%nat [] m;
      Ok (right_hand2 htol du dv)
    else Err ValueError.

  (* the force_right_hand clause of SplineModel._validate: the indices of the patches that fail the test;
     ValueError when there is one (or when the test itself raises) *)
  Fixpoint left_inds (tol htol : F) (i : nat) (objs : list (obj F)) : res (list nat) :=
    match objs with
    | [] => Ok []
    | p :: r =>
      do b <- obj_right_hand tol htol p;
      do l <- left_inds tol htol (S i) r;
      Ok (if b then l else i :: l)
    end.
  Definition validate_right_hand (tol htol : F) (objs : list (obj F)) : res unit :=
    do l <- left_inds tol htol 0 objs;
    match l with [] => Ok tt | _ => Err ValueError end.
End Model.
