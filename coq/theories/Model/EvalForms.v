(* Calling forms of SplineObject.evaluate (splineobject.py:98-145), expressed through the one-tuple
   evaluation [obj_eval] of Model/Obj.v.  Definitions only.

     evaluate(params.., tensor=True):
        squeeze = all(is_singleton(p)); params = [ensure_listlike(p)]
        if not tensor and len({len(p) for p in params}) != 1: raise ValueError
        self._validate_domain(params..)      # whole lists, direction by direction (zip(bases, params))
        Ns = [b.evaluate(p) ...]            # row i of Ns[d] depends on params[d][i] only
        tensor:      tensordot loop -> result[i0,..,ik] = sum N0[i0,j0]..Nk[ik,jk] cps[j0..jk]
        not tensor:  einsum loop    -> result[i]        = sum N0[i,j0] ..Nk[i,jk]  cps[j0..jk]
        rational division (entrywise); squeeze: reshape to (dim,)

   Every entry of either result is therefore the value of [obj_eval] at one parameter tuple; the result
   array is modelled as the flat list of its points in C order (first direction slowest).  The list-level
   domain check is kept as a separate pass because it is not implied by the per-tuple checks when some
   list is empty (min() of an empty list raises ValueError for a non-periodic direction; an empty list in a
   periodic direction makes the grid empty but the other directions are still checked). *)
From Coq Require Import List ZArith Bool Arith.
From SplipyModel Require Import Model.Num Model.BasisDef Model.BasisEval Model.Tensor Model.Obj.
Import ListNotations.

Section Model.
  Context {F : Type} `{Num F}.

  (* itertools.product in C order: the last list varies fastest *)
  Fixpoint cart (lists : list (list F)) : list (list F) :=
    match lists with
    | [] => [[]]
    | l :: rest => flat_map (fun x => map (cons x) (cart rest)) l
    end.

  (* all results, or the first error *)
  Fixpoint res_seq {A} (l : list (res A)) : res (list A) :=
    match l with
    | [] => Ok []
    | Err e :: _ => Err e
    | Ok a :: r => match res_seq r with Err e => Err e | Ok l' => Ok (a :: l') end
    end.

  (* how the runner is driven: obj_eval at every tuple of a list of tuples *)
  Definition obj_eval_tuples (tol : F) (o : obj F) (tuples : list (list F)) : res (list (list F)) :=
    res_seq (map (obj_eval tol o) tuples).

  (* _validate_domain for one direction and its whole parameter list: snap, then for a non-periodic basis
     min(p) < start or end < max(p) (some snapped parameter outside); min([]) raises ValueError *)
  Definition validate_dir (tol : F) (b : basis F) (ps : list F) : res (list F) :=
    let ps' := map (snap1 (b_knots b) tol) ps in
    if (b_per1 b =? 0)%nat then
      match ps' with
      | [] => Err ValueError
      | _ => if existsb (fun t => nltb t (b_start b) || nltb (b_end b) t) ps' then Err ValueError else Ok ps'
      end
    else Ok ps'.

  (* for b, p in zip(self.bases, params) *)
  Fixpoint validate_lists (tol : F) (bs : list (basis F)) (lists : list (list F)) : res unit :=
    match bs, lists with
    | b :: bs', l :: ls' =>
      match validate_dir tol b l with
      | Err e => Err e
      | Ok _ => validate_lists tol bs' ls'
      end
    | _, _ => Ok tt
    end.

  (* evaluate(l_0, l_1, ..) with tensor=True: the n_0 x n_1 x .. grid of points, flattened in C order *)
  Definition obj_eval_grid (tol : F) (o : obj F) (lists : list (list F)) : res (list (list F)) :=
    match validate_lists tol (o_bases o) lists with
    | Err e => Err e
    | Ok _ => obj_eval_tuples tol o (cart lists)
    end.

  (* the i-th tuple (l_0[i], l_1[i], ..) *)
  Definition diag_tuple (lists : list (list F)) (i : nat) : list F := map (fun l => nth i l n0) lists.

  (* evaluate(l_0, l_1, .., tensor=False): ValueError unless all lists have one common length
     (len({len(p)}) != 1, also for no list at all), then the list-level domain check, then one point per index *)
  Definition obj_eval_pointwise (tol : F) (o : obj F) (lists : list (list F)) : res (list (list F)) :=
    match lists with
    | [] => Err ValueError
    | l0 :: rest =>
      if forallb (fun l => (length l =? length l0)%nat) rest then
        match validate_lists tol (o_bases o) lists with
        | Err e => Err e
        | Ok _ => obj_eval_tuples tol o (map (diag_tuple lists) (seq 0 (length l0)))
        end
      else Err ValueError
    end.

  (* evaluate(u, v, ..) with scalars (also __call__): the grid on singleton lists, reshaped to one point *)
  Definition obj_eval_scalars (tol : F) (o : obj F) (ts : list F) : res (list F) :=
    match obj_eval_grid tol o (map (fun t => [t]) ts) with
    | Err e => Err e
    | Ok [v] => Ok v
    | Ok _ => Err IndexError      (* reshape(dim) of anything but one point; never happens (EvalFormsProofs) *)
    end.

  (* the tuple at a multi-index of the grid *)
  Definition tuple_at (lists : list (list F)) (idx : list nat) : list F :=
    map (fun li => nth (snd li) (fst li) n0) (combine lists idx).
End Model.
