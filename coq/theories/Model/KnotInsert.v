(* Transcription of BSplineBasis.insert_knot (basis.py) and SplineObject.insert_knot / refine
   (splineobject.py).  Definitions only. *)
From Coq Require Import List ZArith Bool Arith.
From SplipyModel Require Import Model.Num Model.BasisDef Model.BasisEval Model.Tensor Model.Obj.
Import ListNotations.

Section Model.
  Context {F : Type} `{Num F}.

  (* Python's bisect_right / bisect_left on the whole list *)
  Definition py_bisect_right (k : list F) (x : F) : nat := bisect_right (kn k) x (length k).
  Definition py_bisect_left (k : list F) (x : F) : nat := bisect_left (kn k) x (length k).

  Fixpoint upd {A} (l : list A) (i : nat) (v : A) : list A :=
    match l with
    | [] => []
    | a :: l' => match i with O => v :: l' | S i' => a :: upd l' i' v end
    end.
  Definition insert_at {A} (l : list A) (i : nat) (v : A) : list A := firstn i l ++ v :: skipn i l.

  (* sequential writes C[r,c] = v into a zero matrix: the last write to a cell wins *)
  Definition lookup_last (asg : list (nat * nat * F)) (r c : nat) : F :=
    fold_left (fun acc a => if (fst (fst a) =? r)%nat && (snd (fst a) =? c)%nat then snd a else acc) asg n0.
  Definition mat_of_writes (rows cols : nat) (asg : list (nat * nat * F)) : list (list F) :=
    map (fun r => map (fun c => lookup_last asg r c) (seq 0 cols)) (seq 0 rows).

  (* wrap a parameter into a periodic domain / reject it outside a non-periodic one *)
  Definition wrap_knot (b : basis F) (x : F) : res F :=
    let s := b_start b in let e := b_end b in
    if negb (b_per1 b =? 0)%nat then
      Ok (if nltb x s || nleb e x then nadd (nfmod (nsub x s) (nsub e s)) s else x)
    else if nltb x s || nltb e x then Err ValueError else Ok x.

  Definition insert_writes (k : list F) (p n mu : nat) (x : F) : list (nat * nat * F) :=
    let K := kn k in
    map (fun i => ((i mod (n + 1))%nat, (i mod n)%nat, n1)) (seq 0 (mu - p))
    ++ flat_map (fun i =>
         [ ((i mod (n + 1))%nat, (i mod n)%nat,
            if nleb (K (i + p - 1)) x && nleb x (K (i + p)) then n1
            else ndiv (nsub x (K i)) (nsub (K (i + p - 1)) (K i)));
           (((i + 1) mod (n + 1))%nat, (i mod n)%nat,
            if nleb (K i) x && nleb x (K (i + 1)) then n1
            else ndiv (nsub (K (i + p)) x) (nsub (K (i + p)) (K (i + 1)))) ])
         (seq (mu - p) p)
    ++ map (fun i => ((i mod (n + 1))%nat, ((i - 1) mod n)%nat, n1)) (seq mu (n + 1 - mu)).

  (* periodic ghost-knot repair after the insertion (in-place loops) *)
  Definition repair_right (k : list F) (m p r : nat) : list F :=
    let k0 := kn k 0 in let k1 := kn k (m - p - r - 1) in
    fold_left (fun kk i => upd kk (m - p - r - 1 + i) (nadd k1 (nsub (kn kk i) k0))) (seq 0 (p + r + 1)) k.
  Definition repair_left (k : list F) (m p r : nat) : list F :=
    let k0 := kn k (p + r) in let k1 := kn k (m - 1) in
    fold_left (fun kk i => upd kk i (nsub k0 (nsub k1 (kn kk (m - p - r - 1 + i))))) (seq 0 (p + r + 1)) k.

  (* BSplineBasis.insert_knot: new basis and the (n+1) x n matrix *)
  Definition basis_insert_knot (b : basis F) (x0 : F) : res (basis F * list (list F)) :=
    match wrap_knot b x0 with
    | Err e => Err e
    | Ok x =>
      let k := b_knots b in let p := b_order b in
      let mu := py_bisect_right k x in
      let n := b_nfun b in
      (* index accesses of the second loop, with Python's short-circuit 'and' *)
      let len := length k in let K := kn k in
      let idx_ok := fun i =>
        (i + p - 1 <? len)%nat
        && (if nleb (K (i + p - 1)) x then (i + p <? len)%nat else true)
        && (if nleb (K i) x then (i + 1 <? len)%nat else true)
        && (if nleb (K i) x && nleb x (K (i + 1)) then true else (i + p <? len)%nat) in
      if negb (forallb idx_ok (seq (mu - p) p)) then Err IndexError
      else
        let C := mat_of_writes (n + 1) n (insert_writes k p n mu x) in
        let k' := insert_at k mu x in
        let k'' :=
          if (b_per1 b =? 0)%nat then k'
          else
            let m := length k' in let r := (b_per1 b - 1)%nat in
            if (mu <=? p + r)%nat then repair_right k' m p r
            else if (m - p - r - 1 <=? mu)%nat then repair_left k' m p r
            else k' in
        Ok (mkBasis p k'' (b_per1 b), C)
    end.

  Definition set_basis (o : obj F) (d : nat) (b : basis F) : obj F :=
    mkObj (upd (o_bases o) d b) (o_cps o) (o_dim o) (o_rat o).

  (* SplineObject.insert_knot(knots, direction): the matrices are applied one after the other *)
  Fixpoint obj_insert_knots (o : obj F) (d : nat) (xs : list F) : res (obj F) :=
    match xs with
    | [] => Ok o
    | x :: xs' =>
      match basis_insert_knot (nth d (o_bases o) (mkBasis 0 [] 0)) x with
      | Err e => Err e
      | Ok (b', C) =>
        let cps' := apply_dir (o_ncomp o) (o_shape o) d C (o_cps o) in
        obj_insert_knots (mkObj (upd (o_bases o) d b') cps' (o_dim o) (o_rat o)) d xs'
      end
    end.

  (* BSplineBasis.knot_spans(include_ghost_knots) *)
  Fixpoint uniq_tol (tol : F) (last : F) (l : list F) : list F :=
    match l with
    | [] => []
    | x :: l' => if nltb tol (nabs (nsub x last)) then x :: uniq_tol tol x l' else uniq_tol tol last l'
    end.
  Definition knot_spans (tol : F) (b : basis F) (ghost : bool) : list F :=
    let k := b_knots b in let p := b_order b in
    if ghost then kn k 0 :: uniq_tol tol (kn k 0) k
    else kn k (p - 1) :: uniq_tol tol (kn k (p - 1))
           (if (p =? 1)%nat then [] (* knots[0:-0] is empty in Python *)
            else firstn (length k - 2 * p + 2) (skipn (p - 1) k)).

  (* the knots refine(n) inserts in one direction: n equally spaced values inside each span *)
  Definition refine_knots (tol : F) (b : basis F) (n : nat) : list F :=
    let sp := knot_spans tol b false in
    flat_map (fun ab => map (fun j => nadd (fst ab) (ndiv (nmul (nofnat j) (nsub (snd ab) (fst ab))) (nofnat (n + 1))))
                            (seq 1 n))
             (combine sp (tl sp)).
End Model.
