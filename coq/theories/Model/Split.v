(* SplineObject.split and BSplineBasis.roll (splineobject.py, basis.py).  The control-net operations
   (taking a slice along a direction, rolling along a direction) are 0/1 matrices applied with
   apply_dir, so that the lifting lemma applies to them.  Definitions only. *)
From Coq Require Import List ZArith Bool Arith.
From SplipyModel Require Import Model.Num Model.BasisDef Model.BasisEval Model.Tensor Model.Obj Model.KnotInsert Model.Tol.
Import ListNotations.

Section Model.
  Context {F : Type} `{Num F}.

  (* rows [a, a+len) of the n x n identity: new[i] = old[a+i] *)
  Definition slice_matrix (n a len : nat) : list (list F) :=
    map (fun i => map (fun j => if (j =? a + i)%nat then n1 else n0) (seq 0 n)) (seq 0 len).
  (* np.roll(cps, -mu, axis): new[i] = old[(i + mu) mod n] *)
  Definition roll_matrix (n mu : nat) : list (list F) :=
    map (fun i => map (fun j => if (j =? (i + mu) mod n)%nat then n1 else n0) (seq 0 n)) (seq 0 n).

  Definition slice_list {A} (l : list A) (a b : nat) : list A := firstn (b - a) (skipn a l).

  (* BSplineBasis.roll(new_start) *)
  Definition basis_roll (b : basis F) (new_start : nat) : basis F :=
    let k := b_knots b in let p := b_order b in let per1 := b_per1 b in
    let n := length k in
    let t1 := nsub (kn k 0) (kn k (n - p - per1)) in
    let left := slice_list k new_start (n - p - per1) in
    let len_left := length left in
    let right := map (fun x => nsub x t1) (slice_list k 0 (n - len_left)) in
    mkBasis p (left ++ right) per1.

  (* insertion of the split values up to multiplicity continuity+1, continuity taken on the ORIGINAL basis *)
  Fixpoint split_insert (tol : F) (b0 : basis F) (o : obj F) (d : nat) (ks : list F) : res (obj F) :=
    match ks with
    | [] => Ok o
    | x :: rest =>
      match basis_continuity tol b0 x with
      | Err e => Err e
      | Ok c =>
        let cont := match c with None => (Z.of_nat (b_order b0) - 1)%Z | Some z => z end in
        match obj_insert_knots o d (repeat x (Z.to_nat (cont + 1))) with
        | Err e => Err e
        | Ok o' => split_insert tol b0 o' d rest
        end
      end
    end.

  Definition obj_along (o : obj F) (d : nat) (bnew : basis F) (M : list (list F)) : obj F :=
    mkObj (upd (o_bases o) d bnew) (apply_dir (o_ncomp o) (o_shape o) d M (o_cps o)) (o_dim o) (o_rat o).

  (* the slicing loop of the non-periodic branch *)
  Fixpoint split_pieces (o : obj F) (d : nat) (st en : F) (ks : list F) (last_knot last_cp : nat) : list (obj F) :=
    let b := nth d (o_bases o) (mkBasis 0 [] 0) in
    let p := b_order b in let k := b_knots b in let n := b_nfun b in
    match ks with
    | [] =>
      [obj_along o d (mkBasis p (skipn last_knot k) 0) (slice_matrix n last_cp (n - last_cp))]
    | x :: rest =>
      if nltb st x && nltb x en then
        let mu := py_bisect_left k x in
        let ncp := (mu - last_knot)%nat in
        obj_along o d (mkBasis p (slice_list k last_knot (mu + p)) 0) (slice_matrix n last_cp ncp)
        :: split_pieces o d st en rest mu (last_cp + ncp)
      else split_pieces o d st en rest last_knot last_cp
    end.

  (* SplineObject.split(knots, direction): a list of pieces; in a periodic direction the object is first
     opened at knots[0] (fuel = number of knots bounds the recursion) *)
  Fixpoint obj_split (fuel : nat) (tol : F) (o : obj F) (d : nat) (ks : list F) : res (list (obj F)) :=
    match fuel with
    | O => Err Fuel
    | S f =>
      let b0 := nth d (o_bases o) (mkBasis 0 [] 0) in
      match split_insert tol b0 o d ks with
      | Err e => Err e
      | Ok so =>
        let b := nth d (o_bases so) (mkBasis 0 [] 0) in
        if negb (b_per1 b =? 0)%nat then
          let mu := py_bisect_left (b_knots b) (hd n0 ks) in
          let br := basis_roll b mu in
          let kk := b_knots br in
          let bopen := mkBasis (b_order b) (firstn (length kk - b_per1 b) kk) 0 in
          let so' := obj_along so d bopen (roll_matrix (b_nfun b) mu) in
          (* the opened object has b_nfun b control points in direction d: the n x n roll keeps them all *)
          match tl ks with
          | [] => Ok [so']
          | rest => obj_split f tol so' d rest
          end
        else Ok (split_pieces so d (b_start b0) (b_end b0) ks 0 0)
      end
    end.
End Model.
