(* Structural well-formedness (executable predicate) and the BSplineBasis constructor checks (basis.py).
   Definitions only. *)
From Coq Require Import List ZArith Bool Arith.
From SplipyModel Require Import Model.Num Model.BasisDef Model.Tensor Model.Obj.
Import ListNotations.

Section Model.
  Context {F : Type} `{Num F}.

  (* BSplineBasis.__init__ error tests, in the order of the code; knot_tolerance = tol.
     periodic has already been clamped to max(periodic, -1): per1 = periodic + 1 *)
  Definition ctor_periodic_ok (tol : F) (p per1 : nat) (k : list F) : bool :=
    if (per1 =? 0)%nat then true
    else
      let kk := (per1 - 1)%nat in let n := length k in
      forallb (fun i =>
        negb (nltb tol (nabs (nsub (nsub (kn k (i + 1)) (kn k i))
                                   (nsub (kn k (n - p - kk + i)) (kn k (n - p - kk - 1 + i)))))))
        (seq 0 (p + kk - 1)).
  Definition ctor_monotone_ok (tol : F) (k : list F) : bool :=
    forallb (fun i => negb (nltb (nsub (kn k (i + 1)) (kn k i)) (nsub n0 tol))) (seq 0 (length k - 1)).
  Definition basis_ctor (tol : F) (p : Z) (k : list F) (per1 : nat) : res (basis F) :=
    if (p <? 1)%Z then Err ValueError
    else if (length k <? 2 * Z.to_nat p)%nat then Err ValueError
    else if negb (ctor_periodic_ok tol (Z.to_nat p) per1 k) then Err ValueError
    else if negb (ctor_monotone_ok tol k) then Err ValueError
    else Ok (mkBasis (Z.to_nat p) k per1).

  (* what C10 calls a well-formed object *)
  Definition wf_basis_b (tol : F) (b : basis F) : bool :=
    (1 <=? b_order b)%nat && (2 * b_order b <=? length (b_knots b))%nat &&
    ctor_monotone_ok tol (b_knots b) && ctor_periodic_ok tol (b_order b) (b_per1 b) (b_knots b) &&
    nltb (b_start b) (b_end b) && (1 <=? b_nfun b)%nat.
  Definition wf_obj_b (tol : F) (o : obj F) : bool :=
    forallb (wf_basis_b tol) (o_bases o) &&
    (length (o_cps o) =? fold_right Nat.mul 1%nat (o_shape o))%nat &&
    forallb (fun v => (length v =? o_ncomp o)%nat) (o_cps o) &&
    (if o_rat o then forallb (fun v => nltb n0 (nth (o_dim o) v n0)) (o_cps o) else true).
End Model.
