(* The extended operation language: the nine operations of Model/Ops.v (one constructor, [step] is reused) plus the
   order-changing, splitting, section, rotation/mirror, periodicity and two-operand operations, so that "every object
   reachable by a history of public operations" can be stated for a much larger part of the API.  Definitions only.

   There is no model of a "derivative spline" operation (Model/Deriv.v models the point-wise derivative only), so the
   language has no constructor for it. *)
From Coq Require Import List ZArith Bool Arith.
From SplipyModel Require Import Model.Num Model.BasisDef Model.BasisEval Model.Tensor Model.Obj Model.KnotInsert Model.Reparam
  Model.Affine Model.Tol Model.Solve Model.Interp Model.Order Model.Split Model.Section Model.Periodic Model.Identical Model.Append
  Model.Ops.
Import ListNotations.

Section Model.
  Context {F : Type} `{Num F}.

  Inductive op2 :=
  | OpOld (a : @op F)                                   (* insert / reverse / swap / reparam / translate / scale / project /
                                                          set_dimension / force_rational *)
  | OpRaise (amounts : list nat)                        (* raise_order(amounts...) *)
  | OpLowerOrder (amounts : list nat)                   (* lower_order(amounts...) *)
  | OpSplitPick (d : nat) (ks : list F) (idx : nat)     (* split(ks, d)[idx]: the history continues with piece idx *)
  | OpSection (sels : list nat)                         (* section(...): 0 = first index, 1 = last index, other = free *)
  | OpRotate (ch sh : F) (normal : list F) (inv : F)    (* rotate(theta, normal); ch, sh = cos, sin(theta/2), inv = 1/|normal| *)
  | OpMirror (normal : list F) (inv : F)                (* mirror(normal); inv = 1/|normal| *)
  | OpMakePeriodic (cont : Z) (d : nat)                 (* make_periodic(cont, d) *)
  | OpLowerPeriodic (per1_target : nat) (d : nat)       (* lower_periodic(per1_target - 1, d) *)
  | OpAppend (o2 : obj F)                               (* Curve.append(o2) *)
  | OpMakeIdentical (o2 : obj F) (direction : option nat). (* make_splines_identical(self, o2, direction); continue with self *)

  (* check_section pads the selectors with None up to the parametric dimension; more selectors than directions index a
     non-existing axis *)
  Definition pad_sels (n : nat) (sels : list nat) : list nat := sels ++ repeat 2%nat (n - length sels).

  Definition step2 (tol : F) (o : obj F) (a : op2) : res (obj F) :=
    match a with
    | OpOld a' => step o a'
    | OpRaise am => obj_raise_order tol o am
    | OpLowerOrder am => obj_lower_order tol o am
    | OpSplitPick d ks idx =>
      if (d <? o_pardim o)%nat then
        match obj_split (S (length ks)) tol o d ks with
        | Err e => Err e
        | Ok ps => match nth_error ps idx with Some p => Ok p | None => Err IndexError end
        end
      else Err ValueError
    | OpSection sels =>
      if (o_pardim o <? length sels)%nat then Err IndexError else Ok (obj_section o (pad_sels (o_pardim o) sels))
    | OpRotate ch sh normal inv => obj_rotate o ch sh normal inv
    | OpMirror normal inv => obj_mirror o normal inv
    | OpMakePeriodic cont d => if (d <? o_pardim o)%nat then obj_make_periodic o cont d else Err ValueError
    | OpLowerPeriodic t d => if (d <? o_pardim o)%nat then obj_lower_periodic 64 o t d else Err ValueError
    | OpAppend o2 => if (o_pardim o =? 1)%nat && (o_pardim o2 =? 1)%nat then obj_append tol o o2 else Err ValueError
    | OpMakeIdentical o2 dir =>
      match obj_make_identical tol o o2 dir with Err e => Err e | Ok ab => Ok (fst ab) end
    end.

  Fixpoint run2 (tol : F) (o : obj F) (ops : list op2) : res (obj F) :=
    match ops with
    | [] => Ok o
    | a :: rest => match step2 tol o a with Err e => Err e | Ok o' => run2 tol o' rest end
    end.

  (* every intermediate object of a history (the start object first) *)
  Fixpoint trace2 (tol : F) (o : obj F) (ops : list op2) : list (obj F) :=
    o :: match ops with
         | [] => []
         | a :: rest => match step2 tol o a with Err _ => [] | Ok o' => trace2 tol o' rest end
         end.
End Model.
