(* splipy/state.py: six module-level settings and the state() context manager (after the repair in /repo:
   the restore runs in a finally clause).  Programs over the settings: assignments, nested with-blocks,
   exceptions, library calls (which have an empty write set: tied to the code by the settings monitor of
   the harness).  Definitions only. *)
From Coq Require Import List Bool Arith.
Import ListNotations.

Section Model.
  Variable V : Type.

  (* settings: attribute index -> value.  Indices 0..5 are the names in state.states; larger indices stand
     for any other module attribute a caller may pass as keyword (never saved or restored by state()) *)
  Definition settings := nat -> V.
  Definition NSTATES := 6.
  Definition supd (s : settings) (k : nat) (v : V) : settings := fun j => if (j =? k)%nat then v else s j.

  Inductive prog :=
  | Assign (k : nat) (v : V)
  | With (kvs : list (nat * V)) (body : prog)
  | Seq (p q : prog)
  | Raise
  | Skip
  | Call (api : nat).

  Inductive outcome := Normal | Exc.

  Definition set_all (s : settings) (kvs : list (nat * V)) : settings :=
    fold_left (fun s' kv => supd s' (fst kv) (snd kv)) kvs s.
  (* for k, v in before.items(): setattr(module, k, v)   -- the six saved names, in order *)
  Definition restore (before s : settings) : settings :=
    fold_left (fun s' k => supd s' k (before k)) (seq 0 NSTATES) s.

  Fixpoint exec (p : prog) (s : settings) : settings * outcome :=
    match p with
    | Assign k v => (supd s k v, Normal)
    | With kvs body =>
      let before := s in
      let r := exec body (set_all s kvs) in
      (restore before (fst r), snd r)                 (* try: yield  finally: restore *)
    | Seq p q =>
      let r := exec p s in
      match snd r with Normal => exec q (fst r) | Exc => r end
    | Raise => (s, Exc)
    | Skip => (s, Normal)
    | Call _ => (s, Normal)
    end.

  (* the generator-based code before the repair: no restore when the body raises *)
  Fixpoint exec_old (p : prog) (s : settings) : settings * outcome :=
    match p with
    | Assign k v => (supd s k v, Normal)
    | With kvs body =>
      let before := s in
      let r := exec_old body (set_all s kvs) in
      match snd r with Normal => (restore before (fst r), Normal) | Exc => r end
    | Seq p q =>
      let r := exec_old p s in
      match snd r with Normal => exec_old q (fst r) | Exc => r end
    | Raise => (s, Exc)
    | Skip => (s, Normal)
    | Call _ => (s, Normal)
    end.

  (* keys written by assignments that are not inside a with-block *)
  Fixpoint top_assigned (p : prog) : list nat :=
    match p with
    | Assign k _ => [k]
    | Seq p q => top_assigned p ++ top_assigned q
    | With kvs body => filter (fun k => (NSTATES <=? k)%nat) (map fst kvs ++ top_assigned_any body)
    | _ => []
    end
  with top_assigned_any (p : prog) : list nat :=
    match p with
    | Assign k _ => [k]
    | Seq p q => top_assigned_any p ++ top_assigned_any q
    | With kvs body => map fst kvs ++ top_assigned_any body
    | _ => []
    end.
End Model.
Arguments Assign {V}. Arguments With {V}. Arguments Seq {V}. Arguments Raise {V}. Arguments Skip {V}. Arguments Call {V}.
