(* Mesh export of TWO structured trilinear patches glued along one face: the branch
     if bdnode.nhigher == 1: faces['neighbor'] = -1
     else: neighbor = next(c for c in bdnode.higher_nodes[3] if c is not self)
           nb_index = neighbor.lower_nodes[2].index(bdnode); nb_sec = section_from_index(3, 2, nb_index)
           nb_obj = neighbor.obj.section( *nb_sec )
           ori = Orientation.compute(bdnode.obj, nb_obj)
           cellidxs = neighbor.cell_numbers[_section_to_index(nb_sec)]
           faces['neighbor'] = ori.map_array(cellidxs).flatten()
   of TopologicalNode.faces, together with `if bdnode.owner is not self: continue` (/repo/splipy/splinemodel.py).
   Patch A (cell shape shA, cells numbered from startA) owns the interface node: it is its face (dA, sideA)
   (sideA = false: index 0, true: index -1).  The interface node was created from A's own section, so bdnode.obj is
   A's face in A's frame: its two directions are the two directions of A other than dA, in increasing order.  Patch B
   (shB, startB) sees the same node as its face (dB, sideB); nb_obj has B's two remaining directions in increasing
   order.  ori is a signed permutation of two directions: perm = (1,0) if swap else (0,1), flip = (flip0, flip1); the
   index map of map_array is Model/Orient.v osrc.
   Definitions only (executable): nat / Z / bool / list. *)
From Coq Require Import List Arith Bool ZArith.
From SplipyModel Require Import Model.Faces Model.Orient.
Import ListNotations.

(* ---------- faces of a patch as two-dimensional arrays ---------- *)

(* the two directions other than d, in increasing order (the directions of obj.section(...) and of
   array[_section_to_index(sec)]) *)
Definition lo_ax (d : nat) : nat := match d with 0 => 1 | _ => 0 end.
Definition hi_ax (d : nat) : nat := match d with 0 => 2 | 1 => 2 | _ => 1 end.
(* the in-face part of a 3-d multi-index or shape *)
Definition inface (d : nat) (p : idx3) : list nat := [get (lo_ax d) p; get (hi_ax d) p].
Definition face_shape (sh : idx3) (d : nat) : list nat := inface d sh.
(* the 3-d multi-index with value z in direction d and in-face part p *)
Definition put (d z : nat) (p : list nat) : idx3 :=
  let a := nth 0 p 0 in let b := nth 1 p 0 in match d with 0 => (z, a, b) | 1 => (a, z, b) | _ => (a, b, z) end.
(* the index selected by 0 / -1 along an axis of length n *)
Definition side_index (n : nat) (side : bool) : nat := if side then n - 1 else 0.
(* the layer of cells of a patch touching its face (d, side) *)
Definition layer (sh : idx3) (d : nat) (side : bool) : nat := side_index (get d sh) side.

(* all multi-indices of a 2-d array of the given shape, in C order (.flatten()) *)
Definition grid2 (shape : list nat) : list (list nat) :=
  flat_map (fun i => map (fun j => [i; j]) (seq 0 (nth 1 shape 0))) (seq 0 (nth 0 shape 0)).

(* ---------- the gluing ---------- *)

Record gluing := mkGluing {
  g_shA : idx3; g_startA : nat; g_dA : nat; g_sideA : bool;     (* the owner patch and its face *)
  g_shB : idx3; g_startB : nat; g_dB : nat; g_sideB : bool;     (* the neighbour patch and its face *)
  g_swap : bool; g_flip0 : bool; g_flip1 : bool                 (* ori = Orientation.compute(bdnode.obj, nb_obj) *)
}.

Definition face_orient (g : gluing) : orient :=
  mkOrient (if g_swap g then [1; 0] else [0; 1]) [g_flip0 g; g_flip1 g].

(* Orientation.compute succeeds only if cps_b.transpose(perm).shape == cps_a.shape; on cell shapes (= control point
   shape minus one in every direction) this reads: *)
Definition conform (g : gluing) : bool :=
  list_eq_dec_b (oshape (face_orient g) (face_shape (g_shB g) (g_dB g))) (face_shape (g_shA g) (g_dA g)).

(* cellidxs = neighbor.cell_numbers[_section_to_index(nb_sec)]: entry q of that 2-d array *)
Definition section_cell (g : gluing) (q : list nat) : nat :=
  cell_number (g_startB g) (g_shB g) (put (g_dB g) (layer (g_shB g) (g_dB g) (g_sideB g)) q).

(* ori.map_array(cellidxs).flatten(): the result has shape oshape, its entry p is the entry osrc p of cellidxs *)
Definition mapped_neighbors (g : gluing) : list nat :=
  let shapeB := face_shape (g_shB g) (g_dB g) in
  map (fun p => section_cell g (osrc (face_orient g) shapeB p)) (grid2 (oshape (face_orient g) shapeB)).

(* the boundary faces of Faces.v with an arbitrary neighbour column (boundary_faces is the case nb = all None) *)
Definition boundary_faces_nb (start : nat) (sh : idx3) (d : nat) (upper : bool) (nb : list (option nat)) : list face :=
  let cps := cpshape sh in
  let s := if upper then s_last else s_first in
  let l0 := take_idx cps (mkindex d s s_init s_init) in
  let l1 := take_idx cps (mkindex d s s_tail s_init) in
  let l2 := take_idx cps (mkindex d s s_tail s_tail) in
  let l3 := take_idx cps (mkindex d s s_init s_tail) in
  let ow := map (cell_number start sh) (take_idx sh (mkindex d s s_all s_all)) in
  if upper then zip_faces l0 l1 l2 l3 ow nb else zip_faces l0 l3 l2 l1 ow nb.

(* the faces A exports for the interface: nodes and owner exactly as for any of its boundaries (A's frame, node swap
   at index 0), neighbour = B's cell numbers mapped into A's frame *)
Definition interface_faces (g : gluing) : list face :=
  boundary_faces_nb (g_startA g) (g_shA g) (g_dA g) (g_sideA g) (map (@Some nat) (mapped_neighbors g)).

(* the face list of a patch whose boundary (dX, sideX) is exported as `repl` instead *)
Definition dir_faces_repl (start : nat) (sh : idx3) (dX : nat) (sideX : bool) (repl : list face) (d : nat) : list face :=
  internal_faces start sh d
  ++ (if (d =? dX) && negb sideX then repl else boundary_faces start sh d false)
  ++ (if (d =? dX) && sideX then repl else boundary_faces start sh d true).
Definition patch_faces_repl (start : nat) (sh : idx3) (dX : nat) (sideX : bool) (repl : list face) : list face :=
  flat_map (dir_faces_repl start sh dX sideX repl) [0; 1; 2].

(* A: the interface is exported with B's cells as neighbours; B: `if bdnode.owner is not self: continue` *)
Definition facesA (g : gluing) : list face :=
  patch_faces_repl (g_startA g) (g_shA g) (g_dA g) (g_sideA g) (interface_faces g).
Definition facesB (g : gluing) : list face :=
  patch_faces_repl (g_startB g) (g_shB g) (g_dB g) (g_sideB g) [].
(* SplineModel.faces: chain.from_iterable(node.faces() for node in top_nodes()) *)
Definition model_faces (g : gluing) : list face := facesA g ++ facesB g.

(* ---------- vocabulary of the specification (executable as well) ---------- *)

Definition wf_gluing (g : gluing) : Prop :=
  g_dA g < 3 /\ g_dB g < 3 /\ pos_shape (g_shA g) /\ pos_shape (g_shB g) /\ conform g = true.

(* the two blocks of cell numbers do not overlap (generate_cell_numbers hands out consecutive blocks) *)
Definition disjoint_numbers (g : gluing) : Prop :=
  g_startA g + ncells (g_shA g) <= g_startB g \/ g_startB g + ncells (g_shB g) <= g_startA g.

(* cell c of a patch lies in the layer touching face (d, side) *)
Definition on_layer (sh : idx3) (d : nat) (side : bool) (c : idx3) : bool :=
  if side then S (get d c) =? get d sh else get d c =? 0.

(* the forward index map of an orientation: the entry q of the mapped array lands at entry odst q of map_array's
   result (osrc (odst q) = q) *)
Definition odst (o : orient) (shape q : list nat) : list nat :=
  map (fun d => let e := nth d (o_perm o) 0 in
                if nth d (o_flip o) false then nth e shape 0 - 1 - nth e q 0 else nth e q 0)
      (seq 0 (length (o_perm o))).

(* Geometry.  A's control point (i,j,k) sits at the lattice point (i,j,k) of Z^3 (Faces.v zpt).  Orientation.compute
   established: the control point R of A's face coincides with the control point osrc R of B's face (arrays of
   control points: shapes are cell shapes plus one).  B is a lattice block as well, so this determines where all its
   control points are: the point with in-face part r and t steps away from the interface sits at in-face position
   odst r, t steps beyond A's face. *)
Definition zput (d : nat) (z a b : Z) : vec := match d with 0 => (z, a, b) | 1 => (a, z, b) | _ => (a, b, z) end.
Definition embB (g : gluing) (P : idx3) : vec :=
  let r := odst (face_orient g) (face_shape (cpshape (g_shB g)) (g_dB g)) (inface (g_dB g) P) in
  let t := if g_sideB g then (Z.of_nat (get (g_dB g) (g_shB g)) - Z.of_nat (get (g_dB g) P))%Z
           else Z.of_nat (get (g_dB g) P) in
  zput (g_dA g) (if g_sideA g then (Z.of_nat (get (g_dA g) (g_shA g)) + t)%Z else (- t)%Z)
       (Z.of_nat (nth 0 r 0)) (Z.of_nat (nth 1 r 0)).

(* the eight corners of the unit lattice cube with lowest corner x *)
Definition zcorners (x : vec) : list vec :=
  let '(a, b, c) := x in
  flat_map (fun i => flat_map (fun j => map (fun k => (i, j, k)) [c; (c + 1)%Z]) [b; (b + 1)%Z]) [a; (a + 1)%Z].
(* the lattice cube on the other side of A's face (dA, sideA) from A's cell a *)
Definition across (g : gluing) (a : idx3) : vec :=
  let '(x, y, z) := zpt a in
  let s := if g_sideA g then 1%Z else (-1)%Z in
  match g_dA g with 0 => ((x + s)%Z, y, z) | 1 => (x, (y + s)%Z, z) | _ => (x, y, (z + s)%Z) end.

(* a face joining the cells numbered n and m, in either role *)
Definition joins (n m : nat) (f : face) : bool :=
  match neighbor f with
  | Some k => ((owner f =? n) && (k =? m)) || ((owner f =? m) && (k =? n))
  | None => false
  end.
