(* Further interpolating / fitting factories:
     volume_factory.interpolate, surface_factory.least_square_fit, volume_factory.least_square_fit,
     curve_factory.cubic_curve with Boundary.PERIODIC, curve_factory.manipulate (expressions of x and t).
   Same conventions as Model/Interp.v (collocation by the basis evaluation model, self-checked linear algebra).
   Definitions only. *)
From Coq Require Import List Arith ZArith Bool.
From SplipyModel Require Import Model.Num Model.BasisDef Model.BasisEval Model.Tensor Model.Obj Model.Solve Model.Interp Model.Loft.
Import ListNotations.

Section Model.
  Context {F : Type} `{Num F}.

  (* volume_factory.interpolate(x, bases, u): x is the flat C-order grid (u slowest, w fastest);
     N_all.reverse(); for N in N_all: cp = tensordot(inv(N), cp, axes=(1,2)) *)
  Definition volume_interpolate (tol : F) (bu bv bw : basis F) (us vs ws : list F) (x : list (list F)) : res (obj F) :=
    match inverse (colloc tol bw 0 ws), inverse (colloc tol bv 0 vs), inverse (colloc tol bu 0 us) with
    | Ok Iw, Ok Iv, Ok Iu =>
      let dim := length (hd [] x) in
      let shape := [length us; length vs; length ws] in
      Ok (mkObj [bu; bv; bw] (apply_dir dim shape 0 Iu (apply_dir dim shape 1 Iv (apply_dir dim shape 2 Iw x))) dim false)
    | Err e, _, _ => Err e
    | _, Err e, _ => Err e
    | _, _, Err e => Err e
    end.

  (* surface_factory.least_square_fit(x, bases, u):
       for N in reversed: cp = tensordot(N.T, cp, (1,1));  for N in reversed: cp = tensordot(inv(N.T @ N), cp, (1,1)) *)
  Definition surface_lsq (tol : F) (bu bv : basis F) (us vs : list F) (x : list (list F)) : res (obj F) :=
    let Nu := colloc tol bu 0 us in let Nv := colloc tol bv 0 vs in
    let nu := b_nfun bu in let nv := b_nfun bv in
    let NuT := transpose nu Nu in let NvT := transpose nv Nv in
    match inverse (matmul NvT Nv), inverse (matmul NuT Nu) with
    | Ok Gv, Ok Gu =>
      let dim := length (hd [] x) in
      let y1 := apply_dir dim [length us; length vs] 1 NvT x in
      let y2 := apply_dir dim [length us; nv] 0 NuT y1 in
      let y3 := apply_dir dim [nu; nv] 1 Gv y2 in
      Ok (mkObj [bu; bv] (apply_dir dim [nu; nv] 0 Gu y3) dim false)
    | Err e, _ => Err e
    | _, Err e => Err e
    end.

  (* volume_factory.least_square_fit *)
  Definition volume_lsq (tol : F) (bu bv bw : basis F) (us vs ws : list F) (x : list (list F)) : res (obj F) :=
    let Nu := colloc tol bu 0 us in let Nv := colloc tol bv 0 vs in let Nw := colloc tol bw 0 ws in
    let nu := b_nfun bu in let nv := b_nfun bv in let nw := b_nfun bw in
    let NuT := transpose nu Nu in let NvT := transpose nv Nv in let NwT := transpose nw Nw in
    match inverse (matmul NwT Nw), inverse (matmul NvT Nv), inverse (matmul NuT Nu) with
    | Ok Gw, Ok Gv, Ok Gu =>
      let dim := length (hd [] x) in
      let y1 := apply_dir dim [length us; length vs; length ws] 2 NwT x in
      let y2 := apply_dir dim [length us; length vs; nw] 1 NvT y1 in
      let y3 := apply_dir dim [length us; nv; nw] 0 NuT y2 in
      let y4 := apply_dir dim [nu; nv; nw] 2 Gw y3 in
      let y5 := apply_dir dim [nu; nv; nw] 1 Gv y4 in
      Ok (mkObj [bu; bv; bw] (apply_dir dim [nu; nv; nw] 0 Gu y5) dim false)
    | Err e, _, _ => Err e
    | _, Err e, _ => Err e
    | _, _, Err e => Err e
    end.

  (* cubic_curve(x, Boundary.PERIODIC, t): the branch after the closing step, i.e. x and t already contain the closing
     point (x[-1] ~ x[0], t[-1] = its parameter; when the input is not closed the code appends x[0] and
     t[-1] + |x[0] - x[-1]|, a square root, which the caller of this model supplies).
       knot = [t0]*3 + t + [tn]*3;  knot[0..2] = t0 + t[-4..-2] - tn;  knot[-3..-1] = tn + t[1..3] - t0
       basis = BSplineBasis(4, knot, 2);  t = t[:-1];  x = x[:-1];  N = basis(t);  cp = spsolve(N, x) *)
  Definition cubic_periodic_knots (t : list F) : list F :=
    let t0 := hd n0 t in let tn := last t n0 in let n := length t in
    [nsub (nadd t0 (nth (n - 4) t n0)) tn; nsub (nadd t0 (nth (n - 3) t n0)) tn; nsub (nadd t0 (nth (n - 2) t n0)) tn]
    ++ t ++
    [nsub (nadd tn (nth 1 t n0)) t0; nsub (nadd tn (nth 2 t n0)) t0; nsub (nadd tn (nth 3 t n0)) t0].
  Definition cubic_periodic_basis (t : list F) : basis F := mkBasis 4 (cubic_periodic_knots t) 3.
  Definition cubic_periodic (tol : F) (t : list F) (x : list (list F)) : res (obj F) :=
    let b := cubic_periodic_basis t in
    let t' := removelast t in let x' := removelast x in
    match solve_shaped (colloc tol b 0 t') x' with
    | Err e => Err e
    | Ok cp => Ok (mkObj [b] cp (length (hd [] x)) false)
    end.

  (* curve_factory.manipulate(crv, f) for an expression f of the physical point x and the parameter t
     (the arguments v and a, with their averaging at C0/C1 knots and optional normalisation, are not modelled):
       t = greville; destination[i] = f(crv(t_i), t_i); controlpoints = spsolve(N, destination) *)
  Fixpoint eval_all (tol : F) (o : obj F) (ts : list F) : res (list (list F)) :=
    match ts with
    | [] => Ok []
    | t :: r => match obj_eval tol o [t] with
                | Err e => Err e
                | Ok p => match eval_all tol o r with Err e => Err e | Ok ps => Ok (p :: ps) end
                end
    end.
  Definition manipulate_xt (tol : F) (crv : obj F) (f : list F -> F -> list F) : res (obj F) :=
    let b := hd dflt_bas (o_bases crv) in
    let t := greville_all b in
    match eval_all tol crv t with
    | Err e => Err e
    | Ok xs => curve_interpolate tol b t (map (fun xt => f (fst xt) (snd xt)) (combine xs t))
    end.
End Model.
