(* SplineObject.make_splines_compatible / make_splines_identical (splineobject.py), composed from the
   models of the operations they call.  Definitions only. *)
From Coq Require Import List ZArith Bool Arith.
From SplipyModel Require Import Model.Num Model.BasisDef Model.BasisEval Model.Tensor Model.Obj Model.KnotInsert Model.Tol
  Model.Reparam Model.Affine Model.Solve Model.Order Model.Split Model.Periodic.
Import ListNotations.

Section Model.
  Context {F : Type} `{Num F}.

  Definition obj_compatible (o1 o2 : obj F) : obj F * obj F :=
    let '(a, b) := if o_rat o1 then (o1, obj_force_rational o2)
                   else if o_rat o2 then (obj_force_rational o1, o2) else (o1, o2) in
    if (o_dim b <? o_dim a)%nat then (a, obj_set_dimension b (o_dim a)) else (obj_set_dimension a (o_dim b), b).

  (* continuity with None = +infinity *)
  Definition cont_gt (a b : option Z) : bool :=
    match a, b with
    | None, None => false
    | None, Some _ => true
    | Some _, None => false
    | Some x, Some y => (y <? x)%Z
    end.
  (* m = min(c2 - c1, p - 1 - c1) for c2 > c1 (c1 finite) *)
  Definition ins_count (p : nat) (c1 c2 : option Z) : nat :=
    match c1 with
    | None => 0%nat
    | Some x =>
      let cap := (Z.of_nat p - 1 - x)%Z in
      match c2 with
      | None => Z.to_nat cap
      | Some y => Z.to_nat (Z.min (y - x) cap)
      end
    end.

  (* knots to insert into the second object: those of the first where the second is smoother *)
  Definition missing_knots (tol : F) (p : nat) (b_from b_into : basis F) : res (list F) :=
    fold_left (fun acc k =>
      match acc with
      | Err e => Err e
      | Ok l =>
        match basis_continuity tol b_from k, basis_continuity tol b_into k with
        | Ok c1, Ok c2 => if cont_gt c2 c1 then Ok (l ++ repeat k (ins_count p c1 c2)) else Ok l
        | Err e, _ => Err e
        | _, Err e => Err e
        end
      end) (knot_spans tol b_from false) (Ok []).

  Definition unit_vec (n i v : nat) : list nat := map (fun j => if (j =? i)%nat then v else 0%nat) (seq 0 n).

  Definition identical_dir (tol : F) (o1 o2 : obj F) (i : nat) : res (obj F * obj F) :=
    let '(a0, b0) := obj_compatible o1 o2 in
    match obj_reparam_dir a0 i n0 n1, obj_reparam_dir b0 i n0 n1 with
    | Ok a1, Ok b1 =>
      let dflt := mkBasis 0 [] 0 in
      let pa := b_per1 (nth i (o_bases a1) dflt) in let pb := b_per1 (nth i (o_bases b1) dflt) in
      match (if (pa <? pb)%nat then obj_lower_periodic 64 b1 pa i else Ok b1),
            (if (pb <? pa)%nat then obj_lower_periodic 64 a1 pb i else Ok a1) with
      | Ok b2, Ok a2 =>
        let p1 := b_order (nth i (o_bases a2) dflt) in let p2 := b_order (nth i (o_bases b2) dflt) in
        let p := Nat.max p1 p2 in
        match obj_raise_order tol a2 (unit_vec (o_pardim a2) i (p - p1)), obj_raise_order tol b2 (unit_vec (o_pardim b2) i (p - p2)) with
        | Ok a3, Ok b3 =>
          match missing_knots tol p (nth i (o_bases a3) dflt) (nth i (o_bases b3) dflt) with
          | Err e => Err e
          | Ok ins2 =>
            match obj_insert_knots b3 i ins2 with
            | Err e => Err e
            | Ok b4 =>
              match missing_knots tol p (nth i (o_bases b4) dflt) (nth i (o_bases a3) dflt) with
              | Err e => Err e
              | Ok ins1 =>
                match obj_insert_knots a3 i ins1 with
                | Err e => Err e
                | Ok a4 => Ok (a4, b4)
                end
              end
            end
          end
        | Err e, _ => Err e
        | _, Err e => Err e
        end
      | Err e, _ => Err e
      | _, Err e => Err e
      end
    | Err e, _ => Err e
    | _, Err e => Err e
    end.

  Fixpoint identical_dirs (tol : F) (o1 o2 : obj F) (dirs : list nat) : res (obj F * obj F) :=
    match dirs with
    | [] => Ok (o1, o2)
    | i :: rest =>
      match identical_dir tol o1 o2 i with
      | Err e => Err e
      | Ok (a, b) => identical_dirs tol a b rest
      end
    end.

  (* direction = None: all directions of the first object *)
  Definition obj_make_identical (tol : F) (o1 o2 : obj F) (direction : option nat) : res (obj F * obj F) :=
    let '(a, b) := obj_compatible o1 o2 in
    match direction with
    | Some i => identical_dir tol a b i
    | None => identical_dirs tol a b (seq 0 (o_pardim a))
    end.
End Model.
