(* splipy.utils.refinement.subdivide and its helper _splitvector (utils/refinement.py lines 145-187), with
   utils.ensure_listlike (utils/__init__.py lines 119-129) for the argument n.  Definitions only.

   Built on Model/SplitSnap.v ([obj_split_snapped], the repaired SplineObject.split the runner executes) and on
   [knot_spans] (Model/KnotInsert.v; SplineObject.knots(d) without multiplicities IS BSplineBasis.knot_spans()).

   What the code does (and the model follows):
   * the splitting values of an object in direction d are EXISTING distinct knots: knots(d)[i] for the indices
     i in _splitvector(len(knots(d)), n[d]+1)[1:]  -- not the equidistant values start + i*(end-start)/(n+1);
   * _splitvector hands out len(knots) (the number of distinct knots, i.e. spans + 1) in  parts  blocks; when
     parts >= len(knots) it repeats the index 0 (= start()) and/or reaches len-1 (= end()); split() skips those;
   * in a periodic direction split() first OPENS the object at the first splitting value, so n values give n pieces;
     with no value (n = 0) split() raises IndexError at knots[0] (splineobject.py line 1147); with exactly one value it
     returns a bare object instead of a list and `new_results += obj` ends in SplineObject.__radd__ -> translate, which
     raises IndexError when new_results is still empty and ValueError otherwise.

   Left out: negative entries of n (n[d]+1 = 0 gives ZeroDivisionError, n[d]+1 < 0 other failures: n is a nat here);
   the in-place aliasing of the input list (result = objs is returned itself when pardim = 0). *)
From Coq Require Import List ZArith Bool Arith.
From SplipyModel Require Import Model.Num Model.BasisDef Model.BasisEval Model.Tensor Model.Obj Model.KnotInsert Model.Tol
  Model.Split Model.SplitSnap.
Import ListNotations.

(* _splitvector(len, parts), lines 145-154 (parts = n+1 >= 1 in subdivide) *)
(* lines 146-150: sizes[i] = delta, + 1 for i in range(parts-remainder+1, parts) *)
Definition sv_sizes (len parts : nat) : list nat :=
  let delta := (len / parts)%nat in
  let remainder := (len - parts * delta)%nat in
  map (fun i => if (parts - remainder + 1 <=? i)%nat then S delta else delta) (seq 0 parts).
(* lines 151-153: result = [0]; result.append(sizes[i] + result[i-1]) for i in range(1, parts) *)
Fixpoint sv_cumul (sizes : list nat) (prev : nat) : list nat :=
  match sizes with
  | [] => []
  | s :: r => (s + prev)%nat :: sv_cumul r (s + prev)%nat
  end.
Definition splitvector (len parts : nat) : list nat := 0%nat :: sv_cumul (tl (sv_sizes len parts)) 0.

(* the argument n of subdivide: an int or a list of ints *)
Inductive sub_n := NInt (n : nat) | NList (l : list nat).

(* ensure_listlike(n, pardim): an int is repeated pardim times; a short list is padded with its last entry; a long list
   is kept whole; the empty list stays empty when pardim >= 1 (x[-1] raises IndexError, which is caught: return []) *)
Definition ensure_listlike_n (n : sub_n) (dups : nat) : list nat :=
  match n with
  | NInt x => repeat x dups
  | NList [] => []
  | NList l => l ++ repeat (last l 0%nat) (dups - length l)
  end.

Section Model.
  Context {F : Type} `{Num F}.

  (* line 181: splitting_points = [obj.knots(d)[i] for i in _splitvector(len(obj.knots(d)), n[d]+1)]; the indices are
     always < len (Proofs/SubdivideProofs.v: splitvector_bound), the default of nth is never used for len >= 1 *)
  Definition sub_all_points (tol : F) (o : obj F) (d nd : nat) : list F :=
    let sp := knot_spans tol (nth d (o_bases o) (mkBasis 0 [] 0)) false in
    map (fun i => nth i sp n0) (splitvector (length sp) (nd + 1)).
  (* line 182: splitting_points[1:] *)
  Definition sub_points (tol : F) (o : obj F) (d nd : nat) : list F := tl (sub_all_points tol o d nd).

  (* lines 181-182 for one object: new_results += obj.split(splitting_points[1:], d); acc = new_results so far *)
  Definition sub_split_one (tol : F) (acc : list (obj F)) (o : obj F) (d nd : nat) : res (list (obj F)) :=
    if (o_pardim o <=? d)%nat then Err ValueError          (* obj.knots(d): check_direction *)
    else
      let b := nth d (o_bases o) (mkBasis 0 [] 0) in
      let ks := sub_points tol o d nd in
      let periodic := negb (b_per1 b =? 0)%nat in
      match ks with
      | [] => if periodic then Err IndexError               (* knots[0], splineobject.py line 1147 *)
              else bind (obj_split_snapped 2 tol o d ks) (fun ps => Ok (acc ++ ps))
      | [_] => if periodic then (match acc with [] => Err IndexError | _ => Err ValueError end)  (* list += bare object *)
               else bind (obj_split_snapped 2 tol o d ks) (fun ps => Ok (acc ++ ps))
      | _ => bind (obj_split_snapped 2 tol o d ks) (fun ps => Ok (acc ++ ps))
      end.

  (* lines 179-182: the inner loop over the objects collected so far *)
  Fixpoint sub_dir (tol : F) (acc : list (obj F)) (objs : list (obj F)) (d nd : nat) : res (list (obj F)) :=
    match objs with
    | [] => Ok acc
    | o :: rest => bind (sub_split_one tol acc o d nd) (fun acc' => sub_dir tol acc' rest d nd)
    end.

  (* lines 176-187: the loop over the directions d = 0 .. pardim-1 (ds = the directions still to do) *)
  Fixpoint sub_loop (tol : F) (result : list (obj F)) (nl : list nat) (ds : list nat) : res (list (obj F)) :=
    match ds with
    | [] => Ok result
    | d :: ds' =>
      match nth_error nl d with
      | None => Err IndexError                              (* n[d] *)
      | Some nd => bind (sub_dir tol [] result d nd) (fun r => sub_loop tol r nl ds')
      end
    end.

  (* subdivide(objs, n) *)
  Definition subdivide (tol : F) (objs : list (obj F)) (n : sub_n) : res (list (obj F)) :=
    match objs with
    | [] => Err IndexError                                  (* objs[0] *)
    | o0 :: _ =>
      let pardim := o_pardim o0 in
      sub_loop tol objs (ensure_listlike_n n pardim) (seq 0 pardim)
    end.
End Model.
