(* Tolerance-dependent decisions other than snap/evaluate: BSplineBasis.continuity (basis.py) and the
   coordinate windows of VertexDict._bounds / _candidate (splinemodel.py).  Definitions only. *)
From Coq Require Import List ZArith Bool Arith.
From SplipyModel Require Import Model.Num Model.BasisDef Model.BasisEval Model.Obj Model.KnotInsert.
Import ListNotations.

Section Model.
  Context {F : Type} `{Num F}.

  (* continuity(knot): p - m - 1 at a knot of multiplicity m (knots counted within the tolerance window),
     None (= inf) between knots, ValueError outside a non-periodic domain *)
  Definition basis_continuity (tol : F) (b : basis F) (x0 : F) : res (option Z) :=
    let s := b_start b in let e := b_end b in
    let outside := nltb x0 s || nltb e x0 in
    if (b_per1 b =? 0)%nat && outside then Err ValueError
    else
      let x := if negb (b_per1 b =? 0)%nat && outside then nadd (nfmod (nsub x0 s) (nsub e s)) s else x0 in
      let hi := py_bisect_left (b_knots b) (nadd x tol) in
      let lo := py_bisect_left (b_knots b) (nsub x tol) in
      if (hi =? lo)%nat then Ok None
      else Ok (Some (Z.of_nat (b_order b) - (Z.of_nat hi - Z.of_nat lo) - 1)%Z).

  (* VertexDict._bounds(key) *)
  Definition vd_bounds (rtol atol key : F) : F * F :=
    if nleb atol key then
      (ndiv (nsub key atol) (nadd n1 rtol), ndiv (nadd key atol) (nsub n1 rtol))
    else if nleb key (nsub n0 atol) then
      (ndiv (nsub key atol) (nsub n1 rtol), ndiv (nadd key atol) (nadd n1 rtol))
    else
      (ndiv (nsub key atol) (nsub n1 rtol), ndiv (nadd key atol) (nsub n1 rtol)).

  (* a stored coordinate v is a candidate for the query coordinate key iff minval <= v < maxval
     (two bisect_left on the sorted look-up table) *)
  Definition vd_coord_match (rtol atol key v : F) : bool :=
    let mm := vd_bounds rtol atol key in nleb (fst mm) v && nltb v (snd mm).

  (* _candidate: first stored (not deleted) key all of whose coordinates match *)
  Definition vd_match (rtol atol : F) (key stored : list F) : bool :=
    (length key =? length stored)%nat &&
    forallb (fun kv => vd_coord_match rtol atol (fst kv) (snd kv)) (combine key stored).
  Fixpoint vd_lookup (rtol atol : F) (keys : list (list F)) (key : list F) (i : nat) : option nat :=
    match keys with
    | [] => None
    | k :: rest => if vd_match rtol atol key k then Some i else vd_lookup rtol atol rest key (S i)
    end.
  (* inserting a sequence of points: the index each point is identified with *)
  Fixpoint vd_insert_all (rtol atol : F) (keys : list (list F)) (pts : list (list F)) : list nat :=
    match pts with
    | [] => []
    | p :: rest =>
      match vd_lookup rtol atol keys p 0 with
      | Some i => i :: vd_insert_all rtol atol keys rest
      | None => length keys :: vd_insert_all rtol atol (keys ++ [p]) rest
      end
    end.
End Model.
