(* Boolean well-formedness checks on knot lists (polymorphic, executable). *)
From Coq Require Import List ZArith Bool Arith.
From SplipyModel Require Import Model.Num Model.BasisDef.
Import ListNotations.

Section Model.
  Context {F : Type} `{Num F}.
  Fixpoint sorted_list (k : list F) : bool :=
    match k with
    | [] => true
    | a :: l => match l with [] => true | b :: _ => nleb a b && sorted_list l end
    end.
  (* what the property calls a valid basis (exact version, tolerance-free):
     order >= 1, enough knots, non-decreasing, non-degenerate domain *)
  Definition wf_basis (p per1 : nat) (k : list F) : bool :=
    (1 <=? p)%nat && (2 * p <=? length k)%nat && sorted_list k
    && nltb (kn k (p - 1)) (kn k (length k - p)) && (per1 + 1 <=? length k - p)%nat.
End Model.
