(* splinemodel.Orientation: signed permutations relating two parametrisations of one object.  Definitions only. *)
From Coq Require Import List Arith ZArith Bool.
From SplipyModel Require Import Model.Num Model.BasisDef Model.Tensor Model.Obj.
Import ListNotations.

Record orient := mkOrient { o_perm : list nat; o_flip : list bool }.

(* __mul__: (l * r).perm[d] = r.perm[l.perm[d]], flip[d] = l.flip[d] xor r.flip[l.perm[d]] *)
Definition ocompose (l r : orient) : orient :=
  let n := length (o_perm l) in
  mkOrient (map (fun d => nth (nth d (o_perm l) 0%nat) (o_perm r) 0%nat) (seq 0 n))
           (map (fun d => xorb (nth d (o_flip l) false) (nth (nth d (o_perm l) 0%nat) (o_flip r) false)) (seq 0 n)).
Definition oident (n : nat) : orient := mkOrient (seq 0 n) (repeat false n).

(* sections: None = free direction, Some false = index 0, Some true = index -1 *)
Definition omap_section (o : orient) (s : list (option bool)) : list (option bool) :=
  map (fun d => match nth (nth d (o_perm o) 0%nat) s None with
                | None => None
                | Some e => Some (xorb e (nth d (o_flip o) false))
                end) (seq 0 (length (o_perm o))).

Fixpoint index_of (x : nat) (l : list nat) : nat :=
  match l with
  | [] => 0
  | y :: r => if (x =? y)%nat then 0 else S (index_of x r)
  end.
Definition list_eq_dec_b (x y : list nat) : bool :=
  (length x =? length y)%nat && forallb (fun ab => (fst ab =? snd ab)%nat) (combine x y).
Definition perm_inv (p : list nat) : list nat := map (fun d => index_of d p) (seq 0 (length p)).

Fixpoint insert_nat (x : nat) (l : list nat) : list nat :=
  match l with [] => [x] | y :: r => if (x <=? y)%nat then x :: l else y :: insert_nat x r end.
Definition sort_nat (l : list nat) : list nat := fold_right insert_nat [] l.

(* view_section *)
Definition oview_section (o : orient) (s : list (option bool)) : orient :=
  let variable := filter (fun i => match nth i s None with None => true | Some _ => false end) (seq 0 (length s)) in
  let pinv := perm_inv (o_perm o) in
  let actual := sort_nat (map (fun d => nth d pinv 0%nat) variable) in
  mkOrient (map (fun d => index_of (nth d (o_perm o) 0%nat) variable) actual)
           (map (fun d => nth d (o_flip o) false) actual).

(* ifem_format for pardim <= 2 *)
Definition oifem (o : orient) : option nat :=
  match o_flip o with
  | [] => Some 0%nat
  | [f] => Some (if f then 1 else 0)%nat
  | [_; _] =>
    let bits := map (fun axis => nth axis (o_flip o) false) (rev (o_perm o)) in
    let v := ((if nth 0 bits false then 1 else 0) + (if nth 1 bits false then 2 else 0))%nat in
    Some (v + (if (nth 0 (o_perm o) 0 =? 1)%nat && (nth 1 (o_perm o) 0 =? 0)%nat then 4 else 0))%nat
  | _ => None
  end.

(* index map of map_array: the entry idx of the result (reference system, shape'[d] = shape[perm[d]]) is the entry
   src of the argument with src[perm[d]] = idx[d], reversed when flip[d] *)
Definition oshape (o : orient) (shape : list nat) : list nat := map (fun d => nth d shape 0%nat) (o_perm o).
Definition osrc (o : orient) (shape idx : list nat) : list nat :=
  let pinv := perm_inv (o_perm o) in
  map (fun e => let d := nth e pinv 0%nat in
                if nth d (o_flip o) false then (nth e shape 0 - 1 - nth d idx 0)%nat else nth d idx 0%nat)
      (seq 0 (length (o_perm o))).

Section Model.
  Context {F : Type} `{Num F}.

  Definition omap_net (o : orient) (shape : list nat) (cps : list (list F)) : list (list F) :=
    reindex [] shape (oshape o shape) (osrc o shape) cps.

  (* itertools.permutations(range(n)) and product([False, True], repeat=n), in their order *)
  Fixpoint perms_fuel (fuel : nat) (l : list nat) : list (list nat) :=
    match fuel with
    | O => [[]]
    | S f => match l with
             | [] => [[]]
             | _ => flat_map (fun x => map (cons x) (perms_fuel f (filter (fun y => negb (y =? x)%nat) l))) l
             end
    end.
  Fixpoint flips (n : nat) : list (list bool) :=
    match n with
    | O => [[]]
    | S m => flat_map (fun b => map (cons b) (flips m)) [false; true]
    end.

  Definition close (atol rtol a b : F) : bool := nleb (nabs (nsub a b)) (nadd atol (nmul rtol (nabs b))).
  Definition nets_close (atol rtol : F) (a b : list (list F)) : bool :=
    (length a =? length b)%nat &&
    forallb (fun pq => (length (fst pq) =? length (snd pq))%nat && forallb (fun xy => close atol rtol (fst xy) (snd xy)) (combine (fst pq) (snd pq)))
            (combine a b).

  (* BSplineBasis.matches(other, reverse): knots normalised to [0,1], np.allclose with atol = knot tolerance and
     numpy's default rtol = 1e-5 *)
  Definition basis_matches (ktol : F) (a b : basis F) (reverse : bool) : bool :=
    (b_order a =? b_order b)%nat && (b_per1 a =? b_per1 b)%nat &&
    let ka := b_knots a in let kb := b_knots b in
    let dta := nsub (last ka n0) (hd n0 ka) in let dtb := nsub (last kb n0) (hd n0 kb) in
    let na := if reverse then map (fun x => ndiv (nsub (last ka n0) x) dta) (rev ka) else map (fun x => ndiv (nsub x (hd n0 ka)) dta) ka in
    let nb := map (fun x => ndiv (nsub x (hd n0 kb)) dtb) kb in
    (length na =? length nb)%nat &&
    forallb (fun xy => close ktol (ndiv n1 (nofZ 100000%Z)) (fst xy) (snd xy)) (combine na nb).

  Definition norm_weights (rat : bool) (cps : list (list F)) : list (list F) :=
    if rat then
      let s := fold_left (fun acc v => nadd acc (last v n0)) cps n0 in
      map (fun v => removelast v ++ [ndiv (last v n0) s]) cps
    else cps.

  (* Orientation.compute(a, b) *)
  Definition orient_compute (atol rtol ktol : F) (a b : obj F) : option orient :=
    let n := length (o_bases a) in
    if negb ((n =? length (o_bases b))%nat && (o_dim a =? o_dim b)%nat) then None
    else
      let rat := o_rat a || o_rat b in
      let ca := norm_weights rat (if o_rat a then o_cps a else if rat then map (fun v => v ++ [n1]) (o_cps a) else o_cps a) in
      let cb := norm_weights rat (if o_rat b then o_cps b else if rat then map (fun v => v ++ [n1]) (o_cps b) else o_cps b) in
      let sa := o_shape a in let sb := o_shape b in
      find (fun o =>
              (list_eq_dec_b (oshape o sb) sa) &&
              nets_close atol rtol ca (omap_net o sb cb) &&
              forallb (fun i => basis_matches ktol (nth i (o_bases a) (mkBasis 0 [] 0)) (nth (nth i (o_perm o) 0%nat) (o_bases b) (mkBasis 0 [] 0)) (nth i (o_flip o) false))
                      (seq 0 n))
           (flat_map (fun p => map (fun f => mkOrient p f) (flips n)) (perms_fuel n (seq 0 n))).
End Model.
