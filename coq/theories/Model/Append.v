(* Curve.append (curve.py): make compatible, raise the lower order, merge the knot vectors (second one shifted to
   start where the first ends, its first p knots dropped, the last knot of the first dropped) and the control nets
   (first control point of the second curve dropped).  Definitions only. *)
From Coq Require Import List ZArith Bool Arith.
From SplipyModel Require Import Model.Num Model.BasisDef Model.BasisEval Model.Tensor Model.Obj Model.KnotInsert Model.Affine Model.Tol
  Model.Solve Model.Interp Model.Order Model.Split Model.Periodic Model.Identical.
Import ListNotations.

Section Model.
  Context {F : Type} `{Num F}.

  Definition append_knots (p : nat) (old add : list F) : list F :=
    let add' := map (fun x => nadd (nsub x (hd n0 add)) (last old n0)) add in
    removelast old ++ skipn p add'.

  Definition obj_append (tol : F) (o1 o2 : obj F) : res (obj F) :=
    let dflt := mkBasis 0 [] 0 in
    if negb (b_per1 (nth 0 (o_bases o1) dflt) =? 0)%nat || negb (b_per1 (nth 0 (o_bases o2) dflt) =? 0)%nat then Err RuntimeError
    else
      let '(c1, c2) := obj_compatible o1 o2 in
      let p1 := b_order (nth 0 (o_bases c1) dflt) in
      let p2 := b_order (nth 0 (o_bases c2) dflt) in
      match obj_raise_order tol c1 [(p2 - p1)%nat], obj_raise_order tol c2 [(p1 - p2)%nat] with
      | Err e, _ => Err e
      | _, Err e => Err e
      | Ok d1, Ok d2 =>
        let p := Nat.max p1 p2 in
        let newk := append_knots p (b_knots (nth 0 (o_bases d1) dflt)) (b_knots (nth 0 (o_bases d2) dflt)) in
        Ok (mkObj [mkBasis p newk 0] (o_cps d1 ++ tl (o_cps d2)) (o_dim d1) (o_rat d1))
      end.
End Model.
