(* surface_factory.edge_curves, branch len(curves) == 4: the search for an ordering / orientation of the four
   curves that forms a directed loop (surface_factory.py lines 219-251).  Definitions only.

   Abstraction (chosen so that the code can be transcribed line by line): a curve is a record with its two end
   control points  e_first = crv[0],  e_last = crv[-1]  (the stored rows of the control net, i.e. homogeneous
   coordinates including the weight for rational curves, after Curve.make_splines_compatible has given all four
   curves the same number of components) and an opaque payload  e_data  (basis and interior control points).
   Curve.reverse() on a NON-PERIODIC curve reverses the control-point array, so it swaps the two end points;
   the effect on the payload is the parameter  rd.  (obj_reverse of Model/Reparam.v is a matrix product and does
   not expose this swap syntactically on a generic Num, hence the record.)

   The code, with mycurves = [c0;c1;c2;c3] (clones):

     if not (allclose(c0[-1], c1[0]) and allclose(c1[-1], c2[0]) and
             allclose(c2[-1], c3[0]) and allclose(c3[-1], c0[0])):
         reorder = [c0]; del mycurves[0]
         for j in range(3):
             found_match = False
             for i in range(len(mycurves)):
                 if   allclose(reorder[j][-1], mycurves[i][0]):   reorder.append(mycurves[i]);           del mycurves[i]; break
                 elif allclose(reorder[j][-1], mycurves[i][-1]):  reorder.append(mycurves[i].reverse()); del mycurves[i]; break
             if not found_match: raise RuntimeError('Curves do not form a closed loop (end-points do not match)')
         mycurves = reorder

   Note that after the re-ordering NOTHING compares reorder[3][-1] with reorder[0][0].

   np.allclose(a, b, rtol, atol) = all(|a - b| <= atol + rtol * |b|)  (asymmetric in a, b; equal shapes here). *)
From Coq Require Import List Arith Bool.
From SplipyModel Require Import Model.Num.
Import ListNotations.

Record ecurve (P A : Type) := mkEC { e_first : P; e_last : P; e_data : A }.
Arguments mkEC {P A} _ _ _.
Arguments e_first {P A} _.
Arguments e_last {P A} _.
Arguments e_data {P A} _.

(* crv.reverse() *)
Definition ec_rev {P A} (rd : A -> A) (c : ecurve P A) : ecurve P A :=
  mkEC (e_last c) (e_first c) (rd (e_data c)).
(* the same curve with its end points renamed (used by the proofs only) *)
Definition ec_map {P Q A} (h : P -> Q) (c : ecurve P A) : ecurve Q A :=
  mkEC (h (e_first c)) (h (e_last c)) (e_data c).

Section Search.
  Context {P A : Type}.
  Variable close : P -> P -> bool.     (* close a b = np.allclose(a, b, rtol, atol) *)
  Variable rd : A -> A.

  (* the inner loop "for i in range(len(mycurves))" for the end point p = reorder[j][-1]:
     the curve appended to reorder (reversed if it was matched at its end) and mycurves after the del *)
  Fixpoint find_next (p : P) (l : list (ecurve P A)) : option (ecurve P A * list (ecurve P A)) :=
    match l with
    | [] => None
    | c :: l' =>
      if close p (e_first c) then Some (c, l')
      else if close p (e_last c) then Some (ec_rev rd c, l')
      else match find_next p l' with
           | Some (x, r) => Some (x, c :: r)
           | None => None
           end
    end.

  (* the outer loop "for j in range(n)": cur = reorder[j], rest = mycurves; returns reorder[j+1:] *)
  Fixpoint chain (n : nat) (cur : ecurve P A) (rest : list (ecurve P A)) : res (list (ecurve P A)) :=
    match n with
    | O => Ok []
    | S n' =>
      match find_next (e_last cur) rest with
      | None => Err RuntimeError
      | Some (x, r) =>
        match chain n' x r with
        | Ok t => Ok (x :: t)
        | Err e => Err e
        end
      end
    end.

  Definition closes4 (c0 c1 c2 c3 : ecurve P A) : bool :=
    close (e_last c0) (e_first c1) && close (e_last c1) (e_first c2) &&
    close (e_last c2) (e_first c3) && close (e_last c3) (e_first c0).

  (* the list  mycurves  handed to coons_patch (bottom, right, top, left) *)
  Definition loop_order_gen (curves : list (ecurve P A)) : res (list (ecurve P A)) :=
    match curves with
    | [c0; c1; c2; c3] =>
      if closes4 c0 c1 c2 c3 then Ok curves
      else match chain 3 c0 [c1; c2; c3] with
           | Ok t => Ok (c0 :: t)
           | Err e => Err e
           end
    | [_; _] => Err NotSupported       (* the two-curve branch (ruled surface) is a different computation *)
    | _ => Err ValueError              (* 'Requires two or four input curves' *)
    end.
End Search.

(* ---------------------------------------------------------------------------------------------------------
   The repaired search (commit 6667c22, surface_factory.py lines 231-250):

     def closes(ends):
         return all(allclose(ends[k][1], ends[(k+1) % 4][0]) for k in range(4))
     if not closes([(c[0], c[-1]) for c in mycurves]):
         arrangement = None
         for perm in permutations(range(1, 4)):                 # (1,2,3) (1,3,2) (2,1,3) (2,3,1) (3,1,2) (3,2,1)
             for flips in product((False, True), repeat=3):      # FFF FFT FTF FTT TFF TFT TTF TTT
                 ends = [(c0[0], c0[-1])] + [(ci[-1], ci[0]) if f else (ci[0], ci[-1]) for i, f in zip(perm, flips)]
                 if closes(ends): arrangement = (perm, flips); break
             if arrangement is not None: break
         if arrangement is None: raise RuntimeError('Curves do not form a closed loop (end-points do not match)')
         mycurves = [c0] + [ci.reverse() if f else ci for i, f in zip(perm, flips) of the arrangement]
   --------------------------------------------------------------------------------------------------------- *)
Definition ec_mrev {P A} (rd : A -> A) (b : bool) (c : ecurve P A) : ecurve P A := if b then ec_rev rd c else c.
(* [ci.reverse() if f else ci for ci, f in zip(order, flips)] *)
Definition ec_arrange {P A} (rd : A -> A) (bs : list bool) (cs : list (ecurve P A)) : list (ecurve P A) :=
  map (fun bc => ec_mrev rd (fst bc) (snd bc)) (combine bs cs).
(* itertools.permutations of three items, in the order of the code *)
Definition perms3 {X} (a b c : X) : list (list X) :=
  [[a; b; c]; [a; c; b]; [b; a; c]; [b; c; a]; [c; a; b]; [c; b; a]].
(* itertools.product((False, True), repeat=3) *)
Definition flags3 : list (list bool) :=
  [[false; false; false]; [false; false; true]; [false; true; false]; [false; true; true];
   [true; false; false]; [true; false; true]; [true; true; false]; [true; true; true]].
(* the 48 candidates for mycurves[1:], in the order in which the two nested loops visit them *)
Definition candidates2 {P A} (rd : A -> A) (c1 c2 c3 : ecurve P A) : list (list (ecurve P A)) :=
  flat_map (fun p => map (fun f => ec_arrange rd f p) flags3) (perms3 c1 c2 c3).

Section Search2.
  Context {P A : Type}.
  Variable close : P -> P -> bool.
  Variable rd : A -> A.

  (* closes(ends) for the end points of a list of four curves *)
  Definition closes_list (l : list (ecurve P A)) : bool :=
    match l with
    | [a; b; c; d] => closes4 close a b c d
    | _ => false
    end.

  Definition loop_order2_gen (curves : list (ecurve P A)) : res (list (ecurve P A)) :=
    match curves with
    | [c0; c1; c2; c3] =>
      if closes4 close c0 c1 c2 c3 then Ok curves
      else match find (fun t => closes_list (c0 :: t)) (candidates2 rd c1 c2 c3) with
           | Some t => Ok (c0 :: t)
           | None => Err RuntimeError
           end
    | [_; _] => Err NotSupported
    | _ => Err ValueError
    end.
End Search2.

Section Model.
  Context {F : Type} `{Num F}.

  Definition close1 (rtol atol a b : F) : bool :=
    nleb (nabs (nsub a b)) (nadd atol (nmul rtol (nabs b))).
  (* np.allclose on two points with the same number of components (different lengths: false) *)
  Fixpoint allclose (rtol atol : F) (a b : list F) : bool :=
    match a, b with
    | [], [] => true
    | x :: a', y :: b' => close1 rtol atol x y && allclose rtol atol a' b'
    | _, _ => false
    end.

  (* rtol = state.controlpoint_relative_tolerance, atol = state.controlpoint_absolute_tolerance *)
  Definition loop_order {A : Type} (rtol atol : F) (rd : A -> A) (curves : list (ecurve (list F) A))
    : res (list (ecurve (list F) A)) :=
    loop_order_gen (allclose rtol atol) rd curves.

  (* the repaired search *)
  Definition loop_order2 {A : Type} (rtol atol : F) (rd : A -> A) (curves : list (ecurve (list F) A))
    : res (list (ecurve (list F) A)) :=
    loop_order2_gen (allclose rtol atol) rd curves.
End Model.
