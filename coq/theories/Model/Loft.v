(* surface_factory.loft (curves -> surface) and volume_factory.loft (surfaces -> volume).
   Transcription of the branch len(curves) >= 3 (two sections are delegated to edge_curves / edge_surfaces by the
   code; that branch is not modelled here and returns NotSupported).

   The sections are taken as already identical objects (what Curve.make_splines_identical leaves behind: the same
   basis and as many control points each); the chord-length-like parameter values the code computes from the
   section centres (np.linalg.norm: a square root) are the INPUT list [dist]; for exactly three sections the code
   ignores them and uses the Greville points of BSplineBasis(3).  Definitions only. *)
From Coq Require Import List Arith ZArith Bool.
From SplipyModel Require Import Model.Num Model.BasisDef Model.BasisEval Model.Tensor Model.Obj Model.Solve Model.Interp Model.Affine.
Import ListNotations.

Section Model.
  Context {F : Type} `{Num F}.

  (* basis.greville() *)
  Definition greville_all (b : basis F) : list F := map (greville (b_knots b) (b_order b)) (seq 0 (b_nfun b)).

  (* knot = [dist[0]]*4 + dist[2:-2] + [dist[-1]]*4 *)
  Definition loft_knots (dist : list F) : list F :=
    repeat (hd n0 dist) 4 ++ firstn (length dist - 4) (skipn 2 dist) ++ repeat (last dist n0) 4.
  (* three sections: BSplineBasis(3) (quadratic Bezier on [0,1]); four or more: cubic, "free" ends *)
  Definition loft_basis (nsec : nat) (dist : list F) : basis F :=
    if (nsec =? 3)%nat then mkBasis 3 [n0; n0; n0; n1; n1; n1] 0 else mkBasis 4 (loft_knots dist) 0.
  Definition loft_params (nsec : nat) (dist : list F) : list F :=
    if (nsec =? 3)%nat then greville_all (loft_basis 3 dist) else dist.

  (* x[a, i, :] = X_i[a]   (X_i = the sampled section i), flat C order with the section index fastest *)
  Definition loft_points (m : nat) (X : list (list (list F))) : list (list F) :=
    concat (map (fun a => map (fun Xi => nth a Xi []) X) (seq 0 m)).

  Definition dflt_obj : obj F := mkObj [] [] 0 false.
  Definition dflt_bas : basis F := mkBasis 0 [] 0.

  (* the body of surface_factory.loft after set_dimension(3) and make_splines_identical *)
  Definition loft_core (tol : F) (curves : list (obj F)) (dist : list F) : res (obj F) :=
    let n := length curves in
    if (n <? 3)%nat then Err NotSupported
    else
      let c0 := hd dflt_obj curves in
      let b1 := hd dflt_bas (o_bases c0) in
      let b2 := loft_basis n dist in
      let m := b_nfun b1 in
      let u := greville_all b1 in
      let v := loft_params n dist in
      let Nu := colloc tol b1 0 u in
      let Nv := colloc tol b2 0 v in
      match inverse Nu, inverse Nv with
      | Ok Iu, Ok Iv =>
        let nc := o_ncomp c0 in
        (* x[:,i,:] = Nu @ curves[i].controlpoints *)
        let x := loft_points m (map (fun c => matmul Nu (o_cps c)) curves) in
        (* cp = tensordot(Nv_inv, x, (1,1)); cp = tensordot(Nu_inv, cp, (1,1)) *)
        Ok (mkObj [b1; b2] (apply_dir nc [m; n] 0 Iu (apply_dir nc [m; n] 1 Iv x)) (o_dim c0) (o_rat c0))
      | Err e, _ => Err e
      | _, Err e => Err e
      end.

  (* surface_factory.loft: curves = [c.clone().set_dimension(3) for c in curves] first *)
  Definition loft (tol : F) (curves : list (obj F)) (dist : list F) : res (obj F) :=
    loft_core tol (map (fun c => obj_set_dimension c 3) curves) dist.

  (* volume_factory.loft: sections are surfaces with the same two bases; x[a,b,i,:] = (Nu (x) Nv) cps_i *)
  Definition vloft_core (tol : F) (surfs : list (obj F)) (dist : list F) : res (obj F) :=
    let n := length surfs in
    if (n <? 3)%nat then Err NotSupported
    else
      let s0 := hd dflt_obj surfs in
      let b1 := nth 0 (o_bases s0) dflt_bas in
      let b2 := nth 1 (o_bases s0) dflt_bas in
      let b3 := loft_basis n dist in
      let m1 := b_nfun b1 in
      let m2 := b_nfun b2 in
      let Nu := colloc tol b1 0 (greville_all b1) in
      let Nv := colloc tol b2 0 (greville_all b2) in
      let Nw := colloc tol b3 0 (loft_params n dist) in
      match inverse Nu, inverse Nv, inverse Nw with
      | Ok Iu, Ok Iv, Ok Iw =>
        let nc := o_ncomp s0 in
        let x := loft_points (m1 * m2)
                   (map (fun s => apply_dir nc [m1; m2] 0 Nu (apply_dir nc [m1; m2] 1 Nv (o_cps s))) surfs) in
        let sh := [m1; m2; n] in
        Ok (mkObj [b1; b2; b3] (apply_dir nc sh 0 Iu (apply_dir nc sh 1 Iv (apply_dir nc sh 2 Iw x))) (o_dim s0) (o_rat s0))
      | Err e, _, _ => Err e
      | _, Err e, _ => Err e
      | _, _, Err e => Err e
      end.
  Definition vloft (tol : F) (surfs : list (obj F)) (dist : list F) : res (obj F) :=
    vloft_core tol (map (fun s => obj_set_dimension s 3) surfs) dist.
End Model.
