(* splinemodel.ObjectCatalogue / TopologicalNode / SplineModel.add, boundary: the ABSTRACT (combinatorial) catalogue.
   Definitions only, nat / bool / list only.

   Abstraction.  A patch of parametric dimension d is given by the identifiers of its 2^d corner vertices, in the
   order of `sections(d, 0)` (direction 0 fastest: corner number j has coordinate bit k of j in direction k).  A node is
   identified by (dimension, SET of corner identifiers) -- the set is stored as a strictly increasing list (`canon`).
   The real catalogue identifies vertices through the tolerance-based VertexDict and a d-dimensional object through the
   tuple of its (d-1)-dimensional section nodes up to permutation, followed by Orientation.compute on the control
   nets; for conforming complexes without twins this is the identification by corner sets used here. *)
From Coq Require Import List Arith Bool.
From SplipyModel Require Import Model.Orient.
Import ListNotations.

(* ---------- lists of length 2^d as d-cubes, direction 0 fastest ---------- *)
Section Lists.
  Context {A : Type}.
  Fixpoint evens (l : list A) : list A :=
    match l with [] => [] | a :: r => a :: match r with [] => [] | _ :: r' => evens r' end end.
  Definition odds (l : list A) : list A := match l with [] => [] | _ :: r => evens r end.
  Fixpoint interleave (a b : list A) : list A :=
    match a, b with x :: a', y :: b' => x :: y :: interleave a' b' | _, _ => [] end.
End Lists.

(* a section: one entry per direction, None = free, Some false = index 0, Some true = index -1 (as in Model/Orient.v) *)
Definition section := list (option bool).
Definition is_free (x : option bool) : bool := match x with None => true | Some _ => false end.
Definition nfree (s : section) : nat := length (filter is_free s).

(* obj.section of s: the corner list of the sub-object, again with its first free direction fastest *)
Fixpoint sec (s : section) (c : list nat) : list nat :=
  match s with
  | [] => c
  | Some false :: r => sec r (evens c)
  | Some true :: r => sec r (odds c)
  | None :: r => interleave (sec r (evens c)) (sec r (odds c))
  end.

(* the corner with coordinate bits b (b_k = false: index 0 in direction k, true: index -1) *)
Fixpoint corner (c : list nat) (b : list bool) : nat :=
  match b with
  | [] => hd 0 c
  | false :: r => corner (evens c) r
  | true :: r => corner (odds c) r
  end.

(* utils.sections(d, i) in the order of the implementation: combinations of fixed directions in lexicographic order
   (masks, true = fixed), and for each the assignments {0,-1}^nfixed with the FIRST fixed direction fastest *)
Fixpoint masks (d r : nat) : list (list bool) :=
  match d with
  | 0 => match r with 0 => [[]] | S _ => [] end
  | S d' => (match r with 0 => [] | S r' => map (cons true) (masks d' r') end) ++ map (cons false) (masks d' r)
  end.
Fixpoint fills (m : list bool) : list section :=
  match m with
  | [] => [[]]
  | true :: r => flat_map (fun t => [Some false :: t; Some true :: t]) (fills r)
  | false :: r => map (cons None) (fills r)
  end.
Definition sections (d i : nat) : list section := flat_map fills (masks d (d - i)).
Definition all_sections (d : nat) : list section := flat_map (sections d) (seq 0 (S d)).

(* ---------- canonical corner sets ---------- *)
Fixpoint insert_u (x : nat) (l : list nat) : list nat :=
  match l with
  | [] => [x]
  | y :: r => if x <? y then x :: l else if x =? y then l else y :: insert_u x r
  end.
Definition canon (l : list nat) : list nat := fold_right insert_u [] l.

Definition key := (nat * list nat)%type.
Fixpoint list_eqb (a b : list nat) : bool :=
  match a, b with
  | [], [] => true
  | x :: a', y :: b' => (x =? y) && list_eqb a' b'
  | _, _ => false
  end.
Definition key_eqb (a b : key) : bool := (fst a =? fst b) && list_eqb (snd a) (snd b).
Definition pkey (d : nat) (c : list nat) : key := (d, canon c).

(* ---------- the catalogue ---------- *)
(* TopologicalNode: lower_nodes[i] = the nodes of sections(d, i) in order; higher_nodes (all dimensions in one list, in
   the order of assignment; the dimension is the first component of the key) *)
Record node := mkNode { n_key : key; n_lower : list (list key); n_higher : list key }.
Definition catalogue := list node.   (* in order of creation *)
Definition cat_empty : catalogue := [].

Definition has_node (k : key) (c : catalogue) : bool := existsb (fun n => key_eqb (n_key n) k) c.
Definition find_node (k : key) (c : catalogue) : option node := find (fun n => key_eqb (n_key n) k) c.

Definition section_keys (d : nat) (p : list nat) : list (list key) :=
  map (fun i => map (fun s => pkey i (sec s p)) (sections d i)) (seq 0 d).

(* node.assign_higher(new) for the node with key k *)
Definition assign_higher (new : key) (c : catalogue) (k : key) : catalogue :=
  map (fun n => if key_eqb (n_key n) k then mkNode (n_key n) (n_lower n) (n_higher n ++ [new]) else n) c.

(* the end of `lookup(add=True)` once every section has been added: no candidate -> `_add` creates the node
   (TopologicalNode.__init__ calls assign_higher on every lower node of every dimension, once per occurrence) *)
Definition ensure_node (d : nat) (p : list nat) (c : catalogue) : catalogue :=
  let k := pkey d p in
  if has_node k c then c
  else let lows := section_keys d p in
       fold_left (assign_higher k) (concat lows) c ++ [mkNode k lows []].

(* ObjectCatalogue.lookup(obj, add=True): every section of every lower dimension i = 0 .. d-1 is added (recursively,
   through the lower catalogues) before the object itself.  fuel >= d is all that is needed. *)
Fixpoint add_fuel (fuel d : nat) (c : catalogue) (p : list nat) : catalogue :=
  let c1 := match fuel with
            | 0 => c
            | S f => fold_left (fun c i => fold_left (fun c s => add_fuel f i c (sec s p)) (sections d i) c) (seq 0 d) c
            end in
  ensure_node d p c1.

Record patch := mkPatch { p_dim : nat; p_corners : list nat }.
Definition valid_patch (p : patch) : Prop := length (p_corners p) = 2 ^ p_dim p.
Definition patch_key (p : patch) : key := pkey (p_dim p) (p_corners p).

Definition cat_add (c : catalogue) (p : patch) : catalogue := add_fuel (p_dim p) (p_dim p) c (p_corners p).
Definition cat_add_all (c : catalogue) (ps : list patch) : catalogue := fold_left cat_add ps c.

(* lookup(obj) with add=False: KeyError (None) when a section is unknown or there is no candidate *)
Definition cat_lookup (c : catalogue) (p : patch) : option node :=
  if forallb (fun k => has_node k c) (concat (section_keys (p_dim p) (p_corners p)))
  then find_node (patch_key p) c else None.

Definition cat_keys (c : catalogue) : list key := map n_key c.
Definition cat_nodes (c : catalogue) (d : nat) : list node := filter (fun n => fst (n_key n) =? d) c.
Definition cat_top_nodes (c : catalogue) (pardim : nat) : list node := cat_nodes c pardim.
(* node.nhigher = len(higher_nodes[pardim + 1]) *)
Definition nhigher (n : node) : nat := length (filter (fun h => fst h =? S (fst (n_key n))) (n_higher n)).
(* SplineModel.boundary() *)
Definition cat_boundary (c : catalogue) (pardim : nat) : list node :=
  filter (fun n => nhigher n =? 1) (cat_nodes c (pardim - 1)).

(* ---------- re-oriented copies ---------- *)
(* all coordinate bit vectors of length d in corner order (direction 0 fastest) *)
Fixpoint allb (d : nat) : list (list bool) :=
  match d with 0 => [[]] | S d' => flat_map (fun m => [false :: m; true :: m]) (allb d') end.
(* q = reorient o p is the copy of p for which Orientation.compute(p, q) = o, i.e. p = o.map_array(q):
   q[b] = p[i] with i_k = b_(perm k) xor flip_k *)
Definition obits (o : orient) (b : list bool) : list bool :=
  map (fun k => xorb (nth (nth k (o_perm o) 0) b false) (nth k (o_flip o) false)) (seq 0 (length (o_perm o))).
Definition reorient (o : orient) (c : list nat) : list nat :=
  map (fun b => corner c (obits o b)) (allb (length (o_perm o))).
Definition preorient (o : orient) (p : patch) : patch := mkPatch (p_dim p) (reorient o (p_corners p)).

(* ---------- lattice blocks ---------- *)
Definition vid2 (nx i j : nat) : nat := i + S nx * j.
Definition cell2 (nx i j : nat) : patch :=
  mkPatch 2 [vid2 nx i j; vid2 nx (S i) j; vid2 nx i (S j); vid2 nx (S i) (S j)].
Definition lattice2 (nx ny : nat) : list patch :=
  flat_map (fun j => map (fun i => cell2 nx i j) (seq 0 nx)) (seq 0 ny).

Definition vid3 (nx ny i j k : nat) : nat := i + S nx * (j + S ny * k).
Definition cell3 (nx ny i j k : nat) : patch :=
  mkPatch 3 [vid3 nx ny i j k; vid3 nx ny (S i) j k; vid3 nx ny i (S j) k; vid3 nx ny (S i) (S j) k;
             vid3 nx ny i j (S k); vid3 nx ny (S i) j (S k); vid3 nx ny i (S j) (S k); vid3 nx ny (S i) (S j) (S k)].
Definition lattice3 (nx ny nz : nat) : list patch :=
  flat_map (fun k => flat_map (fun j => map (fun i => cell3 nx ny i j k) (seq 0 nx)) (seq 0 ny)) (seq 0 nz).
