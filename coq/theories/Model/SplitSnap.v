(* SplineObject.split as repaired: a splitting point that continuity() regards as an existing knot (a knot in the
   window [x - tol, x + tol), the same two bisections as BSplineBasis.continuity) is replaced by that knot before the old
   routine runs, so that the tolerance-based multiplicity count and the exact-value index arithmetic of the old routine
   talk about the same knot.  Definitions only. *)
From Coq Require Import List ZArith Bool Arith.
From SplipyModel Require Import Model.Num Model.BasisDef Model.BasisEval Model.Obj Model.KnotInsert Model.Split.
Import ListNotations.

Section Model.
  Context {F : Type} `{Num F}.

  (* lo = bisect_left(knots, x - tol); if lo < len(knots) and knots[lo] < x + tol: x = knots[lo] *)
  Definition snap_to_knot (k : list F) (tol x : F) : F :=
    let lo := py_bisect_left k (nsub x tol) in
    if (lo <? length k)%nat && nltb (kn k lo) (nadd x tol) then kn k lo else x.

  Definition snap_split_values (tol : F) (o : obj F) (d : nat) (ks : list F) : list F :=
    map (snap_to_knot (b_knots (nth d (o_bases o) (mkBasis 0 [] 0))) tol) ks.

  Definition obj_split_snapped (fuel : nat) (tol : F) (o : obj F) (d : nat) (ks : list F) : res (list (obj F)) :=
    obj_split fuel tol o d (snap_split_values tol o d ks).
End Model.
