(* surface_factory.coons_patch (surface_factory.py lines 265-302): the control-NET arithmetic of the four-curve branch of
   edge_curves(curves..., type='coons').  Definitions only.

   What is transcribed.  The inputs are the four curves AFTER edge_curves has arranged them into a directed loop
   (lines 221-250, Model/EdgeLoop.v: loop_order_gen / loop_order2) and AFTER lines 279-280 of coons_patch
   (top.reverse(); left.reverse()), i.e.

        B  = bottom.controlpoints              (n points, increasing u)
        T  = top.reverse().controlpoints       (n points, increasing u)
        L  = left.reverse().controlpoints      (m points, increasing v)
        Rr = right.controlpoints               (m points, increasing v)

   with bottom / reversed top over one basis bu and reversed left / right over one basis bv.  All four curves have
   been through make_splines_compatible pairwise (line 229), so they have the same dimension and the same
   rational flag: the vectors are the RAW rows of .controlpoints (homogeneous coordinates x*w, y*w, ..., w when
   rational), and the force_rational calls of lines 289-291 do nothing.

     line 283  s1 = edge_curves(bottom, top)        Surface(bu, linear, [B; T]):   s1[i][0] = B_i,  s1[i][1] = T_i
     line 284  s2 = edge_curves(left, right)        Surface(bv, linear, [L; Rr]):  s2[j][0] = L_j,  s2[j][1] = Rr_j
     line 285  s2.swap()                                                           s2[0][j] = L_j,  s2[1][j] = Rr_j
     line 292  s3 = Surface(linear, linear, [bottom[0], bottom[-1], top[0], top[-1]])
                                                    s3[0][0] = B_0, s3[1][0] = B_(n-1), s3[0][1] = T_0, s3[1][1] = T_(n-1)
     lines 295-297  Surface.make_splines_identical (s1, s2), (s1, s3), (s2, s3): per direction reparam to [0,1]
               (SplineObject.make_splines_identical lines 1441-1442), raise the order-2 direction to the order of
               the other surface and insert its interior knots.
     lines 299-301  result = s1;  result.controlpoints += s2.controlpoints;  result.controlpoints -= s3.controlpoints

   MODEL INPUT for lines 295-297 (as prescribed by the task): an order-2 direction over [0,1] with the two control
   points a, b is the function (1-t) a + t b; raised / refined to a basis over [0,1] its control points are
   (1 - x_j) a + x_j b with x_j the Greville abscissae of that basis (linear precision; Proofs/CoonsLibProofs.v
   ruled_refined_row, from Proofs/Greville.v greville_row_identity and the partition of unity: the net below
   represents the same function; the code obtains it by an interpolation solve in raise_order and by Boehm
   insertion, which are exact in exact arithmetic and carry rounding errors in floating point).  So
   s1 refined is [ruled_v_net], s2 refined is [ruled_u_net], and s3 (direction 0 first, then direction 1: the loop
   `for i in range(pardim)` of make_splines_identical) is [corner_net].  The abscissae are those of the bases
   REPARAMETRISED to [0,1] ([grev01]: basis_reparam b 0 1 of Model/Reparam.v, then BSplineBasis.greville).

   Left out: clone(); the order / knot bookkeeping of make_splines_identical (Model/Identical.v, Model/IdenticalFix.v)
   -- in particular, for bases that are NOT clamped at 0 / 1 make_splines_identical also inserts the end knots of
   the linear basis into s1 / s2, which changes their nets; this model is for clamped (open) bases, where nothing is
   inserted into the side that already carries bu resp. bv;  periodic curves;  the case where bottom/top (left/right)
   come with different bases (then line 211 Curve.make_splines_identical refines both first: apply this model to the
   refined nets). *)
From Coq Require Import List ZArith Bool Arith.
From SplipyModel Require Import Model.Num Model.BasisDef Model.BasisEval Model.Tensor Model.Obj Model.KnotInsert Model.Reparam.
Import ListNotations.

Section Model.
  Context {F : Type} `{Num F}.

  (* [basis.greville(i) for i in range(len(basis))] *)
  Definition greville_list (b : basis F) : list F := map (greville (b_knots b) (b_order b)) (seq 0 (b_nfun b)).

  (* the Greville abscissae after  spline.reparam(direction=i)  (make_splines_identical lines 1441-1442) *)
  Definition grev01 (b : basis F) : res (list F) :=
    match basis_reparam b n0 n1 with
    | Err e => Err e
    | Ok b' => Ok (greville_list b')
    end.

  (* (1 - t) a + t b on rows of control points *)
  Definition blend (t : F) (a b : list F) : list F := vadd (vscale (nsub n1 t) a) (vscale t b).
  Definition pt (P : list (list F)) (i : nat) : list F := nth i P [].
  Definition ab (x : list F) (i : nat) : F := nth i x n0.

  (* flat nets of shape (n, m) in C order: entry (i, j) at index i*m + j, i = f / m, j = f mod m *)
  (* s1 after make_splines_identical: (1 - g_j) B_i + g_j T_i *)
  Definition ruled_v_net (n m : nat) (g : list F) (B T : list (list F)) : list (list F) :=
    map (fun f => blend (ab g (f mod m)) (pt B (f / m)) (pt T (f / m))) (seq 0 (n * m)).
  (* s2 (swapped) after make_splines_identical: (1 - h_i) L_j + h_i Rr_j *)
  Definition ruled_u_net (n m : nat) (h : list F) (L Rr : list (list F)) : list (list F) :=
    map (fun f => blend (ab h (f / m)) (pt L (f mod m)) (pt Rr (f mod m))) (seq 0 (n * m)).
  (* s3 after make_splines_identical: direction 0 first (columns B_0 -> B_last and T_0 -> T_last), then direction 1 *)
  Definition corner_net (n m : nat) (g h : list F) (B T : list (list F)) : list (list F) :=
    map (fun f => blend (ab g (f mod m))
                        (blend (ab h (f / m)) (hd [] B) (last B []))
                        (blend (ab h (f / m)) (hd [] T) (last T [])))
        (seq 0 (n * m)).

  (* numpy  +=  and  -=  on arrays of the same shape *)
  Definition net_add (P Q : list (list F)) : list (list F) := map (fun pq => vadd (fst pq) (snd pq)) (combine P Q).
  Definition net_sub (P Q : list (list F)) : list (list F) := map (fun pq => vsub (fst pq) (snd pq)) (combine P Q).

  (* lines 299-301: (s1 + s2) - s3 *)
  Definition coons_lib_net (n m : nat) (g h : list F) (B T L Rr : list (list F)) : list (list F) :=
    net_sub (net_add (ruled_v_net n m g B T) (ruled_u_net n m h L Rr)) (corner_net n m g h B T).

  (* coons_patch on the four arranged curves (bottom, right, top, left as handed over by edge_curves): top and left
     are reversed (lines 279-280), bu is taken from bottom and bv from right (equal to those of the reversed top /
     left in the case modelled), the result lives over the bases reparametrised to [0,1]. *)
  Definition coons_patch_obj (bottom right top left : obj F) : res (obj F) :=
    let top' := obj_reverse top 0 in
    let left' := obj_reverse left 0 in
    let bu := nth 0 (o_bases bottom) (mkBasis 0 [] 0) in
    let bv := nth 0 (o_bases right) (mkBasis 0 [] 0) in
    match basis_reparam bu n0 n1, basis_reparam bv n0 n1 with
    | Ok bu', Ok bv' =>
      Ok (mkObj [bu'; bv']
                (coons_lib_net (b_nfun bu) (b_nfun bv) (greville_list bv') (greville_list bu')
                               (o_cps bottom) (o_cps top') (o_cps left') (o_cps right))
                (o_dim bottom) (o_rat bottom))
    | Err e, _ => Err e
    | _, Err e => Err e
    end.
End Model.
