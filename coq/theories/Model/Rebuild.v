(* Curve.rebuild(p, n) (curve.py):

       knot  = [0]*p + list(range(1, n-p+1)) + [n-p+1]*p
       basis = BSplineBasis(p, knot)
       basis.normalize()                  # self -= self.start(); self /= self.end()
       t0 = self.bases[0].start();  t1 = self.bases[0].end()
       basis *= (t1 - t0);  basis += t0
       t = basis.greville();  N = basis.evaluate(t)
       controlpoints = spsolve(N, self.evaluate(t))
       return Curve(basis, controlpoints)

   self.evaluate projects a rational curve to physical space, and Curve(basis, controlpoints) is built without
   the rational flag: the result is always a NON-rational curve whose dimension is the physical dimension of the
   original (the number of columns of the samples).

   Outside 2 <= p <= n the code does not return a curve (p = 0: ValueError "invalid spline order"; p = 1:
   ZeroDivisionError in greville(); p = n+1: division 0/0 in normalize, NaN knots; p > n+1: ValueError
   "knot vector needs to be non-decreasing"); the model answers Err ValueError for all of them.
   Definitions only. *)
From Coq Require Import List Arith ZArith Bool.
From SplipyModel Require Import Model.Num Model.BasisDef Model.BasisEval Model.Tensor Model.Obj Model.Solve Model.Interp
  Model.KnotInsert Model.Reparam Model.Loft Model.InterpMore.
Import ListNotations.

Section Model.
  Context {F : Type} `{Num F}.

  (* knot = [0]*p + list(range(1, n-p+1)) + [n-p+1]*p  (integer knots) *)
  Definition uniform_open_raw (p n : nat) : list F :=
    repeat n0 p ++ map nofnat (seq 1 (n - p)) ++ repeat (nofnat (n - p + 1)) p.

  (* BSplineBasis.normalize(): self -= self.start(); self /= self.end()  (the end AFTER the shift) *)
  Definition basis_normalize (b : basis F) : basis F :=
    let b1 := basis_shift b (fun x => nsub x (b_start b)) in
    basis_shift b1 (fun x => ndiv x (b_end b1)).

  (* the uniform open knot vector of order p with n functions on [0,1] *)
  Definition uniform_open_knots (p n : nat) : list F :=
    b_knots (basis_normalize (mkBasis p (uniform_open_raw p n) 0)).

  (* basis *= (t1 - t0); basis += t0 : the interval LENGTH scales, the START shifts *)
  Definition rebuild_basis (p n : nat) (t0 t1 : F) : basis F :=
    let b2 := mkBasis p (uniform_open_knots p n) 0 in
    let b3 := basis_shift b2 (fun x => nmul x (nsub t1 t0)) in
    basis_shift b3 (fun x => nadd x t0).

  Definition curve_rebuild (tol : F) (o : obj F) (p n : nat) : res (obj F) :=
    if negb ((2 <=? p)%nat && (p <=? n)%nat) then Err ValueError
    else
      let b0 := hd dflt_bas (o_bases o) in
      let b := rebuild_basis p n (b_start b0) (b_end b0) in
      let t := greville_all b in
      match eval_all tol o t with
      | Err e => Err e
      | Ok xs => curve_interpolate tol b t xs
      end.
End Model.
