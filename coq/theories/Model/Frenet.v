(* Curve.tangent / Curve.binormal / Curve.normal (splipy/curve.py, splineobject.py): the Frenet frame.  Definitions only.

     tangent(t)  = dx / |dx|                                  (SplineObject.tangent, curves: direction 0)
     binormal(t) = (dx x ddx') / |dx x ddx'|                   with ddx' = ddx, except PER EVALUATION POINT:
                     if np.allclose(ddx[i], 0):
                        ddx'[i] = (1,0,0) if np.allclose(dx[i,:2], 0) else (0,0,1)
     normal(t)   = np.cross(binormal(t), tangent(t))           (B x T, no further normalisation)

   The normalisation needs a square root, which the arithmetic interface [Num] does not have: the executable part
   is the choice of the helper direction and the un-normalised directions [binormal_dir] = dx x ddx' and
   [normal_dir] = (dx x ddx') x dx; Proofs/FrenetProofs.v divides by the lengths on R.

   DEVIATION (stated, deliberate): np.allclose(v, 0) (|v_i| <= 1e-8) is replaced by the EXACT tests
   [is_zero3 ddx] (ddx = 0 componentwise) and [is_zero_xy dx] (dx_x = 0 /\ dx_y = 0).  Vectors are lists read
   through Handed.vc (component i, 0 when absent); cross3 / dot3 are those of Model/Handed.v. *)
From Coq Require Import List Arith ZArith Bool.
From SplipyModel Require Import Model.Num Model.Handed.
Import ListNotations.

Section Model.
  Context {F : Type} `{Num F}.

  (* exact replacement of np.allclose(ddx, 0) *)
  Definition is_zero3 (v : list F) : bool := neqb (vc v 0) n0 && neqb (vc v 1) n0 && neqb (vc v 2) n0.
  (* exact replacement of np.allclose(dx[:2], 0) *)
  Definition is_zero_xy (v : list F) : bool := neqb (vc v 0) n0 && neqb (vc v 1) n0.

  (* the guessed second direction of a straight leg: (1,0,0) when the velocity is along z, else (0,0,1) *)
  Definition helper_choice (dx : list F) : list F := if is_zero_xy dx then [n1; n0; n0] else [n0; n0; n1].
  (* the vector that replaces ddx at ONE evaluation point *)
  Definition frenet_helper (dx ddx : list F) : list F := if is_zero3 ddx then helper_choice dx else ddx.

  (* np.cross(dx, ddx') before the normalisation *)
  Definition binormal_dir (dx ddx : list F) : list F := cross3 dx (frenet_helper dx ddx).
  (* np.cross(B, T) before the normalisations: (dx x ddx') x dx *)
  Definition normal_dir (dx ddx : list F) : list F := cross3 (binormal_dir dx ddx) dx.

  (* a whole call: one (dx, ddx) per evaluation point, the loop `for i in range(ddx.shape[0])` *)
  Definition binormal_dirs (pts : list (list F * list F)) : list (list F) :=
    map (fun p => binormal_dir (fst p) (snd p)) pts.
  Definition normal_dirs (pts : list (list F * list F)) : list (list F) :=
    map (fun p => normal_dir (fst p) (snd p)) pts.

  (* NOT the code: the variant with ONE helper direction h for the whole call (used for the counterexample) *)
  Definition binormal_dir_fixed (h dx ddx : list F) : list F := cross3 dx (if is_zero3 ddx then h else ddx).
  Definition binormal_dirs_fixed (h : list F) (pts : list (list F * list F)) : list (list F) :=
    map (fun p => binormal_dir_fixed h (fst p) (snd p)) pts.
End Model.
