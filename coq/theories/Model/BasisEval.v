(* Transcription of splipy/basis_eval.pyx (my_bisect_left/right, evaluate, snap)
   and of BSplineBasis.evaluate (basis.py) as total functions.  Definitions only. *)
From Coq Require Import List ZArith Bool Arith.
From SplipyModel Require Import Model.Num Model.BasisDef.
Import ListNotations.

Section Model.
  Context {F : Type} `{Num F}.

  (* cdef my_bisect_left(array, value, hi): the while loop with explicit fuel *)
  Fixpoint bisect_left_f (fuel : nat) (k : nat -> F) (v : F) (lo hi : nat) : nat :=
    match fuel with
    | O => lo
    | S f => if lo <? hi then
               let mid := (lo + hi) / 2 in
               if nltb (k mid) v then bisect_left_f f k v (S mid) hi
               else bisect_left_f f k v lo mid
             else lo
    end.
  Fixpoint bisect_right_f (fuel : nat) (k : nat -> F) (v : F) (lo hi : nat) : nat :=
    match fuel with
    | O => lo
    | S f => if lo <? hi then
               let mid := (lo + hi) / 2 in
               if nltb v (k mid) then bisect_right_f f k v lo mid
               else bisect_right_f f k v (S mid) hi
             else lo
    end.
  Definition bisect_left (k : nat -> F) (v : F) (hi : nat) : nat := bisect_left_f (S hi) k v 0 hi.
  Definition bisect_right (k : nat -> F) (v : F) (hi : nat) : nat := bisect_right_f (S hi) k v 0 hi.

  (* snap(knots, t, tolerance) for one parameter *)
  Definition snap1 (k : list F) (tol t : F) : F :=
    let n := length k in
    let i := bisect_left (kn k) t n in
    if (i <? n) && nltb (nabs (nsub (kn k i) t)) tol then kn k i
    else if (0 <? i) && nltb (nabs (nsub (kn k (i-1)) t)) tol then kn k (i-1)
    else t.

  Definition Mget (M : list F) (j : nat) : F := nth j M n0.

  (* one iteration q of the degree-raising loop, as a pure map over the old row
     (increasing j, each update reads M[j] and the not-yet-updated M[j+1]) *)
  Definition raise_step (K : nat -> F) (p mu : nat) (t : F) (q : nat) (M : list F) : list F :=
    map (fun j =>
      let kk := (mu + j - p)%nat in
      if (j <? p - q - 1)%nat then Mget M j
      else if (j =? p - q - 1)%nat then
        nadd (Mget M j) (ndiv (nmul (Mget M (j+1)) (nsub (K (kk + q + 1)%nat) t)) (nsub (K (kk + q + 1)%nat) (K (kk + 1)%nat)))
      else if (j =? p - 1)%nat then
        ndiv (nmul (Mget M j) (nsub t (K kk))) (nsub (K (kk + q)%nat) (K kk))
      else
        nadd (ndiv (nmul (Mget M j) (nsub t (K kk))) (nsub (K (kk + q)%nat) (K kk)))
             (ndiv (nmul (Mget M (j+1)) (nsub (K (kk + q + 1)%nat) t)) (nsub (K (kk + q + 1)%nat) (K (kk + 1)%nat)))
    ) (seq 0 p).

  (* iterations q+1 .. q+n *)
  Fixpoint raise_loop (K : nat -> F) (p mu : nat) (t : F) (n q : nat) (M : list F) : list F :=
    match n with O => M | S n' => raise_loop K p mu t n' (S q) (raise_step K p mu t (S q) M) end.

  (* one iteration q of the derivative loop *)
  Definition deriv_step (K : nat -> F) (p mu : nat) (q : nat) (M : list F) : list F :=
    map (fun j =>
      let kk := (mu + j - p)%nat in
      if (j <? p - q - 1)%nat then Mget M j
      else
        let a := if (j =? p - q - 1)%nat then Mget M j
                 else ndiv (nmul (Mget M j) (nofnat q)) (nsub (K (kk + q)%nat) (K kk)) in
        if (j =? p - 1)%nat then a
        else nsub a (ndiv (nmul (Mget M (j+1)) (nofnat q)) (nsub (K (kk + q + 1)%nat) (K (kk + 1)%nat)))
    ) (seq 0 p).
  (* iterations q .. q+n-1 *)
  Fixpoint deriv_loop (K : nat -> F) (p mu : nat) (n q : nat) (M : list F) : list F :=
    match n with O => M | S n' => deriv_loop K p mu n' (S q) (deriv_step K p mu q M) end.

  (* periodic wrap + seam rule of evaluate() *)
  Definition wrap_t (start end_ tol : F) (periodic from_right : bool) (t : F) : F :=
    if periodic then
      let t1 := if nltb t start || nltb end_ t
                then nadd (nfmod (nsub t start) (nsub end_ start)) start else t in
      if nltb (nabs (nsub t1 start)) tol && negb from_right then end_ else t1
    else t.

  (* the parameter and side actually used, or None if the point is skipped *)
  Definition normalise (k : list F) (p per1 : nat) (tol : F) (from_right : bool) (t0 : F)
    : option (F * bool) :=
    let K := kn k in
    let n_all := (length k - p)%nat in
    let start := K (p - 1)%nat in
    let end_ := K n_all in
    let t := wrap_t start end_ tol (negb (per1 =? 0)%nat) from_right t0 in
    let right := if nltb (nabs (nsub t end_)) tol then false else from_right in
    if nltb t start || nltb end_ t || (nltb (nabs (nsub t start)) tol && negb right) then None
    else Some (t, right).

  Definition span_index (k : list F) (p : nat) (right : bool) (t : F) : nat :=
    let K := kn k in
    let n_all := (length k - p)%nat in
    let mu0 := if right then bisect_right K t (n_all + p) else bisect_left K t (n_all + p) in
    Nat.min mu0 n_all.

  Definition eval_row (k : list F) (p mu d : nat) (t : F) : list F :=
    let K := kn k in
    let M0 := repeat n0 (p - 1) ++ [n1] in
    let M1 := raise_loop K p mu t (p - d - 1) 0 M0 in
    deriv_loop K p mu d (p - d) M1.

  (* one point of basis_eval.evaluate: (mu, M) or None when skipped *)
  Definition eval_point (k : list F) (p per1 : nat) (tol : F) (d : nat) (from_right : bool) (t0 : F)
    : option (nat * list F) :=
    match normalise k p per1 tol from_right t0 with
    | None => None
    | Some (t, rgt) =>
      let mu := span_index k p rgt t in
      Some (mu, eval_row k p mu d t)
    end.

  (* csr_matrix((data, indices, indptr), (m, n)).toarray(): duplicates are summed *)
  Definition dense_row (n p : nat) (pt : option (nat * list F)) : list F :=
    match pt with
    | None => repeat n0 n
    | Some (mu, M) =>
      map (fun c => fold_left (fun acc j => if ((mu + j - p) mod n =? c)%nat then nadd acc (Mget M j) else acc)
                              (seq 0 p) n0) (seq 0 n)
    end.

  (* BSplineBasis.evaluate(t, d, from_right) for a list of parameters: dense matrix rows *)
  Definition basis_evaluate (k : list F) (p per1 : nat) (tol : F) (d : nat) (from_right : bool) (ts : list F)
    : list (list F) :=
    let n := (length k - p - per1)%nat in
    let ts' := map (snap1 k tol) ts in
    if (p <=? d)%nat then map (fun _ => repeat n0 n) ts'
    else map (fun t => dense_row n p (eval_point k p per1 tol d from_right t)) ts'.

  (* sparse form: per point the column indices and data actually stored *)
  Definition basis_evaluate_sparse (k : list F) (p per1 : nat) (tol : F) (d : nat) (from_right : bool) (ts : list F)
    : list (option (list nat * list F)) :=
    let n := (length k - p - per1)%nat in
    map (fun t => match eval_point k p per1 tol d from_right (snap1 k tol t) with
                  | None => None
                  | Some (mu, M) => Some (map (fun j => ((mu + j - p) mod n)%nat) (seq 0 p), M)
                  end) ts.
End Model.
