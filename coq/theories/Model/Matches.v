(* BSplineBasis.matches (basis.py).  Definitions only.

     def matches(self, bspline, reverse=False):
         if self.order != bspline.order or self.periodic != bspline.periodic:
             return False
         dt  = self.knots[-1]    - self.knots[0]
         dt2 = bspline.knots[-1] - bspline.knots[0]
         if reverse:
             return np.allclose( (self.knots[-1]-self.knots[::-1]) / dt,
                                 (bspline.knots-bspline.knots[0]) / dt2,
                                 atol=state.knot_tolerance)
         else:
             return np.allclose( (self.knots-self.knots[0]) / dt,
                                 (bspline.knots-bspline.knots[0]) / dt2,
                                 atol=state.knot_tolerance)

   Points read off the code (and checked by running it, numpy 1.26):
   * order and periodicity are compared FIRST (-> False); the knot counts are never compared explicitly;
   * with the reverse flag it is the FIRST operand (self) that is reversed, as (last - knots[::-1]) / dt;
   * np.allclose(a, b, rtol=1e-05, atol=1e-08): only atol is passed, so numpy's DEFAULT rtol = 1e-5 is active:
       all(|a_i - b_i| <= atol + 1e-5 * |b_i|)          (asymmetric: |b_i| is the SECOND operand, here `bspline`)
     [basis_matches] below is this test; [basis_matches_gen] has rtol as a parameter (rtol = 0: the symmetric test);
   * dt = 0 (or dt2 = 0): the first entry of the normalised vector is 0/0 = nan (RuntimeWarning), nan is close to
     nothing, so numpy answers False, e.g. BSplineBasis(1,[1,1]).matches(itself) = False.  The model's division
     is total (x/0 = 0), so the model tests dt = 0 explicitly and answers false there, as numpy does;
   * knot vectors of different lengths (>= 2): np.allclose raises ValueError (broadcast); an empty knot vector:
     IndexError at knots[-1].  [basis_matches] (bool) answers false there; [basis_matches_res] gives the exception.
     (Within Orientation.compute the lengths agree whenever order, periodicity and shape agree.) *)
From Coq Require Import List ZArith Bool Arith.
From SplipyModel Require Import Model.Num Model.BasisDef Model.Obj.
Import ListNotations.

Section Model.
  Context {F : Type} `{Num F}.

  (* knots[-1] - knots[0] *)
  Definition knots_dt (k : list F) : F := nsub (last k n0) (hd n0 k).

  (* (knots - knots[0]) / dt *)
  Definition normalised_knots (k : list F) : list F :=
    map (fun x => ndiv (nsub x (hd n0 k)) (knots_dt k)) k.

  (* (knots[-1] - knots[::-1]) / dt *)
  Definition normalised_knots_rev (k : list F) : list F :=
    map (fun x => ndiv (nsub (last k n0) x) (knots_dt k)) (rev k).

  (* numpy.isclose(a, b, rtol, atol) on finite numbers: |a - b| <= atol + rtol * |b| *)
  Definition isclose (rtol atol a b : F) : bool :=
    nleb (nabs (nsub a b)) (nadd atol (nmul rtol (nabs b))).

  (* all(p(a_i, b_i)) on two vectors of the same length (false otherwise) *)
  Fixpoint all2 (p : F -> F -> bool) (a b : list F) : bool :=
    match a, b with
    | [], [] => true
    | x :: a', y :: b' => p x y && all2 p a' b'
    | _, _ => false
    end.

  (* numpy's default rtol *)
  Definition np_rtol_default : F := ndiv n1 (nofZ 100000%Z).

  Definition basis_matches_gen (rtol tol : F) (b1 b2 : basis F) (reverse : bool) : bool :=
    (b_order b1 =? b_order b2)%nat && (b_per1 b1 =? b_per1 b2)%nat &&
    (let k1 := b_knots b1 in let k2 := b_knots b2 in
     negb (neqb (knots_dt k1) n0) && negb (neqb (knots_dt k2) n0) &&
     all2 (isclose rtol tol)
          (if reverse then normalised_knots_rev k1 else normalised_knots k1)
          (normalised_knots k2)).

  (* BSplineBasis.matches with tol = state.knot_tolerance *)
  Definition basis_matches (tol : F) (b1 b2 : basis F) (reverse : bool) : bool :=
    basis_matches_gen np_rtol_default tol b1 b2 reverse.

  (* the same with the exceptions of the Python code *)
  Definition basis_matches_res (tol : F) (b1 b2 : basis F) (reverse : bool) : res bool :=
    if negb ((b_order b1 =? b_order b2)%nat && (b_per1 b1 =? b_per1 b2)%nat) then Ok false
    else
      let l1 := length (b_knots b1) in let l2 := length (b_knots b2) in
      if (l1 =? 0)%nat || (l2 =? 0)%nat then Err IndexError
      else if negb (l1 =? l2)%nat && negb (l1 =? 1)%nat && negb (l2 =? 1)%nat then Err ValueError
      else Ok (basis_matches tol b1 b2 reverse).
End Model.
