(* Ownership/alias model for C11: a store of mutable cells (numpy buffers, basis records); every public
   operation is summarised by its effect signature.  The signatures are tied to the code by the harness's
   effects monitor (byte snapshots, np.shares_memory, identity), not by proof.  Definitions only. *)
From Coq Require Import List Bool Arith.
Import ListNotations.

Section Model.
  Variable V : Type.
  Definition store := nat -> option V.                 (* cell id -> contents; None = not allocated *)
  Definition allocated (s : store) (c : nat) : Prop := s c <> None.

  Record effect := {
    e_writes : list nat;        (* pre-existing cells that may be written *)
    e_result : list nat         (* cells reachable from the result *)
  }.

  (* a run of an operation from s to s' respects the signature *)
  Definition respects (e : effect) (s s' : store) : Prop :=
    (forall c, allocated s c -> ~ In c (e_writes e) -> s' c = s c) /\
    (forall c, allocated s c -> allocated s' c).

  (* non-in-place: writes nothing that existed, result made of fresh cells only *)
  Definition pure_new (e : effect) (s : store) : Prop :=
    e_writes e = [] /\ forall c, In c (e_result e) -> ~ allocated s c.
  (* in-place on a receiver with footprint fp: writes only there, result = receiver *)
  Definition in_place (e : effect) (fp : list nat) : Prop :=
    (forall c, In c (e_writes e) -> In c fp) /\ e_result e = fp.

  Definition write (s : store) (c : nat) (v : V) : store := fun j => if (j =? c)%nat then Some v else s j.
End Model.
