(* SplineObject.section: pinning directions to their first / last control point index.  Definitions only. *)
From Coq Require Import List Arith ZArith Bool.
From SplipyModel Require Import Model.Num Model.BasisDef Model.Tensor Model.Obj Model.KnotInsert.
Import ListNotations.

Section Model.
  Context {F : Type} `{Num F}.

  (* the 1 x n matrix picking control point idx *)
  Definition sel_matrix (n idx : nat) : list (list F) :=
    [map (fun j => if (j =? idx)%nat then n1 else n0) (seq 0 n)].

  (* selectors per direction: 0 = first index, 1 = last index, anything else = free *)
  Fixpoint section_cps (ncomp : nat) (shape : list nat) (sels : list nat) (d : nat) (cps : list (list F)) : list (list F) * list nat :=
    match sels with
    | [] => (cps, shape)
    | s :: rest =>
      let n := nth d shape 0%nat in
      if (s =? 0)%nat then section_cps ncomp (upd shape d 1%nat) rest (S d) (apply_dir ncomp shape d (sel_matrix n 0) cps)
      else if (s =? 1)%nat then section_cps ncomp (upd shape d 1%nat) rest (S d) (apply_dir ncomp shape d (sel_matrix n (n - 1)) cps)
      else section_cps ncomp shape rest (S d) cps
    end.

  Definition obj_section (o : obj F) (sels : list nat) : obj F :=
    let free := map snd (filter (fun sb => negb ((fst sb =? 0)%nat || (fst sb =? 1)%nat)) (combine sels (o_bases o))) in
    mkObj free (fst (section_cps (o_ncomp o) (o_shape o) sels 0 (o_cps o))) (o_dim o) (o_rat o).
End Model.
