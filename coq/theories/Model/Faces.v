(* Mesh export of ONE structured trilinear patch (order (2,2,2)): cell numbers and the OpenFOAM-style face list,
   transcribed from /repo/splipy/splinemodel.py, TopologicalNode.generate_cell_numbers / TopologicalNode.faces and
   SplineModel.generate_cell_numbers.  The patch has cell shape (nx, ny, nz), hence control-point shape
   (nx+1, ny+1, nz+1); it owns its six boundary nodes and has no neighbouring patch (neighbor = -1 there, here None).
   Purely combinatorial: nat only, stdlib only.  Definitions only (executable). *)
From Coq Require Import List Arith Bool ZArith.
Import ListNotations.

(* a multi-index (i, j, k) into a 3-dimensional numpy array; a shape is the same thing *)
Definition idx3 := (nat * nat * nat)%type.

(* ---------- numpy indexing ---------- *)

(* a slice applied to an axis of length n selects a list of positions (in increasing order) *)
Definition slice := nat -> list nat.
Definition s_all   : slice := fun n => seq 0 n.            (* np.s_[:]    *)
Definition s_init  : slice := fun n => seq 0 (n - 1).      (* np.s_[:-1]  *)
Definition s_tail  : slice := fun n => seq 1 (n - 1).      (* np.s_[1:]   *)
Definition s_mid   : slice := fun n => seq 1 (n - 2).      (* np.s_[1:-1] *)
(* the scalar indices 0 and -1 drop the axis; for the order of .flatten() that is the same as an axis of length one *)
Definition s_first : slice := fun _ => [0].                (* index 0     *)
Definition s_last  : slice := fun n => [n - 1].            (* index -1    *)

(* def mkindex(dim, z, a, b): rval = [a, b] if dim != 1 else [b, a]; rval.insert(dim, z); return tuple(rval) *)
Definition mkindex {A : Type} (d : nat) (z a b : A) : A * A * A :=
  match d with
  | 0 => (z, a, b)
  | 1 => (b, z, a)
  | _ => (a, b, z)
  end.

(* all (i, j, k) with i in r0, j in r1, k in r2, in C order (first axis slowest, last axis fastest) *)
Definition grid3 (r0 r1 r2 : list nat) : list idx3 :=
  flat_map (fun i => flat_map (fun j => map (fun k => (i, j, k)) r2) r1) r0.

(* arr[ix].flatten() = map arr (take_idx (shape of arr) ix): the multi-indices selected by an index triple, in the
   C order of the sliced array *)
Definition take_idx (sh : idx3) (ix : slice * slice * slice) : list idx3 :=
  let '(n0, n1, n2) := sh in let '(s0, s1, s2) := ix in grid3 (s0 n0) (s1 n1) (s2 n2).

(* ---------- cell numbers ---------- *)

Definition ncells (sh : idx3) : nat := let '(nx, ny, nz) := sh in nx * ny * nz.

(* self.cell_numbers = np.reshape(np.arange(start, start + nelems), shape): entry (i,j,k) = start + C-order index *)
Definition cell_number (start : nat) (sh : idx3) (c : idx3) : nat :=
  let '(nx, ny, nz) := sh in let '(i, j, k) := c in start + ((i * ny + j) * nz + k).

(* all cells of a patch, in C order *)
Definition cells (sh : idx3) : list idx3 := take_idx sh (s_all, s_all, s_all).

(* SplineModel.generate_cell_numbers: index = 0; for node in top_nodes: index = node.generate_cell_numbers(index);
   ncells = index.  Each patch's array is returned flattened (C order). *)
Fixpoint cell_numbers_from (start : nat) (shs : list idx3) : list (list nat) * nat :=
  match shs with
  | [] => ([], start)
  | sh :: r =>
    let '(rest, next) := cell_numbers_from (start + ncells sh) r in
    (map (cell_number start sh) (cells sh) :: rest, next)
  end.
Definition cell_numbers_model (shs : list idx3) : list (list nat) * nat := cell_numbers_from 0 shs.

(* ---------- faces ---------- *)

(* face_t: four nodes (kept as control-point multi-indices; the code stores cp_numbers[...] of them, see face_cp),
   owner, neighbor (None = -1) *)
Record face := mkFace { fn0 : idx3; fn1 : idx3; fn2 : idx3; fn3 : idx3; owner : nat; neighbor : option nat }.
Definition nodes (f : face) : list idx3 := [fn0 f; fn1 f; fn2 f; fn3 f].
(* the exported node numbers, through the patch's control point numbering cp = fun ijk => self.cp_numbers[ijk] *)
Definition face_cp (cp : idx3 -> nat) (f : face) : list nat := map cp (nodes f).

(* faces['nodes'][:,0] = l0; ...[:,3] = l3; faces['owner'] = ow; faces['neighbor'] = nb  (columns of equal length) *)
Fixpoint zip_faces (l0 l1 l2 l3 : list idx3) (ow : list nat) (nb : list (option nat)) : list face :=
  match l0, l1, l2, l3, ow, nb with
  | a :: l0', b :: l1', c :: l2', d :: l3', o :: ow', n :: nb' => mkFace a b c d o n :: zip_faces l0' l1' l2' l3' ow' nb'
  | _, _, _, _, _, _ => []
  end.

Definition cpshape (sh : idx3) : idx3 := let '(nx, ny, nz) := sh in (S nx, S ny, S nz).

(* internal faces in direction d:
     nodes[:,0] = cp[mkindex(d, s_[1:-1], s_[:-1], s_[:-1])].flatten()
     nodes[:,1] = cp[mkindex(d, s_[1:-1], s_[1:],  s_[:-1])].flatten()
     nodes[:,2] = cp[mkindex(d, s_[1:-1], s_[1:],  s_[1:])].flatten()
     nodes[:,3] = cp[mkindex(d, s_[1:-1], s_[:-1], s_[1:])].flatten()
     owner      = cell[mkindex(d, s_[:-1], s_[:], s_[:])].flatten()
     neighbor   = cell[mkindex(d, s_[1:],  s_[:], s_[:])].flatten() *)
Definition internal_faces (start : nat) (sh : idx3) (d : nat) : list face :=
  let cps := cpshape sh in
  zip_faces (take_idx cps (mkindex d s_mid s_init s_init))
            (take_idx cps (mkindex d s_mid s_tail s_init))
            (take_idx cps (mkindex d s_mid s_tail s_tail))
            (take_idx cps (mkindex d s_mid s_init s_tail))
            (map (cell_number start sh) (take_idx sh (mkindex d s_init s_all s_all)))
            (map (fun c => Some (cell_number start sh c)) (take_idx sh (mkindex d s_tail s_all s_all))).

(* boundary faces in direction d at bdindex = 0 (upper = false) or bdindex = -1 (upper = true):
     nodes[:,0] = cp[mkindex(d, bdindex, s_[:-1], s_[:-1])].flatten()    etc. as above
     owner      = cell[mkindex(d, bdindex, s_[:], s_[:])].flatten()
     if bdindex == 0: nodes[:,1], nodes[:,3] = nodes[:,3], nodes[:,1]
     neighbor   = -1   (bdnode.nhigher == 1: no patch on the other side) *)
Definition boundary_faces (start : nat) (sh : idx3) (d : nat) (upper : bool) : list face :=
  let cps := cpshape sh in
  let s := if upper then s_last else s_first in
  let l0 := take_idx cps (mkindex d s s_init s_init) in
  let l1 := take_idx cps (mkindex d s s_tail s_init) in
  let l2 := take_idx cps (mkindex d s s_tail s_tail) in
  let l3 := take_idx cps (mkindex d s s_init s_tail) in
  let ow := map (cell_number start sh) (take_idx sh (mkindex d s s_all s_all)) in
  let nb := map (fun _ => @None nat) ow in
  if upper then zip_faces l0 l1 l2 l3 ow nb else zip_faces l0 l3 l2 l1 ow nb.

(* for d in range(3): internal; then for bdindex in (0, -1): boundary *)
Definition dir_faces (start : nat) (sh : idx3) (d : nat) : list face :=
  internal_faces start sh d ++ boundary_faces start sh d false ++ boundary_faces start sh d true.
Definition patch_faces (start : nat) (sh : idx3) : list face := flat_map (dir_faces start sh) [0; 1; 2].

Definition internal_faces_all (start : nat) (sh : idx3) : list face := flat_map (internal_faces start sh) [0; 1; 2].
Definition boundary_faces_all (start : nat) (sh : idx3) : list face :=
  flat_map (fun d => boundary_faces start sh d false ++ boundary_faces start sh d true) [0; 1; 2].

(* ---------- vocabulary of the specification (executable as well) ---------- *)

Definition pos_shape (sh : idx3) : Prop := let '(nx, ny, nz) := sh in 1 <= nx /\ 1 <= ny /\ 1 <= nz.
Definition in_cells (sh : idx3) (c : idx3) : Prop :=
  let '(nx, ny, nz) := sh in let '(i, j, k) := c in i < nx /\ j < ny /\ k < nz.
(* valid control point indices of the patch *)
Definition in_cps (sh : idx3) (p : idx3) : Prop := in_cells (cpshape sh) p.

Definition get (d : nat) (p : idx3) : nat := let '(i, j, k) := p in match d with 0 => i | 1 => j | _ => k end.
(* one step in direction d *)
Definition add_e (d : nat) (p : idx3) : idx3 :=
  let '(i, j, k) := p in match d with 0 => (S i, j, k) | 1 => (i, S j, k) | _ => (i, j, S k) end.

(* the eight corner control points of cell (i,j,k) *)
Definition corners (c : idx3) : list idx3 := let '(i, j, k) := c in grid3 [i; S i] [j; S j] [k; S k].

(* two cells sharing a face: they differ by one step in one direction *)
Definition adjacent (c c' : idx3) : Prop := exists d, d < 3 /\ (c' = add_e d c \/ c = add_e d c').

(* a face touches cell number n *)
Definition touches (n : nat) (f : face) : bool :=
  (owner f =? n) || match neighbor f with Some m => m =? n | None => false end.

(* geometry: control point (i,j,k) sits at the lattice point (i,j,k) of Z^3 *)
Definition vec := (Z * Z * Z)%type.
Definition zpt (p : idx3) : vec := let '(i, j, k) := p in (Z.of_nat i, Z.of_nat j, Z.of_nat k).
Definition vsub (u v : vec) : vec :=
  let '(a, b, c) := u in let '(x, y, z) := v in ((a - x)%Z, (b - y)%Z, (c - z)%Z).
Definition vneg (u : vec) : vec := let '(a, b, c) := u in ((- a)%Z, (- b)%Z, (- c)%Z).
Definition cross (u v : vec) : vec :=
  let '(a, b, c) := u in let '(x, y, z) := v in ((b * z - c * y)%Z, (c * x - a * z)%Z, (a * y - b * x)%Z).
Definition zget (d : nat) (u : vec) : Z := let '(a, b, c) := u in match d with 0 => a | 1 => b | _ => c end.
Definition zunit (d : nat) : vec := match d with 0 => (1, 0, 0)%Z | 1 => (0, 1, 0)%Z | _ => (0, 0, 1)%Z end.
(* the face normal given by the vertex order: (v1 - v0) x (v3 - v0); and the same from v0, v1, v2 *)
Definition normal (f : face) : vec :=
  cross (vsub (zpt (fn1 f)) (zpt (fn0 f))) (vsub (zpt (fn3 f)) (zpt (fn0 f))).
Definition normal012 (f : face) : vec :=
  cross (vsub (zpt (fn1 f)) (zpt (fn0 f))) (vsub (zpt (fn2 f)) (zpt (fn0 f))).
