(* STL output (io/stl.py): STL.write_surface, ASCII_STL_Writer.add_face/_split/add_faces, BINARY_STL_Writer counter.
   Token-level model: a facet is a triple of points; number formatting ('%.4f', struct.pack) is outside the model.
   Definitions only. *)
From Coq Require Import List Arith ZArith Bool.
From SplipyModel Require Import Model.Num Model.BasisDef Model.Tensor Model.Obj Model.KnotInsert Model.Order.
Import ListNotations.

Section Model.
  Context {F : Type} `{Num F}.

  Definition stl_point : Type := list F.
  Definition stl_tri : Type := (stl_point * stl_point * stl_point)%type.
  Definition stl_grid : Type := list (list stl_point).      (* x[i][j], nu rows of nv points *)

  (* ---------- choice of the evaluation parameters in one direction ---------- *)
  (* np.linspace(a, b, n): arange(n)*step + a with step = (b-a)/(n-1); the last entry is overwritten with b when n > 1 *)
  Definition stl_linspace (a b : F) (n : nat) : list F :=
    let step := if (n <=? 1)%nat then n0 else ndiv (nsub b a) (nofnat (n - 1)) in
    map (fun i => if (1 <? n)%nat && (i =? n - 1)%nat then b else nadd a (nmul (nofnat i) step)) (seq 0 n).
  (* np.linspace(k0, k1, m, endpoint=False): k0 + i*(k1-k0)/m, i < m *)
  Definition stl_linspace_open (k0 k1 : F) (m : nat) : list F :=
    map (fun i => nadd k0 (nmul (nofnat i) (ndiv (nsub k1 k0) (nofnat m)))) (seq 0 m).
  (* zip(knots[:-1], knots[1:]) *)
  Definition stl_spans (kn : list F) : list (F * F) := combine kn (tl kn).

  (* p = order, kn = surface.knots(d) (distinct knots), a b = surface.start(d), surface.end(d), n = the user's count.
     2p-3 < 0 (order 1) makes np.linspace raise as soon as there is one span. *)
  Definition stl_params (p : nat) (kn : list F) (a b : F) (n : option nat) : res (list F) :=
    match n with
    | Some n' => Ok (stl_linspace a b n')
    | None =>
      if (p =? 2)%nat then Ok kn
      else if (2 * p <? 3)%nat && (2 <=? length kn)%nat then Err ValueError
      else Ok (sort_list (flat_map (fun k01 => stl_linspace_open (fst k01) (snd k01) (2 * p - 3)) (stl_spans kn) ++ kn))
    end.

  (* ---------- padding to three components ---------- *)
  Definition pad3 (p : stl_point) : stl_point := p ++ repeat n0 (3 - length p).
  (* x.shape[2] = dim; np.zeros with a negative extent raises ValueError *)
  Definition stl_pad (dim : nat) (x : stl_grid) : res stl_grid :=
    if (dim =? 3)%nat then Ok x else if (3 <? dim)%nat then Err ValueError else Ok (map (map pad3) x).

  (* ---------- quads and triangles ---------- *)
  Definition gpt (x : stl_grid) (i j : nat) : stl_point := nth j (nth i x []) [].
  Definition stl_quad (x : stl_grid) (i j : nat) : list stl_point :=
    [gpt x i j; gpt x i (j + 1); gpt x (i + 1) (j + 1); gpt x (i + 1) j].
  Definition stl_nu (x : stl_grid) : nat := length x.
  Definition stl_nv (x : stl_grid) : nat := length (hd [] x).
  Definition stl_quads (x : stl_grid) : list (list stl_point) :=
    flat_map (fun i => map (fun j => stl_quad x i j) (seq 0 (stl_nv x - 1))) (seq 0 (stl_nu x - 1)).

  (* ASCII_STL_Writer._split *)
  Definition stl_split (face : list stl_point) : list stl_tri :=
    match face with [p1; p2; p3; p4] => [(p1, p2, p3); (p3, p4, p1)] | _ => [] end.
  (* add_face: the triangles passed to _write, or ValueError *)
  Definition stl_add_face (face : list stl_point) : res (list stl_tri) :=
    match face with
    | [p1; p2; p3; p4] => Ok (stl_split face)
    | [p1; p2; p3] => Ok [(p1, p2, p3)]
    | _ => Err ValueError
    end.
  Fixpoint stl_add_faces (faces : list (list stl_point)) : res (list stl_tri) :=
    match faces with
    | [] => Ok []
    | f :: r =>
      match stl_add_face f with
      | Err e => Err e
      | Ok t => match stl_add_faces r with Err e => Err e | Ok ts => Ok (t ++ ts) end
      end
    end.

  (* all triangles of a grid in file order *)
  Definition stl_facets (x : stl_grid) : list stl_tri := flat_map stl_split (stl_quads x).

  Definition tri_verts (t : stl_tri) : list stl_point := let '(a, b, c) := t in [a; b; c].
  Definition tri_edges (t : stl_tri) : list (stl_point * stl_point) := let '(a, b, c) := t in [(a, b); (b, c); (c, a)].

  (* ---------- the two writers ---------- *)
  (* what a facet record holds: the first three components of each vertex *)
  Definition stl_vertex3 (p : stl_point) : list F := [nth 0 p n0; nth 1 p n0; nth 2 p n0].
  (* ASCII: 'facet normal 0 0 0' + three vertex lines *)
  Definition stl_ascii_facet (t : stl_tri) : list (list F) := [n0; n0; n0] :: map stl_vertex3 (tri_verts t).
  (* BINARY: 12 floats (normal, three vertices) and the attribute word *)
  Definition stl_binary_facet (t : stl_tri) : list F := [n0; n0; n0] ++ concat (map stl_vertex3 (tri_verts t)) ++ [n0].
  (* BINARY_STL_Writer: counter += 1 in every _write; close() writes it into the header *)
  Definition stl_binary_run (tris : list stl_tri) : nat * list (list F) :=
    fold_left (fun st t => (S (fst st), snd st ++ [stl_binary_facet t])) tris (0%nat, []).
  Definition stl_binary_count (tris : list stl_tri) : nat := fst (stl_binary_run tris).

  (* ---------- STL.write_surface ---------- *)
  Fixpoint res_all {A} (l : list (res A)) : res (list A) :=
    match l with
    | [] => Ok []
    | r :: l' => match r with Err e => Err e | Ok a => match res_all l' with Err e => Err e | Ok as' => Ok (a :: as') end end
    end.
  (* x = surface(u, v): the tensor grid of evaluations *)
  Definition stl_eval_grid (tol : F) (o : obj F) (us vs : list F) : res stl_grid :=
    res_all (map (fun u => res_all (map (fun v => obj_eval tol o [u; v]) vs)) us).

  Definition stl_dir_params (tol : F) (b : basis F) (n : option nat) : res (list F) :=
    stl_params (b_order b) (knot_spans tol b false) (b_start b) (b_end b) n.

  Definition stl_write_surface (tol : F) (o : obj F) (n : option (nat * nat)) : res (list stl_tri) :=
    let b0 := nth 0 (o_bases o) (mkBasis 0 [] 0) in
    let b1 := nth 1 (o_bases o) (mkBasis 0 [] 0) in
    do us <- stl_dir_params tol b0 (option_map fst n);
    do vs <- stl_dir_params tol b1 (option_map snd n);
    do x <- stl_eval_grid tol o us vs;
    do x3 <- stl_pad (o_dim o) x;
    stl_add_faces (stl_quads x3).
End Model.
