(* Tensor-product evaluation over a flat (row-major, numpy C-order) control net.
   Definitions only.  [teval dim rows cps]: rows = one row of basis-function values
   per parametric direction; cps = the control points (each a list of dim
   components) in C order. *)
From Coq Require Import List ZArith Bool Arith.
From SplipyModel Require Import Model.Num.
Import ListNotations.

Section Model.
  Context {F : Type} `{Num F}.

  Definition vzero (n : nat) : list F := repeat n0 n.
  Definition vadd (a b : list F) : list F := map (fun ab => nnorm (nadd (fst ab) (snd ab))) (combine a b).
  Definition vsub (a b : list F) : list F := map (fun ab => nsub (fst ab) (snd ab)) (combine a b).
  Definition vscale (c : F) (a : list F) : list F := map (nmul c) a.
  Definition vdot (a b : list F) : F := fold_right (fun ab acc => nadd (nmul (fst ab) (snd ab)) acc) n0 (combine a b).
  (* sum_i c_i * v_i *)
  Definition vlincomb (dim : nat) (cs : list F) (vs : list (list F)) : list F :=
    fold_right (fun cv acc => vadd (vscale (fst cv) (snd cv)) acc) (vzero dim) (combine cs vs).

  Definition chunk {A} (m i : nat) (l : list A) : list A := firstn m (skipn (i * m) l).

  Fixpoint teval (dim : nat) (rows : list (list F)) (cps : list (list F)) : list F :=
    match rows with
    | [] => nth 0 cps (vzero dim)
    | N :: rest =>
      let m := (length cps / length N)%nat in
      vlincomb dim N (map (fun i => teval dim rest (chunk m i cps)) (seq 0 (length N)))
    end.

  (* matrix (list of rows) times a list of vectors: (C v)_i = sum_j C_ij v_j *)
  Definition mat_apply (dim : nat) (C : list (list F)) (vs : list (list F)) : list (list F) :=
    map (fun row => vlincomb dim row vs) C.

  (* apply the matrix C (rows x n_d) along parametric direction d of a net with the given shape.
     Direction 0: the net splits into shape_0 chunks (each a flattened sub-net): combine chunks linearly.
     Direction S d: recurse into every chunk. *)
  Definition chunks_lincomb (m : nat) (row : list F) (chunks : list (list (list F))) (dim : nat) : list (list F) :=
    map (fun c => vlincomb dim row (map (fun ch => nth c ch (vzero dim)) chunks)) (seq 0 m).

  Fixpoint apply_dir (dim : nat) (shape : list nat) (d : nat) (C : list (list F)) (cps : list (list F)) : list (list F) :=
    match shape with
    | [] => cps
    | n :: rest =>
      let m := (length cps / n)%nat in
      let chunks := map (fun i => chunk m i cps) (seq 0 n) in
      match d with
      | O => concat (map (fun row => chunks_lincomb m row chunks dim) C)
      | S d' => concat (map (fun ch => apply_dir dim rest d' C ch) chunks)
      end
    end.

  (* generic re-indexing of a net: new net of shape [newshape], entry at multi-index idx taken from
     the old net (shape [oldshape]) at [f idx] *)
  Fixpoint ravel (shape idx : list nat) : nat :=
    match shape, idx with
    | _ :: srest, i :: irest => (i * fold_right Nat.mul 1 srest + ravel srest irest)%nat
    | _, _ => O
    end.
  Fixpoint unravel (shape : list nat) (flat : nat) : list nat :=
    match shape with
    | [] => []
    | _ :: srest => let sz := fold_right Nat.mul 1%nat srest in (flat / sz)%nat :: unravel srest (flat mod sz)%nat
    end.
  Definition reindex {A} (dflt : A) (oldshape newshape : list nat) (f : list nat -> list nat) (cps : list A) : list A :=
    map (fun flat => nth (ravel oldshape (f (unravel newshape flat))) cps dflt)
        (seq 0 (fold_right Nat.mul 1%nat newshape)).
End Model.
